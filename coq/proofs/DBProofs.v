(** Proofs about the Drummer DB model (DB.v): frame lemmas per command and the
    lemmas behind C03 C09 C10 C13 (view-related ones are in DBViewProofs.v). *)
From stdpp Require Import gmap list numbers.
From Drummer.Model Require Import DB.
Local Open Scope N_scope.
Arguments kv_update : simpl never.

(** * Generic: lifting one-step facts to runs *)
Lemma run_from_dead P cs : run_from P Dead cs = Dead.
Proof. induction cs as [|c cs IH]; [done|]. unfold run_from in *. cbn. exact IH. Qed.

Lemma run_from_cons P s c cs : run_from P s (c :: cs) = run_from P (rstep P s c).1 cs.
Proof. reflexivity. Qed.

Lemma run_from_app P s cs1 cs2 : run_from P s (cs1 ++ cs2) = run_from P (run_from P s cs1) cs2.
Proof. unfold run_from. apply foldl_app. Qed.

(* next live state of a live state, if any *)
Definition next (P : params) (d : db) (c : cmd) : option db :=
  match db_step P d c with SOk d' _ => Some d' | SPanic d' => Some d' | SDead => None end.

Lemma rstep_live P d c : (rstep P (Live d) c).1 = match next P d c with Some d' => Live d' | None => Dead end.
Proof. unfold rstep, next. destruct (db_step P d c); reflexivity. Qed.

(* an invariant-style induction principle: a relation between the start state and
   every later live state that is reflexive, transitive and holds for single steps *)
Lemma run_live_ind P (R : db -> db -> Prop) :
  (forall d, R d d) -> (forall a b c, R a b -> R b c -> R a c) ->
  (forall d c d', next P d c = Some d' -> R d d') ->
  forall cs d d', run_from P (Live d) cs = Live d' -> R d d'.
Proof.
  intros Hr Ht Hs cs. induction cs as [|c cs IH]; intros d d' Hrun.
  - cbn in Hrun. injection Hrun as ->. apply Hr.
  - rewrite run_from_cons, rstep_live in Hrun.
    destruct (next P d c) as [d1|] eqn:E.
    + eapply Ht; [eapply Hs; exact E | apply IH; exact Hrun].
    + rewrite run_from_dead in Hrun. discriminate.
Qed.

(** * The failed latch *)
Lemma step_failed P d c : d_failed d = true -> db_step P d c = SPanic d.
Proof. intros H. unfold db_step. rewrite H. reflexivity. Qed.

(** * kv_update *)
Lemma kv_update_spec d kv d' v :
  kv_update d kv = Some (d', v) ->
  kv_key kv <> 0 /\ kv_val kv <> 0 /\
  match d_kv d !! kv_key kv with
  | None => v = 0 /\ d' = set_kv d (<[kv_key kv := kv]> (d_kv d))
  | Some old =>
    if kv_fin old then v = 1 /\ d' = d
    else if (kv_inst old =? kv_inst kv) || (kv_inst old =? kv_old kv)
         then v = 0 /\ d' = set_kv d (<[kv_key kv := kv]> (d_kv d))
         else v = 2 /\ d' = d
  end.
Proof.
  unfold kv_update. intros H.
  destruct (kv_key kv =? 0) eqn:E1; [discriminate|].
  destruct (kv_val kv =? 0) eqn:E2; [discriminate|]. cbn in H.
  apply N.eqb_neq in E1. apply N.eqb_neq in E2. split; [done|]. split; [done|].
  destruct (d_kv d !! kv_key kv) as [old|]; [|by injection H as <- <-].
  destruct (kv_fin old); [by injection H as <- <-|].
  destruct ((kv_inst old =? kv_inst kv) || (kv_inst old =? kv_old kv)); by injection H as <- <-.
Qed.

Lemma kv_update_frame d kv d' v :
  kv_update d kv = Some (d', v) ->
  d_tick d' = d_tick d /\ d_deadline d' = d_deadline d /\ d_failed d' = d_failed d /\
  d_shards d' = d_shards d /\ d_view d' = d_view d /\ d_kill d' = d_kill d /\ d_hosts d' = d_hosts d /\
  d_info d' = d_info d /\ d_requests d' = d_requests d /\ d_outgoing d' = d_outgoing d.
Proof.
  intros H. apply kv_update_spec in H as (_ & _ & H).
  destruct (d_kv d !! kv_key kv) as [old|].
  - destruct (kv_fin old); [destruct H as [_ ->]; done|].
    destruct ((kv_inst old =? kv_inst kv) || (kv_inst old =? kv_old kv)); destruct H as [_ ->]; done.
  - destruct H as [_ ->]; done.
Qed.

(** how the KV map can change in one step *)
Definition launched_rec : kvrec := mkKVR key_launched val_true 0 0 0 true.

Lemma step_kv P d c d' :
  next P d c = Some d' ->
  d_kv d' = d_kv d \/
  (exists kv, c = CKV kv /\ d_kv d' = <[kv_key kv := kv]> (d_kv d) /\ kv_key kv <> 0 /\ kv_val kv <> 0 /\
     (d_kv d !! kv_key kv = None \/
      exists old, d_kv d !! kv_key kv = Some old /\ kv_fin old = false /\
                  (kv_inst old = kv_inst kv \/ kv_inst old = kv_old kv))) \/
  (exists qs, c = CRequests qs /\ d_kv d !! key_launched = None /\
     d_kv d' = <[key_launched := launched_rec]> (d_kv d)).
Proof.
  unfold next, db_step. destruct (d_failed d) eqn:Hf; [cbn; intros [= <-]; by left|].
  destruct c as [|kv|t sd|r|qs|].
  - unfold apply_tick. destruct (_ && _); cbn; intros [= <-]; by left.
  - destruct (kv_update d kv) as [[d1 v]|] eqn:E; [|done]. intros [= <-].
    apply kv_update_spec in E as (Hk & Hv & E).
    destruct (d_kv d !! kv_key kv) as [old|] eqn:El.
    + destruct (kv_fin old) eqn:Efin; [destruct E as [_ ->]; by left|].
      destruct ((kv_inst old =? kv_inst kv) || (kv_inst old =? kv_old kv)) eqn:Ec; destruct E as [_ ->]; [|by left].
      right; left. exists kv. repeat split; try done. right. exists old. repeat split; try done.
      apply orb_true_iff in Ec as [Ec|Ec]; apply N.eqb_eq in Ec; auto.
    + destruct E as [_ ->]. right; left. exists kv. repeat split; try done. by left.
  - unfold try_create_shard.
    destruct (negb (t =? 0)); [done|]. destruct (bool_decide (sd_members sd = [])); [done|].
    destruct (sd_app sd =? 0); [done|]. destruct (is_bootstrapped d); [intros [= <-]; by left|].
    destruct (d_shards d !! sd_id sd); intros [= <-]; by left.
  - unfold apply_report. destruct (view_update _ _ _ _) as [[view' kill']|]; [|done]. intros [= <-]. left.
    unfold report_result, on_updated_shard_info, pickup. cbn.
    repeat (match goal with |- context [if ?b then _ else _] => destruct b end ||
            match goal with |- context [match ?x with Some _ => _ | None => _ end] => destruct x end); reflexivity.
  - unfold apply_requests.
    destruct (bool_decide _ && negb _); [done|].
    destruct (is_launched d) eqn:Hl.
    + destruct (bool_decide (0 < _)%nat); cbn; [intros [= <-]; by left|intros [= <-]; by left].
    + rewrite andb_false_l. destruct (bool_decide (0 < _)%nat); [|intros [= <-]; by left].
      destruct (kv_update _ _) as [[d2 v]|] eqn:E; [|done].
      destruct v; [|done]. intros [= <-].
      apply kv_update_spec in E as (_ & _ & E). cbn in E.
      unfold is_launched in Hl. apply bool_decide_eq_false in Hl.
      destruct (d_kv d !! key_launched) as [old|] eqn:El; [exfalso; apply Hl; by eexists|].
      destruct E as [_ ->]. right; right. exists qs. split; [done|]. split; done.
  - done.
Qed.

(** * Case analysis of one step: the exact successor state per command *)
Definition tick_result (P : params) (d : db) : db :=
  let d1 := set_tick d (d_tick d + p_step P) in
  if (0 <? d_deadline d1) && (d_deadline d1 <? d_tick d1) then set_failed d1 true else d1.

Definition launch_count (qs : list request) : nat := length (filter (λ q, is_launch_req q = true) qs).
Definition is_launch_batch (qs : list request) : Prop := (0 < launch_count qs)%nat.
Definition mixed_batch (qs : list request) : Prop := (0 < launch_count qs)%nat /\ launch_count qs <> length qs.

Definition launch_result (P : params) (d : db) (qs : list request) : db :=
  set_deadline (set_kv (set_requests d (put_requests (d_requests d) qs)) (<[key_launched := launched_rec]> (d_kv d)))
               (d_tick d + p_ldt P * p_step P).

Lemma requests_cases P d qs :
  (mixed_batch qs /\ apply_requests P d qs = SDead) \/
  (~ mixed_batch qs /\
   ((is_launch_batch qs /\ is_launched d = true /\ apply_requests P d qs = SOk d 0) \/
    (is_launch_batch qs /\ d_kv d !! key_launched = None /\
       apply_requests P d qs = SOk (launch_result P d qs) (N.of_nat (length qs))) \/
    (~ is_launch_batch qs /\
       apply_requests P d qs = SOk (set_requests d (put_requests (d_requests d) qs)) (N.of_nat (length qs))))).
Proof.
  unfold apply_requests, mixed_batch, is_launch_batch, launch_count.
  set (n := length (filter _ qs)).
  destruct (bool_decide (0 < n)%nat) eqn:E1.
  - apply bool_decide_eq_true in E1.
    destruct (bool_decide (n = length qs)) eqn:E2.
    + apply bool_decide_eq_true in E2. right. split; [intros [_ H]; done|]. cbn [negb andb].
      destruct (is_launched d) eqn:Hl; cbn [andb].
      * left. done.
      * right; left. split; [done|].
        unfold is_launched in Hl. apply bool_decide_eq_false in Hl.
        destruct (d_kv d !! key_launched) as [old|] eqn:El; [exfalso; apply Hl; by eexists|]. split; [done|].
        unfold kv_update. cbn. rewrite El. reflexivity.
    + apply bool_decide_eq_false in E2. left. split; [done|]. reflexivity.
  - apply bool_decide_eq_false in E1. right. split; [intros [H _]; done|]. right; right. split; [done|].
    cbn [andb]. rewrite andb_false_r. reflexivity.
Qed.

Lemma next_cases P d c d' :
  next P d c = Some d' ->
  (d_failed d = true /\ d' = d) \/
  (d_failed d = false /\
   match c with
   | CTick => d' = tick_result P d
   | CKV kv => exists v, kv_update d kv = Some (d', v)
   | CShard t sd => exists v, try_create_shard d t sd = Some (d', v)
   | CReport r0 => exists view' kill',
       view_update (d_view d) (d_kill d) (stamp d r0) (d_tick d) = Some (view', kill') /\
       d' = report_result d (stamp d r0) view' kill'
   | CRequests qs => exists v, apply_requests P d qs = SOk d' v
   | CUnknown => False
   end).
Proof.
  unfold next, db_step. destruct (d_failed d) eqn:Hf; [intros [= <-]; by left|].
  intros H. right. split; [done|]. destruct c as [|kv|t sd|r|qs|].
  - unfold apply_tick, tick_result in *. destruct (_ && _); by injection H as <-.
  - destruct (kv_update d kv) as [[d1 v]|]; [|done]. injection H as <-. by exists v.
  - destruct (try_create_shard d t sd) as [[d1 v]|]; [|done]. injection H as <-. by exists v.
  - unfold apply_report in H. destruct (view_update _ _ _ _) as [[view' kill']|]; [|done].
    injection H as <-. by exists view', kill'.
  - destruct (requests_cases P d qs) as [[_ E]|[_ [(_ & _ & E)|[(_ & _ & E)|(_ & E)]]]]; rewrite E in *;
      try done; injection H as <-; by eexists.
  - done.
Qed.

(** * C13 — finalized write-once, CAS, bootstrap gate *)
Lemma step_finalized P d c d' k r :
  next P d c = Some d' -> d_kv d !! k = Some r -> kv_fin r = true -> d_kv d' !! k = Some r.
Proof.
  intros Hn Hk Hfin. apply step_kv in Hn as [->|[(kv & -> & -> & _ & _ & Hc)|(qs & -> & Hnone & ->)]]; [done| |].
  - destruct (decide (kv_key kv = k)) as [E|Hne]; [|by rewrite lookup_insert_ne].
    rewrite E in Hc. destruct Hc as [Hc|(old & Ho & Hnf & _)]; congruence.
  - destruct (decide (key_launched = k)) as [<-|Hne]; [congruence|by rewrite lookup_insert_ne].
Qed.

Lemma run_finalized P cs d d' k r :
  run_from P (Live d) cs = Live d' -> d_kv d !! k = Some r -> kv_fin r = true -> d_kv d' !! k = Some r.
Proof.
  intros Hrun. revert k r.
  apply (run_live_ind P (λ a b, forall k r, d_kv a !! k = Some r -> kv_fin r = true -> d_kv b !! k = Some r)) with (cs := cs); auto.
  intros a c b Hs. intros k r. apply (step_finalized P a c b k r Hs).
Qed.

Lemma step_present P d c d' k : next P d c = Some d' -> is_Some (d_kv d !! k) -> is_Some (d_kv d' !! k).
Proof.
  intros Hn [r Hk]. apply step_kv in Hn as [->|[(kv & -> & -> & _)|(qs & -> & _ & ->)]]; [by eexists| |].
  - destruct (decide (kv_key kv = k)) as [E|Hne]; [rewrite E, lookup_insert|rewrite lookup_insert_ne]; by eauto.
  - destruct (decide (key_launched = k)) as [<-|Hne]; [rewrite lookup_insert|rewrite lookup_insert_ne]; by eauto.
Qed.

Lemma run_present P cs d d' k :
  run_from P (Live d) cs = Live d' -> is_Some (d_kv d !! k) -> is_Some (d_kv d' !! k).
Proof.
  intros Hrun. apply (run_live_ind P (λ a b, is_Some (d_kv a !! k) -> is_Some (d_kv b !! k))) with (cs := cs); auto.
  intros a c b Hs. apply (step_present P a c b k Hs).
Qed.

(* a non-finalized record changes exactly under the CAS rule *)
Lemma step_cas_exact P d c d' k old :
  next P d c = Some d' -> d_kv d !! k = Some old -> kv_fin old = false ->
  (d_kv d' !! k = Some old) \/
  (exists kv, c = CKV kv /\ kv_key kv = k /\ (kv_inst old = kv_inst kv \/ kv_inst old = kv_old kv) /\ d_kv d' !! k = Some kv).
Proof.
  intros Hn Hk Hnf. apply step_kv in Hn as [->|[(kv & -> & -> & _ & _ & Hc)|(qs & -> & Hnone & ->)]]; [by left| |].
  - destruct (decide (kv_key kv = k)) as [E|Hne]; [|left; by rewrite lookup_insert_ne].
    right. exists kv. split; [done|]. split; [done|]. subst k. rewrite lookup_insert.
    destruct Hc as [Hc|(old' & Ho & _ & Hc)]; [congruence|]. split; [|done]. congruence.
  - left. destruct (decide (key_launched = k)) as [<-|Hne]; [congruence|by rewrite lookup_insert_ne].
Qed.

(* result codes of a KV command *)
Lemma kv_codes P d kv :
  d_failed d = false -> kv_key kv <> 0 -> kv_val kv <> 0 ->
  match d_kv d !! kv_key kv with
  | None => db_step P d (CKV kv) = SOk (set_kv d (<[kv_key kv := kv]> (d_kv d))) 0
  | Some old =>
    if kv_fin old then db_step P d (CKV kv) = SOk d 1
    else if (kv_inst old =? kv_inst kv) || (kv_inst old =? kv_old kv)
         then db_step P d (CKV kv) = SOk (set_kv d (<[kv_key kv := kv]> (d_kv d))) 0
         else db_step P d (CKV kv) = SOk d 2
  end.
Proof.
  intros Hf Hk Hv. unfold db_step. rewrite Hf. unfold kv_update.
  apply N.eqb_neq in Hk. apply N.eqb_neq in Hv. rewrite Hk, Hv. cbn [orb].
  destruct (d_kv d !! kv_key kv) as [old|]; [|done].
  destruct (kv_fin old); [done|]. destruct (_ || _); done.
Qed.

(* shard definitions *)
Lemma try_create_shard_spec d t sd d' v :
  try_create_shard d t sd = Some (d', v) ->
  t = 0 /\ sd_members sd <> [] /\ sd_app sd <> 0 /\
  ((is_bootstrapped d = true /\ v = 2 /\ d' = d) \/
   (is_bootstrapped d = false /\ is_Some (d_shards d !! sd_id sd) /\ v = 1 /\ d' = d) \/
   (is_bootstrapped d = false /\ d_shards d !! sd_id sd = None /\ v = 0 /\
      d' = set_shards d (<[sd_id sd := sd]> (d_shards d)))).
Proof.
  unfold try_create_shard.
  destruct (t =? 0) eqn:Et; [|done]. apply N.eqb_eq in Et. cbn [negb].
  destruct (bool_decide (sd_members sd = [])) eqn:Em; [done|]. apply bool_decide_eq_false in Em.
  destruct (sd_app sd =? 0) eqn:Ea; [done|]. apply N.eqb_neq in Ea.
  destruct (is_bootstrapped d); [intros [= <- <-]; repeat split; auto|].
  destruct (d_shards d !! sd_id sd) eqn:El; intros [= <- <-]; repeat split; auto.
  - right; left. repeat split; auto.
  - right; right. repeat split; auto.
Qed.

Lemma step_shards P d c d' :
  next P d c = Some d' ->
  d_shards d' = d_shards d \/
  (exists sd, c = CShard 0 sd /\ is_bootstrapped d = false /\ d_shards d !! sd_id sd = None /\
              sd_members sd <> [] /\ sd_app sd <> 0 /\ d_shards d' = <[sd_id sd := sd]> (d_shards d)).
Proof.
  intros Hn. apply next_cases in Hn as [[_ ->]|[Hf Hc]]; [by left|].
  destruct c as [|kv|t sd|r|qs|].
  - subst d'. left. unfold tick_result. destruct (_ && _); reflexivity.
  - destruct Hc as [v Hc]. apply kv_update_frame in Hc. left. tauto.
  - destruct Hc as [v Hc]. apply try_create_shard_spec in Hc as (-> & Hm & Ha & [(_ & _ & ->)|[(_ & _ & _ & ->)|(Hb & Hn & _ & ->)]]);
      [by left|by left|]. right. exists sd. repeat split; auto.
  - destruct Hc as (view' & kill' & _ & ->). left.
    unfold report_result, on_updated_shard_info, pickup. cbn.
    repeat (match goal with |- context [if ?b then _ else _] => destruct b end ||
            match goal with |- context [match ?x with Some _ => _ | None => _ end] => destruct x end); reflexivity.
  - destruct Hc as [v Hc]. left.
    destruct (requests_cases P d qs) as [[_ E]|[_ [(_ & _ & E)|[(_ & _ & E)|(_ & E)]]]]; rewrite E in Hc; try done;
      injection Hc as <- _; reflexivity.
  - done.
Qed.

Lemma step_shard_kept P d c d' s sd :
  next P d c = Some d' -> d_shards d !! s = Some sd -> d_shards d' !! s = Some sd.
Proof.
  intros Hn Hs. apply step_shards in Hn as [->|(sd' & _ & _ & Hnone & _ & _ & ->)]; [done|].
  destruct (decide (sd_id sd' = s)) as [<-|Hne]; [congruence|by rewrite lookup_insert_ne].
Qed.

Lemma run_shard_kept P cs d d' s sd :
  run_from P (Live d) cs = Live d' -> d_shards d !! s = Some sd -> d_shards d' !! s = Some sd.
Proof.
  intros Hrun. apply (run_live_ind P (λ a b, d_shards a !! s = Some sd -> d_shards b !! s = Some sd)) with (cs := cs); auto.
  intros a c b Hs. apply (step_shard_kept P a c b s sd Hs).
Qed.

(* after bootstrap the set of shard definitions is frozen *)
Lemma step_bootstrapped_frozen P d c d' :
  next P d c = Some d' -> is_bootstrapped d = true -> d_shards d' = d_shards d /\ is_bootstrapped d' = true.
Proof.
  intros Hn Hb. split.
  - apply step_shards in Hn as [->|(sd' & _ & Hnb & _)]; [done|congruence].
  - unfold is_bootstrapped in *. apply bool_decide_eq_true in Hb. apply bool_decide_eq_true.
    eapply step_present; eauto.
Qed.

Lemma run_bootstrapped_frozen P cs d d' :
  run_from P (Live d) cs = Live d' -> is_bootstrapped d = true -> d_shards d' = d_shards d /\ is_bootstrapped d' = true.
Proof.
  intros Hrun. apply (run_live_ind P (λ a b, is_bootstrapped a = true -> d_shards b = d_shards a /\ is_bootstrapped b = true)) with (cs := cs); auto.
  - intros a b c Hab Hbc Ha. destruct (Hab Ha) as [E1 Hb]. destruct (Hbc Hb) as [E2 Hc]. split; congruence.
  - intros a c b Hs. apply (step_bootstrapped_frozen P a c b Hs).
Qed.

Lemma first_writer_wins P d kv cs d'' :
  d_failed d = false -> kv_key kv <> 0 -> kv_val kv <> 0 -> kv_fin kv = true ->
  d_kv d !! kv_key kv = None ->
  run_from P (Live d) (CKV kv :: cs) = Live d'' -> d_kv d'' !! kv_key kv = Some kv.
Proof.
  intros Hf Hk Hv Hfin Hnone Hrun. rewrite run_from_cons in Hrun. unfold rstep in Hrun.
  pose proof (kv_codes P d kv Hf Hk Hv) as Hc. rewrite Hnone in Hc. rewrite Hc in Hrun. cbn [fst] in Hrun.
  eapply run_finalized; [exact Hrun| |exact Hfin]. cbn. apply lookup_insert.
Qed.
