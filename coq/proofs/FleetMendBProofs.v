(** FleetMendBProofs: the stage "ADD / DELETE request with a CURRENT fence in a mailbox" of the membership-change
    pipeline - the round in which a membership change is applied.

    Part 1 (execution level): the NodeHost agent executing a queue in which such requests sit.  The membership
    history changes in the middle of the execution; [bexec_one] / [bexec_all] generalise the execution lemmas of
    FleetMendProofs.v to "the history changes only by appending one entry, for the shard of the executed request":
    the host-side class [HMend] holds relative to the NEW history, the requests still pending keep their
    classification relative to it, the replica that proposed the change knows the new version. *)
From stdpp Require Import gmap list numbers sorting.
From Coq Require Import ZifyN ZifyNat ZifyBool Lia.
From Drummer.Model Require Import DB Sched Fleet FleetRun MailboxSpec FleetRounds.
From Drummer.Proofs Require Import DBProofs DBViewProofs DBTimeProofs SchedProofs SchedTotal MailboxProofs FleetProofs FleetLiveProofs FleetHealProofs FleetMendProofs FleetMendAProofs.
Local Open Scope N_scope.
Notation hist_of := Fleet.hist_of.

(** * requests with a current fence *)
(* [B]: the requests pending anywhere (address, request).  A LIVE change request q, waiting for NodeHost a: its fence
   is the current membership version of its shard; no CREATE (restore / join) request for the shard is pending
   anywhere; an ADD names a NodeHost that exists, carries no data of the shard and is not the address of a member,
   and a replica id without data anywhere; a DELETE is not proposed on the NodeHost of the member it removes *)
Definition lchange (B : N → request → Prop) (hosts : gmap N fhost) (hist : gmap N (list hentry)) (a : N) (q : request) : Prop :=
  is_change q = true ∧ q_ccid q = cur_version (hist_of hist (q_shard q)) ∧
  (∀ a' q', B a' q' → is_create q' = true → q_shard q' ≠ q_shard q) ∧
  (is_add q = true → ∃ x t, q_members q = [x] ∧ q_addrs q = [t] ∧ x ≠ 0 ∧ t ≠ 0 ∧ is_Some (hosts !! t) ∧
      (∀ r', cur_members (hist_of hist (q_shard q)) !! r' ≠ Some t) ∧
      (∀ fh rid, hosts !! t = Some fh → fh_reps fh !! (q_shard q, rid) = None) ∧
      (∀ a' fh, hosts !! a' = Some fh → fh_reps fh !! (q_shard q, x) = None)) ∧
  (is_delete q = true → ∃ y, q_members q = [y] ∧ y ≠ 0 ∧ q_shard q ≠ 0 ∧ cur_members (hist_of hist (q_shard q)) !! y ≠ Some a).

(* what the invariant knows about every pending request beyond [mharmless]: the fence of a change request is the
   version of an entry of the history; the id of a KILL request has been used *)
Definition qextra (hist : gmap N (list hentry)) (q : request) : Prop :=
  (is_change q = true → q_ccid q ≤ cur_version (hist_of hist (q_shard q))) ∧
  (is_kill q = true → ∃ y, q_members q = [y] ∧ used_in (hist_of hist (q_shard q)) y = true).

Definition bq (B : N → request → Prop) (hosts : gmap N fhost) (hist : gmap N (list hentry)) (a : N) (q : request) : Prop :=
  (mharmless hist a q ∧ qextra hist q) ∨ lchange B hosts hist a q.

(* the classification of a request depends on the history of its shard only *)
Lemma mharmless_frame hist hist' a q :
  hist' !! q_shard q = hist !! q_shard q → mharmless hist a q → mharmless hist' a q.
Proof.
  intros He. assert (Hof : hist_of hist' (q_shard q) = hist_of hist (q_shard q)) by (unfold hist_of; by rewrite He).
  intros [[Hg|[(Hch & Hf & Hm)|(Hk & y & Hy & Hd)]]|[(Hcr & Hj & Hre & h & Hh & Hm)|(Hres & Hj & h & Hh & Hrest)]].
  - left; left. destruct Hg as (H1 & H2 & h & b & Hh & Hm). split; [done|]. split; [done|]. exists h, b. by rewrite He.
  - left; right; left. split; [done|]. by rewrite Hof.
  - left; right; right. split; [done|]. exists y. split; [done|]. intros h Hh. apply Hd. by rewrite <- He.
  - right; left. split; [done|]. split; [done|]. split; [done|]. exists h. by rewrite He.
  - right; right. split; [done|]. split; [done|]. exists h. by rewrite He.
Qed.

Lemma qextra_frame hist hist' q : hist' !! q_shard q = hist !! q_shard q → qextra hist q → qextra hist' q.
Proof. intros He. unfold qextra, hist_of. by rewrite He. Qed.

Lemma lchange_frame B hosts hosts' hist hist' a q :
  hist' !! q_shard q = hist !! q_shard q →
  (∀ a0, is_Some (hosts !! a0) → is_Some (hosts' !! a0)) →
  (∀ a0 fh' k, hosts' !! a0 = Some fh' → is_Some (fh_reps fh' !! k) → k.1 = q_shard q →
     ∃ fh, hosts !! a0 = Some fh ∧ is_Some (fh_reps fh !! k)) →
  lchange B hosts hist a q → lchange B hosts' hist' a q.
Proof.
  intros He Hdom Hkeys (Hch & Hf & HB & Hadd & Hdel).
  assert (Hof : hist_of hist' (q_shard q) = hist_of hist (q_shard q)) by (unfold hist_of; by rewrite He).
  split; [done|]. split; [by rewrite Hof|]. split; [done|]. split.
  - intros Ha. destruct (Hadd Ha) as (x & t & H1 & H2 & H3 & H4 & H5 & H6 & H7 & H8).
    exists x, t. split; [done|]. split; [done|]. split; [done|]. split; [done|]. split; [by apply Hdom|].
    split; [by rewrite Hof|]. split.
    + intros fh' rid Hfh'. destruct (fh_reps fh' !! (q_shard q, rid)) as [lr|] eqn:Ek; [|done]. exfalso.
      destruct (Hkeys t fh' (q_shard q, rid) Hfh') as (fh & Hfh & [lr0 Hk0]); [by eexists|done|]. by rewrite (H7 fh rid Hfh) in Hk0.
    + intros a' fh' Hfh'. destruct (fh_reps fh' !! (q_shard q, x)) as [lr|] eqn:Ek; [|done]. exfalso.
      destruct (Hkeys a' fh' (q_shard q, x) Hfh') as (fh & Hfh & [lr0 Hk0]); [by eexists|done|]. by rewrite (H8 a' fh Hfh) in Hk0.
  - intros Hd. destruct (Hdel Hd) as (y & H1 & H2 & H3 & H4). exists y. by rewrite Hof.
Qed.

(** * where exec_req puts data: no NodeHost appears or disappears; a new key is the target of a CREATE request *)
Lemma set_reps_lookup hosts h reps a :
  set_reps hosts h reps !! a =
  match hosts !! h with
  | Some fh => if decide (a = h) then Some (mkFHost (fh_up fh) (fh_region fh) reps (fh_queue fh) (fh_out fh)) else hosts !! a
  | None => hosts !! a
  end.
Proof.
  unfold set_reps. destruct (hosts !! h) as [fh|] eqn:E; [|done].
  destruct (decide (a = h)) as [->|Hne]; [by rewrite lookup_insert|by rewrite lookup_insert_ne].
Qed.

Lemma exec_req_keys h ccok x q x' :
  exec_req h ccok x q = Some x' →
  (∀ a, is_Some (x'.1 !! a) ↔ is_Some (x.1 !! a)) ∧
  (∀ a fh' k, x'.1 !! a = Some fh' → is_Some (fh_reps fh' !! k) →
     (∃ fh, x.1 !! a = Some fh ∧ is_Some (fh_reps fh !! k)) ∨ (is_create q = true ∧ k = (q_shard q, q_inst q))).
Proof.
  assert (Hsame : (∀ a, is_Some (x.1 !! a) ↔ is_Some (x.1 !! a)) ∧
     (∀ a fh' k, x.1 !! a = Some fh' → is_Some (fh_reps fh' !! k) →
        (∃ fh, x.1 !! a = Some fh ∧ is_Some (fh_reps fh !! k)) ∨ (is_create q = true ∧ k = (q_shard q, q_inst q)))).
  { split; [done|]. intros a fh' k Ha Hk. left. by exists fh'. }
  assert (Hset : ∀ fh reps' (hist' : gmap N (list hentry)), x.1 !! h = Some fh →
     (∀ k, is_Some (reps' !! k) → is_Some (fh_reps fh !! k) ∨ (is_create q = true ∧ k = (q_shard q, q_inst q))) →
     (∀ a, is_Some ((set_reps x.1 h reps', hist').1 !! a) ↔ is_Some (x.1 !! a)) ∧
     (∀ a fh' k, (set_reps x.1 h reps', hist').1 !! a = Some fh' → is_Some (fh_reps fh' !! k) →
        (∃ fh0, x.1 !! a = Some fh0 ∧ is_Some (fh_reps fh0 !! k)) ∨ (is_create q = true ∧ k = (q_shard q, q_inst q)))).
  { intros fh reps' hist' Hfh Hr. cbn [fst]. split.
    - intros a. rewrite set_reps_lookup, Hfh. destruct (decide (a = h)) as [->|Hne]; [|done]. rewrite Hfh. split; intros _; by eexists.
    - intros a fh' k. rewrite set_reps_lookup, Hfh. destruct (decide (a = h)) as [->|Hne].
      + intros [= <-] Hk. cbn [fh_reps] in Hk. destruct (Hr k Hk) as [?|?]; [left; by exists fh|by right].
      + intros Ha Hk. left. by exists fh'. }
  unfold exec_req. destruct (x.1 !! h) as [fh|] eqn:Hfh; [|intros [= <-]; exact Hsame].
  assert (Hins : ∀ lr0 k0, is_create q = true → k0 = (q_shard q, q_inst q) →
            ∀ k, is_Some (<[k0 := lr0]> (fh_reps fh) !! k) → is_Some (fh_reps fh !! k) ∨ (is_create q = true ∧ k = (q_shard q, q_inst q))).
  { intros lr0 k0 Hc -> k Hk. destruct (decide (k = (q_shard q, q_inst q))) as [->|Hne]; [by right|]. rewrite lookup_insert_ne in Hk by done. by left. }
  assert (Hll : ∀ s M v k, is_Some (learn_local (fh_reps fh) s M v !! k) → is_Some (fh_reps fh !! k)).
  { intros s M v k [lr' Hk]. apply learn_local_lookup in Hk as (lr & Hk & _). by eexists. }
  destruct (q_type q) eqn:Ety.
  - assert (Hc : is_create q = true) by (unfold is_create; by rewrite Ety).
    destruct (q_join q), (q_restore q); try done.
    + destruct (fh_reps fh !! (q_shard q, q_inst q)) as [lr|] eqn:Ek; intros [= <-].
      * unfold start_existing. destruct (_ || _); [exact Hsame|]. apply (Hset fh); [done|]. by apply Hins.
      * destruct (busy _ _); [exact Hsame|]. apply (Hset fh); [done|]. by apply Hins.
    + destruct (fh_reps fh !! (q_shard q, q_inst q)) as [lr|] eqn:Ek; intros [= <-]; [|exact Hsame].
      unfold start_existing. destruct (_ || _); [exact Hsame|]. apply (Hset fh); [done|]. by apply Hins.
    + destruct (fh_reps fh !! (q_shard q, q_inst q)) as [lr|] eqn:Ek; [done|]. intros [= <-].
      destruct (busy _ _); [exact Hsame|]. apply (Hset fh); [done|]. by apply Hins.
  - destruct (q_members q) as [|rid ms]; [done|]. intros [= <-].
    destruct (hist_of x.2 (q_shard q)) as [|e hs]; [exact Hsame|]. destruct (_ && _); [|exact Hsame].
    apply (Hset fh); [done|]. intros k [lr Hk]. left. apply lookup_delete_Some in Hk as [_ Hk]. eapply Hll. by eexists.
  - destruct (q_members q) as [|rid ms]; [done|]. destruct (q_addrs q) as [|t ts]; [done|]. intros [= <-].
    destruct (hist_of x.2 (q_shard q)) as [|e hs]; [exact Hsame|]. destruct (_ && _); [|exact Hsame].
    apply (Hset fh); [done|]. intros k Hk. left. by eapply Hll.
  - destruct (q_members q) as [|rid ms]; [done|]. intros [= <-].
    destruct (fh_reps fh !! (q_shard q, rid)) as [lr|] eqn:Ek; [|exact Hsame]. destruct (lr_running lr); [|exact Hsame].
    apply (Hset fh); [done|]. intros k [lr0 Hk]. left. apply lookup_delete_Some in Hk as [_ Hk]. by eexists.
Qed.
