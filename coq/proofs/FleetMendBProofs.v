(** FleetMendBProofs: the stage "ADD / DELETE request with a CURRENT fence pending" of the membership-change
    pipeline - the round in which a membership change is applied.

    Part 1 (execution level): the NodeHost agent executing a queue in which such requests sit.  The membership
    history changes in the middle of the execution; [bexec_one] generalises the execution lemmas of
    FleetMendProofs.v to "the history changes only by appending ONE entry, for the shard of the executed request":
    the host-side class [HMend] holds afterwards relative to the NEW history, every pending request keeps a
    classification relative to it ([bq]: a harmless leftover / a request for a current member, or a live change
    request), the replica that proposed the change knows the new version.  Generic facts about [exec_req]:
    [exec_req_keys] (new data is the target of a CREATE), [exec_req_started], [exec_req_keep] (a running replica
    of a shard whose history does not change is touched by its own KILL only), [exec_req_hist] (histories grow).
    Part 2: the class of fleet states [MendP Bx] (FleetMendAProofs.MendA without the invariant, with live change
    requests among the pending requests Bx), closed under the execution of one request ([mp_exec_req]) and of a
    queue ([mp_exec_all]).
    Part 3: [MendB] (round boundary) / [MendX] (mid-round) are closed under every event of a healthy round:
    [mendb_report(s)], [mendx_exec(s)], [mendx_learn(s)], [mendx_tick(s)]; the scheduling step is analysed through
    the state "as Drummer sees it" ([fict]: the Drummer DB does not change while the NodeHosts execute, so the
    allowed outcomes are those of a Mend state, FleetMendProofs.mend_allowed; their requests are then re-classified
    against the real history, which may be one entry ahead: [mendx_schedule]).
    Theorems: [mendb_round] (one healthy round from MendB: MendB again, every pending request harmless),
    [mendb_inert_round] (the next one: Mend), [mendb_heal] (detect_rounds + 6), [menda_mendb] (MendA ⊆ MendB),
    [mendb_restb_sound] (the decidable part).
    Not covered: live requests for a shard with a pending CREATE request or with a waiting joiner, an ADD onto a
    NodeHost that holds data of the shard, members without data (the scheduler then answers with ADD / DELETE itself:
    that is where C01_no_error_round and the fresh-id hypothesis come in). *)
From stdpp Require Import gmap list numbers sorting.
From Coq Require Import ZifyN ZifyNat ZifyBool Lia.
From Drummer.Model Require Import DB Sched Fleet FleetRun MailboxSpec FleetRounds.
From Drummer.Proofs Require Import DBProofs DBViewProofs DBTimeProofs SchedProofs SchedTotal MailboxProofs FleetProofs FleetLiveProofs FleetHealProofs FleetMendProofs FleetMendAProofs.
Local Open Scope N_scope.
Notation hist_of := Fleet.hist_of.

(** * requests with a current fence *)
(* [B]: the requests pending anywhere (address, request).  A LIVE change request q, waiting for NodeHost a: its fence
   is the current membership version of its shard; no CREATE (restore / join) request for the shard is pending
   anywhere; an ADD names a NodeHost that exists, carries no data of the shard and is not the address of a member,
   and a replica id without data anywhere; a DELETE is not proposed on the NodeHost of the member it removes *)
Definition lchange (B : N → request → Prop) (hosts : gmap N fhost) (hist : gmap N (list hentry)) (a : N) (q : request) : Prop :=
  is_change q = true ∧ q_ccid q = cur_version (hist_of hist (q_shard q)) ∧ (is_Some (hosts !! a) ∧ q_shard q ≠ 0) ∧
  (∀ a' q', B a' q' → is_create q' = true → q_shard q' ≠ q_shard q) ∧
  (is_add q = true → ∃ x t, q_members q = [x] ∧ q_addrs q = [t] ∧ x ≠ 0 ∧ t ≠ 0 ∧ is_Some (hosts !! t) ∧
      (∀ r', cur_members (hist_of hist (q_shard q)) !! r' ≠ Some t) ∧
      (∀ fh rid, hosts !! t = Some fh → fh_reps fh !! (q_shard q, rid) = None) ∧
      (∀ a' fh, hosts !! a' = Some fh → fh_reps fh !! (q_shard q, x) = None)) ∧
  (is_delete q = true → ∃ y, q_members q = [y] ∧ y ≠ 0 ∧ q_shard q ≠ 0 ∧ cur_members (hist_of hist (q_shard q)) !! y ≠ Some a).

(* what the invariant knows about every pending request beyond [mharmless]: the fence of a change request is the
   version of an entry of the history; the id of a KILL request has been used *)
Definition qextra (hist : gmap N (list hentry)) (q : request) : Prop :=
  (is_change q = true → ∀ h, hist !! q_shard q = Some h → q_ccid q ≤ cur_version h) ∧
  (is_kill q = true → ∃ y, q_members q = [y] ∧ ∀ h, hist !! q_shard q = Some h → used_in h y = true).

(* [R q]: what the Drummer DB knows about a live request (its fence is the version of Drummer's view, every member the
   view shows has reported) - constant while the NodeHosts execute *)
Definition bq (B : N → request → Prop) (R : request → Prop) (hosts : gmap N fhost) (hist : gmap N (list hentry)) (a : N) (q : request) : Prop :=
  (mharmless hist a q ∧ qextra hist q) ∨ (lchange B hosts hist a q ∧ R q).

(* the classification of a request depends on the history of its shard only *)
Lemma mharmless_frame hist hist' a q :
  hist' !! q_shard q = hist !! q_shard q → mharmless hist a q → mharmless hist' a q.
Proof.
  intros He. assert (Hof : hist_of hist' (q_shard q) = hist_of hist (q_shard q)) by (unfold hist_of; by rewrite He).
  intros [[Hg|[(Hch & Hf & Hm)|(Hk & y & Hy & Hd)]]|[(Hcr & Hj & Hre & h & Hh & Hm)|(Hres & Hj & h & Hh & Hrest)]].
  - left; left. destruct Hg as (H1 & H2 & h & b & Hh & Hm). split; [done|]. split; [done|]. exists h, b. by rewrite He.
  - left; right; left. split; [done|]. by rewrite Hof.
  - left; right; right. split; [done|]. exists y. split; [done|]. intros h Hh. apply Hd. by rewrite <- He.
  - right; left. split; [done|]. split; [done|]. split; [done|]. exists h. by rewrite He.
  - right; right. split; [done|]. split; [done|]. exists h. by rewrite He.
Qed.

Lemma qextra_frame hist hist' q : hist' !! q_shard q = hist !! q_shard q → qextra hist q → qextra hist' q.
Proof. intros He. unfold qextra. by rewrite He. Qed.

Lemma lchange_frame B hosts hosts' hist hist' a q :
  hist' !! q_shard q = hist !! q_shard q →
  (∀ a0, is_Some (hosts !! a0) → is_Some (hosts' !! a0)) →
  (∀ a0 fh' k, hosts' !! a0 = Some fh' → is_Some (fh_reps fh' !! k) → k.1 = q_shard q →
     ∃ fh, hosts !! a0 = Some fh ∧ is_Some (fh_reps fh !! k)) →
  lchange B hosts hist a q → lchange B hosts' hist' a q.
Proof.
  intros He Hdom Hkeys (Hch & Hf & [Hah Hsnz] & HB & Hadd & Hdel).
  assert (Hof : hist_of hist' (q_shard q) = hist_of hist (q_shard q)) by (unfold hist_of; by rewrite He).
  split; [done|]. split; [by rewrite Hof|]. split; [split; [by apply Hdom|done]|]. split; [done|]. split.
  - intros Ha. destruct (Hadd Ha) as (x & t & H1 & H2 & H3 & H4 & H5 & H6 & H7 & H8).
    exists x, t. split; [done|]. split; [done|]. split; [done|]. split; [done|]. split; [by apply Hdom|].
    split; [by rewrite Hof|]. split.
    + intros fh' rid Hfh'. destruct (fh_reps fh' !! (q_shard q, rid)) as [lr|] eqn:Ek; [|done]. exfalso.
      destruct (Hkeys t fh' (q_shard q, rid) Hfh') as (fh & Hfh & [lr0 Hk0]); [by eexists|done|]. by rewrite (H7 fh rid Hfh) in Hk0.
    + intros a' fh' Hfh'. destruct (fh_reps fh' !! (q_shard q, x)) as [lr|] eqn:Ek; [|done]. exfalso.
      destruct (Hkeys a' fh' (q_shard q, x) Hfh') as (fh & Hfh & [lr0 Hk0]); [by eexists|done|]. by rewrite (H8 a' fh Hfh) in Hk0.
  - intros Hd. destruct (Hdel Hd) as (y & H1 & H2 & H3 & H4). exists y. by rewrite Hof.
Qed.

(** * where exec_req puts data: no NodeHost appears or disappears; a new key is the target of a CREATE request *)
Lemma set_reps_lookup hosts h reps a :
  set_reps hosts h reps !! a =
  match hosts !! h with
  | Some fh => if decide (a = h) then Some (mkFHost (fh_up fh) (fh_region fh) reps (fh_queue fh) (fh_out fh)) else hosts !! a
  | None => hosts !! a
  end.
Proof.
  unfold set_reps. destruct (hosts !! h) as [fh|] eqn:E; [|done].
  destruct (decide (a = h)) as [->|Hne]; [by rewrite lookup_insert|by rewrite lookup_insert_ne].
Qed.

Lemma exec_req_keys h ccok x q x' :
  exec_req h ccok x q = Some x' →
  (∀ a, is_Some (x'.1 !! a) ↔ is_Some (x.1 !! a)) ∧
  (∀ a fh' k, x'.1 !! a = Some fh' → is_Some (fh_reps fh' !! k) →
     (∃ fh, x.1 !! a = Some fh ∧ is_Some (fh_reps fh !! k)) ∨ (is_create q = true ∧ k = (q_shard q, q_inst q))).
Proof.
  assert (Hsame : (∀ a, is_Some (x.1 !! a) ↔ is_Some (x.1 !! a)) ∧
     (∀ a fh' k, x.1 !! a = Some fh' → is_Some (fh_reps fh' !! k) →
        (∃ fh, x.1 !! a = Some fh ∧ is_Some (fh_reps fh !! k)) ∨ (is_create q = true ∧ k = (q_shard q, q_inst q)))).
  { split; [done|]. intros a fh' k Ha Hk. left. by exists fh'. }
  assert (Hset : ∀ fh reps' (hist' : gmap N (list hentry)), x.1 !! h = Some fh →
     (∀ k, is_Some (reps' !! k) → is_Some (fh_reps fh !! k) ∨ (is_create q = true ∧ k = (q_shard q, q_inst q))) →
     (∀ a, is_Some ((set_reps x.1 h reps', hist').1 !! a) ↔ is_Some (x.1 !! a)) ∧
     (∀ a fh' k, (set_reps x.1 h reps', hist').1 !! a = Some fh' → is_Some (fh_reps fh' !! k) →
        (∃ fh0, x.1 !! a = Some fh0 ∧ is_Some (fh_reps fh0 !! k)) ∨ (is_create q = true ∧ k = (q_shard q, q_inst q)))).
  { intros fh reps' hist' Hfh Hr. cbn [fst]. split.
    - intros a. rewrite set_reps_lookup, Hfh. destruct (decide (a = h)) as [->|Hne]; [|done]. rewrite Hfh. split; intros _; by eexists.
    - intros a fh' k. rewrite set_reps_lookup, Hfh. destruct (decide (a = h)) as [->|Hne].
      + intros [= <-] Hk. cbn [fh_reps] in Hk. destruct (Hr k Hk) as [?|?]; [left; by exists fh|by right].
      + intros Ha Hk. left. by exists fh'. }
  unfold exec_req. destruct (x.1 !! h) as [fh|] eqn:Hfh; [|intros [= <-]; exact Hsame].
  assert (Hins : ∀ lr0 k0, is_create q = true → k0 = (q_shard q, q_inst q) →
            ∀ k, is_Some (<[k0 := lr0]> (fh_reps fh) !! k) → is_Some (fh_reps fh !! k) ∨ (is_create q = true ∧ k = (q_shard q, q_inst q))).
  { intros lr0 k0 Hc -> k Hk. destruct (decide (k = (q_shard q, q_inst q))) as [->|Hne]; [by right|]. rewrite lookup_insert_ne in Hk by done. by left. }
  assert (Hll : ∀ s M v k, is_Some (learn_local (fh_reps fh) s M v !! k) → is_Some (fh_reps fh !! k)).
  { intros s M v k [lr' Hk]. apply learn_local_lookup in Hk as (lr & Hk & _). by eexists. }
  destruct (q_type q) eqn:Ety.
  - assert (Hc : is_create q = true) by (unfold is_create; by rewrite Ety).
    destruct (q_join q), (q_restore q); try done.
    + destruct (fh_reps fh !! (q_shard q, q_inst q)) as [lr|] eqn:Ek; intros [= <-].
      * unfold start_existing. destruct (_ || _); [exact Hsame|]. apply (Hset fh); [done|]. by apply Hins.
      * destruct (busy _ _); [exact Hsame|]. apply (Hset fh); [done|]. by apply Hins.
    + destruct (fh_reps fh !! (q_shard q, q_inst q)) as [lr|] eqn:Ek; intros [= <-]; [|exact Hsame].
      unfold start_existing. destruct (_ || _); [exact Hsame|]. apply (Hset fh); [done|]. by apply Hins.
    + destruct (fh_reps fh !! (q_shard q, q_inst q)) as [lr|] eqn:Ek; [done|]. intros [= <-].
      destruct (busy _ _); [exact Hsame|]. apply (Hset fh); [done|]. by apply Hins.
  - destruct (q_members q) as [|rid ms]; [done|]. intros [= <-].
    destruct (hist_of x.2 (q_shard q)) as [|e hs]; [exact Hsame|]. destruct (_ && _); [|exact Hsame].
    apply (Hset fh); [done|]. intros k [lr Hk]. left. apply lookup_delete_Some in Hk as [_ Hk]. eapply Hll. by eexists.
  - destruct (q_members q) as [|rid ms]; [done|]. destruct (q_addrs q) as [|t ts]; [done|]. intros [= <-].
    destruct (hist_of x.2 (q_shard q)) as [|e hs]; [exact Hsame|]. destruct (_ && _); [|exact Hsame].
    apply (Hset fh); [done|]. intros k Hk. left. by eapply Hll.
  - destruct (q_members q) as [|rid ms]; [done|]. intros [= <-].
    destruct (fh_reps fh !! (q_shard q, rid)) as [lr|] eqn:Ek; [|exact Hsame]. destruct (lr_running lr); [|exact Hsame].
    apply (Hset fh); [done|]. intros k [lr0 Hk]. left. apply lookup_delete_Some in Hk as [_ Hk]. by eexists.
Qed.

(** * applying a membership change: the host-side class relative to the NEW history *)
Definition members_nz (hist : gmap N (list hentry)) : Prop :=
  ∀ s h rid a, hist !! s = Some h → cur_members h !! rid = Some a → rid ≠ 0 ∧ a ≠ 0.

Lemma stray_ok_frame hist hist' a s rid lr : hist' !! s = hist !! s → stray_ok hist a s rid lr → stray_ok hist' a s rid lr.
Proof. intros He (h & Hh & Hrest). exists h. by rewrite He. Qed.

Lemma hmend_append sz hist hosts s (hs : list hentry) (e : hentry) :
  hist_wf sz (e :: hs) → hist !! s = Some hs → hs ≠ [] →
  HMend hist hosts → members_nz hist → e.1 = cur_version hs + 1 →
  (∀ a fh rid lr, hosts !! a = Some fh → fh_reps fh !! (s, rid) = Some lr → lr_ver lr ≤ cur_version hs) →
  ((∃ x t, e.2 = <[x := t]> (cur_members hs) ∧ x ≠ 0 ∧ t ≠ 0 ∧ is_Some (hosts !! t) ∧
           (∀ fh rid, hosts !! t = Some fh → fh_reps fh !! (s, rid) = None) ∧
           (∀ a fh, hosts !! a = Some fh → fh_reps fh !! (s, x) = None)) ∨
   (∃ y, e.2 = delete y (cur_members hs) ∧ is_Some (cur_members hs !! y) ∧ s ≠ 0 ∧ y ≠ 0)) →
  HMend (<[s := e :: hs]> hist) hosts ∧ members_nz (<[s := e :: hs]> hist).
Proof.
  intros Hw Hs Hne0 HH Hnz He Hver Hkind. set (hist' := <[s := e :: hs]> hist).
  assert (Hl : ∀ s' h', hist' !! s' = Some h' → (s' = s ∧ h' = e :: hs) ∨ (s' ≠ s ∧ hist !! s' = Some h')).
  { intros s' h'. unfold hist'. destruct (decide (s' = s)) as [->|Hne]; [rewrite lookup_insert; intros [= <-]; by left|].
    rewrite lookup_insert_ne by done. by right. }
  assert (Hmok : mem_ok sz (cur_members hs)).
  { apply (hist_wf_mem_ok _ _ Hw (cur_version hs, cur_members hs)). right. by apply cur_in. }
  split; [split|].
  - apply (hm_up _ _ HH).
  - intros s' h' rid a Hh' Hm. destruct (Hl _ _ Hh') as [[-> ->]|[Hne Hh]]; [|by apply (hm_hosts _ _ HH s' h' rid a)].
    cbn [cur_members snd] in Hm. destruct Hkind as [(x & t & Hee & _ & _ & Ht & _)|(y & Hee & _)]; rewrite Hee in Hm.
    + destruct (decide (rid = x)) as [->|Hnx]; [rewrite lookup_insert in Hm; by injection Hm as <-|].
      rewrite lookup_insert_ne in Hm by done. by apply (hm_hosts _ _ HH s hs rid a).
    + apply lookup_delete_Some in Hm as [_ Hm]. by apply (hm_hosts _ _ HH s hs rid a).
  - intros a fh s' rid lr h' a' Ha Hk Hh' Hm. destruct (Hl _ _ Hh') as [[-> ->]|[Hne Hh]]; [|by apply (hm_home _ _ HH a fh s' rid lr h' a')].
    cbn [cur_members snd] in Hm. destruct Hkind as [(x & t & Hee & _ & _ & _ & _ & Hx)|(y & Hee & _)]; rewrite Hee in Hm.
    + destruct (decide (rid = x)) as [->|Hnx]; [by rewrite (Hx a fh Ha) in Hk|].
      rewrite lookup_insert_ne in Hm by done. by apply (hm_home _ _ HH a fh s rid lr hs a').
    + apply lookup_delete_Some in Hm as [_ Hm]. by apply (hm_home _ _ HH a fh s rid lr hs a').
  - intros a fh s' rid lr Ha Hk Hr.
    destruct (decide (s' = s)) as [->|Hne].
    2:{ destruct (hm_nostray _ _ HH a fh s' rid lr Ha Hk Hr) as [(h0 & Hh0 & Hm0)|Hst].
        - left. exists h0. unfold hist'. by rewrite lookup_insert_ne.
        - right. apply (stray_ok_frame hist); [unfold hist'; by rewrite lookup_insert_ne|done]. }
    assert (Hh' : hist' !! s = Some (e :: hs)) by (unfold hist'; by rewrite lookup_insert).
    destruct (hm_nostray _ _ HH a fh s rid lr Ha Hk Hr) as [(h0 & Hh0 & [b Hm0])|(h0 & Hh0 & Hnm & Hlt & Hno & Hs0 & Hr0 & Ha0)];
      assert (h0 = hs) as -> by congruence.
    + (* was a member *)
      destruct Hkind as [(x & t & Hee & _)|(y & Hee & Hy & Hs0 & Hy0)].
      * left. exists (e :: hs). split; [done|]. cbn. rewrite Hee. destruct (decide (rid = x)) as [->|Hnx]; [rewrite lookup_insert; by eexists|].
        rewrite lookup_insert_ne by done. by eexists.
      * destruct (decide (rid = y)) as [->|Hny].
        -- right. exists (e :: hs). split; [done|]. cbn [cur_members cur_version snd fst]. rewrite Hee.
           split; [by rewrite lookup_delete|]. split; [pose proof (Hver a fh y lr Ha Hk); lia|].
           assert (b = a) as -> by (by apply (hm_home _ _ HH a fh s y lr hs b)).
           split.
           { intros r' Hr'. apply lookup_delete_Some in Hr' as [Hne' Hr']. destruct Hmok as [_ Hinj]. apply Hne'. by apply (Hinj y r' a). }
           destruct (Hnz s hs y a Hs Hm0). done.
        -- left. exists (e :: hs). split; [done|]. cbn. rewrite Hee, lookup_delete_ne by done. by eexists.
    + (* was a stray *)
      right. exists (e :: hs). split; [done|]. cbn [cur_members cur_version snd fst].
      destruct Hkind as [(x & t & Hee & _ & _ & _ & Ht & Hx)|(y & Hee & _)]; rewrite Hee.
      * assert (rid ≠ x) by (intros ->; by rewrite (Hx a fh Ha) in Hk).
        split; [by rewrite lookup_insert_ne|]. split; [lia|]. split; [|done].
        intros r' Hr'. destruct (decide (r' = x)) as [->|Hnx].
        -- rewrite lookup_insert in Hr'. injection Hr' as ->. by rewrite (Ht fh rid Ha) in Hk.
        -- rewrite lookup_insert_ne in Hr' by done. by apply (Hno r').
      * split; [apply lookup_delete_None; by right|]. split; [lia|]. split; [|done].
        intros r' Hr'. apply lookup_delete_Some in Hr' as [_ Hr']. by apply (Hno r').
  - intros a fh s' rid lr h' Ha Hk Hh' Hnm. destruct (Hl _ _ Hh') as [[-> ->]|[Hne Hh]]; [|by apply (hm_old _ _ HH a fh s' rid lr h')].
    left. cbn [cur_version fst]. pose proof (Hver a fh rid lr Ha Hk). lia.
  - intros s' h' rid a Hh' Hm. destruct (Hl _ _ Hh') as [[-> ->]|[Hne Hh]]; [|by apply (Hnz s' h' rid a)].
    cbn [cur_members snd] in Hm. destruct Hkind as [(x & t & Hee & Hx0 & Ht0 & _)|(y & Hee & _)]; rewrite Hee in Hm.
    + destruct (decide (rid = x)) as [->|Hnx]; [rewrite lookup_insert in Hm; by injection Hm as <-|].
      rewrite lookup_insert_ne in Hm by done. by apply (Hnz s hs rid a).
    + apply lookup_delete_Some in Hm as [_ Hm]. by apply (Hnz s hs rid a).
Qed.

(* the proposer's NodeHost after the change: its running members of the shard know the new version *)
Lemma learn_local_lookup2 reps s M v k lr' :
  learn_local reps s M v !! k = Some lr' →
  ∃ lr, reps !! k = Some lr ∧ (lr' = lr ∨ (k.1 = s ∧ lr_running lr = true ∧ is_member M k.2 = true ∧ lr' = mkLRep true v)).
Proof.
  unfold learn_local. rewrite map_lookup_imap. destruct (reps !! k) as [lr|]; [|done]. cbn.
  destruct (bool_decide (k.1 = s)) eqn:E; cbn [andb]; [|intros [= <-]; eauto].
  apply bool_decide_eq_true in E. destruct (lr_running lr) eqn:Er; cbn [andb]; [|intros [= <-]; eauto].
  destruct (is_member M k.2) eqn:Em; intros [= <-]; eauto 10.
Qed.

Lemma learn_local_knows reps s M v rid lr :
  reps !! (s, rid) = Some lr → lr_running lr = true → is_member M rid = true →
  learn_local reps s M v !! (s, rid) = Some (mkLRep true v).
Proof.
  intros Hk Hr Hm. unfold learn_local. rewrite map_lookup_imap, Hk. cbn. rewrite bool_decide_eq_true_2 by done. by rewrite Hr, Hm.
Qed.

Lemma learn_local_other reps s M v k : k.1 ≠ s → learn_local reps s M v !! k = reps !! k.
Proof.
  intros Hne. unfold learn_local. rewrite map_lookup_imap. destruct (reps !! k) as [lr|]; [|done]. cbn.
  by rewrite bool_decide_eq_false_2.
Qed.

Lemma running_of_elem reps s rid : rid ∈ running_of reps s ↔ ∃ lr, reps !! (s, rid) = Some lr ∧ lr_running lr = true.
Proof.
  unfold running_of. rewrite elem_of_list_fmap. split.
  - intros ([[s0 r0] lr] & -> & Hin). apply elem_of_list_filter in Hin as [[Hs Hr] Hin]. cbn in Hs, Hr. subst s0.
    apply elem_of_map_to_list in Hin. by exists lr.
  - intros (lr & Hk & Hr). exists ((s, rid), lr). split; [done|]. apply elem_of_list_filter. split; [done|]. by apply elem_of_map_to_list.
Qed.

Lemma hmend_proposer hist hosts h fh reps' s :
  HMend hist hosts → hosts !! h = Some fh →
  (∀ k lr', reps' !! k = Some lr' →
     ∃ lr, fh_reps fh !! k = Some lr ∧ (lr' = lr ∨ (k.1 = s ∧ ∃ h0, hist !! s = Some h0 ∧ is_Some (cur_members h0 !! k.2)))) →
  HMend hist (set_reps hosts h reps').
Proof.
  intros HH Hfh Hr. unfold set_reps. rewrite Hfh. apply hmend_insert; [done|done|].
  intros k lr' Hk. destruct (Hr k lr' Hk) as (lr & Hlr & [->|(Hks & h0 & Hh0 & [b Hb])]).
  - left. exists lr. split; [done|]. split; [done|]. by left.
  - right. exists h0. rewrite Hks. split; [done|]. destruct k as [s0 rid]. cbn in Hks, Hb |- *. subst s0.
    assert (b = h) as -> by (by apply (hm_home _ _ HH h fh s rid lr h0 b)). done.
Qed.

(** * one request *)
Record XB (B : N → request → Prop) (R : request → Prop) (x : xstate) : Prop := mkXB {
  xb_hm : HMend x.2 x.1;
  xb_nz : members_nz x.2;
  xb_b : ∀ a q, B a q → bq B R x.1 x.2 a q }.

(* the pending requests for the shard whose history has just grown: all of them are leftovers now *)
Lemma bq_stale (B : N → request → Prop) (R : request → Prop) hosts hosts' hist s (hs : list hentry) (e : hentry) a0 q0 :
  hist !! s = Some hs → e.1 = cur_version hs + 1 →
  ((∃ x t, e.2 = <[x := t]> (cur_members hs) ∧ used_in hs x = false) ∨ (∃ y, e.2 = delete y (cur_members hs))) →
  (∀ a' q', B a' q' → is_create q' = true → q_shard q' ≠ s) → B a0 q0 → q_shard q0 = s →
  bq B R hosts hist a0 q0 → bq B R hosts' (<[s := e :: hs]> hist) a0 q0.
Proof.
  intros Hs He Hkind Hnc HB0 Hq0 Hbq. left.
  assert (Hof : hist_of hist (q_shard q0) = hs) by (unfold hist_of; by rewrite Hq0, Hs).
  assert (Hs0 : hist !! q_shard q0 = Some hs) by (by rewrite Hq0).
  assert (Hs0' : ∀ h', <[s := e :: hs]> hist !! q_shard q0 = Some h' → h' = e :: hs) by (intros h'; rewrite Hq0, lookup_insert; congruence).
  assert (Hof' : hist_of (<[s := e :: hs]> hist) (q_shard q0) = e :: hs) by (unfold hist_of; by rewrite Hq0, lookup_insert).
  assert (Hnocreate : is_create q0 = false).
  { destruct (is_create q0) eqn:Ec; [|done]. exfalso. by apply (Hnc a0 q0 HB0 Ec). }
  assert (Hstale : is_change q0 = true → q_ccid q0 ≤ cur_version hs → q_members q0 ≠ [] → (is_add q0 = true → q_addrs q0 ≠ []) →
            mharmless (<[s := e :: hs]> hist) a0 q0 ∧ qextra (<[s := e :: hs]> hist) q0).
  { intros Hch Hle Hmem Haddr. split.
    - left; right; left. split; [done|]. rewrite Hof'. cbn [cur_version]. split; [lia|done].
    - split; [intros _ h' Hh'; rewrite (Hs0' h' Hh'); cbn [cur_version]; lia|]. intros Hk. unfold is_change, is_add, is_delete in Hch. unfold is_kill in Hk. by destruct (q_type q0). }
  destruct Hbq as [[Hm Hx]|[(Hch & Hfen & _ & _ & Hadd & Hdel) _]].
  - destruct Hm as [[Hg|[(Hch & Hfen & Hmem & Haddr)|(Hk & y & Hy & Hd)]]|[(Hcr & _)|(Hres & _)]].
    + destruct Hg as (Hres & _). unfold is_restore in Hres. rewrite Hnocreate in Hres. done.
    + apply Hstale; [done| |done|done]. destruct Hx as [Hx _]. by apply Hx.
    + destruct Hx as [_ Hx]. destruct (Hx Hk) as (y' & Hy' & Hu). specialize (Hu hs Hs0). assert (y' = y) as -> by congruence.
      split.
      * left; right; right. split; [done|]. exists y. split; [done|]. intros h'. rewrite Hq0, lookup_insert. intros [= <-].
        cbn [cur_members snd]. specialize (Hd hs). rewrite Hq0 in Hd. specialize (Hd Hs). apply is_member_false in Hd. apply is_member_false.
        destruct Hkind as [(x & t & -> & Hux)|(y0 & ->)].
        -- assert (y ≠ x) by (intros ->; congruence). by rewrite lookup_insert_ne.
        -- apply lookup_delete_None. by right.
      * split.
        -- intros Hch. unfold is_change, is_add, is_delete in Hch. unfold is_kill in Hk. by destruct (q_type q0).
        -- intros _. exists y. split; [done|]. intros h' Hh'. rewrite (Hs0' h' Hh'). unfold used_in. cbn [existsb]. fold (used_in hs y). rewrite Hu. by rewrite orb_true_r.
    + congruence.
    + unfold is_restore in Hres. rewrite Hnocreate in Hres. done.
  - rewrite Hof in Hfen. apply Hstale; [done|lia| |].
    + unfold is_change in Hch. apply orb_true_iff in Hch as [Ha|Hd].
      * destruct (Hadd Ha) as (x & t & -> & _). done.
      * destruct (Hdel Hd) as (y & -> & _). done.
    + intros Ha. destruct (Hadd Ha) as (x & t & _ & -> & _). done.
Qed.

Lemma li_ver_le d hosts hist seen extra a fh s rid lr h :
  LI d hosts hist seen extra → hosts !! a = Some fh → fh_reps fh !! (s, rid) = Some lr → hist !! s = Some h →
  lr_ver lr ≤ cur_version h.
Proof.
  intros HI Ha Hk Hh. destruct (li_reps _ _ _ _ _ HI a fh (s, rid) lr Ha Hk) as (h' & c & Hh' & _ & Hver & _).
  cbn [fst] in Hh'. assert (h' = h) as -> by congruence.
  destruct Hver as [->|[M HM]]; [lia|]. apply entry_at_Some in HM.
  apply (hist_wf_le _ _ (li_hist _ _ _ _ _ HI _ _ Hh) _ HM).
Qed.

Lemma learn_local_keys reps s M v k : is_Some (reps !! k) → is_Some (learn_local reps s M v !! k).
Proof. intros [lr Hk]. unfold learn_local. rewrite map_lookup_imap, Hk. cbn. by eexists. Qed.

(* executing one pending request on NodeHost h: the host-side class holds afterwards relative to the history
   afterwards, which is the old one or the old one with ONE entry appended for the shard of the request *)
Lemma bexec_one d seen (B : N → request → Prop) (R : request → Prop) h q rest x x' :
  LI d x.1 x.2 seen (q :: rest) → XB B R x → B h q → is_Some (x.1 !! h) → exec_req h true x q = Some x' →
  XB B R x' ∧ data_mono x'.2 x.1 x'.1 ∧
  (x'.2 = x.2 ∨
   ∃ (hs : list hentry) (e : hentry), x.2 !! q_shard q = Some hs ∧ hs ≠ [] ∧ x'.2 = <[q_shard q := e :: hs]> x.2 ∧ e.1 = cur_version hs + 1 ∧
     q_ccid q = cur_version hs ∧ lchange B x.1 x.2 h q ∧ R q ∧
     ((is_add q = true ∧ ∃ xx t, q_members q = [xx] ∧ e.2 = <[xx := t]> (cur_members hs) ∧ cur_members hs !! xx = None) ∨
      (∃ y, e.2 = delete y (cur_members hs) ∧ is_Some (cur_members hs !! y))) ∧
     ∃ fh' rid lr, x'.1 !! h = Some fh' ∧ fh_reps fh' !! (q_shard q, rid) = Some lr ∧ lr_running lr = true ∧
                   lr_ver lr = e.1 ∧ is_Some (e.2 !! rid)).
Proof.
  destruct x as [hosts hist]. cbn [fst snd]. intros HI HX HB [fh Hfh] E.
  pose proof (xb_hm _ _ _ HX) as HH. pose proof (xb_nz _ _ _ HX) as Hnz. pose proof (xb_b _ _ _ HX) as Hb. cbn [fst snd] in HH, Hnz, Hb.
  pose proof (exec_req_inv _ _ _ _ _ _ _ _ _ HI E) as HI'.
  destruct (exec_req_keys h true (hosts, hist) q x' E) as [Hdom Hkeys]. cbn [fst snd] in Hdom, Hkeys.
  assert (Hlc : ∀ a0 q0, lchange B hosts hist a0 q0 → x'.2 !! q_shard q0 = hist !! q_shard q0 → lchange B x'.1 x'.2 a0 q0).
  { intros a0 q0 Hl He. apply (lchange_frame B hosts x'.1 hist x'.2); [done| | |done].
    - intros a1 Ha1. by apply Hdom.
    - intros a1 fh' k Hfh' Hk Hks. destruct (Hkeys a1 fh' k Hfh' Hk) as [?|[Hc ->]]; [done|]. exfalso.
      destruct Hl as (_ & _ & _ & HBc & _). by apply (HBc h q HB Hc). }
  assert (Hsame : x' = (hosts, hist) →
     XB B R x' ∧ data_mono x'.2 hosts x'.1 ∧
     (x'.2 = hist ∨ ∃ (hs : list hentry) (e : hentry), hist !! q_shard q = Some hs ∧ hs ≠ [] ∧ x'.2 = <[q_shard q := e :: hs]> hist ∧ e.1 = cur_version hs + 1 ∧
        q_ccid q = cur_version hs ∧ lchange B hosts hist h q ∧ R q ∧
        ((is_add q = true ∧ ∃ xx t, q_members q = [xx] ∧ e.2 = <[xx := t]> (cur_members hs) ∧ cur_members hs !! xx = None) ∨
         (∃ y, e.2 = delete y (cur_members hs) ∧ is_Some (cur_members hs !! y))) ∧
        ∃ fh' rid lr, x'.1 !! h = Some fh' ∧ fh_reps fh' !! (q_shard q, rid) = Some lr ∧ lr_running lr = true ∧
                      lr_ver lr = e.1 ∧ is_Some (e.2 !! rid))).
  { intros ->. cbn [fst snd]. split; [done|]. split; [apply data_mono_refl|by left]. }
  destruct (Hb h q HB) as [[Hm Hx]|Hl].
  { (* a request that leaves the history alone *)
    destruct (mexec_one (shard_size d) hist h q (hosts, hist) (li_hist _ _ _ _ _ HI) eq_refl HH Hm) as (x1 & E1 & H2 & HH1 & Hg & _);
      [cbn; by eexists|].
    assert (x1 = x') as -> by congruence. cbn [fst snd] in Hg.
    split; [split|split].
    - by rewrite H2.
    - by rewrite H2.
    - intros a0 q0 HB0. destruct (Hb a0 q0 HB0) as [[Hm0 Hx0]|[Hl0 HR0]]; [left; by rewrite H2|right]. split; [|done]. apply Hlc; [done|by rewrite H2].
    - rewrite H2. by apply grows_data.
    - by left. }
  (* a change request with a current fence *)
  pose proof Hl as [Hlq _]. destruct Hl as [(Hch & Hf & _ & HBc & Hadd & Hdel) HRq]. set (s := q_shard q) in *.
  unfold exec_req in E. cbn [fst snd] in E. rewrite Hfh in E. fold s in E.
  (* the common part of the two applied cases *)
  assert (Happly : ∀ e0 hs0 e reps',
     hist_of hist s = e0 :: hs0 → e.1 = e0.1 + 1 →
     cc_ready true hosts (fh_reps fh) s e0.1 e0.2 (q_ccid q) = true →
     x' = (set_reps hosts h reps', <[s := e :: e0 :: hs0]> hist) →
     ((is_add q = true ∧ ∃ xx t, q_members q = [xx] ∧ e.2 = <[xx := t]> e0.2 ∧ used_in (e0 :: hs0) xx = false ∧ xx ≠ 0 ∧ t ≠ 0 ∧ is_Some (hosts !! t) ∧
               (∀ fh0 rid, hosts !! t = Some fh0 → fh_reps fh0 !! (s, rid) = None) ∧
               (∀ a' fh0, hosts !! a' = Some fh0 → fh_reps fh0 !! (s, xx) = None) ∧
               reps' = learn_local (fh_reps fh) s e0.2 (e0.1 + 1)) ∨
      (∃ y, e.2 = delete y e0.2 ∧ is_Some (e0.2 !! y) ∧ s ≠ 0 ∧ y ≠ 0 ∧ e0.2 !! y ≠ Some h ∧
            reps' = delete (s, y) (learn_local (fh_reps fh) s e0.2 (e0.1 + 1)))) →
     XB B R x' ∧ data_mono x'.2 hosts x'.1 ∧
     (x'.2 = hist ∨ ∃ (hs : list hentry) (e : hentry), hist !! s = Some hs ∧ hs ≠ [] ∧ x'.2 = <[s := e :: hs]> hist ∧ e.1 = cur_version hs + 1 ∧
        q_ccid q = cur_version hs ∧ lchange B hosts hist h q ∧ R q ∧
        ((is_add q = true ∧ ∃ xx t, q_members q = [xx] ∧ e.2 = <[xx := t]> (cur_members hs) ∧ cur_members hs !! xx = None) ∨
         (∃ y, e.2 = delete y (cur_members hs) ∧ is_Some (cur_members hs !! y))) ∧
        ∃ fh' rid lr, x'.1 !! h = Some fh' ∧ fh_reps fh' !! (s, rid) = Some lr ∧ lr_running lr = true ∧
                      lr_ver lr = e.1 ∧ is_Some (e.2 !! rid))).
  { intros e0 hs0 e reps' Eh He Hcc -> Hkind. cbn [fst snd].
    set (hs := e0 :: hs0) in *. set (hist' := <[s := e :: hs]> hist).
    assert (Hs : hist !! s = Some hs).
    { unfold hist_of in Eh. destruct (hist !! s) as [h0|]; cbn in Eh; [by rewrite Eh|done]. }
    assert (Hcv : cur_version hs = e0.1) by done. assert (Hcm : cur_members hs = e0.2) by done.
    rewrite Eh in Hf. cbn [cur_version] in Hf.
    cbn [fst snd] in HI'.
    assert (Hw' : hist_wf (shard_size d s) (e :: hs)).
    { apply (li_hist _ _ _ _ _ HI' s). unfold hist'. by rewrite lookup_insert. }
    assert (Hver : ∀ a fh0 rid lr, hosts !! a = Some fh0 → fh_reps fh0 !! (s, rid) = Some lr → lr_ver lr ≤ cur_version hs).
    { intros a fh0 rid lr Ha Hk. by apply (li_ver_le _ _ _ _ _ a fh0 s rid lr hs HI). }
    (* HMend on the old hosts, new history *)
    destruct (hmend_append (shard_size d s) hist hosts s hs e Hw' Hs ltac:(done) HH Hnz ltac:(lia) Hver) as [HH1 Hnz1].
    { destruct Hkind as [(_ & xx & t & _ & Hee & _ & Hx0 & Ht0 & Ht & Hfree & Hnodata & _)|(y & Hee & Hy & Hs0 & Hy0 & _)].
      - left. exists xx, t. rewrite Hcm. done.
      - right. exists y. rewrite Hcm. done. }
    fold hist' in HH1, Hnz1.
    (* the running member on the proposer's host *)
    unfold cc_ready in Hcc. apply andb_true_iff in Hcc as [Hcc _]. apply andb_true_iff in Hcc as [Hcc _].
    apply andb_true_iff in Hcc as [_ Hex]. apply existsb_exists in Hex as (r0 & Hr0 & Hm0). apply elem_of_list_In, running_of_elem in Hr0 as (lr0 & Hk0 & Hrun0).
    assert (Hreps' : ∀ k lr', reps' !! k = Some lr' →
               ∃ lr, fh_reps fh !! k = Some lr ∧ (lr' = lr ∨ (k.1 = s ∧ ∃ h0, hist' !! s = Some h0 ∧ is_Some (cur_members h0 !! k.2)))).
    { intros k lr' Hk. destruct Hkind as [(_ & xx & t & _ & Hee & _ & _ & _ & _ & _ & _ & ->)|(y & Hee & Hy & _ & _ & Hyh & ->)].
      - apply learn_local_lookup2 in Hk as (lr & Hlr & [->|(Hks & _ & Hmem & _)]); [by eauto|]. exists lr. split; [done|]. right. split; [done|].
        exists (e :: hs). unfold hist'. rewrite lookup_insert. split; [done|]. cbn. rewrite Hee. apply is_member_true in Hmem as [b Hmb].
        destruct (decide (k.2 = xx)) as [->|?]; [rewrite lookup_insert; by eexists|rewrite lookup_insert_ne by done; by eexists].
      - apply lookup_delete_Some in Hk as [Hne Hk].
        apply learn_local_lookup2 in Hk as (lr & Hlr & [->|(Hks & _ & Hmem & _)]); [by eauto|]. exists lr. split; [done|]. right. split; [done|].
        exists (e :: hs). unfold hist'. rewrite lookup_insert. split; [done|]. cbn. rewrite Hee. apply is_member_true in Hmem as [b Hmb].
        assert (k.2 ≠ y) by (intros Heq; apply Hne; destruct k as [k1 k2]; cbn in *; by subst). rewrite lookup_delete_ne by done. by eexists. }
    pose proof (hmend_proposer hist' hosts h fh reps' s HH1 Hfh Hreps') as HH2.
    (* the proposer knows *)
    assert (Hknow : ∃ fh' rid lr, set_reps hosts h reps' !! h = Some fh' ∧ fh_reps fh' !! (s, rid) = Some lr ∧ lr_running lr = true ∧
                      lr_ver lr = e.1 ∧ is_Some (e.2 !! rid)).
    { rewrite set_reps_lookup, Hfh, decide_True by done. eexists _, r0, (mkLRep true (e0.1 + 1)). split; [done|]. cbn [fh_reps lr_running lr_ver].
      apply is_member_true in Hm0 as Hm0'. destruct Hm0' as [b0 Hb0].
      destruct Hkind as [(_ & xx & t & _ & Hee & _ & _ & _ & _ & _ & _ & ->)|(y & Hee & Hy & _ & _ & Hyh & ->)].
      - split; [by apply (learn_local_knows _ _ _ _ _ lr0)|]. split; [done|]. split; [lia|]. rewrite Hee.
        destruct (decide (r0 = xx)) as [->|?]; [rewrite lookup_insert; by eexists|rewrite lookup_insert_ne by done; by eexists].
      - assert (r0 ≠ y).
        { intros ->. apply Hyh. assert (b0 = h) as -> by (by apply (hm_home _ _ HH h fh s y lr0 hs b0)). done. }
        split; [rewrite lookup_delete_ne by congruence; by apply (learn_local_knows _ _ _ _ _ lr0)|]. split; [done|]. split; [lia|].
        rewrite Hee, lookup_delete_ne by done. by eexists. }
    split; [split|split].
    - exact HH2.
    - exact Hnz1.
    - intros a0 q0 HB0. destruct (decide (q_shard q0 = s)) as [Hq0|Hq0].
      + apply (bq_stale B R hosts _ hist s hs e a0 q0 Hs ltac:(lia)); [|exact HBc|done|done|by apply Hb].
        destruct Hkind as [(_ & xx & t & _ & Hee & Hu & _)|(y & Hee & _)]; [left; exists xx, t|right; exists y]; by rewrite Hcm.
      + assert (Heq : hist' !! q_shard q0 = hist !! q_shard q0) by (unfold hist'; by rewrite lookup_insert_ne).
        destruct (Hb a0 q0 HB0) as [[Hm1 Hx1]|[Hl1 HR1]].
        * left. split; [by apply (mharmless_frame hist)|by apply (qextra_frame hist)].
        * right. split; [by apply Hlc|done].
    - (* member data stays *)
      intros a fh0 k Ha Hk Hmk. rewrite set_reps_lookup, Hfh. destruct (decide (a = h)) as [->|Hne]; [|by exists fh0].
      assert (fh0 = fh) as -> by congruence. eexists. split; [done|]. cbn [fh_reps].
      destruct Hkind as [(_ & xx & t & _ & _ & _ & _ & _ & _ & _ & _ & ->)|(y & Hee & _ & _ & _ & _ & ->)]; [by apply learn_local_keys|].
      rewrite lookup_delete_ne; [by apply learn_local_keys|]. intros <-. destruct Hmk as (h0 & Hh0 & Hm1). cbn [fst snd] in Hh0, Hm1.
      unfold hist' in Hh0. rewrite lookup_insert in Hh0. injection Hh0 as <-. cbn in Hm1. rewrite Hee, lookup_delete in Hm1. by destruct Hm1.
    - right. exists hs, e. split; [done|]. split; [done|]. split; [done|]. split; [lia|]. split; [lia|]. split; [exact Hlq|]. split; [exact HRq|].
      split; [|exact Hknow].
      destruct Hkind as [(Hia & xx & t & Hmm & Hee & Hu & _)|(y & Hee & Hy & _)]; [left; split; [done|]; exists xx, t|right; exists y]; rewrite Hcm; [|done].
      split; [done|]. split; [done|]. apply is_member_false. rewrite used_in_false in Hu. apply (Hu e0). left. }
  unfold is_change, is_add, is_delete in Hch, Hadd, Hdel. destruct (q_type q) eqn:Ety; try done.
  - (* DELETE *)
    destruct (Hdel eq_refl) as (y & Hy & Hy0 & Hs0 & Hya). rewrite Hy in E. injection E as E.
    destruct (hist_of hist s) as [|e0 hs0] eqn:Eh; [by apply Hsame|].
    destruct (cc_ready true hosts (fh_reps fh) s e0.1 e0.2 (q_ccid q) && is_member e0.2 y) eqn:Ecc; [|by apply Hsame].
    apply andb_true_iff in Ecc as [Ecc Emem]. symmetry in E.
    apply (Happly e0 hs0 (e0.1 + 1, delete y e0.2) _ eq_refl eq_refl Ecc E). right. exists y. cbn [snd].
    split; [done|]. split; [by apply is_member_true|]. split; [done|]. split; [done|]. split; [|done]. done.
  - (* ADD *)
    destruct (Hadd eq_refl) as (xx & t & Hxx & Htt & Hx0 & Ht0 & Ht & Hnomem & Hfree & Hnodata). rewrite Hxx, Htt in E. injection E as E.
    destruct (hist_of hist s) as [|e0 hs0] eqn:Eh; [by apply Hsame|].
    destruct (cc_ready true hosts (fh_reps fh) s e0.1 e0.2 (q_ccid q) && negb (used_in (e0 :: hs0) xx)) eqn:Ecc; [|by apply Hsame].
    apply andb_true_iff in Ecc as [Ecc Eu]. apply negb_true_iff in Eu. symmetry in E.
    apply (Happly e0 hs0 (e0.1 + 1, <[xx := t]> e0.2) _ eq_refl eq_refl Ecc E). left. split; [unfold is_add; by rewrite Ety|]. exists xx, t. cbn [snd]. done.
Qed.

(* a running replica of a shard whose history does not change is left alone by every request but its own KILL *)
Lemma exec_req_keep h x q x' a fh k lr :
  exec_req h true x q = Some x' → x.1 !! a = Some fh → fh_reps fh !! k = Some lr → lr_running lr = true →
  x'.2 !! k.1 = x.2 !! k.1 →
  (is_kill q = true → ∀ y ms, q_members q = y :: ms → (q_shard q, y) ≠ k) →
  ∃ fh', x'.1 !! a = Some fh' ∧ fh_reps fh' !! k = Some lr.
Proof.
  intros E Ha Hk Hr Hhist Hkill.
  assert (Hsame : ∃ fh', x.1 !! a = Some fh' ∧ fh_reps fh' !! k = Some lr) by (by exists fh).
  assert (Hset : ∀ fh0 reps' (hist' : gmap N (list hentry)), x.1 !! h = Some fh0 → (a = h → reps' !! k = Some lr) →
            ∃ fh', (set_reps x.1 h reps', hist').1 !! a = Some fh' ∧ fh_reps fh' !! k = Some lr).
  { intros fh0 reps' hist' Hfh0 Hk'. cbn [fst]. rewrite set_reps_lookup, Hfh0. destruct (decide (a = h)) as [->|Hne]; [|by exists fh].
    eexists. split; [done|]. cbn. by apply Hk'. }
  unfold exec_req in E. destruct (x.1 !! h) as [fh0|] eqn:Hfh0; [|injection E as <-; exact Hsame].
  assert (Hnb : busy (fh_reps fh0) (q_shard q) = false → a = h → k.1 ≠ q_shard q).
  { intros Hb -> Hks. assert (busy (fh_reps fh0) (q_shard q) = true); [|congruence].
    apply busy_spec. exists k.2, lr. assert (fh0 = fh) as -> by congruence. destruct k as [k1 k2]. cbn in *. by subst. }
  assert (Hins : ∀ lr1, a = h → k.1 ≠ q_shard q → <[(q_shard q, q_inst q) := lr1]> (fh_reps fh0) !! k = Some lr).
  { intros lr1 -> Hb. assert (fh0 = fh) as -> by congruence. rewrite lookup_insert_ne; [done|]. intros <-. by apply Hb. }
  destruct (q_type q) eqn:Ety.
  - destruct (q_join q), (q_restore q); try done.
    + destruct (fh_reps fh0 !! (q_shard q, q_inst q)) as [lr1|] eqn:Ek; injection E as <-.
      * unfold start_existing. destruct (busy (fh_reps fh0) (q_shard q)) eqn:Eb; cbn [orb]; [exact Hsame|].
        destruct (removed_at _ _ _); [exact Hsame|]. apply (Hset fh0); [done|]. intros Hah. apply Hins; [done|by apply Hnb].
      * destruct (busy (fh_reps fh0) (q_shard q)) eqn:Eb; [exact Hsame|]. apply (Hset fh0); [done|]. intros Hah. apply Hins; [done|by apply Hnb].
    + destruct (fh_reps fh0 !! (q_shard q, q_inst q)) as [lr1|] eqn:Ek; injection E as <-; [|exact Hsame].
      unfold start_existing. destruct (busy (fh_reps fh0) (q_shard q)) eqn:Eb; cbn [orb]; [exact Hsame|].
      destruct (removed_at _ _ _); [exact Hsame|]. apply (Hset fh0); [done|]. intros Hah. apply Hins; [done|by apply Hnb].
    + destruct (fh_reps fh0 !! (q_shard q, q_inst q)) as [lr1|] eqn:Ek; [done|]. injection E as <-.
      destruct (busy (fh_reps fh0) (q_shard q)) eqn:Eb; [exact Hsame|]. apply (Hset fh0); [done|]. intros Hah. apply Hins; [done|by apply Hnb].
  - destruct (q_members q) as [|rid ms]; [done|]. injection E as <-.
    destruct (hist_of x.2 (q_shard q)) as [|e hs] eqn:Eh; [exact Hsame|]. destruct (_ && _); [|exact Hsame].
    cbn [snd] in Hhist.
    assert (Hks : k.1 ≠ q_shard q).
    { intros Hks. rewrite Hks, lookup_insert in Hhist. unfold hist_of in Eh. rewrite <- Hhist in Eh. cbn in Eh.
      apply (f_equal length) in Eh. cbn in Eh. lia. }
    apply (Hset fh0); [done|]. intros ->. assert (fh0 = fh) as -> by congruence.
    rewrite lookup_delete_ne by (intros <-; by apply Hks). by rewrite learn_local_other.
  - destruct (q_members q) as [|rid ms]; [done|]. destruct (q_addrs q) as [|t ts]; [done|]. injection E as <-.
    destruct (hist_of x.2 (q_shard q)) as [|e hs] eqn:Eh; [exact Hsame|]. destruct (_ && _); [|exact Hsame].
    cbn [snd] in Hhist.
    assert (Hks : k.1 ≠ q_shard q).
    { intros Hks. rewrite Hks, lookup_insert in Hhist. unfold hist_of in Eh. rewrite <- Hhist in Eh. cbn in Eh.
      apply (f_equal length) in Eh. cbn in Eh. lia. }
    apply (Hset fh0); [done|]. intros ->. assert (fh0 = fh) as -> by congruence. by rewrite learn_local_other.
  - destruct (q_members q) as [|rid ms] eqn:Em; [done|]. injection E as <-.
    destruct (fh_reps fh0 !! (q_shard q, rid)) as [lr1|] eqn:Ek; [|exact Hsame]. destruct (lr_running lr1); [|exact Hsame].
    apply (Hset fh0); [done|]. intros ->. assert (fh0 = fh) as -> by congruence.
    rewrite lookup_delete_ne; [done|]. apply (Hkill ltac:(unfold is_kill; by rewrite Ety) rid ms eq_refl).
Qed.

(* a replica that runs after a request ran before it, or is the target of the (CREATE) request *)
Lemma exec_req_started h ccok x q x' a fh' k lr' :
  exec_req h ccok x q = Some x' → x'.1 !! a = Some fh' → fh_reps fh' !! k = Some lr' → lr_running lr' = true →
  (∃ fh lr, x.1 !! a = Some fh ∧ fh_reps fh !! k = Some lr ∧ lr_running lr = true) ∨ (is_create q = true ∧ k = (q_shard q, q_inst q)).
Proof.
  intros E.
  assert (Hsame : x.1 !! a = Some fh' → fh_reps fh' !! k = Some lr' → lr_running lr' = true →
     (∃ fh lr, x.1 !! a = Some fh ∧ fh_reps fh !! k = Some lr ∧ lr_running lr = true) ∨ (is_create q = true ∧ k = (q_shard q, q_inst q))).
  { intros Ha Hk Hr. left. by exists fh', lr'. }
  assert (Hset : ∀ fh reps' (hist' : gmap N (list hentry)), x.1 !! h = Some fh →
     (∀ lr1, reps' !! k = Some lr1 → lr_running lr1 = true →
        (∃ lr, fh_reps fh !! k = Some lr ∧ lr_running lr = true) ∨ (is_create q = true ∧ k = (q_shard q, q_inst q))) →
     (set_reps x.1 h reps', hist').1 !! a = Some fh' → fh_reps fh' !! k = Some lr' → lr_running lr' = true →
     (∃ fh0 lr, x.1 !! a = Some fh0 ∧ fh_reps fh0 !! k = Some lr ∧ lr_running lr = true) ∨ (is_create q = true ∧ k = (q_shard q, q_inst q))).
  { intros fh reps' hist' Hfh Hr. cbn [fst]. rewrite set_reps_lookup, Hfh. destruct (decide (a = h)) as [->|Hne]; [|apply Hsame].
    intros [= <-] Hk Hrun. cbn [fh_reps] in Hk. destruct (Hr lr' Hk Hrun) as [(lr & Hlr & Hrl)|?]; [left; by exists fh, lr|by right]. }
  unfold exec_req in E. destruct (x.1 !! h) as [fh|] eqn:Hfh; [|injection E as <-; exact Hsame].
  assert (Hins : ∀ lr0, is_create q = true →
            ∀ lr1, <[(q_shard q, q_inst q) := lr0]> (fh_reps fh) !! k = Some lr1 → lr_running lr1 = true →
              (∃ lr, fh_reps fh !! k = Some lr ∧ lr_running lr = true) ∨ (is_create q = true ∧ k = (q_shard q, q_inst q))).
  { intros lr0 Hc lr1 Hk Hr. destruct (decide (k = (q_shard q, q_inst q))) as [->|Hne]; [by right|]. rewrite lookup_insert_ne in Hk by done. left. by exists lr1. }
  assert (Hll : ∀ s M v lr1, learn_local (fh_reps fh) s M v !! k = Some lr1 → lr_running lr1 = true →
            ∃ lr, fh_reps fh !! k = Some lr ∧ lr_running lr = true).
  { intros s M v lr1 Hk Hr. apply learn_local_lookup2 in Hk as (lr & Hlr & [->|(_ & Hrl & _)]); by exists lr. }
  destruct (q_type q) eqn:Ety.
  - assert (Hc : is_create q = true) by (unfold is_create; by rewrite Ety).
    destruct (q_join q), (q_restore q); try done.
    + destruct (fh_reps fh !! (q_shard q, q_inst q)) as [lr|] eqn:Ek; injection E as <-.
      * unfold start_existing. destruct (_ || _); [exact Hsame|]. apply (Hset fh); [done|]. by apply Hins.
      * destruct (busy _ _); [exact Hsame|]. apply (Hset fh); [done|]. by apply Hins.
    + destruct (fh_reps fh !! (q_shard q, q_inst q)) as [lr|] eqn:Ek; injection E as <-; [|exact Hsame].
      unfold start_existing. destruct (_ || _); [exact Hsame|]. apply (Hset fh); [done|]. by apply Hins.
    + destruct (fh_reps fh !! (q_shard q, q_inst q)) as [lr|] eqn:Ek; [done|]. injection E as <-.
      destruct (busy _ _); [exact Hsame|]. apply (Hset fh); [done|]. by apply Hins.
  - destruct (q_members q) as [|rid ms]; [done|]. injection E as <-.
    destruct (hist_of x.2 (q_shard q)) as [|e hs]; [exact Hsame|]. destruct (_ && _); [|exact Hsame].
    apply (Hset fh); [done|]. intros lr1 Hk Hr. left. apply lookup_delete_Some in Hk as [_ Hk]. by eapply Hll.
  - destruct (q_members q) as [|rid ms]; [done|]. destruct (q_addrs q) as [|t ts]; [done|]. injection E as <-.
    destruct (hist_of x.2 (q_shard q)) as [|e hs]; [exact Hsame|]. destruct (_ && _); [|exact Hsame].
    apply (Hset fh); [done|]. intros lr1 Hk Hr. left. by eapply Hll.
  - destruct (q_members q) as [|rid ms]; [done|]. injection E as <-.
    destruct (fh_reps fh !! (q_shard q, rid)) as [lr|] eqn:Ek; [|exact Hsame]. destruct (lr_running lr); [|exact Hsame].
    apply (Hset fh); [done|]. intros lr1 Hk Hr. left. apply lookup_delete_Some in Hk as [_ Hk]. by exists lr1.
Qed.

(** * Part 2: the class of fleet states *)
(* what the Drummer DB knows about a live request: its fence is the version of Drummer's view of the shard, and every
   member the view shows has reported *)
Definition vready (d : db) (q : request) : Prop :=
  ∃ c, d_view d !! q_shard q = Some c ∧ s_cci c = q_ccid q ∧ ∀ rid n, s_reps c !! rid = Some n → r_tick n ≠ 0.

(* [Bx]: the pending requests.  As FleetMendAProofs.MendA (without the invariant), with live change requests allowed *)
Record MendP (Bx : N → request → Prop) (st : fstate) : Prop := mkMendP {
  mp_timeok : time_ok (f_db st);
  mp_time : 0 < d_tick (f_db st);
  mp_defined : ∀ s sd, d_shards (f_db st) !! s = Some sd → is_Some (f_hist st !! s) ∧ sd_members sd ≠ [] ∧ sd_app sd ≠ 0;
  mp_viewdef : ∀ s, is_Some (d_view (f_db st) !! s) → is_Some (d_shards (f_db st) !! s) ∧ is_Some (f_hist st !! s);
  mp_hosts : ∀ a fh, f_hosts st !! a = Some fh → fh_up fh = true ∧ fh_out fh = None;
  mp_kill : ∀ k, k ∈ d_kill (f_db st) → k_shard k ≠ 0 ∧ k_replica k ≠ 0 ∧ k_addr k ≠ 0;
  mp_boxes : ∀ a q, Bx a q → bq Bx (vready (f_db st)) (f_hosts st) (f_hist st) a q;
  mp_members : ∀ s h, f_hist st !! s = Some h →
    ∃ c, d_view (f_db st) !! s = Some c ∧ (s_cci c = cur_version h ∨ ∃ v M M' x rest, behind h c v M M' x rest) ∧
         ∀ rid a, cur_members h !! rid = Some a →
           rid ≠ 0 ∧ a ≠ 0 ∧ ∃ fh, f_hosts st !! a = Some fh ∧ (stamped (f_db st) s rid → is_Some (fh_reps fh !! (s, rid)));
  mp_behind : ∀ s h c v M M' x rest, f_hist st !! s = Some h → d_view (f_db st) !! s = Some c → behind h c v M M' x rest →
    (∀ rid n, s_reps c !! rid = Some n → r_tick n ≠ 0) ∧
    (M !! x = None → ∀ a fh lr, f_hosts st !! a = Some fh → fh_reps fh !! (s, x) = Some lr → lr_running lr = false) ∧
    (∃ a fh rid lr, f_hosts st !! a = Some fh ∧ fh_reps fh !! (s, rid) = Some lr ∧ lr_running lr = true ∧ lr_ver lr = v + 1);
  mp_waiting : ∀ s c rid n, d_view (f_db st) !! s = Some c → s_reps c !! rid = Some n → r_tick n = 0 → r_first n ≠ 0;
  mp_onejoin : ∀ s c r1 r2 n1 n2, d_view (f_db st) !! s = Some c → s_reps c !! r1 = Some n1 → s_reps c !! r2 = Some n2 →
    r_tick n1 = 0 → r_tick n2 = 0 → r1 = r2;
  mp_home : ∀ a fh s rid lr h a', f_hosts st !! a = Some fh → fh_reps fh !! (s, rid) = Some lr →
    f_hist st !! s = Some h → cur_members h !! rid = Some a' → a' = a;
  mp_nostray : ∀ a fh s rid lr, f_hosts st !! a = Some fh → fh_reps fh !! (s, rid) = Some lr → lr_running lr = true →
    (∃ h, f_hist st !! s = Some h ∧ is_Some (cur_members h !! rid)) ∨ stray_ok (f_hist st) a s rid lr }.

(* mid-round: no CREATE request is pending for a shard whose history is ahead of Drummer's view *)
Definition nocreate (Bx : N → request → Prop) (st : fstate) : Prop :=
  ∀ s h c v M M' x rest, f_hist st !! s = Some h → d_view (f_db st) !! s = Some c → behind h c v M M' x rest →
    s ≠ 0 ∧ ∀ a q, Bx a q → is_create q = true → q_shard q ≠ s.

Lemma mp_xb Bx d hosts hist seen extra :
  LI d hosts hist seen extra → MendP Bx (mkF d hosts hist seen) → XB Bx (vready d) (hosts, hist).
Proof.
  intros HI HP. split; cbn [fst snd].
  - split.
    + apply (mp_hosts _ _ HP).
    + intros s h rid a Hh Hm. destruct (mp_members _ _ HP s h Hh) as (c & _ & _ & Hmem). destruct (Hmem rid a Hm) as (_ & _ & fh & Hfh & _). by eexists.
    + apply (mp_home _ _ HP).
    + apply (mp_nostray _ _ HP).
    + intros a fh s rid lr h. apply (old_rep (mkF d hosts hist seen)). unfold LoopInv. cbn. eapply LI_shrink; [|exact HI]. intros q Hq. by apply elem_of_nil in Hq.
  - intros s h rid a Hh Hm. destruct (mp_members _ _ HP s h Hh) as (c & _ & _ & Hmem). destruct (Hmem rid a Hm) as (? & ? & _). done.
  - apply (mp_boxes _ _ HP).
Qed.

(** * one request, at the level of the class *)
Lemma mp_exec_req (Bx : N → request → Prop) d seen hosts hist h q qs x' :
  LI d hosts hist seen (q :: qs) → MendP Bx (mkF d hosts hist seen) → nocreate Bx (mkF d hosts hist seen) →
  Bx h q → is_Some (hosts !! h) → exec_req h true (hosts, hist) q = Some x' →
  MendP Bx (mkF d x'.1 x'.2 seen) ∧ nocreate Bx (mkF d x'.1 x'.2 seen).
Proof.
  intros HI HP Hnc HB Hh E.
  pose proof (exec_req_inv _ _ _ _ _ _ _ _ _ HI E) as HI'.
  pose proof (mp_xb Bx d hosts hist seen _ HI HP) as HX.
  destruct (bexec_one d seen Bx (vready d) h q qs (hosts, hist) x' HI HX HB Hh E) as (HX' & Hdm & Hrel). cbn [fst snd] in Hdm, Hrel.
  destruct (exec_req_keys h true (hosts, hist) q x' E) as [Hdom Hkeys]. cbn [fst snd] in Hdom, Hkeys.
  pose proof (xb_hm _ _ _ HX') as HH'. pose proof (xb_nz _ _ _ HX') as Hnz'.
  (* the shards: unchanged, or the shard of q with one entry appended *)
  assert (Hsh : ∀ s h', x'.2 !! s = Some h' →
     hist !! s = Some h' ∨
     (s = q_shard q ∧ ∃ (hs : list hentry) (e : hentry), hist !! s = Some hs ∧ hs ≠ [] ∧ h' = e :: hs ∧ x'.2 = <[s := e :: hs]> hist ∧ e.1 = cur_version hs + 1 ∧
        q_ccid q = cur_version hs ∧ lchange Bx hosts hist h q ∧ vready d q ∧
        ((is_add q = true ∧ ∃ xx t, q_members q = [xx] ∧ e.2 = <[xx := t]> (cur_members hs) ∧ cur_members hs !! xx = None) ∨
         (∃ y, e.2 = delete y (cur_members hs) ∧ is_Some (cur_members hs !! y))) ∧
        ∃ fh' rid lr, x'.1 !! h = Some fh' ∧ fh_reps fh' !! (s, rid) = Some lr ∧ lr_running lr = true ∧ lr_ver lr = e.1 ∧ is_Some (e.2 !! rid))).
  { intros s h' Hh'. destruct Hrel as [Heq|(hs & e & Hs & Hne & Heq & He & Hfq & Hl & HR & Hkind & Hknow)]; [left; by rewrite <- Heq|].
    destruct (decide (s = q_shard q)) as [->|Hns].
    - right. split; [done|]. exists hs, e. rewrite Heq, lookup_insert in Hh'. injection Hh' as <-. done.
    - left. rewrite Heq, lookup_insert_ne in Hh' by done. done. }
  assert (Hsh2 : ∀ s h0, hist !! s = Some h0 → is_Some (x'.2 !! s)).
  { intros s h0 Hh0. destruct Hrel as [->|(hs & e & Hs & Hne & -> & _)]; [by eexists|].
    destruct (decide (s = q_shard q)) as [->|Hns]; [rewrite lookup_insert; by eexists|rewrite lookup_insert_ne by done; by eexists]. }
  (* a live request that has been applied was behind nothing *)
  assert (Hcur : ∀ hs c, hist !! q_shard q = Some hs → q_ccid q = cur_version hs → vready d q → d_view d !! q_shard q = Some c →
            s_cci c = cur_version hs ∧ ∀ rid n, s_reps c !! rid = Some n → r_tick n ≠ 0).
  { intros hs c Hs Hfq (c0 & Hc0 & Hcc & Hst) Hc. assert (c0 = c) as -> by congruence. split; [congruence|done]. }
  split; [split; cbn [f_db f_hosts f_hist f_seen]|].
  - apply (mp_timeok _ _ HP).
  - apply (mp_time _ _ HP).
  - intros s sd Hsd. destruct (mp_defined _ _ HP s sd Hsd) as ([h0 Hh0] & ? & ?). split; [by apply (Hsh2 s h0)|done].
  - intros s Hv. destruct (mp_viewdef _ _ HP s Hv) as (? & [h0 Hh0]). split; [done|by apply (Hsh2 s h0)].
  - apply (hm_up _ _ HH').
  - apply (mp_kill _ _ HP).
  - apply (xb_b _ _ _ HX').
  - (* members *)
    intros s h' Hh'. destruct (Hsh s h' Hh') as [Hold|(-> & hs & e & Hs & Hne & -> & Hx2 & He & Hfq & Hl & HR & Hkind & Hknow)].
    + destruct (mp_members _ _ HP s h' Hold) as (c & Hc & Hcase & Hmem). cbn [f_db f_hosts f_hist] in Hc, Hcase, Hmem.
      exists c. split; [done|]. split; [done|]. intros rid a Hm. destruct (Hmem rid a Hm) as (Hr0 & Ha0 & fh & Hfh & Hdata).
      split; [done|]. split; [done|]. destruct (proj2 (Hdom a) ltac:(by eexists)) as [fh' Hfh']. exists fh'. split; [done|].
      intros Hst. destruct (Hdm a fh (s, rid) Hfh (Hdata Hst)) as (fh2 & Hfh2 & Hk2); [exists h'; cbn; split; [done|by eexists]|]. congruence.
    + destruct (mp_members _ _ HP (q_shard q) hs Hs) as (c & Hc & _ & Hmem). cbn [f_db f_hosts f_hist] in Hc, Hmem.
      destruct (Hcur hs c Hs Hfq HR Hc) as [Hcc Hstamped].
      exists c. split; [done|]. split.
      { right. destruct hs as [|[v M] rest]; [done|]. destruct e as [ev eM]. cbn [fst snd cur_version cur_members] in *.
        destruct Hkind as [(_ & xx & t & _ & -> & Hnx)|(y & -> & Hy)].
        - exists v, M, (<[xx := t]> M), xx, rest. split; [by rewrite He|]. split; [done|]. left. split; [done|]. by exists t.
        - exists v, M, (delete y M), y, rest. split; [by rewrite He|]. split; [done|]. by right. }
      intros rid a Hm. destruct (Hnz' (q_shard q) (e :: hs) rid a Hh' Hm) as [Hr0 Ha0]. split; [done|]. split; [done|].
      destruct (hm_hosts _ _ HH' (q_shard q) (e :: hs) rid a Hh' Hm) as [fh' Hfh']. exists fh'. split; [done|].
      intros Hst.
      (* a stamped member is a member of the membership the view shows: the old one *)
      assert (Hview : r_addr <$> s_reps c = cur_members hs).
      { destruct (li_view _ _ _ _ _ HI (q_shard q) c Hc) as (_ & HHv & _). unfold Hf in HHv.
        assert (Hho : Fleet.hist_of hist (q_shard q) = hs) by (unfold Fleet.hist_of; by rewrite Hs). rewrite Hho in HHv.
        rewrite Hcc in HHv. destruct hs as [|[v M] rest]; [done|]. cbn in HHv |- *. rewrite N.eqb_refl in HHv. by injection HHv as <-. }
      destruct Hst as (n & Hrec & Hnzt). pose proof Hrec as Hrec0. apply rec_of_Some in Hrec as (c0 & Hc0 & Hn). cbn [f_db] in Hc0. assert (c0 = c) as -> by congruence.
      assert (Hold : cur_members hs !! rid = Some (r_addr n)) by (rewrite <- Hview, lookup_fmap, Hn; done).
      cbn [cur_members snd] in Hm.
      assert (Ha : a = r_addr n).
      { destruct Hkind as [(_ & xx & t & _ & Hee & Hnx)|(y & Hee & Hy)]; rewrite Hee in Hm.
        - assert (rid ≠ xx) by (intros ->; congruence). rewrite lookup_insert_ne in Hm by done. congruence.
        - apply lookup_delete_Some in Hm as [_ Hm]. congruence. }
      subst a. destruct (Hmem rid (r_addr n) Hold) as (_ & _ & fh & Hfh & Hdata).
      destruct (Hdm (r_addr n) fh (q_shard q, rid) Hfh) as (fh2 & Hfh2 & Hk2).
      { apply Hdata. exists n. done. }
      { exists (e :: hs). cbn. split; [done|]. by eexists. }
      congruence.
  - (* behind *)
    intros s h' c v M M' x rest Hh' Hc Hb. cbn [f_db] in Hc.
    destruct (Hsh s h' Hh') as [Hold|(-> & hs & e & Hs & Hne & -> & Hx2 & He & Hfq & Hl & HR & Hkind & Hknow)].
    + destruct (mp_behind _ _ HP s h' c v M M' x rest Hold Hc Hb) as (Hst & Hxrun & a0 & fh0 & rid0 & lr0 & Hfh0 & Hk0 & Hrun0 & Hver0).
      cbn [f_db f_hosts f_hist] in Hst, Hxrun, Hfh0.
      assert (Hnoc : is_create q = true → q_shard q ≠ s) by (intros Hcq; by apply (proj2 (Hnc s h' c v M M' x rest Hold Hc Hb) h q HB Hcq)).
      assert (Hsame : x'.2 !! s = hist !! s) by congruence.
      split; [done|]. split.
      * intros HMx a fh' lr' Hfh' Hk' . destruct (lr_running lr') eqn:Er; [|done]. exfalso.
        destruct (exec_req_started h true (hosts, hist) q x' a fh' (s, x) lr' E Hfh' Hk' Er) as [(fh & lr & Hfh & Hk & Hr)|[Hcq Heq]].
        -- cbn [fst] in Hfh. rewrite (Hxrun HMx a fh lr Hfh Hk) in Hr. done.
        -- injection Heq as Heq _. by apply (Hnoc Hcq).
      * (* the replica that knows the new version is a member, nothing touches it *)
        assert (Hmem0 : ∃ b, M' !! rid0 = Some b).
        { destruct (mp_nostray _ _ HP a0 fh0 s rid0 lr0 Hfh0 Hk0 Hrun0) as [(h1 & Hh1 & [b Hb1])|(h1 & Hh1 & _ & Hlt & _)];
            cbn [f_hist] in Hh1; assert (h1 = h') as -> by congruence; destruct Hb as (-> & _); cbn in *; [by exists b|lia]. }
        destruct (exec_req_keep h (hosts, hist) q x' a0 fh0 (s, rid0) lr0 E Hfh0 Hk0 Hrun0 Hsame) as (fh1 & Hfh1 & Hk1).
        { intros Hkq y ms Hy Heq. injection Heq as Hsq <-.
          destruct (mp_boxes _ _ HP h q HB) as [[[[Hg|[(Hch & _)|(_ & y' & Hy' & Hd)]]|[(Hcr & _)|(Hres & _)]] _]|[(Hch & _) _]].
          - destruct Hg as (Hres & _). unfold is_restore, is_create in Hres. unfold is_kill in Hkq. by destruct (q_type q).
          - unfold is_change, is_add, is_delete in Hch. unfold is_kill in Hkq. by destruct (q_type q).
          - cbn [f_hist] in Hd. rewrite Hsq in Hd. specialize (Hd h' Hold). assert (y' = y) as -> by congruence.
            destruct Hmem0 as [b Hb0]. destruct Hb as (-> & _). cbn in Hd. apply is_member_false in Hd. congruence.
          - unfold is_create in Hcr. unfold is_kill in Hkq. by destruct (q_type q).
          - unfold is_restore, is_create in Hres. unfold is_kill in Hkq. by destruct (q_type q).
          - unfold is_change, is_add, is_delete in Hch. unfold is_kill in Hkq. by destruct (q_type q). }
        exists a0, fh1, rid0, lr0. done.
    + (* the shard whose history has just grown *)
      destruct (mp_members _ _ HP (q_shard q) hs Hs) as (c0 & Hc0 & _). cbn [f_db] in Hc0. assert (c0 = c) as -> by congruence.
      destruct (Hcur hs c Hs Hfq HR Hc) as [Hcc Hstamped].
      destruct Hb as (Hhh & Hv & Hkb). destruct hs as [|[v0 M0] rest0]; [done|]. destruct e as [ev eM]. injection Hhh as -> -> -> -> ->.
      cbn [cur_version cur_members fst snd] in *.
      split; [done|]. split.
      * intros HMx a fh' lr' Hfh' Hk'. exfalso.
        destruct Hkind as [(Hia & xx & t & Hmm & Hee & Hnx)|(y & Hee & Hy)].
        -- (* x is the added id: it has no data *)
           assert (x = xx) as ->.
           { destruct Hkb as [[_ [t' HM']]|[[? HMx'] _]]; [|congruence]. rewrite Hee in HM'.
             destruct (decide (x = xx)) as [?|Hne']; [done|]. exfalso.
             assert (Hl1 : <[xx := t]> M !! x = None) by (by rewrite lookup_insert_ne).
             rewrite HM', lookup_insert in Hl1. done. }
           destruct Hl as (_ & _ & _ & _ & Hadd & _). destruct (Hadd Hia) as (x0 & t0 & Hm0 & _ & _ & _ & _ & _ & _ & Hnodata).
           assert (x0 = xx) as -> by congruence.
           destruct (Hkeys a fh' (q_shard q, xx) Hfh' ltac:(by eexists)) as [(fh0 & Hfh0 & [lr0 Hk0])|[Hcq _]].
           ++ by rewrite (Hnodata a fh0 Hfh0) in Hk0.
           ++ unfold is_add in Hia. unfold is_create in Hcq. by destruct (q_type q).
        -- destruct Hkb as [[HMn [t' HM']]|[[? HMx'] _]]; [|congruence]. rewrite Hee in HM'.
           assert (Hl1 : delete y M !! x = Some t') by (rewrite HM'; by rewrite lookup_insert).
           apply lookup_delete_Some in Hl1 as [_ Hl1]. congruence.
      * destruct Hknow as (fh' & rid & lr & Hfh' & Hk' & Hr' & Hv' & _). exists h, fh', rid, lr. split; [done|]. split; [done|]. split; [done|]. lia.
  - apply (mp_waiting _ _ HP).
  - apply (mp_onejoin _ _ HP).
  - apply (hm_home _ _ HH').
  - apply (hm_nostray _ _ HH').
  - (* nocreate *)
    intros s h' c v M M' x rest Hh' Hc Hb. cbn [f_hist f_db] in Hh', Hc.
    destruct (Hsh s h' Hh') as [Hold|(-> & hs & e & Hs & Hne & -> & Hx2 & He & Hfq & Hl & HR & Hkind & Hknow)].
    + by apply (Hnc s h' c v M M' x rest Hold Hc Hb).
    + destruct Hl as (_ & _ & [_ Hsnz] & HBc & _). split; [done|]. intros a0 q0. by apply (HBc a0 q0).
Qed.

(* exec_req touches the replica table of the executing NodeHost only *)
Lemma exec_req_shape h ccok x q x' :
  exec_req h ccok x q = Some x' → x' = x ∨ ∃ reps' hist', x' = (set_reps x.1 h reps', hist').
Proof.
  unfold exec_req. destruct (x.1 !! h) as [fh|]; [|intros [= <-]; by left].
  destruct (q_type q).
  - destruct (q_join q), (q_restore q); try done.
    + destruct (fh_reps fh !! _); intros [= <-]; [unfold start_existing; destruct (_ || _); [by left|right; eauto]|].
      destruct (busy _ _); [by left|right; eauto].
    + destruct (fh_reps fh !! _); intros [= <-]; [|by left]. unfold start_existing; destruct (_ || _); [by left|right; eauto].
    + destruct (fh_reps fh !! _); [done|]. intros [= <-]. destruct (busy _ _); [by left|right; eauto].
  - destruct (q_members q); [done|]. intros [= <-]. destruct (hist_of x.2 (q_shard q)); [by left|]. destruct (_ && _); [right; eauto|by left].
  - destruct (q_members q); [done|]. destruct (q_addrs q); [done|]. intros [= <-].
    destruct (hist_of x.2 (q_shard q)); [by left|]. destruct (_ && _); [right; eauto|by left].
  - destruct (q_members q); [done|]. intros [= <-]. destruct (fh_reps fh !! _) as [lr|]; [|by left]. destruct (lr_running lr); [right; eauto|by left].
Qed.

Lemma exec_all_frame h ccok qs : ∀ x x',
  exec_all h ccok x qs = Some x' →
  ∀ b, match x.1 !! b with
       | Some fh => ∃ fh', x'.1 !! b = Some fh' ∧ fh_queue fh' = fh_queue fh ∧ fh_up fh' = fh_up fh ∧ fh_out fh' = fh_out fh
       | None => x'.1 !! b = None
       end.
Proof.
  induction qs as [|q qs IH]; intros x x' E b; cbn [exec_all] in E.
  - injection E as <-. destruct (x.1 !! b) as [fh|]; [by exists fh|done].
  - destruct (exec_req h ccok x q) as [x1|] eqn:E1; [|done]. specialize (IH x1 x' E b).
    assert (Hstep : match x.1 !! b with
                    | Some fh => ∃ fh', x1.1 !! b = Some fh' ∧ fh_queue fh' = fh_queue fh ∧ fh_up fh' = fh_up fh ∧ fh_out fh' = fh_out fh
                    | None => x1.1 !! b = None end).
    { destruct (exec_req_shape h ccok x q x1 E1) as [->|(reps' & hist' & ->)]; [destruct (x.1 !! b) as [fh|]; [by exists fh|done]|].
      cbn [fst]. rewrite set_reps_lookup. destruct (x.1 !! h) as [fhh|] eqn:Ehh.
      - destruct (decide (b = h)) as [->|Hne]; [rewrite Ehh; by eexists|]. destruct (x.1 !! b) as [fh|]; [by exists fh|done].
      - destruct (x.1 !! b) as [fh|]; [by exists fh|done]. }
    destruct (x.1 !! b) as [fh|].
    + destruct Hstep as (fh1 & Hfh1 & Hq1 & Hu1 & Ho1). rewrite Hfh1 in IH. destruct IH as (fh' & Hfh' & Hq & Hu & Ho).
      exists fh'. split; [done|]. split; [congruence|]. split; congruence.
    + by rewrite Hstep in IH.
Qed.

(** * a NodeHost executes its queue *)
Lemma mp_exec_all (Bx : N → request → Prop) d seen h qs : ∀ hosts hist x',
  LI d hosts hist seen qs → MendP Bx (mkF d hosts hist seen) → nocreate Bx (mkF d hosts hist seen) →
  (∀ q, q ∈ qs → Bx h q) → is_Some (hosts !! h) → exec_all h true (hosts, hist) qs = Some x' →
  LI d x'.1 x'.2 seen [] ∧ MendP Bx (mkF d x'.1 x'.2 seen) ∧ nocreate Bx (mkF d x'.1 x'.2 seen).
Proof.
  induction qs as [|q qs IH]; intros hosts hist x' HI HP Hnc HB Hh E; cbn [exec_all] in E.
  - by injection E as <-.
  - destruct (exec_req h true (hosts, hist) q) as [[hosts1 hist1]|] eqn:E1; [|done].
    destruct (mp_exec_req Bx d seen hosts hist h q qs _ HI HP Hnc (HB q ltac:(left)) Hh E1) as [HP1 Hnc1]. cbn [fst snd] in HP1, Hnc1.
    apply (IH hosts1 hist1 x'); [|done|done| | |done].
    + apply (exec_req_inv _ _ _ _ _ _ _ _ _ HI E1).
    + intros q0 Hq0. apply HB. by right.
    + destruct (exec_req_keys h true (hosts, hist) q _ E1) as [Hdom _]. by apply Hdom.
Qed.

(* weakening: fewer pending requests; NodeHost records that differ in the queue only *)
Lemma lchange_shrink (B B' : N → request → Prop) hosts hist a q :
  (∀ a' q', B' a' q' → B a' q') → lchange B hosts hist a q → lchange B' hosts hist a q.
Proof. intros Hsub (H1 & H2 & H2' & H3 & H4). split; [done|]. split; [done|]. split; [done|]. split; [|done]. intros a' q' HB'. apply (H3 a' q'). by apply Hsub. Qed.

Lemma mp_shrink (B B' : N → request → Prop) st : (∀ a q, B' a q → B a q) → MendP B st → MendP B' st.
Proof.
  intros Hsub HP. destruct HP. split; try done.
  intros a q HB'. destruct (mp_boxes0 a q (Hsub a q HB')) as [?|[Hl HR]]; [by left|right]. split; [|done]. by apply (lchange_shrink B).
Qed.

Lemma nocreate_shrink (B B' : N → request → Prop) st : (∀ a q, B' a q → B a q) → nocreate B st → nocreate B' st.
Proof. intros Hsub Hnc s h c v M M' x rest Hh Hc Hb. destruct (Hnc s h c v M M' x rest Hh Hc Hb) as [? Hn]. split; [done|]. intros a q HB'. apply (Hn a q). by apply Hsub. Qed.

Lemma mp_same_reps (B : N → request → Prop) d hosts hosts' hist seen :
  (∀ b, match hosts !! b with
        | Some fh => ∃ fh', hosts' !! b = Some fh' ∧ fh_reps fh' = fh_reps fh ∧ fh_up fh' = true ∧ fh_out fh' = None
        | None => hosts' !! b = None end) →
  MendP B (mkF d hosts hist seen) → MendP B (mkF d hosts' hist seen).
Proof.
  intros Hs HP.
  assert (Hto : ∀ b fh, hosts !! b = Some fh → ∃ fh', hosts' !! b = Some fh' ∧ fh_reps fh' = fh_reps fh).
  { intros b fh Hb. specialize (Hs b). rewrite Hb in Hs. destruct Hs as (fh' & ? & ? & _). by exists fh'. }
  assert (Hfrom : ∀ b fh', hosts' !! b = Some fh' → ∃ fh, hosts !! b = Some fh ∧ fh_reps fh' = fh_reps fh ∧ fh_up fh' = true ∧ fh_out fh' = None).
  { intros b fh' Hb. specialize (Hs b). destruct (hosts !! b) as [fh|]; [|congruence]. destruct Hs as (fh2 & H2 & ? & ? & ?).
    assert (fh2 = fh') as -> by congruence. by exists fh. }
  destruct HP. split; cbn [f_db f_hosts f_hist f_seen] in *; try done.
  - intros b fh' Hb. destruct (Hfrom b fh' Hb) as (_ & _ & _ & ? & ?). done.
  - intros a q HB. destruct (mp_boxes0 a q HB) as [?|[Hl HR]]; [by left|right]. split; [|done].
    apply (lchange_frame B hosts hosts' hist hist); [done| | |done].
    + intros a0 [fh0 H0]. destruct (Hto a0 fh0 H0) as (fh' & -> & _). by eexists.
    + intros a0 fh' k H0 Hk _. destruct (Hfrom a0 fh' H0) as (fh & Hfh & Hr & _). exists fh. by rewrite <- Hr.
  - intros s h Hh. destruct (mp_members0 s h Hh) as (c & Hc & Hcase & Hmem). exists c. split; [done|]. split; [done|].
    intros rid a Hm. destruct (Hmem rid a Hm) as (? & ? & fh & Hfh & Hdata). split; [done|]. split; [done|].
    destruct (Hto a fh Hfh) as (fh' & Hfh' & Hr). exists fh'. split; [done|]. by rewrite Hr.
  - intros s h c v M M' x rest Hh Hc Hb. destruct (mp_behind0 s h c v M M' x rest Hh Hc Hb) as (H1 & H2 & a0 & fh0 & rid & lr & H3 & H4 & H5).
    split; [done|]. split.
    + intros HMx a fh' lr' Ha Hk. destruct (Hfrom a fh' Ha) as (fh & Hfh & Hr & _). rewrite Hr in Hk. by apply (H2 HMx a fh lr').
    + destruct (Hto a0 fh0 H3) as (fh' & Hfh' & Hr). exists a0, fh', rid, lr. rewrite Hr. done.
  - intros a fh' s rid lr h a' Ha Hk. destruct (Hfrom a fh' Ha) as (fh & Hfh & Hr & _). rewrite Hr in Hk. by apply (mp_home0 a fh s rid lr h a').
  - intros a fh' s rid lr Ha Hk. destruct (Hfrom a fh' Ha) as (fh & Hfh & Hr & _). rewrite Hr in Hk. by apply (mp_nostray0 a fh s rid lr).
Qed.

(** * Part 3: the events of a healthy round *)
(* the class at a round boundary, and in the middle of a round *)
(* the requests that will be executed: in Requests or in a NodeHost queue.  (In a healthy round nothing is delivered
   from Outgoing: the copies kept there are replaced at the NodeHost's next report.) *)
Definition nonout (st : fstate) (a : N) (q : request) : Prop :=
  (∃ qs, d_requests (f_db st) !! a = Some qs ∧ q ∈ qs) ∨ (∃ fh, f_hosts st !! a = Some fh ∧ q ∈ fh_queue fh).
Definition out_hosts (st : fstate) : Prop := ∀ a, is_Some (d_outgoing (f_db st) !! a) → is_Some (f_hosts st !! a).

Definition MendB (st : fstate) : Prop := LoopInv st ∧ MendP (nonout st) st ∧ out_hosts st.
Definition MendX (st : fstate) : Prop := MendB st ∧ nocreate (nonout st) st.

Section MendB.
Variable P : params.

Lemma mendx_exec st a st' :
  MendX st → fstep P st (EExec a true) = FOk st' →
  MendX st' ∧ f_db st' = f_db st ∧
  (∀ b, match f_hosts st !! b with
        | Some fh => ∃ fh', f_hosts st' !! b = Some fh' ∧ fh_queue fh' = (if decide (b = a) then [] else fh_queue fh)
        | None => f_hosts st' !! b = None end).
Proof.
  destruct st as [d hosts hist seen]. intros [(HI & HP & Hoh) Hnc]. cbn [fstep f_db f_hosts f_hist f_seen].
  destruct (hosts !! a) as [fh|] eqn:Ha; [|done]. destruct (mp_hosts _ _ HP a fh Ha) as [Hup Hout]. cbn [f_hosts] in Hup. rewrite Hup.
  set (hosts0 := <[a := mkFHost true (fh_region fh) (fh_reps fh) [] (fh_out fh)]> hosts).
  destruct (exec_all a true (hosts0, hist) (fh_queue fh)) as [x|] eqn:Ex; [|done]. intros [= <-].
  set (st := mkF d hosts hist seen) in *.
  pose proof (exec_start st a fh HI Ha) as HI0. cbn [f_db f_hosts f_hist f_seen st] in HI0. fold hosts0 in HI0.
  assert (HP0 : MendP (nonout st) (mkF d hosts0 hist seen)).
  { apply (mp_same_reps _ d hosts hosts0 hist seen); [|exact HP]. intros b. unfold hosts0. destruct (decide (b = a)) as [->|Hne].
    - rewrite Ha, lookup_insert. eexists. split; [done|]. cbn. done.
    - rewrite lookup_insert_ne by done. destruct (hosts !! b) as [fhb|] eqn:Hb; [|done]. exists fhb. split; [done|]. split; [done|].
      apply (mp_hosts _ _ HP b fhb Hb). }
  destruct (mp_exec_all (nonout st) d seen a (fh_queue fh) hosts0 hist x HI0 HP0 Hnc) as (HI' & HP' & Hnc'); [| |done|].
  { intros q Hq. right. exists fh. done. }
  { unfold hosts0. rewrite lookup_insert. by eexists. }
  pose proof (exec_all_frame a true (fh_queue fh) (hosts0, hist) x Ex) as Hfr. cbn [fst] in Hfr.
  assert (Hq : ∀ b, match hosts !! b with
        | Some fhb => ∃ fh', x.1 !! b = Some fh' ∧ fh_queue fh' = (if decide (b = a) then [] else fh_queue fhb)
        | None => x.1 !! b = None end).
  { intros b. specialize (Hfr b). unfold hosts0 in Hfr. destruct (decide (b = a)) as [->|Hne].
    - rewrite lookup_insert in Hfr. rewrite Ha. destruct Hfr as (fh2 & Hfh2 & Hq2 & _). by exists fh2.
    - rewrite lookup_insert_ne in Hfr by done. destruct (hosts !! b) as [fhb|]; [|done]. destruct Hfr as (fh2 & Hfh2 & Hq2 & _). by exists fh2. }
  assert (Hsub : ∀ b q, nonout (mkF d x.1 x.2 seen) b q → nonout st b q).
  { intros b q [Hq0|(fh' & Hb & Hin)]; [by left|]. cbn [f_hosts] in Hb. specialize (Hq b).
    destruct (hosts !! b) as [fhb|] eqn:Hbb; [|congruence]. destruct Hq as (fh2 & Hfh2 & Hq2). assert (fh2 = fh') as -> by congruence.
    rewrite Hq2 in Hin. destruct (decide (b = a)); [by apply elem_of_nil in Hin|]. right. by exists fhb. }
  split; [|split; [done|exact Hq]]. split; [split; [|split]|].
  - exact HI'.
  - by apply (mp_shrink (nonout st)).
  - intros b Hb. specialize (Hq b). cbn [f_hosts]. destruct (Hoh b Hb) as [fhb Hfhb]. cbn [st f_hosts] in Hfhb. rewrite Hfhb in Hq.
    destruct Hq as (fh2 & -> & _). by eexists.
  - by apply (nocreate_shrink (nonout st)).
Qed.

Lemma mendx_tick st st' :
  MendX st → fstep P st ETick = FOk st' →
  MendX st' ∧ f_db st' = set_tick (f_db st) (d_tick (f_db st) + p_step P) ∧ f_hosts st' = f_hosts st ∧ f_hist st' = f_hist st.
Proof.
  intros [(HI & HP & Hoh) Hnc] E. pose proof (step_tick P st st' HI E) as HI'. pose proof (fstep_time_ok P st ETick st' E (mp_timeok _ _ HP)) as Hto.
  cbn [fstep] in E. unfold db_step in E. rewrite (li_failed _ _ _ _ _ HI) in E. unfold apply_tick in E.
  cbn [d_deadline set_tick] in E. rewrite (li_deadline _ _ _ _ _ HI) in E. cbn [N.ltb andb] in E. injection E as <-.
  split; [|done]. split; [split; [exact HI'|split]|].
  - destruct HP. split; cbn [set_db f_db f_hosts f_hist f_seen] in *; try done. cbn. lia.
  - exact Hoh.
  - exact Hnc.
Qed.

Lemma mendx_learn st a s r v st' :
  MendX st → is_Some (cur_members (hist_of (f_hist st) s) !! r) → fstep P st (ELearn a s r v) = FOk st' →
  MendX st' ∧ f_db st' = f_db st ∧ f_hist st' = f_hist st ∧
  (∀ b, match f_hosts st !! b with
        | Some fhb => ∃ fh', f_hosts st' !! b = Some fh' ∧ fh_queue fh' = fh_queue fhb
        | None => f_hosts st' !! b = None end).
Proof.
  intros [(HI & HP & Hoh) Hnc] Hmem E. pose proof (step_inv P st (ELearn a s r v) st' HI I E) as HI'.
  destruct st as [d hosts hist seen]. cbn [fstep f_db f_hosts f_hist f_seen] in *.
  destruct (hosts !! a) as [fh|] eqn:Ha; [|done]. destruct (fh_reps fh !! (s, r)) as [lr|] eqn:Ek; [|done].
  destruct (fh_up fh && lr_running lr && (lr_ver lr <? v) && _) eqn:Econd; [|done]. injection E as <-.
  apply andb_true_iff in Econd as [Econd Hent]. apply andb_true_iff in Econd as [Econd Hlt]. apply andb_true_iff in Econd as [Hup Hrun].
  apply bool_decide_eq_true in Hent. apply N.ltb_lt in Hlt.
  unfold hist_of in Hmem, Hent. destruct (hist !! s) as [h|] eqn:Hh; [|by destruct Hmem]. cbn [default from_option id] in Hmem, Hent.
  pose proof (li_hist _ _ _ _ _ HI s h Hh) as Hw. cbn in Hw.
  assert (Hrem : removed_at (hist_of hist s) r v = false).
  { unfold hist_of. rewrite Hh. cbn [default from_option id]. by apply (member_not_removed_wf _ h r v Hw). }
  assert (Hvle : v ≤ cur_version h).
  { destruct Hent as [Mv Hent]. apply entry_at_Some in Hent. apply (hist_wf_le _ _ Hw _ Hent). }
  unfold set_host in *. cbn [f_db f_hosts f_hist f_seen] in *. rewrite Hrem in *. cbn [negb] in *.
  set (reps' := <[(s, r) := mkLRep true v]> (fh_reps fh)) in *.
  set (fh' := mkFHost true (fh_region fh) reps' (fh_queue fh) (fh_out fh)) in *.
  set (st := mkF d hosts hist seen). set (st' := mkF d (<[a := fh']> hosts) hist seen).
  assert (Hl' : ∀ b fhb', <[a := fh']> hosts !! b = Some fhb' → (b = a ∧ fhb' = fh') ∨ (b ≠ a ∧ hosts !! b = Some fhb')).
  { intros b fhb'. destruct (decide (b = a)) as [->|Hne]; [rewrite lookup_insert; intros [= <-]; by left|rewrite lookup_insert_ne by done; by right]. }
  assert (Hkeys : ∀ k, is_Some (reps' !! k) ↔ is_Some (fh_reps fh !! k)).
  { intros k. unfold reps'. destruct (decide (k = (s, r))) as [->|Hne]; [rewrite lookup_insert, Ek; split; intros _; by eexists|by rewrite lookup_insert_ne]. }
  assert (Hsub : ∀ b q, nonout st' b q → nonout st b q).
  { intros b q [Hq|(fhb' & Hb & Hin)]; [by left|]. right. cbn [st' f_hosts] in Hb.
    destruct (Hl' b fhb' Hb) as [[-> ->]|[Hne Hb0]]; [exists fh; done|by exists fhb']. }
  split; [|split; [done|split; [done|]]].
  2:{ intros b. cbn [f_hosts]. destruct (decide (b = a)) as [->|Hne]; [rewrite Ha, lookup_insert; by eexists|].
      rewrite lookup_insert_ne by done. destruct (hosts !! b) as [fhb|]; [by exists fhb|done]. }
  split; [split; [exact HI'|split]|by apply (nocreate_shrink (nonout st))].
  2:{ intros b Hb. destruct (Hoh b Hb) as [fhb Hfhb]. cbn [st' f_hosts f_db] in *.
      destruct (decide (b = a)) as [->|Hne]; [rewrite lookup_insert; by eexists|rewrite lookup_insert_ne by done; by eexists]. }
  apply (mp_shrink (nonout st)); [exact Hsub|].
  destruct (mp_hosts _ _ HP a fh Ha) as [_ Hout]. cbn [f_hosts] in Hout.
  destruct HP. split; cbn [st' f_db f_hosts f_hist f_seen] in *; try done.
  - intros b fhb' Hb. destruct (Hl' b fhb' Hb) as [[-> ->]|[Hne Hb0]]; [done|by apply (mp_hosts0 b)].
  - intros b q HB. destruct (mp_boxes0 b q HB) as [?|[Hl HR]]; [by left|right]. split; [|done].
    apply (lchange_frame _ hosts _ hist hist); [done| | |done].
    + intros a0 [fh0 H0]. destruct (decide (a0 = a)) as [->|Hne]; [rewrite lookup_insert; by eexists|rewrite lookup_insert_ne by done; by eexists].
    + intros a0 fhb' k H0 Hk _. destruct (Hl' a0 fhb' H0) as [[-> ->]|[Hne Hb0]]; [exists fh; split; [done|]; by apply Hkeys|by exists fhb'].
  - intros s0 h0 Hh0. destruct (mp_members0 s0 h0 Hh0) as (c & Hc & Hcase & Hm0). exists c. split; [done|]. split; [done|].
    intros rid b Hm. destruct (Hm0 rid b Hm) as (? & ? & fhb & Hfhb & Hdata). split; [done|]. split; [done|].
    destruct (decide (b = a)) as [->|Hne].
    + rewrite lookup_insert. exists fh'. split; [done|]. intros Hst. assert (fhb = fh) as -> by congruence. apply Hkeys. by apply Hdata.
    + rewrite lookup_insert_ne by done. by exists fhb.
  - intros s0 h0 c v0 M M' x rest Hh0 Hc Hb. destruct (mp_behind0 s0 h0 c v0 M M' x rest Hh0 Hc Hb) as (H1 & H2 & a0 & fh0 & rid & lr0 & H3 & H4 & H5 & H6).
    split; [done|]. split.
    + intros HMx b fhb' lr' Hb' Hk'. destruct (Hl' b fhb' Hb') as [[-> ->]|[Hne Hb0]]; [|by apply (H2 HMx b fhb' lr')].
      cbn [fh' fh_reps] in Hk'. unfold reps' in Hk'. destruct (decide ((s0, x) = (s, r))) as [Heq|Hne].
      * injection Heq as -> ->. rewrite (H2 HMx a fh lr Ha Ek) in Hrun. done.
      * rewrite lookup_insert_ne in Hk' by done. by apply (H2 HMx a fh lr').
    + destruct (decide (a0 = a ∧ (s0, rid) = (s, r))) as [[-> Heq]|Hne].
      * exfalso. injection Heq as -> ->. assert (fh0 = fh) as -> by congruence. assert (lr0 = lr) as -> by congruence.
        assert (h0 = h) as -> by congruence. destruct Hb as (-> & _). cbn in Hvle. lia.
      * destruct (decide (a0 = a)) as [->|Hna].
        -- assert (fh0 = fh) as -> by congruence. exists a, fh', rid, lr0. rewrite lookup_insert. split; [done|]. cbn [fh' fh_reps]. unfold reps'.
           rewrite lookup_insert_ne; [done|]. intros Heq. apply Hne. done.
        -- exists a0, fh0, rid, lr0. rewrite lookup_insert_ne by done. done.
  - intros b fhb' s0 rid lr0 h0 a' Hb' Hk'. destruct (Hl' b fhb' Hb') as [[-> ->]|[Hne Hb0]]; [|by apply (mp_home0 b fhb' s0 rid lr0 h0 a')].
    cbn [fh' fh_reps] in Hk'. assert (is_Some (fh_reps fh !! (s0, rid))) as [lr1 Hk1] by (apply Hkeys; by eexists).
    by apply (mp_home0 a fh s0 rid lr1 h0 a').
  - intros b fhb' s0 rid lr0 Hb' Hk' Hr'. destruct (Hl' b fhb' Hb') as [[-> ->]|[Hne Hb0]]; [|by apply (mp_nostray0 b fhb' s0 rid lr0)].
    cbn [fh' fh_reps] in Hk'. unfold reps' in Hk'. destruct (decide ((s0, rid) = (s, r))) as [Heq|Hne].
    + injection Heq as -> ->. left. by exists h.
    + rewrite lookup_insert_ne in Hk' by done. by apply (mp_nostray0 a fh s0 rid lr0).
Qed.
(* at most one replica of a shard runs on a NodeHost *)
Lemma mendb_one_running st a fh s r1 r2 l1 l2 :
  LoopInv st → MendP (nonout st) st → f_hosts st !! a = Some fh → fh_reps fh !! (s, r1) = Some l1 → fh_reps fh !! (s, r2) = Some l2 →
  lr_running l1 = true → lr_running l2 = true →
  (∀ h, f_hist st !! s = Some h → cur_version h ≤ lr_ver l1 ∧ cur_version h ≤ lr_ver l2) → r1 = r2.
Proof.
  intros HI HA Ha H1 H2 R1 R2 Hvers.
  destruct (mp_nostray _ _ HA a fh s r1 l1 Ha H1 R1) as [(h & Hh & [a1 Hm1])|(h & Hh & _ & Hlt & _)]; [|destruct (Hvers h Hh); lia].
  destruct (mp_nostray _ _ HA a fh s r2 l2 Ha H2 R2) as [(h' & Hh' & [a2 Hm2])|(h' & Hh' & _ & Hlt & _)]; [|destruct (Hvers h' Hh'); lia].
  assert (h' = h) as -> by congruence.
  pose proof (mp_home _ _ HA a fh s r1 l1 h a1 Ha H1 Hh Hm1) as ->. pose proof (mp_home _ _ HA a fh s r2 l2 h a2 Ha H2 Hh Hm2) as ->.
  destruct (cur_entry_at _ _ _ HI Hh) as [_ Hcurin].
  destruct (hist_wf_mem_ok _ _ (li_hist _ _ _ _ _ HI _ _ Hh) _ Hcurin) as [_ Hinj]. cbn [snd] in Hinj. eauto.
Qed.


(* the entries of a report: which are complete *)
Lemma mendb_info_complete st a fh plog ci :
  LoopInv st → MendP (nonout st) st → f_hosts st !! a = Some fh → ci ∈ rp_infos (host_report (f_db st) (f_hist st) a fh plog) → complete ci = true →
  ∃ rid lr h c v M M' x rest, fh_reps fh !! (si_shard ci, rid) = Some lr ∧ lr_running lr = true ∧ si_replica ci = rid ∧
    f_hist st !! si_shard ci = Some h ∧ d_view (f_db st) !! si_shard ci = Some c ∧ behind h c v M M' x rest ∧
    lr_ver lr = v + 1 ∧ si_cci ci = v + 1.
Proof.
  intros HI HA Ha Hci Hcomp. unfold host_report in Hci. cbn [rp_infos] in Hci.
  apply elem_of_list_fmap in Hci as ([[s rid] lr] & -> & Hin). apply elem_of_list_filter in Hin as [Hrun Hin].
  apply sorted_reps_elem in Hin. cbn in Hrun, Hin.
  assert (∃ h, f_hist st !! s = Some h) as [h Hh].
  { destruct (mp_nostray _ _ HA _ _ _ _ _ Ha Hin Hrun) as [(h & Hh & _)|(h & Hh & _)]; by exists h. }
  destruct (mp_members _ _ HA _ _ Hh) as (c & Hc & Hcase & _).
  pose proof (rep_ver_le st a fh s rid lr h HI Ha Hin Hh) as Hle.
  unfold rep_info, complete in Hcomp |- *. cbn [fst snd] in Hcomp |- *. destruct (lr_ver lr =? 0) eqn:Ez; [done|].
  cbn [si_shard si_replica si_cci]. unfold view_vers in Hcomp. rewrite lookup_fmap, Hc in Hcomp. cbn in Hcomp.
  destruct (lr_ver lr <=? s_cci c) eqn:Ele; [done|]. apply N.leb_gt in Ele.
  destruct Hcase as [Hcc|(v & M & M' & x & rest & Hb)]; [lia|].
  exists rid, lr, h, c, v, M, M', x, rest. pose proof Hb as (Hhh & Hv & _). rewrite Hhh in Hle. cbn in Hle.
  repeat (split; [done|]). split; lia.
Qed.

Lemma mendb_n_complete st a fh plog s :
  LoopInv st → MendP (nonout st) st → f_hosts st !! a = Some fh → (n_complete s (rp_infos (host_report (f_db st) (f_hist st) a fh plog)) ≤ 1)%nat.
Proof.
  intros HI HA Ha. unfold n_complete.
  set (l := filter (λ ci, complete_for s ci = true) (rp_infos (host_report (f_db st) (f_hist st) a fh plog))).
  destruct l as [|c1 [|c2 l']] eqn:El; cbn [length]; [lia|lia|]. exfalso.
  assert (Hnd : NoDup l).
  { unfold l. apply NoDup_filter. unfold host_report. cbn [rp_infos]. apply NoDup_fmap_2_strong.
    - intros [k1 l1] [k2 l2] H1 H2 Heq. apply elem_of_list_filter in H1 as [_ H1]. apply elem_of_list_filter in H2 as [_ H2].
      apply sorted_reps_elem in H1, H2. cbn in H1, H2.
      assert (k1 = k2) as ->.
      { destruct k1 as [s1 r1], k2 as [s2 r2]. unfold rep_info in Heq. cbn [fst snd] in Heq.
        destruct (lr_ver l1 =? 0), (lr_ver l2 =? 0); by injection Heq as -> ->. }
      congruence.
    - apply NoDup_filter. unfold sorted_reps. rewrite merge_sort_Permutation. apply NoDup_map_to_list. }
  assert (Hall : ∀ ci, ci ∈ l → ∃ rid lr, fh_reps fh !! (s, rid) = Some lr ∧ lr_running lr = true ∧
            ci = rep_info (view_vers (f_db st)) (f_hist st) (s, rid) lr ∧
            ∀ h, f_hist st !! s = Some h → cur_version h ≤ lr_ver lr).
  { intros ci Hci. unfold l in Hci. apply elem_of_list_filter in Hci as [Hcf Hci].
    unfold complete_for in Hcf. apply andb_true_iff in Hcf as [Hcf Hcomp]. apply andb_true_iff in Hcf as [Hs Hpend]. apply N.eqb_eq in Hs.
    assert (Hcomp' : complete ci = true) by (unfold complete; by rewrite Hpend, Hcomp).
    destruct (mendb_info_complete st a fh plog ci HI HA Ha Hci Hcomp') as (rid0 & lr0 & h0 & c0 & v0 & M0 & M0' & x0 & rest0 & Hk0 & Hr0 & Hrid0 & Hh0 & _ & Hb0 & Hv0 & _).
    unfold host_report in Hci. cbn [rp_infos] in Hci.
    apply elem_of_list_fmap in Hci as ([[s0 rid] lr] & -> & Hin). apply elem_of_list_filter in Hin as [Hrun Hin].
    apply sorted_reps_elem in Hin. cbn in Hrun, Hin.
    assert (s0 = s) as -> by (unfold rep_info in Hs; cbn [fst snd] in Hs; by destruct (lr_ver lr =? 0)).
    assert (Hsi : si_shard (rep_info (view_vers (f_db st)) (f_hist st) (s, rid) lr) = s) by (unfold rep_info; by destruct (lr_ver lr =? 0)).
    assert (Hri : si_replica (rep_info (view_vers (f_db st)) (f_hist st) (s, rid) lr) = rid) by (unfold rep_info; by destruct (lr_ver lr =? 0)).
    cbn [fst snd] in Hk0, Hrid0, Hh0. rewrite Hsi in Hk0, Hh0. rewrite Hri in Hrid0. subst rid0.
    assert (lr0 = lr) as -> by congruence.
    exists rid, lr. split; [done|]. split; [done|]. split; [done|]. intros h Hh. assert (h = h0) as -> by congruence.
    destruct Hb0 as (-> & _). cbn. lia. }
  destruct (Hall c1) as (r1 & l1 & K1 & R1 & E1 & V1); [rewrite El; left|].
  destruct (Hall c2) as (r2 & l2 & K2 & R2 & E2 & V2); [rewrite El; right; left|].
  assert (r1 = r2) as -> by (apply (mendb_one_running st a fh s r1 r2 l1 l2 HI HA Ha K1 K2 R1 R2); intros h Hh; split; [by apply V1|by apply V2]).
  assert (l2 = l1) as -> by congruence.
  rewrite El in Hnd. apply NoDup_cons in Hnd as [Hnotin _]. apply Hnotin. rewrite E1, E2. left.
Qed.

(** * one host reports *)
Lemma mendb_report st a fh plog :
  LoopInv st → MendP (nonout st) st → f_hosts st !! a = Some fh →
  ∃ st', steps P st [ESnap a plog; EDeliver a false] = Some st' ∧ (LoopInv st' ∧ MendP (nonout st') st') ∧
    (∀ a', a' ≠ a → d_outgoing (f_db st') !! a' = d_outgoing (f_db st) !! a') ∧
    d_outgoing (f_db st') !! a = d_requests (f_db st) !! a ∧
    (∀ b q, nonout st' b q → nonout st b q) ∧
    f_hist st' = f_hist st ∧ f_seen st' = f_seen st ∧
    d_tick (f_db st') = d_tick (f_db st) ∧ d_shards (f_db st') = d_shards (f_db st) ∧
    d_requests (f_db st') = delete a (d_requests (f_db st)) ∧
    f_hosts st' = <[a := mkFHost true (fh_region fh) (fh_reps fh) (fh_queue fh ++ default [] (d_requests (f_db st) !! a)) None]> (f_hosts st) ∧
    (∀ s h c, f_hist st !! s = Some h → d_view (f_db st) !! s = Some c →
       ∃ c', d_view (f_db st') !! s = Some c' ∧ (s_cci c' = s_cci c ∨ s_cci c' = cur_version h) ∧
             (s_cci c = cur_version h → s_cci c' = cur_version h) ∧
             ((∃ rid lr, fh_reps fh !! (s, rid) = Some lr ∧ lr_running lr = true ∧ lr_ver lr = cur_version h) → s_cci c' = cur_version h)) ∧
    (∀ s rid, stamped (f_db st') s rid → stamped (f_db st) s rid ∨ runs_on fh s rid = true) ∧
    (∃ h, d_hosts (f_db st') !! a = Some h ∧ h_tick h = d_tick (f_db st) ∧
          (plog = true → ∀ k, is_Some (fh_reps fh !! k) → k ∈ h_plog h)) ∧
    (∀ a' h, a' ≠ a → d_hosts (f_db st) !! a' = Some h →
       ∃ h', d_hosts (f_db st') !! a' = Some h' ∧ h_tick h' = h_tick h ∧ h_plog h' = h_plog h).
Proof.
  intros HI HC Ha. destruct (mp_hosts _ _ HC _ _ Ha) as (Hup & Hout).
  set (r := host_report (f_db st) (f_hist st) a fh plog).
  set (fh1 := mkFHost true (fh_region fh) (fh_reps fh) (fh_queue fh) (Some r)).
  set (st1 := set_host st a fh1).
  assert (E1 : fstep P st (ESnap a plog) = FOk st1) by (cbn [fstep]; by rewrite Ha, Hup).
  pose proof (step_inv P st (ESnap a plog) st1 HI I E1) as HI1.
  assert (Ha1 : f_hosts st1 !! a = Some fh1) by (unfold st1, set_host; cbn; by rewrite lookup_insert).
  pose proof (step_deliver_no_panic P st1 a false HI1) as Hnp.
  cbn [fstep] in Hnp. rewrite Ha1 in Hnp. cbn [fh_up fh1 fh_out] in Hnp.
  destruct (db_step P (f_db st1) (CReport r)) as [d' v0| |] eqn:Es; try done. clear Hnp.
  set (fh2 := mkFHost true (fh_region fh1) (fh_reps fh1) (fh_queue fh1 ++ lookup_requests d' a) None).
  set (st2 := mkF d' (<[a := fh2]> (f_hosts st1)) (f_hist st1) (f_seen st1)).
  assert (E2 : fstep P st1 (EDeliver a false) = FOk st2).
  { cbn [fstep]. rewrite Ha1. cbn [fh_up fh1 fh_out]. by rewrite Es. }
  pose proof (step_inv P st1 (EDeliver a false) st2 HI1 I E2) as HI2.
  change (f_db st1) with (f_db st) in Es.
  assert (Hn : next P (f_db st) (CReport r) = Some d') by (unfold next; by rewrite Es).
  pose proof Hn as Hn'. apply next_cases in Hn' as [[Hf' _]|[_ (view' & kill' & Hvu & Ed')]];
    [rewrite (li_failed _ _ _ _ _ HI) in Hf'; done|].
  pose proof (li_deadline _ _ _ _ _ HI) as Hdl.
  destruct (report_result_all (f_db st) (stamp (f_db st) r) view' kill' Hdl) as (F1 & F2 & F3 & F4 & F5 & F6 & F7 & F8).
  destruct (report_result_mail (f_db st) (stamp (f_db st) r) view' kill' Hdl) as [Hreply Hreqs].
  rewrite <- Ed' in F1, F2, F3, F4, F5, F6, F7, F8, Hreply, Hreqs.
  change (rp_addr (stamp (f_db st) r)) with a in Hreply, Hreqs.
  assert (Hout1 : ∀ a', a' ≠ a → d_outgoing d' !! a' = d_outgoing (f_db st) !! a').
  { intros a' Hne. rewrite Ed'. unfold report_result, on_updated_shard_info, pickup. cbn.
    change (rp_addr (stamp (f_db st) r)) with a.
    destruct (d_requests (f_db st) !! a) as [qs0|] eqn:Erq; cbn; rewrite Hdl; cbn.
    - rewrite lookup_insert_ne by done. by rewrite lookup_delete_ne.
    - by rewrite lookup_delete_ne. }
  assert (Hout2 : d_outgoing d' !! a = d_requests (f_db st) !! a).
  { rewrite Ed'. unfold report_result, on_updated_shard_info, pickup. cbn.
    change (rp_addr (stamp (f_db st) r)) with a.
    destruct (d_requests (f_db st) !! a) as [qs0|] eqn:Erq; cbn; rewrite Hdl; cbn.
    - by rewrite lookup_insert.
    - by rewrite lookup_delete. }
  assert (Htick : d_tick d' = d_tick (f_db st)).
  { rewrite Ed'. by destruct (DBTimeProofs.report_result_fields (f_db st) (stamp (f_db st) r) view' kill') as (Et & _). }
  assert (Hhosts2 : <[a := fh2]> (f_hosts st1) =
            <[a := mkFHost true (fh_region fh) (fh_reps fh) (fh_queue fh ++ default [] (d_requests (f_db st) !! a)) None]> (f_hosts st)).
  { unfold st1, set_host. cbn [f_hosts]. rewrite insert_insert. unfold fh2, fh1. cbn. by rewrite Hreply. }
  assert (Hst2 : st2 = mkF d' (<[a := mkFHost true (fh_region fh) (fh_reps fh) (fh_queue fh ++ default [] (d_requests (f_db st) !! a)) None]> (f_hosts st))
                        (f_hist st) (f_seen st)).
  { unfold st2. rewrite Hhosts2. done. }
  pose proof (step_ver_mono P (f_db st) _ d' Hn) as Hmono. apply ver_mono_view_le in Hmono as Hvle.
  assert (Hview2 : view_inv (Hf (f_hist st)) (d_view d')) by (apply (li_view _ _ _ _ _ HI2)).
  (* versions *)
  assert (Hvers : ∀ s h c, f_hist st !! s = Some h → d_view (f_db st) !! s = Some c →
            ∃ c', d_view d' !! s = Some c' ∧ s_cci c ≤ s_cci c' ∧ s_cci c' ≤ cur_version h ∧
                  entry_at h (s_cci c') = Some (r_addr <$> s_reps c')).
  { intros s h c Hh Hc. destruct (Hvle _ _ Hc) as (c' & Hc' & Hle). exists c'. split; [done|]. split; [done|].
    destruct (Hview2 s c' Hc') as (_ & HH & _). unfold Hf, hist_of in HH. rewrite Hh in HH. cbn in HH. split; [|done].
    apply (hist_wf_le _ _ (li_hist _ _ _ _ _ HI _ _ Hh) _ (entry_at_Some _ _ _ HH)). }
  assert (Hviewdom : ∀ s c', d_view d' !! s = Some c' → is_Some (d_view (f_db st) !! s)).
  { intros s c' Hc'. destruct (d_view (f_db st) !! s) as [c|] eqn:Ec; [by eexists|]. exfalso.
    (* a view appears only for a complete entry *)
    pose proof (view_update_grows _ _ _ _ _ _ s Hvu) as Hg. unfold ver in Hg. rewrite Ec in Hg. rewrite F4 in Hc'.
    rewrite Hc' in Hg. cbn in Hg. destruct Hg as [[?|Hin] _]; [done|].
    unfold entry_versions in Hin. apply elem_of_list_bind in Hin as (ci & Hin & Hci). cbn [stamp rp_infos] in Hci.
    destruct (decide _) as [[Hs Hcomp]|]; [|by apply elem_of_nil in Hin].
    destruct (mendb_info_complete st a fh plog ci HI HC Ha Hci Hcomp) as (_ & _ & _ & c0 & _ & _ & _ & _ & _ & _ & _ & _ & _ & Hc0 & _).
    rewrite Hs in Hc0. congruence. }
  (* times *)
  assert (Hticks : ∀ s rid n', rec_of (d_view d') s rid = Some n' →
            (∃ n, rec_of (d_view (f_db st)) s rid = Some n ∧ r_first n' = r_first n ∧
                  r_tick n' = if runs_on fh s rid then d_tick (f_db st) else r_tick n) ∨
            (rec_of (d_view (f_db st)) s rid = None ∧ r_first n' = d_tick (f_db st) ∧
             r_tick n' = if runs_on fh s rid then d_tick (f_db st) else 0)).
  { intros s rid n' Hrec.
    destruct (step_times P (f_db st) (CReport r) d' s rid n' Hn Hrec) as [(n0 & Hn0 & Hfi & Htk)|(r0 & Er0 & _ & Hor & Hfi & Htk)].
    - left. exists n0. split; [done|]. split; [done|]. rewrite (li_failed _ _ _ _ _ HI) in Htk. cbn [negb andb names_cmd] in Htk.
      unfold r in Htk. rewrite (report_names_runs st a fh plog s rid Ha) in Htk. done.
    - injection Er0 as <-. destruct Hor as [Hnone|Hmulti].
      + right. split; [done|]. split; [done|]. cbn [names_cmd] in Htk. unfold r in Htk.
        rewrite (report_names_runs st a fh plog s rid Ha) in Htk. done.
      + exfalso. unfold multi_entry in Hmulti. pose proof (mendb_n_complete st a fh plog s HI HC Ha). fold r in H. lia. }
  assert (Hstamped : ∀ s rid, stamped d' s rid → stamped (f_db st) s rid ∨ runs_on fh s rid = true).
  { intros s rid (n' & Hrec' & Hnz). destruct (Hticks s rid n' Hrec') as [(n & Hrec & _ & Htk)|(_ & _ & Htk)].
    - destruct (runs_on fh s rid); [by right|]. left. exists n. split; [done|]. congruence.
    - destruct (runs_on fh s rid); [by right|]. congruence. }
  (* the report is consistent with the history *)
  assert (Hrok : Forall (DBViewProofs.entry_ok (Hf (f_hist st))) (rp_infos (stamp (f_db st) r))).
  { cbn [stamp rp_infos]. eapply Forall_impl; [eapply (host_report_ok _ _ _ _ _ a fh plog HI Ha)|]. by intros ci [He _]. }
  (* the kill list: only replicas of removed members are added *)
  assert (Hkill' : ∀ k, k ∈ kill' → k_shard k ≠ 0 ∧ k_replica k ≠ 0 ∧ k_addr k ≠ 0).
  { unfold view_update in Hvu.
    destruct (update_entries (d_tick (f_db st)) (d_view (f_db st), []) (rp_infos (stamp (f_db st) r))) as [[view1 tokill]|] eqn:Eu; [|done].
    injection Hvu as _ <-. intros k Hk. apply elem_of_app in Hk as [Hk|Hk].
    { apply elem_of_list_filter in Hk as [_ Hk]. by apply (mp_kill _ _ HC). }
    apply elem_of_list_fmap in Hk as (ci & -> & Hci). cbn [k_shard k_replica k_addr stamp rp_addr].
    destruct (update_entries_tokill (Hf (f_hist st)) _ _ _ _ _ _ (li_view _ _ _ _ _ HI) Hrok Eu ci Hci)
      as [Hnil|(Hin & vm & ec & Hvi & Hvm & Hl & Hkr)]; [by apply elem_of_nil in Hnil|].
    cbn [stamp rp_infos] in Hin. unfold r, host_report in Hin. cbn [rp_infos] in Hin.
    apply elem_of_list_fmap in Hin as ([[s rid] lr] & -> & Hin). apply elem_of_list_filter in Hin as [Hrun Hin].
    apply sorted_reps_elem in Hin. cbn in Hrun, Hin. cbn [fst snd] in Hl, Hkr.
    assert (Hs : si_shard (rep_info (view_vers (f_db st)) (f_hist st) (s, rid) lr) = s) by (unfold rep_info; by destruct (lr_ver lr =? 0)).
    assert (Hr : si_replica (rep_info (view_vers (f_db st)) (f_hist st) (s, rid) lr) = rid) by (unfold rep_info; by destruct (lr_ver lr =? 0)).
    cbn [fst snd]. rewrite Hs, Hr.
    destruct (mp_nostray _ _ HC _ _ _ _ _ Ha Hin Hrun) as [(h & Hh & [am Hm])|(h & Hh & _ & _ & _ & ? & ? & ?)]; [exfalso|done].
    destruct (mp_members _ _ HC _ _ Hh) as (c & Hc & Hcase & _).
    rewrite Hs in Hl. destruct (Hvi _ _ Hl) as (_ & HH & _). unfold Hf, hist_of in HH. rewrite Hh in HH. cbn in HH.
    pose proof (li_hist _ _ _ _ _ HI _ _ Hh) as Hw.
    pose proof (hist_wf_le _ _ Hw _ (entry_at_Some _ _ _ HH)) as Hle. cbn [fst] in Hle.
    assert (Hge : s_cci c ≤ s_cci ec).
    { destruct (Hvm s (s_cci c)) as (v' & Hv' & Hvle'); [unfold ver; by rewrite Hc|].
      unfold ver in Hv'. rewrite Hl in Hv'. cbn in Hv'. injection Hv' as <-. lia. }
    (* rid is a member of the entry ec shows *)
    assert (Hmem : is_Some ((r_addr <$> s_reps ec) !! rid)).
    { destruct Hcase as [Hcc|(v & M & M' & x & rest & Hb)].
      - assert (Heq : s_cci ec = cur_version h) by lia. destruct (cur_entry_at _ _ _ HI Hh) as [Hcur _].
        rewrite Heq, Hcur in HH. injection HH as HH. rewrite <- HH. by eexists.
      - destruct (mp_behind _ _ HC s h c v M M' x rest Hh Hc Hb) as (_ & Hxrun & _).
        assert (Hnx : rid ≠ x).
        { intros ->. destruct Hb as (Hhh0 & _ & [[HMx _]|[_ HM']]).
          - rewrite (Hxrun HMx a fh lr Ha Hin) in Hrun; done.
          - rewrite Hhh0 in Hm. cbn in Hm. rewrite HM', lookup_delete in Hm. done. }
        pose proof (behind_other _ _ _ _ _ _ _ rid Hb Hnx) as Hsame. destruct Hb as (Hhh & Hv & _).
        rewrite Hhh in Hm, HH, Hle. cbn in Hm, HH, Hle.
        destruct (s_cci ec =? v + 1) eqn:Ev1.
        + destruct (v + 1 =? s_cci ec) eqn:Ev1'; [|apply N.eqb_eq in Ev1; apply N.eqb_neq in Ev1'; lia].
          injection HH as HH. rewrite <- HH. by eexists.
        + apply N.eqb_neq in Ev1. assert (s_cci ec = v) as Hev by lia.
          assert ((v + 1 =? s_cci ec) = false) as Ev2 by (apply N.eqb_neq; lia). rewrite Ev2 in HH.
          rewrite Hev, N.eqb_refl in HH. injection HH as HH. rewrite <- HH, <- Hsame. by eexists. }
    rewrite lookup_fmap in Hmem. apply fmap_is_Some in Hmem as [n0 Hn0].
    unfold kill_required in Hkr. rewrite Hr, Hn0 in Hkr. by destruct (s_cci ec <=? _). }
  exists st2. split.
  { cbn [steps]. rewrite E1, E2. done. }
  assert (Hrepsame : ∀ a0 fh0, f_hosts st2 !! a0 = Some fh0 → ∃ fh', f_hosts st !! a0 = Some fh' ∧ fh_reps fh0 = fh_reps fh' ∧ fh_up fh0 = true ∧ fh_out fh0 = None).
  { intros a0 fh0. rewrite Hst2. cbn [f_hosts]. destruct (decide (a0 = a)) as [->|Hne].
    - rewrite lookup_insert. intros [= <-]. exists fh. done.
    - rewrite lookup_insert_ne by done. intros H0. exists fh0. split; [done|]. split; [done|]. by apply (mp_hosts _ _ HC a0). }
  (* the versions after the report *)
  assert (Hcase' : ∀ s h c, f_hist st !! s = Some h → d_view (f_db st) !! s = Some c →
            ∃ c', d_view d' !! s = Some c' ∧ (s_cci c' = s_cci c ∨ s_cci c' = cur_version h) ∧
                  (s_cci c = cur_version h → s_cci c' = cur_version h) ∧
                  ((∃ rid lr, fh_reps fh !! (s, rid) = Some lr ∧ lr_running lr = true ∧ lr_ver lr = cur_version h) → s_cci c' = cur_version h)).
  { intros s h c Hh Hc. destruct (Hvers s h c Hh Hc) as (c' & Hc' & Hlo & Hhi & _). exists c'. split; [done|].
    destruct (mp_members _ _ HC s h Hh) as (c0 & Hc0 & Hcase & _). assert (c0 = c) as -> by congruence.
    destruct Hcase as [Hcc|(v & M & M' & x & rest & Hhh & Hv & Hkind)].
    - split; [left; lia|]. split; [intros _; lia|intros _; lia].
    - assert (Hcv : cur_version h = v + 1) by (rewrite Hhh; done).
      split; [lia|]. split; [lia|]. intros (rid & lr & Hk & Hrun & Hver).
      (* the complete entry of that replica *)
      pose proof (view_update_grows _ _ _ _ _ _ s Hvu) as Hg. unfold ver in Hg. rewrite F4 in Hc'. rewrite Hc, Hc' in Hg. cbn in Hg.
      destruct Hg as (_ & _ & Hmax). assert (Hin : v + 1 ∈ entry_versions s (rp_infos (stamp (f_db st) r))); [|specialize (Hmax _ Hin); lia].
      unfold entry_versions. apply elem_of_list_bind. exists (rep_info (view_vers (f_db st)) (f_hist st) (s, rid) lr). split.
      + unfold rep_info. cbn [fst snd]. assert ((lr_ver lr =? 0) = false) as -> by (apply N.eqb_neq; lia).
        unfold view_vers. rewrite lookup_fmap, Hc. cbn. assert ((lr_ver lr <=? s_cci c) = false) as -> by (apply N.leb_gt; lia).
        rewrite decide_True by done. cbn. rewrite Hver, Hcv. left.
      + cbn [stamp rp_infos]. unfold r, host_report. cbn [rp_infos]. apply elem_of_list_fmap. exists ((s, rid), lr). split; [done|].
        apply elem_of_list_filter. split; [done|]. unfold sorted_reps. rewrite merge_sort_Permutation. by apply elem_of_map_to_list. }
  assert (Hsub2 : ∀ b q, nonout st2 b q → nonout st b q).
  { intros b q Hq. rewrite Hst2 in Hq. unfold nonout in Hq |- *. cbn [f_db f_hosts] in Hq.
    destruct Hq as [(qs & Hl & Hin)|(fhb & Hb & Hin)].
    + left. exists qs. split; [by apply F7|done].
    + destruct (decide (b = a)) as [->|Hne].
      * rewrite lookup_insert in Hb. injection Hb as <-. cbn [fh_queue] in Hin. apply elem_of_app in Hin as [Hin|Hin].
        -- right. eauto.
        -- destruct (d_requests (f_db st) !! a) as [qs|] eqn:Eq; [|by apply elem_of_nil in Hin]. left. eauto.
      * rewrite lookup_insert_ne in Hb by done. right. eauto. }
  split.
  { split; [exact HI2|]. split.
    - eapply fstep_time_ok; [exact E2|]. eapply fstep_time_ok; [exact E1|]. apply (mp_timeok _ _ HC).
    - cbn [st2 f_db]. rewrite Htick. apply (mp_time _ _ HC).
    - cbn [st2 f_db f_hist]. rewrite F3. apply (mp_defined _ _ HC).
    - cbn [st2 f_db f_hist]. rewrite F3. intros s [c' Hc']. apply (mp_viewdef _ _ HC). by apply (Hviewdom s c').
    - intros a0 fh0 H0. destruct (Hrepsame a0 fh0 H0) as (_ & _ & _ & ? & ?). done.
    - cbn [st2 f_db]. rewrite F5. exact Hkill'.
    - intros b q Hq. destruct (mp_boxes _ _ HC b q (Hsub2 b q Hq)) as [?|[Hl HR]]; [by left|right]. split.
      + apply (lchange_shrink (nonout st)); [exact Hsub2|]. rewrite Hst2. cbn [f_hosts f_hist].
        apply (lchange_frame _ (f_hosts st) _ (f_hist st) (f_hist st)); [done| | |done].
        * intros a0 [fh0 H0]. destruct (decide (a0 = a)) as [->|Hne]; [rewrite lookup_insert; by eexists|rewrite lookup_insert_ne by done; by eexists].
        * intros a0 fh' k H0 Hk _. destruct (decide (a0 = a)) as [->|Hne].
          -- rewrite lookup_insert in H0. injection H0 as <-. by exists fh.
          -- rewrite lookup_insert_ne in H0 by done. by exists fh'.
      + (* the view of a shard with a live request stays current, its members stay stamped *)
        destruct HR as (c & Hc & Hcc & Hstq). destruct Hl as (_ & Hfq & _).
        destruct (mp_viewdef _ _ HC (q_shard q)) as [_ [h Hh]]; [by eexists|].
        assert (Hcur : s_cci c = cur_version h) by (rewrite Hcc, Hfq; unfold Fleet.hist_of; by rewrite Hh).
        destruct (Hcase' (q_shard q) h c Hh Hc) as (c' & Hc' & _ & Hkeep & _). specialize (Hkeep Hcur).
        exists c'. cbn [st2 f_db]. split; [done|]. split; [congruence|].
        intros rid n' Hn'. assert (Hrec' : rec_of (d_view d') (q_shard q) rid = Some n') by (apply rec_of_Some; eauto).
        destruct (Hticks (q_shard q) rid n' Hrec') as [(n & Hrec & _ & Htk)|(Hnone & _ & _)].
        * rewrite Htk. destruct (runs_on fh (q_shard q) rid); [pose proof (mp_time _ _ HC); lia|].
          apply rec_of_Some in Hrec as (c1 & Hc1 & Hn1). assert (c1 = c) as -> by congruence. by apply (Hstq rid n).
        * exfalso. destruct (Hview2 (q_shard q) c' Hc') as (_ & HH' & _). destruct (li_view _ _ _ _ _ HI (q_shard q) c Hc) as (_ & HH & _).
          rewrite Hkeep in HH'. rewrite Hcur in HH. rewrite HH in HH'. injection HH' as HH'.
          assert (is_Some ((r_addr <$> s_reps c) !! rid)) as Hs by (rewrite HH', lookup_fmap, Hn'; by eexists).
          rewrite lookup_fmap in Hs. apply fmap_is_Some in Hs as [n0 Hn0].
          assert (rec_of (d_view (f_db st)) (q_shard q) rid = Some n0) by (apply rec_of_Some; eauto). congruence.
    - (* members *)
      cbn [st2 f_db f_hist]. intros s h Hh. destruct (mp_members _ _ HC s h Hh) as (c & Hc & Hcase & Hmem).
      destruct (Hcase' s h c Hh Hc) as (c' & Hc' & Hor & Hkeep & _). exists c'. split; [done|]. split.
      { destruct Hor as [Heq|Hcur]; [|by left]. destruct Hcase as [Hcc|(v & M & M' & x & rest & Hhh & Hv & Hkind)]; [left; congruence|].
        right. exists v, M, M', x, rest. split; [done|]. split; [congruence|done]. }
      intros rid a0 Hm. destruct (Hmem rid a0 Hm) as (Hr0 & Ha0 & fh0 & Hfh0 & Hdata). split; [done|]. split; [done|].
      assert (Hdata' : stamped d' s rid → is_Some (fh_reps fh0 !! (s, rid))).
      { intros Hst. destruct (Hstamped s rid Hst) as [Hold|Erun]; [by apply Hdata|].
        unfold runs_on in Erun. destruct (fh_reps fh !! (s, rid)) as [lr|] eqn:Ek; [|done].
        assert (a0 = a) as -> by (by apply (mp_home _ _ HC a fh s rid lr h a0)). assert (fh0 = fh) as -> by congruence. by eexists. }
      rewrite Hst2. cbn [f_hosts]. destruct (decide (a0 = a)) as [->|Hne].
      + rewrite lookup_insert. assert (fh0 = fh) as -> by congruence. eexists. split; [done|]. exact Hdata'.
      + rewrite lookup_insert_ne by done. eauto.
    - (* still behind: nothing happened to the shard *)
      cbn [st2 f_db f_hist]. intros s h c' v M M' x rest Hh Hc' (Hhh & Hv & Hkind).
      destruct (Hviewdom s c' Hc') as [c Hc]. destruct (Hvers s h c Hh Hc) as (c2 & Hc2 & Hlo & _). assert (c2 = c') as -> by congruence.
      destruct (mp_members _ _ HC s h Hh) as (c0 & Hc0 & Hcase & _). assert (c0 = c) as -> by congruence.
      assert (Hbc : behind h c v M M' x rest).
      { destruct Hcase as [Hcc|(v1 & M1 & M1' & x1 & rest1 & Hhh1 & Hv1 & Hkind1)].
        - rewrite Hhh in Hcc. cbn in Hcc. lia.
        - rewrite Hhh in Hhh1. injection Hhh1 as Hv2 _ _ _. assert (v1 = v) as -> by lia. split; [done|]. split; [done|done]. }
      destruct (mp_behind _ _ HC s h c v M M' x rest Hh Hc Hbc) as (Hst & Hxrun & Hknow). split; [|split].
      + intros rid n' Hn'. assert (Hrec' : rec_of (d_view d') s rid = Some n') by (apply rec_of_Some; eauto).
        destruct (Hticks s rid n' Hrec') as [(n & Hrec & _ & Htk)|(Hnone & _ & _)].
        * rewrite Htk. destruct (runs_on fh s rid); [pose proof (mp_time _ _ HC); lia|].
          apply rec_of_Some in Hrec as (c1 & Hc1 & Hn1). assert (c1 = c) as -> by congruence. by apply (Hst rid n).
        * (* a record that was not there: the view would have moved *)
          exfalso. destruct (Hview2 s c' Hc') as (_ & HH' & _). destruct (li_view _ _ _ _ _ HI s c Hc) as (_ & HH & _).
          rewrite Hv in HH'. destruct Hbc as (_ & Hvc & _). rewrite Hvc in HH. rewrite HH in HH'. injection HH' as HH'.
          assert (is_Some ((r_addr <$> s_reps c) !! rid)) as Hs by (rewrite HH', lookup_fmap, Hn'; by eexists).
          rewrite lookup_fmap in Hs. apply fmap_is_Some in Hs as [n0 Hn0].
          assert (rec_of (d_view (f_db st)) s rid = Some n0) by (apply rec_of_Some; eauto). congruence.
      + intros HMx a0 fh0 lr H0 Hk. destruct (Hrepsame a0 fh0 H0) as (fh' & Hfh' & Hreps & _). rewrite Hreps in Hk. by apply (Hxrun HMx a0 fh').
      + destruct Hknow as (a0 & fh0 & rid & lr & H0 & Hk & Hrun & Hver). exists a0. rewrite Hst2. cbn [f_hosts].
        destruct (decide (a0 = a)) as [->|Hne].
        * rewrite lookup_insert. assert (fh0 = fh) as -> by congruence. eexists _, rid, lr. split; [done|]. done.
        * rewrite lookup_insert_ne by done. eauto 10.
    - (* waiting records have a first-observed time *)
      cbn [st2 f_db]. intros s c' rid n' Hc' Hn' Hz. assert (Hrec : rec_of (d_view d') s rid = Some n') by (apply rec_of_Some; eauto).
      destruct (Hticks s rid n' Hrec) as [(n0 & Hn0 & Hfi & Htk)|(_ & Hfi & _)].
      + rewrite Hfi. rewrite Htk in Hz. destruct (runs_on fh s rid); [pose proof (mp_time _ _ HC); lia|].
        apply rec_of_Some in Hn0 as (c0 & Hc0 & Hn0). by apply (mp_waiting _ _ HC s c0 rid n0).
      + rewrite Hfi. pose proof (mp_time _ _ HC). lia.
    - (* at most one waiting record per shard *)
      cbn [st2 f_db]. intros s c' r1 r2 n1 n2 Hc' H1 H2 Hz1 Hz2.
      assert (Hrec1 : rec_of (d_view d') s r1 = Some n1) by (apply rec_of_Some; eauto).
      assert (Hrec2 : rec_of (d_view d') s r2 = Some n2) by (apply rec_of_Some; eauto).
      pose proof (mp_time _ _ HC) as Hpos.
      destruct (Hviewdom s c' Hc') as [c Hc]. destruct (mp_viewdef _ _ HC s) as [_ [h Hh]]; [by eexists|].
      destruct (mp_members _ _ HC s h Hh) as (c0 & Hc0 & Hcase & _). assert (c0 = c) as -> by congruence.
      (* an old waiting record, or a new one *)
      assert (Hold : ∀ rid n', rec_of (d_view d') s rid = Some n' → r_tick n' = 0 →
                (∃ n, s_reps c !! rid = Some n ∧ r_tick n = 0) ∨ s_reps c !! rid = None).
      { intros rid n' Hrec' Hz'. destruct (Hticks s rid n' Hrec') as [(n & Hrec & _ & Htk)|(Hnone & _ & _)].
        - left. apply rec_of_Some in Hrec as (c1 & Hc1 & Hn1). assert (c1 = c) as -> by congruence. exists n. split; [done|].
          rewrite Htk in Hz'. destruct (runs_on fh s rid); lia.
        - right. destruct (s_reps c !! rid) as [n0|] eqn:E0; [|done]. assert (rec_of (d_view (f_db st)) s rid = Some n0) by (apply rec_of_Some; eauto). congruence. }
      destruct Hcase as [Hcc|(v & M & M' & x & rest & Hb)].
      + (* current before: no new record *)
        destruct (Hcase' s h c Hh Hc) as (c2 & Hc2 & _ & Hkeep & _). assert (c2 = c') as -> by congruence.
        specialize (Hkeep Hcc). destruct (Hview2 s c' Hc') as (_ & HH' & _). destruct (li_view _ _ _ _ _ HI s c Hc) as (_ & HH & _).
        rewrite Hkeep in HH'. rewrite Hcc in HH. rewrite HH in HH'. injection HH' as HH'.
        assert (Hin : ∀ rid n', s_reps c' !! rid = Some n' → is_Some (s_reps c !! rid)).
        { intros rid n' Hn'. rewrite <- (fmap_is_Some r_addr), <- lookup_fmap, HH', lookup_fmap, Hn'. by eexists. }
        destruct (Hold r1 n1 Hrec1 Hz1) as [(m1 & Hm1 & Hzm1)|Hn1]; [|destruct (Hin r1 n1 H1); congruence].
        destruct (Hold r2 n2 Hrec2 Hz2) as [(m2 & Hm2 & Hzm2)|Hn2]; [|destruct (Hin r2 n2 H2); congruence].
        by apply (mp_onejoin _ _ HC s c r1 r2 m1 m2).
      + (* behind before: every old record has reported; a waiting record is the new member x *)
        destruct (mp_behind _ _ HC s h c v M M' x rest Hh Hc Hb) as (Hst & _ & _).
        assert (Hisx : ∀ rid n', s_reps c' !! rid = Some n' → rec_of (d_view d') s rid = Some n' → r_tick n' = 0 → rid = x).
        { intros rid n' Hn' Hrec' Hz'. destruct (Hold rid n' Hrec' Hz') as [(n & Hnn & Hzn)|Hnone]; [by destruct (Hst rid n Hnn)|].
          destruct (decide (rid = x)) as [?|Hnx]; [done|]. exfalso.
          pose proof (behind_other _ _ _ _ _ _ _ rid Hb Hnx) as Hsame. destruct Hb as (Hhh & Hv & _).
          destruct (Hview2 s c' Hc') as (_ & HH' & _). destruct (li_view _ _ _ _ _ HI s c Hc) as (_ & HH & _).
          unfold Hf, hist_of in HH, HH'. rewrite Hh in HH, HH'. cbn in HH, HH'. rewrite Hhh in HH, HH'. rewrite Hv in HH. cbn in HH, HH'.
          assert ((v + 1 =? v) = false) as Hne by (apply N.eqb_neq; lia). rewrite Hne, N.eqb_refl in HH. injection HH as HH.
          assert (HMr : M !! rid = None) by (rewrite HH, lookup_fmap, Hnone; done).
          destruct (v + 1 =? s_cci c') eqn:Ev1.
          - injection HH' as HH'. assert (Hl : M' !! rid = Some (r_addr n')) by (rewrite HH', lookup_fmap, Hn'; done). congruence.
          - destruct (v =? s_cci c') eqn:Ev2.
            2:{ destruct (Hvers s h c Hh Hc) as (c3 & Hc3 & Hlo3 & Hhi3 & _). assert (c3 = c') as -> by congruence.
                rewrite Hhh in Hhi3. cbn in Hhi3. apply N.eqb_neq in Ev1, Ev2. lia. }
            injection HH' as HH'.
            assert (Hl : M !! rid = Some (r_addr n')) by (rewrite HH', lookup_fmap, Hn'; done). congruence. }
        rewrite (Hisx r1 n1 H1 Hrec1 Hz1), (Hisx r2 n2 H2 Hrec2 Hz2). done.
    - intros a0 fh0 s rid lr h a' H0 Hk. destruct (Hrepsame a0 fh0 H0) as (fh' & Hfh' & Hreps & _). rewrite Hreps in Hk.
      cbn [st2 f_hist]. by apply (mp_home _ _ HC a0 fh' s rid lr h a').
    - intros a0 fh0 s rid lr H0 Hk. destruct (Hrepsame a0 fh0 H0) as (fh' & Hfh' & Hreps & _). rewrite Hreps in Hk.
      cbn [st2 f_hist]. by apply (mp_nostray _ _ HC a0 fh' s rid lr). }
  split; [exact Hout1|]. split; [exact Hout2|]. split; [exact Hsub2|].
  split; [done|]. split; [done|]. split; [exact Htick|]. split; [exact F3|]. split; [exact Hreqs|].
  split; [by rewrite Hst2|]. split; [exact Hcase'|]. split; [exact Hstamped|].
  cbn [st2 f_db]. rewrite F6. unfold sync_shard_info. split.
  - rewrite lookup_fmap. unfold host_update. cbn [rp_addr stamp r host_report rp_region rp_plog_incl rp_plog].
    destruct (d_hosts (f_db st) !! a) as [h0|]; rewrite lookup_insert; cbn; (eexists; split; [done|]); cbn [h_tick h_plog];
      (split; [done|]); intros -> k [lr Hk]; apply elem_of_list_fmap; exists (k, lr); (split; [done|]);
      unfold sorted_reps; rewrite merge_sort_Permutation; by apply elem_of_map_to_list.
  - intros a' h Hne Hh. rewrite lookup_fmap. unfold host_update. cbn [rp_addr stamp r host_report].
    destruct (d_hosts (f_db st) !! a) as [h0|]; rewrite lookup_insert_ne by done; rewrite Hh; cbn; (eexists; split; [done|]); done.
Qed.

(** * all hosts report *)
Lemma mendb_reports (plogs : N → bool) (l : list N) : ∀ st,
  LoopInv st → MendP (nonout st) st → NoDup l → (∀ a, a ∈ l → is_Some (f_hosts st !! a)) →
  ∃ st', steps P st (l ≫= λ a, [ESnap a (plogs a); EDeliver a false]) = Some st' ∧ (LoopInv st' ∧ MendP (nonout st') st') ∧
    (∀ a, a ∈ l → d_outgoing (f_db st') !! a = d_requests (f_db st) !! a) ∧
    (∀ a, a ∉ l → d_outgoing (f_db st') !! a = d_outgoing (f_db st) !! a) ∧
    (∀ b q, nonout st' b q → nonout st b q) ∧
    f_hist st' = f_hist st ∧ f_seen st' = f_seen st ∧
    d_tick (f_db st') = d_tick (f_db st) ∧ d_shards (f_db st') = d_shards (f_db st) ∧
    (∀ a fh, a ∈ l → f_hosts st !! a = Some fh → ∃ fh', f_hosts st' !! a = Some fh' ∧ fh_reps fh' = fh_reps fh) ∧
    (∀ a, a ∉ l → f_hosts st' !! a = f_hosts st !! a) ∧
    (∀ s h c, f_hist st !! s = Some h → d_view (f_db st) !! s = Some c →
       ∃ c', d_view (f_db st') !! s = Some c' ∧ (s_cci c' = s_cci c ∨ s_cci c' = cur_version h) ∧
             (s_cci c = cur_version h → s_cci c' = cur_version h) ∧
             ((∃ a fh rid lr, a ∈ l ∧ f_hosts st !! a = Some fh ∧ fh_reps fh !! (s, rid) = Some lr ∧ lr_running lr = true ∧
                              lr_ver lr = cur_version h) → s_cci c' = cur_version h)) ∧
    (∀ s rid, stamped (f_db st') s rid →
       stamped (f_db st) s rid ∨ ∃ a fh, a ∈ l ∧ f_hosts st !! a = Some fh ∧ runs_on fh s rid = true) ∧
    (∀ a fh, a ∈ l → f_hosts st !! a = Some fh →
       ∃ h, d_hosts (f_db st') !! a = Some h ∧ h_tick h = d_tick (f_db st) ∧
            (plogs a = true → ∀ k, is_Some (fh_reps fh !! k) → k ∈ h_plog h)) ∧
    (∀ a h, a ∉ l → d_hosts (f_db st) !! a = Some h →
       ∃ h', d_hosts (f_db st') !! a = Some h' ∧ h_tick h' = h_tick h ∧ h_plog h' = h_plog h).
Proof.
  induction l as [|a l IH]; intros st HI HC Hnd Hl.
  { exists st. cbn. split; [done|]. split; [done|]. split; [intros a Hin; by apply elem_of_nil in Hin|]. repeat (split; [done|]).
    split; [intros a fh Hin; by apply elem_of_nil in Hin|]. split; [done|].
    split. { intros s h c Hh Hc. exists c. split; [done|]. split; [by left|]. split; [done|].
             intros (a & fh & rid & lr & Hin & _). by apply elem_of_nil in Hin. }
    split; [intros s rid Hs; by left|].
    split; [intros a fh Hin; by apply elem_of_nil in Hin|]. intros a h _ Hh. by exists h. }
  apply NoDup_cons in Hnd as [Hnotin Hnd].
  destruct (Hl a) as [fh Ha]; [left|].
  destruct (mendb_report st a fh (plogs a) HI HC Ha) as (st1 & E1 & [HI1 HC1] & Ho1a & Ho1b & Hsub1 & Hhi1 & Hse1 & Ht1 & Hsh1 & Hrq1 & Hho1 & Hv1 & Hst1 & Hsp1 & Hot1).
  destruct (IH st1 HI1 HC1 Hnd) as (st2 & E2 & HC2 & Ho2a & Ho2b & Hsub2 & Hhi2 & Hse2 & Ht2 & Hsh2 & Hh1 & Hh2 & Hv2 & Hst2 & Hsp2 & Hot2).
  { intros a' Hin. rewrite Hho1. destruct (decide (a' = a)) as [->|Hne]; [by rewrite lookup_insert|].
    rewrite lookup_insert_ne by done. apply Hl. by right. }
  assert (Hreps1 : ∀ a' fh', f_hosts st !! a' = Some fh' → ∃ fh1, f_hosts st1 !! a' = Some fh1 ∧ fh_reps fh1 = fh_reps fh').
  { intros a' fh' Hfh'. rewrite Hho1. destruct (decide (a' = a)) as [->|Hne].
    - rewrite lookup_insert. assert (fh' = fh) as -> by congruence. by eexists.
    - rewrite lookup_insert_ne by done. by exists fh'. }
  exists st2. split.
  { rewrite bind_cons, steps_app, E1. exact E2. }
  split; [done|].
  split.
  { intros a' Hin. apply elem_of_cons in Hin as [->|Hin].
    - rewrite (Ho2b a Hnotin). exact Ho1b.
    - rewrite (Ho2a a' Hin), Hrq1. apply lookup_delete_ne. intros ->. done. }
  split.
  { intros a' Hnin. apply not_elem_of_cons in Hnin as [Hne Hnin]. rewrite (Ho2b a' Hnin). by apply Ho1a. }
  split; [intros b q Hq; apply Hsub1; by apply Hsub2|].
  split; [congruence|]. split; [congruence|]. split; [congruence|]. split; [congruence|].
  split.
  { intros a' fh' Hin Hfh'. destruct (Hreps1 a' fh' Hfh') as (fh1 & Hfh1 & Hr1). apply elem_of_cons in Hin as [->|Hin].
    - rewrite Hh2 by done. exists fh1. done.
    - destruct (Hh1 a' fh1 Hin Hfh1) as (fh2 & Hfh2 & Hr2). exists fh2. split; [done|]. congruence. }
  split. { intros a' Hnin. apply not_elem_of_cons in Hnin as [Hne Hnin]. rewrite Hh2 by done. rewrite Hho1. by rewrite lookup_insert_ne. }
  split.
  { intros s h c Hh Hc. destruct (Hv1 s h c Hh Hc) as (c1 & Hc1 & Hor1 & Hk1 & Hkn1).
    destruct (Hv2 s h c1) as (c2 & Hc2 & Hor2 & Hk2 & Hkn2); [by rewrite Hhi1|done|].
    exists c2. split; [done|]. split; [|split].
    - destruct Hor2 as [Heq|Hcur]; [|by right]. rewrite Heq. exact Hor1.
    - intros Hcc. apply Hk2. by apply Hk1.
    - intros (a' & fh' & rid & lr & Hin & Hfh' & Hk & Hrun & Hver). apply elem_of_cons in Hin as [->|Hin].
      + assert (fh' = fh) as -> by congruence. apply Hk2. apply Hkn1. eauto.
      + destruct (Hreps1 a' fh' Hfh') as (fh1 & Hfh1 & Hr1). apply Hkn2. exists a', fh1, rid, lr. rewrite Hr1. done. }
  split.
  { intros s rid Hs2. destruct (Hst2 s rid Hs2) as [Hs1|(a' & fh1 & Hin & Hfh1 & Hrun)].
    - destruct (Hst1 s rid Hs1) as [?|Hrun]; [by left|]. right. exists a, fh. split; [left|done].
    - right. assert (a' ≠ a) as Hne by (intros ->; done). rewrite Hho1, lookup_insert_ne in Hfh1 by done.
      exists a', fh1. split; [by right|done]. }
  split.
  { intros a' fh' Hin Hfh'. apply elem_of_cons in Hin as [->|Hin].
    - assert (fh' = fh) as -> by congruence. destruct Hsp1 as (h1 & Hh1' & Htk & Hpl).
      destruct (Hot2 a h1 Hnotin Hh1') as (h2 & Hh2' & Htk' & Hpl'). exists h2. split; [done|]. split; [congruence|]. rewrite Hpl'. done.
    - destruct (Hreps1 a' fh' Hfh') as (fh1 & Hfh1 & Hr).
      destruct (Hsp2 a' fh1 Hin Hfh1) as (h2 & Hh2' & Htk' & Hpl'). exists h2. split; [done|]. split; [congruence|]. by rewrite <- Hr. }
  intros a' h Hnin Hh. apply not_elem_of_cons in Hnin as [Hne Hnin].
  destruct (Hot1 a' h Hne Hh) as (h1 & Hh1' & Htk & Hpl). destruct (Hot2 a' h1 Hnin Hh1') as (h2 & Hh2' & Htk' & Hpl').
  exists h2. split; [done|]. split; congruence.
Qed.


(** * the phases of a round *)
Lemma steps_pres (Q : fstate → Prop) evs :
  (∀ st ev st', ev ∈ evs → Q st → fstep P st ev = FOk st' → Q st') → ∀ st st', Q st → steps P st evs = Some st' → Q st'.
Proof.
  induction evs as [|ev evs IH]; intros Hstep st st' HQ Hs; cbn [steps] in Hs; [by injection Hs as <-|].
  assert (Hstep' : ∀ st ev0 st', ev0 ∈ evs → Q st → fstep P st ev0 = FOk st' → Q st') by (intros ? ? ? Hin; apply Hstep; by right).
  destruct (fstep P st ev) as [st1| |] eqn:E; [|by apply (IH Hstep' st st')|done].
  apply (IH Hstep' st1 st'); [|done]. apply (Hstep st ev st1); [left|done|done].
Qed.

Lemma mendx_execs (l : list N) : ∀ st st',
  MendX st → steps P st ((λ a, EExec a true) <$> l) = Some st' →
  MendX st' ∧ f_db st' = f_db st ∧
  (∀ b, match f_hosts st !! b with
        | Some fh => ∃ fh', f_hosts st' !! b = Some fh' ∧ fh_queue fh' = (if decide (b ∈ l) then [] else fh_queue fh)
        | None => f_hosts st' !! b = None end).
Proof.
  induction l as [|a l IH]; intros st st' HX Hs.
  { cbn in Hs. injection Hs as <-. split; [done|]. split; [done|]. intros b. destruct (f_hosts st !! b) as [fh|]; [|done]. exists fh. split; [done|].
    rewrite decide_False; [done|]. intros Hin. by apply elem_of_nil in Hin. }
  rewrite fmap_cons in Hs. cbn [steps] in Hs. destruct (fstep P st (EExec a true)) as [st1| |] eqn:E1; [| |done].
  - destruct (mendx_exec st a st1 HX E1) as (HX1 & Hd1 & Hq1). destruct (IH st1 st' HX1 Hs) as (HX' & Hd' & Hq').
    split; [done|]. split; [congruence|]. intros b. specialize (Hq1 b). specialize (Hq' b).
    destruct (f_hosts st !! b) as [fh|].
    + destruct Hq1 as (fh1 & Hfh1 & Hqq1). rewrite Hfh1 in Hq'. destruct Hq' as (fh' & Hfh' & Hqq'). exists fh'. split; [done|].
      rewrite Hqq'. destruct (decide (b = a)) as [->|Hne].
      * rewrite (decide_True (P := a ∈ a :: l)) by left. by destruct (decide (a ∈ l)).
      * destruct (decide (b ∈ l)) as [Hin|Hnin]; [rewrite decide_True by (by right); done|].
        rewrite decide_False; [done|]. intros Hin. apply elem_of_cons in Hin as [?|?]; done.
    + by rewrite Hq1 in Hq'.
  - (* no such NodeHost *)
    destruct (IH st st' HX Hs) as (HX' & Hd' & Hq'). split; [done|]. split; [done|]. intros b. specialize (Hq' b).
    destruct (f_hosts st !! b) as [fh|] eqn:Hb; [|done]. destruct Hq' as (fh' & Hfh' & Hqq'). exists fh'. split; [done|]. rewrite Hqq'.
    assert (b ≠ a).
    { intros ->. cbn [fstep] in E1. rewrite Hb in E1. destruct HX as [(_ & HP & _) _]. destruct (mp_hosts _ _ HP a fh Hb) as [Hup _]. rewrite Hup in E1.
      by destruct (exec_all _ _ _ _). }
    destruct (decide (b ∈ l)) as [Hin|Hnin]; [rewrite decide_True by (by right); done|].
    rewrite decide_False; [done|]. intros Hin. apply elem_of_cons in Hin as [?|?]; done.
Qed.

Lemma mendx_learns st st' :
  MendX st → steps P st (catch_up_events st) = Some st' → MendX st' ∧ f_db st' = f_db st ∧ f_hist st' = f_hist st ∧
  (∀ b, match f_hosts st !! b with
        | Some fhb => ∃ fh', f_hosts st' !! b = Some fh' ∧ fh_queue fh' = fh_queue fhb
        | None => f_hosts st' !! b = None end).
Proof.
  intros HX Hs.
  apply (steps_pres (λ st0, MendX st0 ∧ f_db st0 = f_db st ∧ f_hist st0 = f_hist st ∧
           (∀ b, match f_hosts st !! b with
                 | Some fhb => ∃ fh', f_hosts st0 !! b = Some fh' ∧ fh_queue fh' = fh_queue fhb
                 | None => f_hosts st0 !! b = None end)) (catch_up_events st)) with (st := st); [| |done].
  - intros st0 ev st1 Hev (HX0 & Hd0 & Hh0 & Hf0) E. apply catch_up_members in Hev as (a & s & r & v & -> & Hm).
    rewrite <- Hh0 in Hm. destruct (mendx_learn st0 a s r v st1 HX0 Hm E) as (HX1 & Hd1 & Hh1 & Hf1). split; [done|]. split; [congruence|]. split; [congruence|].
    intros b. specialize (Hf0 b). specialize (Hf1 b). destruct (f_hosts st !! b) as [fhb|].
    + destruct Hf0 as (fh0 & Hfh0 & Hq0). rewrite Hfh0 in Hf1. destruct Hf1 as (fh1 & Hfh1 & Hq1). exists fh1. split; [done|]. congruence.
    + by rewrite Hf0 in Hf1.
  - split; [done|]. split; [done|]. split; [done|]. intros b. destruct (f_hosts st !! b) as [fhb|]; [by exists fhb|done].
Qed.

Lemma mendx_ticks n : ∀ st st',
  MendX st → steps P st (replicate n ETick) = Some st' →
  MendX st' ∧ f_db st' = set_tick (f_db st) (d_tick (f_db st) + N.of_nat n * p_step P) ∧ f_hosts st' = f_hosts st ∧ f_hist st' = f_hist st.
Proof.
  induction n as [|n IH]; intros st st' HX Hs; cbn [replicate steps] in Hs.
  - injection Hs as <-. split; [done|]. split; [|done]. destruct st as [d ? ? ?]. cbn. destruct d. unfold set_tick. cbn. f_equal. lia.
  - destruct (fstep P st ETick) as [st1| |] eqn:E1; [| |done].
    + destruct (mendx_tick st st1 HX E1) as (HX1 & Hd1 & Hh1 & Hhi1). destruct (IH st1 st' HX1 Hs) as (HX' & Hd' & Hh' & Hhi').
      split; [done|]. split; [|split; congruence].
      rewrite Hd', Hd1. unfold set_tick. cbn [d_tick d_deadline d_failed d_shards d_kv d_view d_kill d_hosts d_info d_requests d_outgoing].
      f_equal. rewrite Nat2N.inj_succ, N.mul_succ_l. lia.
    + exfalso. cbn [fstep] in E1. by destruct (db_step P (f_db st) CTick).
Qed.

(** * histories only grow, one entry and one version at a time *)
Lemma exec_req_hist h ccok x q x' : exec_req h ccok x q = Some x' → ∀ s, ∃ l, hist_of x'.2 s = l ++ hist_of x.2 s.
Proof.
  intros E s. assert (Hsame : ∃ l, hist_of x.2 s = l ++ hist_of x.2 s) by (by exists []).
  assert (Hins : ∀ (hosts' : gmap N fhost) (e e0 : hentry) hs0, hist_of x.2 (q_shard q) = e0 :: hs0 →
            ∃ l, hist_of (hosts', <[q_shard q := e :: e0 :: hs0]> x.2).2 s = l ++ hist_of x.2 s).
  { intros hosts' e e0 hs0 Eh. cbn [snd]. destruct (decide (s = q_shard q)) as [->|Hne].
    - exists [e]. unfold hist_of at 1. rewrite lookup_insert. cbn. by rewrite Eh.
    - exists []. unfold hist_of. by rewrite lookup_insert_ne. }
  unfold exec_req in E. destruct (x.1 !! h) as [fh|]; [|injection E as <-; exact Hsame].
  destruct (q_type q).
  - destruct (q_join q), (q_restore q); try done.
    + destruct (fh_reps fh !! _); injection E as <-; [unfold start_existing; destruct (_ || _); exact Hsame|]. destruct (busy _ _); exact Hsame.
    + destruct (fh_reps fh !! _); injection E as <-; [|exact Hsame]. unfold start_existing; destruct (_ || _); exact Hsame.
    + destruct (fh_reps fh !! _); [done|]. injection E as <-. destruct (busy _ _); exact Hsame.
  - destruct (q_members q); [done|]. injection E as <-. destruct (hist_of x.2 (q_shard q)) as [|e0 hs0] eqn:Eh; [exact Hsame|].
    destruct (_ && _); [|exact Hsame]. by apply Hins.
  - destruct (q_members q); [done|]. destruct (q_addrs q); [done|]. injection E as <-.
    destruct (hist_of x.2 (q_shard q)) as [|e0 hs0] eqn:Eh; [exact Hsame|].
    destruct (_ && _); [|exact Hsame]. by apply Hins.
  - destruct (q_members q); [done|]. injection E as <-. destruct (fh_reps fh !! _) as [lr|]; [|exact Hsame]. destruct (lr_running lr); exact Hsame.
Qed.

Lemma exec_all_hist h ccok qs : ∀ x x', exec_all h ccok x qs = Some x' → ∀ s, ∃ l, hist_of x'.2 s = l ++ hist_of x.2 s.
Proof.
  induction qs as [|q qs IH]; intros x x' E s; cbn [exec_all] in E; [injection E as <-; by exists []|].
  destruct (exec_req h ccok x q) as [x1|] eqn:E1; [|done].
  destruct (exec_req_hist h ccok x q x1 E1 s) as [l1 H1]. destruct (IH x1 x' E s) as [l2 H2]. exists (l2 ++ l1). by rewrite H2, H1, app_assoc.
Qed.

Lemma execs_hist (l : list N) : ∀ st st', steps P st ((λ a, EExec a true) <$> l) = Some st' →
  ∀ s, ∃ l0, hist_of (f_hist st') s = l0 ++ hist_of (f_hist st) s.
Proof.
  induction l as [|a l IH]; intros st st' Hs s; [cbn in Hs; injection Hs as <-; by exists []|].
  rewrite fmap_cons in Hs. cbn [steps] in Hs. destruct (fstep P st (EExec a true)) as [st1| |] eqn:E1; [|by apply IH|done].
  destruct (IH st1 st' Hs s) as [l2 H2]. cbn [fstep] in E1. destruct (f_hosts st !! a) as [fh|]; [|done]. destruct (fh_up fh); [|done].
  destruct (exec_all _ _ _ _) as [x|] eqn:Ex; [|done]. injection E1 as <-. cbn [f_hist] in H2.
  destruct (exec_all_hist _ _ _ _ _ Ex s) as [l1 H1]. cbn [snd] in H1. exists (l2 ++ l1). by rewrite H2, H1, app_assoc.
Qed.

Lemma hist_wf_app_version n (l h : list hentry) :
  hist_wf n (l ++ h) → h ≠ [] → cur_version (l ++ h) = cur_version h + N.of_nat (length l).
Proof.
  induction l as [|e l IH]; intros Hw Hne; [cbn; lia|].
  assert (Hne' : l ++ h ≠ []) by (destruct l; [done|done]).
  cbn [app length] in *. destruct (l ++ h) as [|[v M] rest] eqn:El; [done|].
  assert (Hv : e.1 = v + 1 ∧ hist_wf n ((v, M) :: rest)) by (inversion Hw; subst; done).
  destruct Hv as [Hv Hw2]. specialize (IH Hw2 Hne). cbn [cur_version fst] in *. lia.
Qed.

(** * the leader schedules: the analysis of FleetMendProofs applies to the state "as Drummer sees it" *)
Lemma LI_erase d d' hosts hosts' hist seen :
  d_failed d' = d_failed d → d_deadline d' = d_deadline d → d_shards d' = d_shards d → d_view d' = d_view d →
  d_hosts d' = d_hosts d → d_kill d' = d_kill d →
  (∀ a fh', hosts' !! a = Some fh' → ∃ fh, hosts !! a = Some fh ∧ fh_reps fh' = fh_reps fh ∧ fh_out fh' = fh_out fh) →
  (∀ q, in_box d' hosts' [] q → in_box d hosts [] q) →
  LI d hosts hist seen [] → LI d' hosts' hist seen [].
Proof.
  intros E1 E2 E3 E4 E5 E6 Hh Hbox HI.
  assert (Hsz : shard_size d' = shard_size d) by (unfold shard_size; by rewrite E3).
  assert (Hreq : ∀ q, req_ok d' hist seen q ↔ req_ok d hist seen q) by (intros q; unfold req_ok; by rewrite E4, Hsz).
  split.
  - rewrite E1. apply (li_failed _ _ _ _ _ HI).
  - rewrite E2. apply (li_deadline _ _ _ _ _ HI).
  - rewrite Hsz. apply (li_hist _ _ _ _ _ HI).
  - rewrite E4. apply (li_cover _ _ _ _ _ HI).
  - rewrite E4. apply (li_view _ _ _ _ _ HI).
  - unfold hosts_synced. rewrite E5, E4. apply (li_synced _ _ _ _ _ HI).
  - intros a fh' k lr Ha Hk. destruct (Hh a fh' Ha) as (fh & Hfh & Hr & _). rewrite Hr in Hk. unfold rep_ok. rewrite E4.
    exact (li_reps _ _ _ _ _ HI a fh k lr Hfh Hk).
  - intros a fh' r Ha Hr. destruct (Hh a fh' Ha) as (fh & Hfh & _ & Ho). rewrite Ho in Hr.
    eapply Forall_impl; [exact (li_out _ _ _ _ _ HI a fh r Hfh Hr)|]. intros ci Hci. unfold info_ok. rewrite E4. exact Hci.
  - intros q Hq. apply Hreq, (li_reqs _ _ _ _ _ HI), Hbox, Hq.
  - intros q q' Hq Hq'. apply (li_adds _ _ _ _ _ HI); by apply Hbox.
  - rewrite E6. apply (li_kill _ _ _ _ _ HI).
  - apply (li_seen _ _ _ _ _ HI).
Qed.

Definition eraseq (fh : fhost) : fhost := mkFHost (fh_up fh) (fh_region fh) (fh_reps fh) [] (fh_out fh).
Definition erase_db (d : db) : db := set_outgoing (set_requests d ∅) ∅.
(* the fleet as Drummer sees it at time T: no request pending *)
Definition fict (st : fstate) (T : N) : fstate :=
  mkF (erase_db (set_tick (f_db st) T)) (eraseq <$> f_hosts st) (f_hist st) (f_seen st).

Lemma mendb_fict st T :
  LoopInv st → MendP (nonout st) st →
  (∀ s h c, f_hist st !! s = Some h → d_view (f_db st) !! s = Some c → s_cci c = cur_version h) →
  time_ok (set_tick (f_db st) T) → 0 < T → Mend (fict st T).
Proof.
  intros HI HP Hcur Hto HT.
  assert (Hl : ∀ a fh', (eraseq <$> f_hosts st) !! a = Some fh' → ∃ fh, f_hosts st !! a = Some fh ∧ fh' = eraseq fh).
  { intros a fh'. rewrite lookup_fmap. destruct (f_hosts st !! a) as [fh|]; [|done]. cbn. intros [= <-]. by exists fh. }
  destruct HP. split; cbn [fict f_db f_hosts f_hist f_seen].
  - unfold LoopInv. cbn [fict f_db f_hosts f_hist f_seen]. apply (LI_erase (f_db st) _ (f_hosts st) _); try done.
    + intros a fh' Ha. destruct (Hl a fh' Ha) as (fh & Hfh & ->). by exists fh.
    + intros q [(a & qs & Hq & _)|[(a & qs & Hq & _)|[(a & fh' & Ha & Hin)|Hin]]].
      * cbn in Hq. by rewrite lookup_empty in Hq.
      * cbn in Hq. by rewrite lookup_empty in Hq.
      * destruct (Hl a fh' Ha) as (fh & Hfh & ->). cbn in Hin. by apply elem_of_nil in Hin.
      * by apply elem_of_nil in Hin.
  - exact Hto.
  - exact HT.
  - exact mp_defined0.
  - exact mp_viewdef0.
  - intros a fh' Ha. destruct (Hl a fh' Ha) as (fh & Hfh & ->). cbn. by apply (mp_hosts0 a).
  - exact mp_kill0.
  - intros a q [(qs & Hq & _)|[(qs & Hq & _)|(fh' & Ha & Hin)]].
    + cbn in Hq. by rewrite lookup_empty in Hq.
    + cbn in Hq. by rewrite lookup_empty in Hq.
    + cbn [fict f_hosts] in Ha. destruct (Hl a fh' Ha) as (fh & Hfh & ->). cbn in Hin. by apply elem_of_nil in Hin.
  - intros s h Hh. destruct (mp_members0 s h Hh) as (c & Hc & _ & Hmem). exists c. split; [done|]. split; [by apply (Hcur s)|].
    intros rid a Hm. destruct (Hmem rid a Hm) as (? & ? & fh & Hfh & Hdata). split; [done|]. split; [done|].
    exists (eraseq fh). rewrite lookup_fmap, Hfh. split; [done|]. exact Hdata.
  - exact mp_waiting0.
  - exact mp_onejoin0.
  - intros a fh' s rid lr h a' Ha Hk. destruct (Hl a fh' Ha) as (fh & Hfh & ->). cbn in Hk. by apply (mp_home0 a fh s rid lr h a').
  - intros a fh' s rid lr Ha Hk. destruct (Hl a fh' Ha) as (fh & Hfh & ->). cbn in Hk. by apply (mp_nostray0 a fh s rid lr).
Qed.

(* what an allowed batch consists of, in a Mend state whose NodeHosts have reported: restores addressed to the member's
   NodeHost, join-CREATEs for members the view shows as waiting, KILLs *)
Lemma mend_batch_info st t b q :
  Mend st → mfresh P st t → allowed P (ctx_of_db (f_db st)) (OBatch b) = true → q ∈ b →
  (is_restore q = true ∧ q_join q = false ∧ ∃ h, f_hist st !! q_shard q = Some h ∧ cur_members h !! q_inst q = Some (q_raft q)) ∨
  (good_join (f_hist st) (q_raft q) q ∧ ∃ c n, d_view (f_db st) !! q_shard q = Some c ∧ s_reps c !! q_inst q = Some n ∧ r_tick n = 0) ∨
  is_kill q = true.
Proof.
  intros HC Hfr Hal Hq. pose proof (md_inv _ HC) as HI. set (C := ctx_of_db (f_db st)) in *.
  destruct (batch_request_cases P C b q Hal Hq) as [Hk|(_ & c & qs & Hc & Hs & Hin & Hg & _)].
  { right; right. by apply (kills_are_kill C). }
  destruct (mready_entry P st t c HC Hfr Hc) as (h & sd & Hh & Hvc & _ & Hsd & _ & Hmv & Hrs & Hnone & Hcreate).
  fold C in Hsd, Hrs, Hnone, Hcreate.
  assert (Hcase : repair_action P C c = ANone ∨ (has_restore P C c = false ∧ repair_action P C c = ACreate sd)).
  { destruct (sr_failed P C c) as [|n0 l0] eqn:Ef; [|left; apply Hnone; by left].
    destruct (sr_wait P C c) as [|n1 l1] eqn:Ew; [left; apply Hnone; by right|]. right. by apply Hcreate. }
  apply group_allowed_inv in Hg as [(_ & sd' & _ & Hok)|(Hnr & Hcases)].
  - left. destruct (restore_group_inv P C c _ qs q Hok Hin) as ((Hcr & Hsh & _ & _ & _ & _ & Hj & Hre & _) & n & Hn & Hi & Hr).
    rewrite Hrs in Hn. apply elem_sr_failed in Hn as [Hn _]. destruct (Hmv n Hn) as (_ & _ & _ & Hm).
    split; [unfold is_restore; by rewrite Hcr, Hre|]. split; [done|]. exists h. rewrite Hsh, Hi, Hr. done.
  - right; left. destruct Hcases as [[_ ->]|[(Ha & _)|[(sd' & Ha & q' & -> & Hok)|(Ha & _)]]]; [by apply elem_of_nil in Hin| | |];
      try (destruct Hcase as [Hx|[_ Hx]]; congruence).
    apply elem_of_list_singleton in Hin as ->. unfold join_req_ok in Hok. apply bool_decide_eq_true in Hok as [Hshape Hex].
    destruct Hshape as (Hcr & Hsh & _ & _ & _ & _ & Hj & Hre & _). apply Exists_exists in Hex as (n & Hn & Hi & Hr).
    apply elem_sr_wait in Hn as [Hn Hw]. destruct (Hmv n Hn) as (_ & _ & _ & Hm).
    split.
    + split; [done|]. split; [done|]. split; [done|]. exists h. rewrite Hsh, Hi, Hr. done.
    + apply mvals_elem in Hn as [rid Hn]. destruct (li_view _ _ _ _ _ HI (s_id c) c Hvc) as (_ & _ & Hids). destruct (Hids rid n Hn) as [Hrid _].
      exists c, n. rewrite Hsh, Hi. split; [done|]. split; [by rewrite Hrid|].
      unfold replica_waiting in Hw. apply andb_true_iff in Hw as [Hz _]. by apply N.eqb_eq in Hz.
Qed.

Lemma nonout_qextra st a q : LoopInv st → nonout st a q → qextra (f_hist st) q.
Proof.
  intros HI Hq.
  assert (Hbox : in_box (f_db st) (f_hosts st) [] q).
  { destruct Hq as [(qs & Hl & Hin)|(fh & Hl & Hin)]; [left; eauto|right; right; left; eauto]. }
  destruct (li_reqs _ _ _ _ _ HI q Hbox) as [_ Hreq].
  assert (Hle : ∀ h M, f_hist st !! q_shard q = Some h → entry_at h (q_ccid q) = Some M → q_ccid q ≤ cur_version h).
  { intros h M Hh HM. apply entry_at_Some in HM. apply (hist_wf_le _ _ (li_hist _ _ _ _ _ HI _ _ Hh) _ HM). }
  split.
  - intros Hch h Hh. unfold is_change, is_add, is_delete in Hch. destruct (q_type q); try done.
    + destruct Hreq as (y & _ & Hr). destruct (Hr h Hh) as (M & HM & _). by apply (Hle h M).
    + destruct Hreq as (x & t & _ & _ & _ & Hr). destruct (Hr h Hh) as [(M & HM & _) _]. by apply (Hle h M).
  - intros Hk. unfold is_kill in Hk. destruct (q_type q); try done. destruct Hreq as (y & Hy & Hd). exists y. split; [done|].
    intros h Hh. by destruct (Hd h Hh).
Qed.

Lemma mendx_schedule st1 st4 o st5 t T :
  LoopInv st1 → MendP (nonout st1) st1 →
  (∀ s h c, f_hist st1 !! s = Some h → d_view (f_db st1) !! s = Some c → s_cci c = cur_version h) →
  (∀ s h rid a, f_hist st1 !! s = Some h → cur_members h !! rid = Some a → stamped (f_db st1) s rid →
     ∃ hh, d_hosts (f_db st1) !! a = Some hh ∧ h_tick hh = t ∧ (s, rid) ∈ h_plog hh) →
  MendX st4 → f_db st4 = set_tick (f_db st1) T → T - t ≤ p_ttl P →
  (∀ s, ∃ l, hist_of (f_hist st4) s = l ++ hist_of (f_hist st1) s) →
  (∀ a q, nonout st4 a q → f_hosts st4 !! a = None) →
  fstep P st4 (ESchedule o) = FOk st5 →
  ∃ b, o = OBatch b ∧ add_ids b = [] ∧ MendB st5 ∧ f_hist st5 = f_hist st4 ∧ f_hosts st5 = f_hosts st4 ∧
       (∀ a q, nonout st5 a q → mharmless (f_hist st5) a q).
Proof.
  intros HI1 HP1 Hcur1 Hrep [(HI4 & HP4 & Hoh4) Hnc4] Hdb HT Hext Hnohost E.
  cbn [fstep] in E. destruct (allowed P (ctx_of_db (f_db st4)) o) eqn:Hal; [|done].
  (* the fleet as Drummer sees it *)
  assert (HMF : Mend (fict st1 T)).
  { apply mendb_fict; [done|done|done| |].
    - rewrite <- Hdb. apply (mp_timeok _ _ HP4).
    - pose proof (mp_time _ _ HP4) as Ht. rewrite Hdb in Ht. exact Ht. }
  assert (Hfr : mfresh P (fict st1 T) t).
  { split; [exact HT|]. intros s h0 rid a Hh0 Hm Hst. destruct (Hrep s h0 rid a Hh0 Hm Hst) as (hh & Hhh & Htk & Hpl). by exists hh. }
  assert (Hal' : allowed P (ctx_of_db (f_db (fict st1 T))) o = true) by (rewrite Hdb in Hal; exact Hal).
  destruct (mend_allowed P (fict st1 T) t o HMF Hfr Hal') as (b & -> & Hadds & _).
  exists b. split; [done|]. split; [done|].
  assert (Hfresh : fresh_ok st4 (ESchedule (OBatch b))).
  { cbn. rewrite Hadds. split; [constructor|]. intros x Hx. by apply elem_of_nil in Hx. }
  assert (E' : fstep P st4 (ESchedule (OBatch b)) = FOk st5) by (cbn [fstep]; by rewrite Hal).
  pose proof (step_inv P st4 _ st5 HI4 Hfresh E') as HI5.
  pose proof (fstep_time_ok P st4 _ st5 E' (mp_timeok _ _ HP4)) as Hto5.
  assert (Hst5 : f_hosts st5 = f_hosts st4 ∧ f_hist st5 = f_hist st4 ∧
                 f_db st5 = set_requests (f_db st4) (put_requests (d_requests (f_db st4)) b)).
  { destruct b as [|q0 b0].
    - injection E as <-. split; [done|]. split; [done|]. destruct st4 as [d ? ? ?]. cbn. by destruct d.
    - rewrite (schedule_db P st4 (q0 :: b0) HI4 Hal) in E by (intros x Hx; rewrite Hadds in Hx; by apply elem_of_nil in Hx).
      injection E as <-. done. }
  destruct Hst5 as (Eh & Ehi & Ed).
  (* every pending request is a leftover or a request for a current member *)
  assert (Hall : ∀ a q, nonout st5 a q → mharmless (f_hist st4) a q ∧ qextra (f_hist st4) q).
  { intros a q Hq. split; [|rewrite <- Ehi; by apply (nonout_qextra st5 a q)].
    assert (Hold : nonout st4 a q → mharmless (f_hist st4) a q).
    { intros Hq4. destruct (mp_boxes _ _ HP4 a q Hq4) as [[? _]|[(_ & _ & [[fh Hfh] _] & _) _]]; [done|]. rewrite (Hnohost a q Hq4) in Hfh. done. }
    destruct Hq as [(qs & Hl & Hin)|(fh & Hl & Hin)]; [|apply Hold; right; exists fh; by rewrite <- Eh].
    rewrite Ed in Hl. cbn [set_requests d_requests] in Hl. rewrite put_requests_lookup in Hl. case_bool_decide as Hm; [|apply Hold; left; eauto].
    injection Hl as <-. unfold for_addr in Hin. apply elem_of_list_filter in Hin as [Hra Hin]. subst a.
    destruct (mend_batch_info (fict st1 T) t b q HMF Hfr Hal' Hin) as [(Hres & Hj & h1 & Hh1 & Hm1)|[(Hgj & c & n & Hc & Hn & Hz)|Hk]];
      cbn [fict f_hist f_db] in *.
    3:{ (* KILL: the invariant *)
        assert (Hbox : in_box (f_db st5) (f_hosts st5) [] q).
        { left. exists (q_raft q), (for_addr (q_raft q) b). rewrite Ed. cbn [set_requests d_requests]. rewrite put_requests_lookup.
          rewrite bool_decide_eq_true_2 by done. split; [done|]. unfold for_addr. apply elem_of_list_filter. done. }
        destruct (li_reqs _ _ _ _ _ HI5 q Hbox) as [_ Hreq]. unfold is_kill in Hk. destruct (q_type q) eqn:Ety; try done.
        destruct Hreq as (y & Hy & Hd). left; right; right. split; [unfold is_kill; by rewrite Ety|]. exists y. split; [done|].
        intros h Hh. rewrite Ehi in Hd. by destruct (Hd h Hh). }
    - (* restore for a member of the membership Drummer's view shows *)
      set (s := q_shard q) in *. destruct (Hext s) as [l Hl].
      pose proof (li_hist _ _ _ _ _ HI1 s h1 Hh1) as Hw1. pose proof (hist_wf_nonempty _ _ Hw1) as Hne1.
      assert (Hh4 : f_hist st4 !! s = Some (l ++ h1)).
      { unfold hist_of in Hl. rewrite Hh1 in Hl. cbn in Hl. destruct (f_hist st4 !! s) as [h4|]; cbn in Hl; [by rewrite Hl|]. by destruct l. }
      pose proof (li_hist _ _ _ _ _ HI4 s _ Hh4) as Hw4.
      pose proof (hist_wf_app_version _ l h1 Hw4 Hne1) as Hver.
      destruct (mp_members _ _ HP1 s h1 Hh1) as (c & Hc & _ & Hmem1). destruct (Hmem1 _ _ Hm1) as (Hr0 & Ha0 & _).
      pose proof (Hcur1 s h1 c Hh1 Hc) as Hcc.
      destruct (mp_members _ _ HP4 s _ Hh4) as (c4 & Hc4 & Hcase4 & _). rewrite Hdb in Hc4. cbn [set_tick d_view] in Hc4. assert (c4 = c) as -> by congruence.
      destruct Hcase4 as [Hcc4|(v & M & M' & x & rest & Hb)].
      + assert (l = []) as -> by (destruct l; [done|cbn [length] in Hver; lia]). cbn [app] in Hh4.
        left; left. split; [done|]. split; [done|]. exists h1, (q_raft q). done.
      + pose proof Hb as (Hhh & Hv & Hkind).
        assert (Hl1 : ∃ e, l = [e]).
        { rewrite Hhh in Hver. cbn [cur_version fst] in Hver. destruct l as [|e [|e2 l2]]; [cbn in Hver; lia|by exists e|cbn [length] in Hver; lia]. }
        destruct Hl1 as [e ->]. cbn [app] in Hhh. injection Hhh as -> ->. cbn [cur_members snd] in Hm1.
        destruct (Hnc4 s _ c v M M' x rest Hh4 ltac:(rewrite Hdb; exact Hc) Hb) as [Hsnz _].
        destruct Hkind as [[HMx [t' ->]]|[[? HMx] ->]].
        * left; left. split; [done|]. split; [done|]. eexists _, (q_raft q). split; [exact Hh4|]. cbn.
          assert (q_inst q ≠ x) by (intros Heq; rewrite Heq in Hm1; congruence). by rewrite lookup_insert_ne.
        * destruct (decide (q_inst q = x)) as [Heq|Hnx].
          -- right; right. split; [done|]. split; [done|]. eexists. split; [exact Hh4|]. cbn. split; [rewrite Heq; by rewrite lookup_delete|].
             split; [|done]. intros r' Hr'. apply lookup_delete_Some in Hr' as [Hne' Hr'].
             assert (Hmok : mem_ok (shard_size (f_db st1) s) M) by (apply (hist_wf_mem_ok _ _ Hw1 (v, M)); left).
             destruct Hmok as [_ Hinj]. apply Hne'. rewrite <- Heq. symmetry. by apply (Hinj r' (q_inst q) (q_raft q)).
          -- left; left. split; [done|]. split; [done|]. eexists _, (q_raft q). split; [exact Hh4|]. cbn. by rewrite lookup_delete_ne.
    - (* join-CREATE for a member the view shows as waiting: its shard is not ahead of the view *)
      destruct Hgj as (Hcr & Hj & Hre & h1 & Hh1 & Hm1).
      set (s := q_shard q) in *. destruct (Hext s) as [l Hl].
      pose proof (li_hist _ _ _ _ _ HI1 s h1 Hh1) as Hw1. pose proof (hist_wf_nonempty _ _ Hw1) as Hne1.
      assert (Hh4 : f_hist st4 !! s = Some (l ++ h1)).
      { unfold hist_of in Hl. rewrite Hh1 in Hl. cbn in Hl. destruct (f_hist st4 !! s) as [h4|]; cbn in Hl; [by rewrite Hl|]. by destruct l. }
      pose proof (li_hist _ _ _ _ _ HI4 s _ Hh4) as Hw4.
      pose proof (hist_wf_app_version _ l h1 Hw4 Hne1) as Hver.
      assert (Hc1 : d_view (f_db st1) !! s = Some c) by exact Hc.
      pose proof (Hcur1 s h1 c Hh1 Hc1) as Hcc.
      destruct (mp_members _ _ HP4 s _ Hh4) as (c4 & Hc4 & Hcase4 & _). pose proof Hc4 as Hc4'. rewrite Hdb in Hc4. cbn [set_tick d_view] in Hc4. assert (c4 = c) as -> by congruence.
      destruct Hcase4 as [Hcc4|(v & M & M' & x & rest & Hb)].
      + assert (l = []) as -> by (destruct l; [done|cbn [length] in Hver; lia]). cbn [app] in Hh4.
        right; left. split; [done|]. split; [done|]. split; [done|]. exists h1. done.
      + exfalso. destruct (mp_behind _ _ HP4 s _ c v M M' x rest Hh4 Hc4' Hb) as (Hst & _). by apply (Hst _ n Hn). }
  split; [|split; [done|split; [done|]]].
  2:{ intros a q Hq. rewrite Ehi. by apply Hall. }
  split; [exact HI5|]. split.
  - destruct HP4. split; try rewrite Ed; try rewrite Eh; try rewrite Ehi; cbn [set_requests d_tick d_shards d_view d_kill]; try done.
    all: try (rewrite Ed in Hto5; exact Hto5).
    intros a q Hq. left. by apply Hall.
  - intros a Ha. rewrite Eh. apply Hoh4. rewrite Ed in Ha. exact Ha.
Qed.

(* after the report phase the Requests of every NodeHost that reported are empty *)
Lemma mendb_reports_requests (plogs : N → bool) (l : list N) : ∀ st st',
  LoopInv st → MendP (nonout st) st → NoDup l → (∀ a, a ∈ l → is_Some (f_hosts st !! a)) →
  steps P st (l ≫= λ a, [ESnap a (plogs a); EDeliver a false]) = Some st' →
  ∀ a, a ∈ l → d_requests (f_db st') !! a = None.
Proof.
  induction l as [|a l IH]; intros st st' HI HP Hnd Hl Hs a0 Hin; [by apply elem_of_nil in Hin|].
  apply NoDup_cons in Hnd as [Hnotin Hnd]. destruct (Hl a) as [fh Ha]; [left|].
  destruct (mendb_report st a fh (plogs a) HI HP Ha) as (st1 & E1 & [HI1 HP1] & _ & _ & _ & _ & _ & _ & _ & Hrq1 & Hho1 & _).
  rewrite bind_cons, steps_app, E1 in Hs.
  assert (Hl1 : ∀ a', a' ∈ l → is_Some (f_hosts st1 !! a')).
  { intros a' Hin'. rewrite Hho1. destruct (decide (a' = a)) as [->|Hne]; [by rewrite lookup_insert|]. rewrite lookup_insert_ne by done. apply Hl. by right. }
  destruct (decide (a0 ∈ l)) as [Hin0|Hnin0]; [by apply (IH st1 st' HI1 HP1 Hnd Hl1 Hs)|].
  apply elem_of_cons in Hin as [->|?]; [|done].
  (* the later reports do not touch the Requests of a *)
  assert (Hkeep : ∀ l0 stx stx', NoDup l0 → a ∉ l0 → LoopInv stx → MendP (nonout stx) stx → (∀ a', a' ∈ l0 → is_Some (f_hosts stx !! a')) →
            steps P stx (l0 ≫= λ a, [ESnap a (plogs a); EDeliver a false]) = Some stx' → d_requests (f_db stx) !! a = None → d_requests (f_db stx') !! a = None).
  { clear. induction l0 as [|b l0 IH0]; intros stx stx' Hnd Hna HIx HPx Hlx Hsx Hnone; [cbn in Hsx; by injection Hsx as <-|].
    apply NoDup_cons in Hnd as [Hnb Hnd]. apply not_elem_of_cons in Hna as [Hab Hna]. destruct (Hlx b) as [fhb Hb]; [left|].
    destruct (mendb_report stx b fhb (plogs b) HIx HPx Hb) as (sty & Ey & [HIy HPy] & _ & _ & _ & _ & _ & _ & _ & Hrqy & Hhoy & _).
    rewrite bind_cons, steps_app, Ey in Hsx. apply (IH0 sty stx' Hnd Hna HIy HPy); [|done|].
    - intros a' Hin'. rewrite Hhoy. destruct (decide (a' = b)) as [->|Hne]; [by rewrite lookup_insert|]. rewrite lookup_insert_ne by done. apply Hlx. by right.
    - rewrite Hrqy. by rewrite lookup_delete_ne. }
  apply (Hkeep l st1 st' Hnd Hnotin HI1 HP1 Hl1 Hs). rewrite Hrq1. by rewrite lookup_delete.
Qed.

(** * the round in which membership changes are applied *)
Theorem mendb_round st st' plogs nticks o :
  MendB st → (∀ a, plogs a = true) → N.of_nat nticks * p_step P ≤ p_ttl P →
  healthy_round P plogs nticks o st = Some st' →
  ∃ b, o = OBatch b ∧ add_ids b = [] ∧ MendB st' ∧ (∀ a q, nonout st' a q → mharmless (f_hist st') a q).
Proof.
  intros (HI & HP & Hoh) Hpl Httl. unfold healthy_round. set (t := d_tick (f_db st)).
  destruct (mendb_reports plogs (host_addrs st) st HI HP (host_addrs_nodup st)) as
    (st1 & E1 & [HI1 HP1] & Ho1a & Ho1b & Hsub1 & Hhi1 & Hse1 & Ht1 & Hsh1 & Hho1 & Hho1' & Hv1 & Hst1 & Hsp1 & _).
  { intros a. apply host_addrs_elem. }
  pose proof (mendb_reports_requests plogs (host_addrs st) st st1 HI HP (host_addrs_nodup st) ltac:(intros a; apply host_addrs_elem) E1) as Hrq1.
  rewrite E1.
  (* the NodeHosts are the same *)
  assert (Hdom1 : ∀ a, is_Some (f_hosts st1 !! a) ↔ is_Some (f_hosts st !! a)).
  { intros a. destruct (f_hosts st !! a) as [fh|] eqn:Ha.
    - destruct (Hho1 a fh) as (fh' & -> & _); [apply host_addrs_elem; by eexists|done|]. split; intros _; by eexists.
    - rewrite Hho1', Ha; [done|]. intros Hin. apply host_addrs_elem in Hin. rewrite Ha in Hin. by destruct Hin. }
  (* every view is current after the reports *)
  assert (Hcur1 : ∀ s h c1, f_hist st1 !! s = Some h → d_view (f_db st1) !! s = Some c1 → s_cci c1 = cur_version h).
  { intros s h c1 Hh1 Hc1. rewrite Hhi1 in Hh1.
    destruct (mp_members _ _ HP s h Hh1) as (c & Hc & Hcase & _).
    destruct (Hv1 s h c Hh1 Hc) as (c' & Hc' & _ & Hkeep & Hknow). assert (c' = c1) as -> by congruence.
    destruct Hcase as [Hcc|(v & M & M' & x & rest & Hb)]; [by apply Hkeep|].
    destruct (mp_behind _ _ HP s h c v M M' x rest Hh1 Hc Hb) as (_ & _ & a0 & fh0 & rid & lr & Hfh0 & Hk & Hrun & Hver).
    apply Hknow. exists a0, fh0, rid, lr. split; [apply host_addrs_elem; by eexists|]. destruct Hb as (Hhh & _). rewrite Hhh. cbn. done. }
  assert (HX1 : MendX st1).
  { split; [split; [done|split; [done|]]|].
    - intros a Ha. apply Hdom1. destruct (decide (a ∈ host_addrs st)) as [Hin|Hnin]; [by apply host_addrs_elem|].
      apply Hoh. rewrite <- (Ho1b a Hnin). exact Ha.
    - intros s h c v M M' x rest Hh Hc Hb. exfalso. pose proof (Hcur1 s h c Hh Hc) as Hcc. destruct Hb as (-> & Hv & _). cbn in Hcc. lia. }
  destruct (steps P st1 ((λ a, EExec a true) <$> host_addrs st1)) as [st2|] eqn:E2; [|done].
  destruct (mendx_execs (host_addrs st1) st1 st2 HX1 E2) as (HX2 & Hd2 & Hq2).
  pose proof (execs_hist (host_addrs st1) st1 st2 E2) as Hext2.
  destruct (steps P st2 (catch_up_events st2)) as [st3|] eqn:E3; [|done].
  destruct (mendx_learns st2 st3 HX2 E3) as (HX3 & Hd3 & Hhi3 & Hf3).
  destruct (steps P st3 (replicate nticks ETick)) as [st4|] eqn:E4; [|done].
  destruct (mendx_ticks nticks st3 st4 HX3 E4) as (HX4 & Hd4 & Hho4 & Hhi4).
  destruct (fstep P st4 (ESchedule o)) as [st5| |] eqn:E5; try done. intros [= <-].
  set (T := d_tick (f_db st1) + N.of_nat nticks * p_step P).
  assert (Hdb : f_db st4 = set_tick (f_db st1) T) by (rewrite Hd4, Hd3, Hd2; done).
  destruct (mendx_schedule st1 st4 o st5 t T HI1 HP1 Hcur1) as (b & Ho & Hadd & HB5 & Hhi5 & Hho5 & Hinert); [|done|done| | | |done|].
  - (* every stamped member's NodeHost has reported at t, persisted log included *)
    intros s h rid a Hh Hm Hst. rewrite Hhi1 in Hh.
    destruct (mp_members _ _ HP s h Hh) as (c & Hc & _ & Hmem). destruct (Hmem rid a Hm) as (_ & _ & fh & Hfh & Hdata).
    assert (Hk : is_Some (fh_reps fh !! (s, rid))).
    { destruct (Hst1 s rid Hst) as [Hold|(a' & fh' & _ & Hfh' & Hrun)]; [by apply Hdata|].
      unfold runs_on in Hrun. destruct (fh_reps fh' !! (s, rid)) as [lr|] eqn:Ek; [|done].
      assert (a = a') as <- by (by apply (mp_home _ _ HP a' fh' s rid lr h a)). assert (fh' = fh) as -> by congruence. by eexists. }
    destruct (Hsp1 a fh) as (hh & Hhh & Htk & Hplog); [apply host_addrs_elem; by eexists|done|].
    exists hh. split; [done|]. split; [done|]. by apply Hplog; [apply Hpl|].
  - unfold T. rewrite Ht1. fold t. lia.
  - intros s. rewrite Hhi4, Hhi3. apply Hext2.
  - (* nothing is pending for a NodeHost *)
    intros a q Hq. destruct (f_hosts st4 !! a) as [fh4|] eqn:Ha4; [|done]. exfalso.
    rewrite Hho4 in Ha4. specialize (Hf3 a). specialize (Hq2 a).
    destruct (f_hosts st2 !! a) as [fh2|] eqn:Ha2; [|congruence]. destruct Hf3 as (fh3 & Hfh3 & Hq3). assert (fh3 = fh4) as -> by congruence.
    destruct (f_hosts st1 !! a) as [fh1|] eqn:Ha1; [|congruence]. destruct Hq2 as (fh2' & Hfh2' & Hqq2). assert (fh2' = fh2) as -> by congruence.
    assert (Hin1 : a ∈ host_addrs st1) by (apply host_addrs_elem; by eexists).
    assert (Hin : a ∈ host_addrs st) by (apply host_addrs_elem, Hdom1; by eexists).
    rewrite decide_True in Hqq2 by done.
    destruct Hq as [(qs & Hl & _)|(fh & Hl & Hinq)].
    + rewrite Hdb in Hl. cbn [set_tick d_requests] in Hl. rewrite (Hrq1 a Hin) in Hl. done.
    + rewrite Hho4, Hfh3 in Hl. injection Hl as <-. rewrite Hq3, Hqq2 in Hinq. by apply elem_of_nil in Hinq.
  - exists b. done.
Qed.

(** * the round after: every pending request is a leftover; the reports replace the Outgoing copies *)
Lemma mp_mend (B : N → request → Prop) st :
  LoopInv st → MendP B st →
  (∀ s h c, f_hist st !! s = Some h → d_view (f_db st) !! s = Some c → s_cci c = cur_version h) →
  (∀ a q, boxed_at st a q → mharmless (f_hist st) a q) → Mend st.
Proof.
  intros HI HP Hcur Hbox. destruct HP. split; try done.
  intros s h Hh. destruct (mp_members0 s h Hh) as (c & Hc & _ & Hmem). exists c. split; [done|]. split; [by apply (Hcur s)|done].
Qed.

Theorem mendb_inert_round st st' plogs nticks o :
  MendB st → (∀ a q, nonout st a q → mharmless (f_hist st) a q) →
  (∀ a, plogs a = true) → N.of_nat nticks * p_step P ≤ p_ttl P →
  healthy_round P plogs nticks o st = Some st' →
  ∃ b, o = OBatch b ∧ add_ids b = [] ∧ Mend st'.
Proof.
  intros (HI & HP & Hoh) Hinert Hpl Httl. unfold healthy_round. set (t := d_tick (f_db st)).
  destruct (mendb_reports plogs (host_addrs st) st HI HP (host_addrs_nodup st)) as
    (st1 & E1 & [HI1 HP1] & Ho1a & Ho1b & Hsub1 & Hhi1 & Hse1 & Ht1 & Hsh1 & Hho1 & Hho1' & Hv1 & Hst1 & Hsp1 & _).
  { intros a. apply host_addrs_elem. }
  rewrite E1.
  assert (Hcur1 : ∀ s h c1, f_hist st1 !! s = Some h → d_view (f_db st1) !! s = Some c1 → s_cci c1 = cur_version h).
  { intros s h c1 Hh1 Hc1. rewrite Hhi1 in Hh1.
    destruct (mp_members _ _ HP s h Hh1) as (c & Hc & Hcase & _).
    destruct (Hv1 s h c Hh1 Hc) as (c' & Hc' & _ & Hkeep & Hknow). assert (c' = c1) as -> by congruence.
    destruct Hcase as [Hcc|(v & M & M' & x & rest & Hb)]; [by apply Hkeep|].
    destruct (mp_behind _ _ HP s h c v M M' x rest Hh1 Hc Hb) as (_ & _ & a0 & fh0 & rid & lr & Hfh0 & Hk & Hrun & Hver).
    apply Hknow. exists a0, fh0, rid, lr. split; [apply host_addrs_elem; by eexists|]. destruct Hb as (Hhh & _). rewrite Hhh. cbn. done. }
  assert (HM1 : Mend st1).
  { apply (mp_mend (nonout st1)); [done|done|done|]. intros a q Hq. rewrite Hhi1.
    destruct Hq as [Hq|[(qs & Hl & Hin)|Hq]].
    - apply Hinert, Hsub1. by left.
    - destruct (decide (a ∈ host_addrs st)) as [Hin0|Hnin0].
      + rewrite (Ho1a a Hin0) in Hl. apply Hinert. left. eauto.
      + exfalso. rewrite (Ho1b a Hnin0) in Hl. apply Hnin0, host_addrs_elem, Hoh. by eexists.
    - apply Hinert, Hsub1. by right. }
  intros Htail. destruct (mend_tail P st1 t nticks o st' HM1 Ht1 Httl) as (b & Ho & Hadd & HM' & Hhi'); [|exact Htail|by exists b].
  intros s h rid a Hh Hm Hst. rewrite Hhi1 in Hh.
  destruct (mp_members _ _ HP s h Hh) as (c & Hc & _ & Hmem). destruct (Hmem rid a Hm) as (_ & _ & fh & Hfh & Hdata).
  assert (Hk : is_Some (fh_reps fh !! (s, rid))).
  { destruct (Hst1 s rid Hst) as [Hold|(a' & fh' & _ & Hfh' & Hrun)]; [by apply Hdata|].
    unfold runs_on in Hrun. destruct (fh_reps fh' !! (s, rid)) as [lr|] eqn:Ek; [|done].
    assert (a = a') as <- by (by apply (mp_home _ _ HP a' fh' s rid lr h a)). assert (fh' = fh) as -> by congruence. by eexists. }
  destruct (Hsp1 a fh) as (hh & Hhh & Htk & Hplog); [apply host_addrs_elem; by eexists|done|].
  destruct (Hho1 a fh) as (fh1 & Hfh1 & _); [apply host_addrs_elem; by eexists|done|].
  exists hh, fh1. split; [done|]. split; [done|]. split; [|done]. by apply Hplog; [apply Hpl|].
Qed.

(** * healing *)
Theorem mendb_heal os st st' plogs nticks :
  MendB st → (∀ a, plogs a = true) → N.of_nat nticks * p_step P ≤ p_ttl P → (0 < nticks)%nat → 0 < p_step P →
  (detect_rounds P nticks + 6 ≤ length os)%nat →
  healthy_rounds P plogs nticks os st = Some st' →
  Mend st' ∧ healed P st' = true.
Proof.
  intros HB Hpl Httl Hnt Hstep Hlen Hr. destruct os as [|o1 [|o2 os]]; [cbn in Hlen; lia|cbn in Hlen; lia|].
  cbn [healthy_rounds] in Hr. destruct (healthy_round P plogs nticks o1 st) as [st1|] eqn:E1; [|done].
  destruct (mendb_round st st1 plogs nticks o1 HB Hpl Httl E1) as (b1 & _ & _ & HB1 & Hinert1).
  destruct (healthy_round P plogs nticks o2 st1) as [st2|] eqn:E2; [|done].
  destruct (mendb_inert_round st1 st2 plogs nticks o2 HB1 Hinert1 Hpl Httl E2) as (b2 & _ & _ & HM2).
  apply (mend_heal_ge P plogs nticks Hpl Httl os st2 st' HM2 Hnt Hstep); [cbn [length] in Hlen; lia|done].
Qed.
End MendB.

(** * MendA ⊆ MendB (given that only NodeHosts have Outgoing mailboxes) *)
Theorem menda_mendb st : MendA st → out_hosts st → MendB st.
Proof.
  intros HA Hoh. pose proof (ma_inv _ HA) as HI. split; [done|]. split; [|done].
  destruct HA. split; try done.
  intros a q Hq. left. split; [|by apply (nonout_qextra st a q)].
  apply ma_boxes. destruct Hq as [?|?]; [by left|by right; right].
Qed.

(** * the decidable part of MendB *)
Definition erase_st (st : fstate) : fstate := mkF (erase_db (f_db st)) (eraseq <$> f_hosts st) (f_hist st) (f_seen st).

Definition pendingl (st : fstate) : list (N * request) :=
  (map_to_list (d_requests (f_db st)) ≫= λ aq, (λ q, (aq.1, q)) <$> aq.2) ++
  (map_to_list (f_hosts st) ≫= λ ah, (λ q, (ah.1, q)) <$> fh_queue ah.2).

Lemma pendingl_elem st a q : (a, q) ∈ pendingl st ↔ nonout st a q.
Proof.
  unfold pendingl, nonout. rewrite elem_of_app, !elem_of_list_bind. split.
  - intros [([a0 qs] & Hin & Hm)|([a0 fh] & Hin & Hm)]; apply elem_of_list_fmap in Hin as (q0 & [= -> ->] & Hq0); apply elem_of_map_to_list in Hm; cbn in *; eauto.
  - intros [(qs & Hl & Hin)|(fh & Hl & Hin)].
    + left. exists (a, qs). split; [apply elem_of_list_fmap; by exists q|by apply elem_of_map_to_list].
    + right. exists (a, fh). split; [apply elem_of_list_fmap; by exists q|by apply elem_of_map_to_list].
Qed.

Definition lchangeb (st : fstate) (a : N) (q : request) : bool :=
  let s := q_shard q in
  let h := hist_of (f_hist st) s in
  is_change q && (q_ccid q =? cur_version h) && bool_decide (is_Some (f_hosts st !! a)) && negb (s =? 0)
  && forallb (λ aq : N * request, negb (is_create aq.2 && (q_shard aq.2 =? s))) (pendingl st)
  && (negb (is_add q) ||
      match q_members q, q_addrs q with
      | [x], [t] =>
        negb (x =? 0) && negb (t =? 0) && bool_decide (is_Some (f_hosts st !! t))
        && forallb (λ ra : N * N, negb (ra.2 =? t)) (map_to_list (cur_members h))
        && match f_hosts st !! t with
           | Some fh => forallb (λ kl : (N * N) * lrep, negb (kl.1.1 =? s)) (map_to_list (fh_reps fh))
           | None => true
           end
        && forallb (λ ah : N * fhost, bool_decide (fh_reps ah.2 !! (s, x) = None)) (map_to_list (f_hosts st))
      | _, _ => false
      end)
  && (negb (is_delete q) ||
      match q_members q with
      | [y] => negb (y =? 0) && negb (bool_decide (cur_members h !! y = Some a))
      | _ => false
      end)
  && match d_view (f_db st) !! s with
     | Some c => (s_cci c =? q_ccid q) && forallb (λ rn : N * replica, negb (r_tick rn.2 =? 0)) (map_to_list (s_reps c))
     | None => false
     end.

Lemma lchangeb_sound st a q :
  lchangeb st a q = true → lchange (nonout st) (f_hosts st) (f_hist st) a q ∧ vready (f_db st) q.
Proof.
  unfold lchangeb. cbn zeta. intros H.
  apply andb_true_iff in H as [H Hview]. apply andb_true_iff in H as [H Hdel]. apply andb_true_iff in H as [H Hadd].
  apply andb_true_iff in H as [H Hnc]. apply andb_true_iff in H as [H Hsnz]. apply andb_true_iff in H as [H Hah].
  apply andb_true_iff in H as [Hch Hf]. apply N.eqb_eq in Hf. apply bool_decide_eq_true in Hah. apply negb_true_iff, N.eqb_neq in Hsnz.
  split.
  - split; [done|]. split; [done|]. split; [done|]. split; [|split].
    + intros a' q' Hq' Hc Heq. apply pendingl_elem in Hq'. rewrite forallb_forall in Hnc. apply elem_of_list_In in Hq'. specialize (Hnc _ Hq'). cbn in Hnc.
      rewrite Hc, Heq, N.eqb_refl in Hnc. done.
    + intros Ha. rewrite Ha in Hadd. cbn [negb orb] in Hadd. destruct (q_members q) as [|x [|? ?]]; try done. destruct (q_addrs q) as [|t [|? ?]]; try done.
      apply andb_true_iff in Hadd as [Hadd A6]. apply andb_true_iff in Hadd as [Hadd A5]. apply andb_true_iff in Hadd as [Hadd A4].
      apply andb_true_iff in Hadd as [Hadd A3]. apply andb_true_iff in Hadd as [A1 A2].
      apply negb_true_iff, N.eqb_neq in A1, A2. apply bool_decide_eq_true in A3.
      exists x, t. split; [done|]. split; [done|]. split; [done|]. split; [done|]. split; [done|]. split; [|split].
      * intros r' Hr'. pose proof (forallb_map_to_list _ _ A4 r' t Hr') as Hz. cbn in Hz. by rewrite N.eqb_refl in Hz.
      * intros fh rid Hfh. rewrite Hfh in A5. destruct (fh_reps fh !! (q_shard q, rid)) as [lr|] eqn:Ek; [|done].
        pose proof (forallb_map_to_list _ _ A5 _ _ Ek) as Hz. cbn in Hz. by rewrite N.eqb_refl in Hz.
      * intros a' fh Hfh. pose proof (forallb_map_to_list _ _ A6 a' fh Hfh) as Hz. cbn in Hz. by apply bool_decide_eq_true in Hz.
    + intros Hd. rewrite Hd in Hdel. cbn [negb orb] in Hdel. destruct (q_members q) as [|y [|? ?]]; try done.
      apply andb_true_iff in Hdel as [D1 D2]. apply negb_true_iff, N.eqb_neq in D1. apply negb_true_iff, bool_decide_eq_false in D2.
      exists y. done.
  - destruct (d_view (f_db st) !! q_shard q) as [c|] eqn:Hc; [|done]. apply andb_true_iff in Hview as [V1 V2]. apply N.eqb_eq in V1.
    exists c. split; [done|]. split; [done|]. intros rid n Hn. pose proof (forallb_map_to_list _ _ V2 rid n Hn) as Hz. cbn in Hz. by apply negb_true_iff, N.eqb_neq in Hz.
Qed.

Definition mendb_restb (st : fstate) : bool :=
  menda_restb (erase_st st)
  && forallb (λ aq : N * request, okreqb st aq.1 aq.2 || lchangeb st aq.1 aq.2) (pendingl st)
  && forallb (λ aq : N * list request, bool_decide (is_Some (f_hosts st !! aq.1))) (map_to_list (d_outgoing (f_db st))).

Theorem mendb_restb_sound st : LoopInv st → mendb_restb st = true → MendB st.
Proof.
  intros HI H. unfold mendb_restb in H. apply andb_true_iff in H as [H Hout]. apply andb_true_iff in H as [HA Hbox].
  assert (Hl : ∀ a fh', (eraseq <$> f_hosts st) !! a = Some fh' → ∃ fh, f_hosts st !! a = Some fh ∧ fh' = eraseq fh).
  { intros a fh'. rewrite lookup_fmap. destruct (f_hosts st !! a) as [fh|]; [|done]. cbn. intros [= <-]. by exists fh. }
  assert (Hto : ∀ a fh, f_hosts st !! a = Some fh → (eraseq <$> f_hosts st) !! a = Some (eraseq fh)) by (intros a fh Hfh; by rewrite lookup_fmap, Hfh).
  assert (HIE : LoopInv (erase_st st)).
  { unfold LoopInv, erase_st. cbn [f_db f_hosts f_hist f_seen]. apply (LI_erase (f_db st) _ (f_hosts st) _); try done.
    - intros a fh' Ha. destruct (Hl a fh' Ha) as (fh & Hfh & ->). by exists fh.
    - intros q [(a & qs & Hq & _)|[(a & qs & Hq & _)|[(a & fh' & Ha & Hin)|Hin]]].
      + cbn in Hq. by rewrite lookup_empty in Hq.
      + cbn in Hq. by rewrite lookup_empty in Hq.
      + destruct (Hl a fh' Ha) as (fh & Hfh & ->). cbn in Hin. by apply elem_of_nil in Hin.
      + by apply elem_of_nil in Hin. }
  pose proof (menda_restb_sound (erase_st st) HIE HA) as HM. destruct HM.
  cbn [erase_st f_db f_hosts f_hist f_seen] in *.
  split; [done|]. split.
  - split.
    + exact ma_timeok.
    + exact ma_time.
    + exact ma_defined.
    + exact ma_viewdef.
    + intros a fh Hfh. by apply (ma_hosts a (eraseq fh) (Hto a fh Hfh)).
    + exact ma_kill.
    + intros a q Hq. pose proof Hq as Hq'. apply pendingl_elem in Hq'. rewrite forallb_forall in Hbox. apply elem_of_list_In in Hq'. specialize (Hbox _ Hq'). cbn in Hbox.
      apply orb_true_iff in Hbox as [Hok|Hlc].
      * left. split; [by apply (okreqb_sound st)|by apply (nonout_qextra st a q)].
      * right. by apply lchangeb_sound.
    + intros s h Hh. destruct (ma_members s h Hh) as (c & Hc & Hcase & Hmem). exists c. split; [done|]. split; [done|].
      intros rid a Hm. destruct (Hmem rid a Hm) as (? & ? & fh' & Hfh' & Hdata). split; [done|]. split; [done|].
      destruct (Hl a fh' Hfh') as (fh & Hfh & ->). by exists fh.
    + intros s h c v M M' x rest Hh Hc Hb. destruct (ma_behind s h c v M M' x rest Hh Hc Hb) as (H1 & H2 & a0 & fh0' & rid & lr & H3 & H4 & H5).
      split; [done|]. split.
      * intros HMx a fh lr' Hfh Hk. by apply (H2 HMx a (eraseq fh) lr' (Hto a fh Hfh)).
      * destruct (Hl a0 fh0' H3) as (fh0 & Hfh0 & ->). by exists a0, fh0, rid, lr.
    + exact ma_waiting.
    + exact ma_onejoin.
    + intros a fh s rid lr h a' Hfh Hk. by apply (ma_home a (eraseq fh) s rid lr h a' (Hto a fh Hfh)).
    + intros a fh s rid lr Hfh Hk. by apply (ma_nostray a (eraseq fh) s rid lr (Hto a fh Hfh)).
  - intros a [qs Ha]. pose proof (forallb_map_to_list _ _ Hout a qs Ha) as Hz. cbn in Hz. by apply bool_decide_eq_true in Hz.
Qed.

(** * progress: the stage of the change (scheduled / applied or dropped / settled), then the rank of FleetMendProofs *)
Definition liveb (st : fstate) : bool :=
  existsb (λ aq : N * request, is_change aq.2 && (q_ccid aq.2 =? cur_version (hist_of (f_hist st) (q_shard aq.2)))) (pendingl st).
Definition boxes_okb (st : fstate) : bool :=
  forallb (λ aq : N * list request, forallb (okreqb st aq.1) aq.2) (map_to_list (d_requests (f_db st)))
  && forallb (λ aq : N * list request, forallb (okreqb st aq.1) aq.2) (map_to_list (d_outgoing (f_db st)))
  && forallb (λ ah : N * fhost, forallb (okreqb st ah.1) (fh_queue ah.2)) (map_to_list (f_hosts st)).
(* 2: a change request with a current fence is pending; 1: none is, but Drummer's view is behind or the Outgoing
   copies have not been replaced yet; 0: settled (the state is in Mend) *)
Definition mendb_stage (st : fstate) : nat :=
  if liveb st then 2%nat else if view_current st && boxes_okb st then 0%nat else 1%nat.

Lemma okreqb_complete st a q : mharmless (f_hist st) a q → okreqb st a q = true.
Proof.
  assert (Hcur : ∀ h, f_hist st !! q_shard q = Some h → cur_members (hist_of (f_hist st) (q_shard q)) = cur_members h)
    by (intros h Hh; unfold hist_of; by rewrite Hh).
  unfold okreqb. cbn zeta.
  intros [[(Hres & Hj & h & b & Hh & Hm)|[(Hch & Hf & Hmem & Haddr)|(Hk & y & Hy & Hd)]]|[(Hcr & Hj & Hre & h & Hh & Hm)|(Hres & Hj & h & Hh & Hnm & Hno & Hs0 & Hr0 & Ha0)]].
  - rewrite Hres, Hj, (Hcur h Hh). cbn. assert (is_member (cur_members h) (q_inst q) = true) as -> by (apply is_member_true; by eexists). done.
  - apply orb_true_iff; left. apply orb_true_iff; left. apply orb_true_iff; left. apply orb_true_iff; right.
    rewrite Hch. cbn. assert ((q_ccid q =? cur_version (hist_of (f_hist st) (q_shard q))) = false) as -> by (by apply N.eqb_neq). cbn.
    rewrite bool_decide_eq_false_2 by done. cbn. destruct (is_add q) eqn:Ea; [|done]. cbn. by rewrite bool_decide_eq_false_2 by (by apply Haddr).
  - apply orb_true_iff; left. apply orb_true_iff; left. apply orb_true_iff; right. rewrite Hk, Hy. cbn.
    apply negb_true_iff. unfold hist_of. destruct (f_hist st !! q_shard q) as [h|] eqn:Hh; cbn; [by apply Hd|]. apply is_member_false. by rewrite lookup_empty.
  - apply orb_true_iff; left. apply orb_true_iff; right. rewrite Hcr, Hj, Hre, (Hcur h Hh). cbn. by rewrite bool_decide_eq_true_2.
  - apply orb_true_iff; right. rewrite Hres, Hj, (Hcur h Hh). cbn. rewrite bool_decide_eq_true_2 by (by eexists). cbn.
    assert (is_member (cur_members h) (q_inst q) = false) as -> by (by apply is_member_false). cbn.
    assert (forallb (λ ra : N * N, negb (ra.2 =? a)) (map_to_list (cur_members h)) = true) as ->.
    { apply forallb_forall. intros [r' a'] Hin. apply elem_of_list_In, elem_of_map_to_list in Hin. cbn. apply negb_true_iff, N.eqb_neq. intros ->. by apply (Hno r'). }
    cbn. apply N.eqb_neq in Hs0, Hr0, Ha0. by rewrite Hs0, Hr0, Ha0.
Qed.

Lemma inert_liveb st : (∀ a q, nonout st a q → mharmless (f_hist st) a q) → liveb st = false.
Proof.
  intros Hin. unfold liveb. apply not_true_is_false. intros Hex. apply existsb_exists in Hex as ([a q] & Hq & Hx). cbn in Hx.
  apply elem_of_list_In, pendingl_elem in Hq. apply andb_true_iff in Hx as [Hch Hf]. apply N.eqb_eq in Hf.
  destruct (Hin a q Hq) as [[(Hres & _)|[(_ & Hne & _)|(Hk & _)]]|[(Hcr & _)|(Hres & _)]].
  - by rewrite (restore_not_change q Hres) in Hch.
  - done.
  - by rewrite (kill_not_change q Hk) in Hch.
  - unfold is_change, is_add, is_delete in Hch. unfold is_create in Hcr. by destruct (q_type q).
  - by rewrite (restore_not_change q Hres) in Hch.
Qed.

Lemma liveb_inert st : MendB st → liveb st = false → ∀ a q, nonout st a q → mharmless (f_hist st) a q.
Proof.
  intros (_ & HP & _) Hl a q Hq. destruct (mp_boxes _ _ HP a q Hq) as [[? _]|[(Hch & Hf & _) _]]; [done|]. exfalso.
  assert (liveb st = true); [|congruence]. unfold liveb. apply existsb_exists. exists (a, q). split; [apply elem_of_list_In; by apply pendingl_elem|].
  cbn. rewrite Hch. cbn. by apply N.eqb_eq.
Qed.

Lemma mend_stage0 st : Mend st → mendb_stage st = 0%nat.
Proof.
  intros HM. unfold mendb_stage.
  rewrite (inert_liveb st) by (intros a q [Hq|Hq]; apply (md_boxes _ HM); [by left|by right; right]).
  rewrite (mend_view_current st HM). cbn [andb].
  assert (boxes_okb st = true) as ->; [|done]. unfold boxes_okb. apply andb_true_iff; split; [apply andb_true_iff; split|].
  - apply forallb_forall. intros [a qs] Hin. apply elem_of_list_In, elem_of_map_to_list in Hin. cbn. apply forallb_forall. intros q Hq. apply elem_of_list_In in Hq.
    apply okreqb_complete, (md_boxes _ HM). left. eauto.
  - apply forallb_forall. intros [a qs] Hin. apply elem_of_list_In, elem_of_map_to_list in Hin. cbn. apply forallb_forall. intros q Hq. apply elem_of_list_In in Hq.
    apply okreqb_complete, (md_boxes _ HM). right; left. eauto.
  - apply forallb_forall. intros [a fh] Hin. apply elem_of_list_In, elem_of_map_to_list in Hin. cbn. apply forallb_forall. intros q Hq. apply elem_of_list_In in Hq.
    apply okreqb_complete, (md_boxes _ HM). right; right. eauto.
Qed.

Lemma stage0_mend st : MendB st → mendb_stage st = 0%nat → Mend st.
Proof.
  intros (HI & HP & Hoh) Hs. unfold mendb_stage in Hs. destruct (liveb st) eqn:El; [done|].
  destruct (view_current st) eqn:Ev; [|done]. destruct (boxes_okb st) eqn:Eb; [|done]. clear Hs.
  unfold boxes_okb in Eb. apply andb_true_iff in Eb as [Eb Hbq]. apply andb_true_iff in Eb as [Hbr Hbo].
  apply (mp_mend (nonout st)); [done|done| |].
  - intros s h c Hh Hc. pose proof (forallb_map_to_list _ _ Ev s h Hh) as Hx. cbn [fst snd] in Hx. rewrite Hc in Hx. by apply N.eqb_eq.
  - intros a q [(qs & Hl & Hin)|[(qs & Hl & Hin)|(fh & Hl & Hin)]]; apply okreqb_sound.
    + pose proof (forallb_map_to_list _ _ Hbr a qs Hl) as Hx. cbn [fst snd] in Hx. rewrite forallb_forall in Hx. apply Hx. by apply elem_of_list_In.
    + pose proof (forallb_map_to_list _ _ Hbo a qs Hl) as Hx. cbn [fst snd] in Hx. rewrite forallb_forall in Hx. apply Hx. by apply elem_of_list_In.
    + pose proof (forallb_map_to_list _ _ Hbq a fh Hl) as Hx. cbn [fst snd] in Hx. rewrite forallb_forall in Hx. apply Hx. by apply elem_of_list_In.
Qed.

(* the pair (stage, FleetMendProofs.mend_rank) decreases lexicographically in every healthy round while the fleet is
   not healed: request scheduled (2) -> applied or dropped, view behind / stale copies (1) -> settled (0), then the
   rank of the restore / join pipeline *)
Theorem mendb_progress P st st' plogs nticks o :
  MendB st → (∀ a, plogs a = true) → (0 < nticks)%nat → 0 < p_step P → N.of_nat nticks * p_step P ≤ p_ttl P →
  healed P st = false → healthy_round P plogs nticks o st = Some st' →
  (mendb_stage st' < mendb_stage st)%nat ∨
  (mendb_stage st = 0%nat ∧ mendb_stage st' = 0%nat ∧ (mend_rank P st' < mend_rank P st)%nat).
Proof.
  intros HB Hpl Hnt Hstep Httl Hnh Hr.
  destruct (liveb st) eqn:El.
  - (* a live request is pending: after the round none is *)
    left. destruct (mendb_round P st st' plogs nticks o HB Hpl Httl Hr) as (b & _ & _ & HB' & Hin').
    unfold mendb_stage. rewrite El, (inert_liveb st' Hin'). destruct (_ && _); lia.
  - pose proof (liveb_inert st HB El) as Hin.
    destruct (mendb_inert_round P st st' plogs nticks o HB Hin Hpl Httl Hr) as (b & _ & _ & HM').
    pose proof (mend_stage0 st' HM') as Hs'.
    destruct (mendb_stage st) as [|n] eqn:Es.
    + right. split; [done|]. split; [done|]. apply (mend_progress P st st' plogs nticks o); try done. by apply stage0_mend.
    + left. lia.
Qed.
