(** Proofs about the NodeHost agent model (C18). *)
From Drummer.Model Require Import Base Agent.
From Coq Require Import Permutation.
From Coq Require Import Arith PeanoNat List Lia.
From Coq Require Import ZifyN ZifyNat ZifyBool.

(** * 1. Reporting *)

Lemma build_report_total : forall local vers flag, exists rp, build_report local vers flag = Some rp.
Proof.
  intros local vers flag. unfold build_report, prepare, send_report.
  destruct flag; cbn [negb andb nhi_logs is_nil]; eexists; reflexivity.
Qed.

Lemma build_report_eq : forall local vers flag,
  build_report local vers flag =
  Some (mkRep (nhi_addr local) (nhi_api local) (map si_shard (nhi_shards local))
              (map (report_shard vers) (nhi_shards local)) flag
              (if flag then nhi_logs local else []) default_region).
Proof.
  intros local vers flag. unfold build_report, prepare, send_report.
  destruct flag; cbn [negb andb nhi_logs nhi_addr nhi_api nhi_shards is_nil]; reflexivity.
Qed.

(* every hosted replica is listed, in the id list and with its own entry, and the scalar
   facts about it are the local ones *)
Lemma lists_all : forall local vers flag rp,
  build_report local vers flag = Some rp ->
  rp_ids rp = map si_shard (nhi_shards local) /\
  map (fun r => (rs_shard r, rs_replica r, rs_cci r, rs_pending r, rs_leader r)) (rp_shards rp) =
  map (fun si => (si_shard si, si_replica si, si_cci si, si_pending si, is_leader si)) (nhi_shards local) /\
  rp_addr rp = nhi_addr local /\ rp_api rp = nhi_api local.
Proof.
  intros local vers flag rp H. rewrite build_report_eq in H. inversion H; subst rp; clear H.
  cbn [rp_ids rp_shards rp_addr rp_api]. repeat split.
  rewrite map_map. apply map_ext. intros si. reflexivity.
Qed.

Lemma incomplete_rule_iff : forall vers si,
  incomplete_rule vers si = true <->
  (exists dv, lookup (si_shard si) vers = Some dv /\ si_cci si <= dv) /\ si_pending si = false.
Proof.
  intros vers si. unfold incomplete_rule.
  destruct (lookup (si_shard si) vers) as [dv|] eqn:E.
  - rewrite andb_true_iff, N.leb_le, negb_true_iff. split.
    + intros [H1 H2]. split; [exists dv; split; [reflexivity|exact H1]|exact H2].
    + intros [[dv' [H0 H1]] H2]. inversion H0; subst dv'. split; assumption.
  - split; [discriminate|]. intros [[dv' [H0 _]] _]. discriminate.
Qed.

(* per replica: details omitted iff Drummer knows the shard at a version >= local and the replica is
   not pending; omitted means the empty member list and the incomplete flag, otherwise the local
   membership is handed over unchanged *)
Lemma report_shard_spec : forall vers si,
  let r := report_shard vers si in
  (rs_incomplete r = true <->
     (exists dv, lookup (si_shard si) vers = Some dv /\ si_cci si <= dv) /\ si_pending si = false) /\
  (rs_incomplete r = true -> rs_members r = []) /\
  (rs_incomplete r = false -> rs_members r = si_members si).
Proof.
  intros vers si. cbn zeta. unfold report_shard. cbn [rs_incomplete rs_members].
  split; [apply incomplete_rule_iff|].
  destruct (incomplete_rule vers si); split; intros H; try reflexivity; discriminate.
Qed.

Lemma membership_included_iff : forall local vers flag rp,
  build_report local vers flag = Some rp ->
  Forall2 (fun si r =>
     rs_shard r = si_shard si /\
     (rs_incomplete r = true <->
        (exists dv, lookup (si_shard si) vers = Some dv /\ si_cci si <= dv) /\ si_pending si = false) /\
     (rs_incomplete r = true -> rs_members r = []) /\
     (rs_incomplete r = false -> rs_members r = si_members si))
    (nhi_shards local) (rp_shards rp).
Proof.
  intros local vers flag rp H. rewrite build_report_eq in H. inversion H; subst rp; clear H.
  cbn [rp_shards]. induction (nhi_shards local) as [|si l IH]; cbn [map]; constructor.
  - split; [reflexivity|]. apply report_shard_spec.
  - exact IH.
Qed.

(* the property's wording: details are there whenever Drummer's version is older or the shard unknown *)
Lemma membership_news_not_hidden : forall vers si,
  (lookup (si_shard si) vers = None \/ exists dv, lookup (si_shard si) vers = Some dv /\ dv < si_cci si) ->
  rs_incomplete (report_shard vers si) = false /\ rs_members (report_shard vers si) = si_members si.
Proof.
  intros vers si H.
  assert (Hf : incomplete_rule vers si = false).
  { destruct (incomplete_rule vers si) eqn:E; [|reflexivity].
    apply incomplete_rule_iff in E. destruct E as [[dv [H0 H1]] _].
    destruct H as [H|[dv' [H2 H3]]]; [congruence|]. rewrite H0 in H2. inversion H2; subst. lia. }
  unfold report_shard. cbn [rs_incomplete rs_members]. rewrite Hf. split; reflexivity.
Qed.

Lemma plog_iff : forall local vers flag rp,
  build_report local vers flag = Some rp ->
  rp_plog_flag rp = flag /\ rp_plog rp = (if flag then nhi_logs local else []).
Proof.
  intros local vers flag rp H. rewrite build_report_eq in H. inversion H; subst rp. split; reflexivity.
Qed.

(* the assertion inside SendNodeHostInfo *)
Lemma send_report_none_iff : forall nhi vers flag,
  send_report nhi vers flag = None <-> flag = false /\ nhi_logs nhi <> [].
Proof.
  intros nhi vers flag. unfold send_report. destruct flag; cbn [negb andb].
  - split; [discriminate|]. intros [H _]. discriminate.
  - destruct (nhi_logs nhi) as [|x l]; cbn [is_nil negb].
    + split; [discriminate|]. intros [_ H]. now elim H.
    + split; [intros _; split; [reflexivity|discriminate]|reflexivity].
Qed.

(** * 2. list facts *)

Lemma filter_partition_perm {A} (p : A -> bool) : forall l,
  Permutation (filter p l ++ filter (fun x => negb (p x)) l) l.
Proof.
  induction l as [|a l IH]; cbn [filter app].
  - constructor.
  - destruct (p a); cbn [negb app].
    + constructor. exact IH.
    + apply Permutation_sym. apply Permutation_cons_app. apply Permutation_sym. exact IH.
Qed.

Lemma filter_filter_imp {A} (p q : A -> bool) : forall l,
  (forall x, p x = true -> q x = true) -> filter p (filter q l) = filter p l.
Proof.
  intros l H. induction l as [|a l IH]; cbn [filter]; [reflexivity|].
  destruct (q a) eqn:Q; cbn [filter].
  - destruct (p a); [f_equal|]; exact IH.
  - destruct (p a) eqn:P; [|exact IH]. apply H in P. congruence.
Qed.

Lemma flat_map_ext_In {A B} (f g : A -> list B) : forall l,
  (forall x, In x l -> f x = g x) -> flat_map f l = flat_map g l.
Proof.
  induction l as [|a l IH]; intros H; cbn [flat_map]; [reflexivity|].
  rewrite (H a (or_introl eq_refl)). f_equal. apply IH. intros x Hx. apply H. right. exact Hx.
Qed.

Lemma NoDup_filter' {A} (p : A -> bool) : forall l, NoDup l -> NoDup (filter p l).
Proof.
  induction l as [|a l IH]; intros H; cbn [filter]; [constructor|].
  inversion H as [|a' l' Hn Hd]; subst. destruct (p a); [|apply IH; exact Hd].
  constructor; [|apply IH; exact Hd]. intros Hin. apply filter_In in Hin. apply Hn. apply Hin.
Qed.

Lemma nodupN_In : forall l x, In x (nodupN l) <-> In x l.
Proof.
  induction l as [|a l IH]; intros x; cbn [nodupN In]; [tauto|].
  rewrite filter_In, IH, negb_true_iff, N.eqb_neq. split.
  - intros [H|[H _]]; [left|right]; exact H.
  - intros [H|H]; [left; exact H|]. destruct (N.eq_dec a x) as [E|E]; [left; exact E|].
    right. split; [exact H|]. intros E'. apply E. symmetry. exact E'.
Qed.

Lemma nodupN_NoDup : forall l, NoDup (nodupN l).
Proof.
  induction l as [|a l IH]; cbn [nodupN]; constructor.
  - intros H. apply filter_In in H. destruct H as [_ H]. rewrite N.eqb_refl in H. discriminate.
  - apply NoDup_filter'. exact IH.
Qed.

(** * 3. queue and batches *)

Section Exec.
Context {St : Type}.
Variable nh : nodehost St.

Lemma sub_batch_app : forall s l1 l2, sub_batch s (l1 ++ l2) = sub_batch s l1 ++ sub_batch s l2.
Proof. intros s l1 l2. unfold sub_batch. apply filter_app. Qed.

Lemma sub_batch_shard : forall s b rq, In rq (sub_batch s b) -> q_shard rq = s /\ In rq b.
Proof.
  intros s b rq H. unfold sub_batch in H. apply filter_In in H. destruct H as [H1 H2].
  apply N.eqb_eq in H2. split; assumption.
Qed.

Lemma sub_batches_perm : forall ks b,
  NoDup ks -> (forall rq, In rq b -> In (q_shard rq) ks) ->
  Permutation (flat_map (fun s => sub_batch s b) ks) b.
Proof.
  induction ks as [|k ks IH]; intros b Hnd Hin.
  - destruct b as [|rq b]; [constructor|]. elim (Hin rq (or_introl eq_refl)).
  - inversion Hnd as [|k' ks' Hk Hnd']; subst.
    cbn [flat_map].
    set (b' := filter (fun rq => negb (q_shard rq =? k)) b).
    assert (E : flat_map (fun s => sub_batch s b) ks = flat_map (fun s => sub_batch s b') ks).
    { apply flat_map_ext_In. intros s Hs. unfold sub_batch, b'. symmetry.
      apply filter_filter_imp. intros rq Hq. apply N.eqb_eq in Hq.
      apply negb_true_iff. apply N.eqb_neq. intros E. rewrite Hq in E. rewrite E in Hs. exact (Hk Hs). }
    rewrite E.
    apply Permutation_trans with (sub_batch k b ++ b').
    + apply Permutation_app_head. apply IH; [exact Hnd'|].
      intros rq Hrq. unfold b' in Hrq. apply filter_In in Hrq. destruct Hrq as [H1 H2].
      apply negb_true_iff, N.eqb_neq in H2. destruct (Hin rq H1) as [H|H]; [|exact H].
      elim H2. symmetry. exact H.
    + unfold sub_batch, b'. apply (filter_partition_perm (fun rq => q_shard rq =? k)).
Qed.

(* the workers' inputs partition the batch: one worker per shard id, every request in exactly one *)
Lemma workers_partition : forall b,
  NoDup (shard_ids b) /\ Permutation (flat_map (fun s => sub_batch s b) (shard_ids b)) b.
Proof.
  intros b. split; [apply nodupN_NoDup|].
  apply sub_batches_perm; [apply nodupN_NoDup|].
  intros rq H. unfold shard_ids. apply nodupN_In. apply in_map. exact H.
Qed.

(* take-and-clear over any sequence of deliveries and executions *)
Lemma run_evs_conservation : forall evs a a' bs,
  run_evs a evs = (a', bs) -> concat bs ++ queue a' = queue a ++ received evs.
Proof.
  induction evs as [|e evs IH]; intros a a' bs H.
  - cbn [run_evs] in H. inversion H; subst. cbn [concat received app]. now rewrite app_nil_r.
  - destruct e as [reqs|].
    + cbn [run_evs received] in *. apply IH in H. rewrite H. unfold receive. cbn [queue].
      now rewrite app_assoc.
    + cbn [run_evs received] in *. unfold take in H.
      destruct (run_evs (mkAgent []) evs) as [a2 bs2] eqn:E. inversion H; subst.
      apply IH in E. cbn [queue app] in E. cbn [concat]. rewrite <- app_assoc, E. reflexivity.
Qed.

Lemma take_clears : forall a, queue (snd (take a)) = [] /\ fst (take a) = queue a.
Proof. intros a. split; reflexivity. Qed.

(** * 4. one worker *)

Definition continue (x : St * list event * outcome) (rqs : list request) : St * list event * outcome :=
  let '(st, ev, o) := x in
  match o with
  | Panicked => (st, ev, Panicked)
  | Done => let '(st', ev', o') := run_shard nh st rqs in (st', ev ++ ev', o')
  end.

Lemma run_shard_app : forall x st y,
  run_shard nh st (x ++ y) = continue (run_shard nh st x) y.
Proof.
  induction x as [|rq x IH]; intros st y.
  - cbn [app run_shard continue]. destruct (run_shard nh st y) as [[st' ev'] o']. reflexivity.
  - cbn [app run_shard]. destruct (handle nh st rq) as [[st1 ev1] o1]. destruct o1.
    + rewrite IH. destruct (run_shard nh st1 x) as [[st2 ev2] o2]. cbn [continue].
      destruct o2; [|reflexivity].
      destruct (run_shard nh st2 y) as [[st3 ev3] o3]. now rewrite app_assoc.
    + reflexivity.
Qed.

Lemma continue_app : forall x a b, continue (continue x a) b = continue x (a ++ b).
Proof.
  intros [[st ev] o] a b. cbn [continue]. destruct o; [|reflexivity].
  rewrite run_shard_app. destruct (run_shard nh st a) as [[st1 ev1] o1]. cbn [continue].
  destruct o1; [|reflexivity].
  destruct (run_shard nh st1 b) as [[st2 ev2] o2]. now rewrite app_assoc.
Qed.

Lemma continue_nil : forall x, continue x [] = x.
Proof.
  intros [[st ev] o]. cbn [continue run_shard]. destruct o; [|reflexivity]. now rewrite app_nil_r.
Qed.

Lemma continue_init : forall st rqs, continue (st, [], Done) rqs = run_shard nh st rqs.
Proof. intros st rqs. cbn [continue]. destruct (run_shard nh st rqs) as [[st' ev'] o']. reflexivity. Qed.

(* per shard order: for every split of the batch, the worker of shard s first runs its requests of
   the first part, then (unless the process died) its requests of the second part *)
Lemma order : forall g l1 l2 s,
  run_shard nh (g s) (sub_batch s (l1 ++ l2)) =
  continue (run_shard nh (g s) (sub_batch s l1)) (sub_batch s l2).
Proof. intros g l1 l2 s. rewrite sub_batch_app. apply run_shard_app. Qed.

(* the decisions of one worker, with the calls each of them made *)
Fixpoint worker_log (st : St) (rqs : list request) : list (request * decision * list event) :=
  match rqs with
  | [] => []
  | rq :: rqs' =>
    let d := decide (nh_has_info nh st (q_shard rq) (q_inst rq)) rq in
    let '(st1, ev1, o1) := perform nh st d in
    (rq, d, ev1) :: match o1 with Panicked => [] | Done => worker_log st1 rqs' end
  end.

Lemma worker_log_spec : forall rqs st,
  let '(_, ev, o) := run_shard nh st rqs in
  ev = concat (map snd (worker_log st rqs)) /\
  (exists rest, rqs = map (fun x => fst (fst x)) (worker_log st rqs) ++ rest /\ (o = Done -> rest = [])).
Proof.
  induction rqs as [|rq rqs IH]; intros st.
  - cbn [run_shard worker_log map concat app]. split; [reflexivity|]. exists []. split; [reflexivity|]. reflexivity.
  - cbn [run_shard worker_log]. unfold handle.
    destruct (perform nh st (decide (nh_has_info nh st (q_shard rq) (q_inst rq)) rq)) as [[st1 ev1] o1].
    destruct o1.
    + specialize (IH st1). destruct (run_shard nh st1 rqs) as [[st2 ev2] o2].
      destruct IH as [IH1 [rest [IH2 IH3]]]. cbn [map concat fst snd]. split.
      * now rewrite IH1.
      * exists rest. split; [cbn [app]; now rewrite <- IH2|exact IH3].
    + cbn [map concat fst snd app]. split; [now rewrite app_nil_r|].
      exists rqs. split; [reflexivity|discriminate].
Qed.

(* every call of a worker concerns the shard of the request that caused it *)
Lemma perform_shard : forall st hi rq st' ev o,
  perform nh st (decide hi rq) = (st', ev, o) -> Forall (fun e => event_shard e = q_shard rq) ev.
Proof.
  intros st hi rq st' ev o H.
  assert (Hrem : forall st0 s r st1 ev1 o1, do_remove nh st0 s r = (st1, ev1, o1) ->
                 Forall (fun e => event_shard e = s) ev1).
  { intros st0 s r st1 ev1 o1 H0. unfold do_remove in H0. destruct (nh_remove nh st0 s r) as [st2 ok].
    inversion H0; subst. constructor; [reflexivity|constructor]. }
  destruct (decide hi rq) as [| |a|a|s r] eqn:D.
  - cbn [perform] in H. inversion H; subst. constructor.
  - cbn [perform] in H. inversion H; subst. constructor.
  - assert (Hs : sa_shard a = q_shard rq).
    { unfold decide in D. destruct (q_type rq).
      - unfold decide_create, start_decision in D.
        destruct (q_join rq), (q_restore rq), hi, (plugin (q_app rq));
          try destruct (build_peers (q_ids rq) (q_addrs rq) []); inversion D; reflexivity.
      - destruct (q_members rq); discriminate.
      - destruct (q_members rq); [discriminate|]. destruct (q_addrs rq); discriminate.
      - destruct (q_members rq); discriminate.
      - discriminate. }
    cbn [perform] in H. destruct (nh_start nh st a) as [st1 r]. inversion H; subst.
    constructor; [exact Hs|constructor].
  - assert (Hs : ca_shard a = q_shard rq).
    { unfold decide in D. destruct (q_type rq).
      - unfold decide_create, start_decision in D.
        destruct (q_join rq), (q_restore rq), hi, (plugin (q_app rq));
          try destruct (build_peers (q_ids rq) (q_addrs rq) []); discriminate.
      - destruct (q_members rq); inversion D; reflexivity.
      - destruct (q_members rq); [discriminate|]. destruct (q_addrs rq); inversion D; reflexivity.
      - destruct (q_members rq); discriminate.
      - discriminate. }
    cbn [perform] in H. destruct (nh_change nh st a) as [st1 r].
    destruct r; try (inversion H; subst; constructor; [exact Hs|constructor]).
    destruct (ca_add a); [inversion H; subst; constructor; [exact Hs|constructor]|].
    destruct (do_remove nh st1 (ca_shard a) (ca_replica a)) as [[st2 ev2] o2] eqn:R.
    inversion H; subst. constructor; [exact Hs|]. rewrite <- Hs. eapply Hrem. exact R.
  - assert (Hs : s = q_shard rq).
    { unfold decide in D. destruct (q_type rq).
      - unfold decide_create, start_decision in D.
        destruct (q_join rq), (q_restore rq), hi, (plugin (q_app rq));
          try destruct (build_peers (q_ids rq) (q_addrs rq) []); discriminate.
      - destruct (q_members rq); discriminate.
      - destruct (q_members rq); [discriminate|]. destruct (q_addrs rq); discriminate.
      - destruct (q_members rq); inversion D; reflexivity.
      - discriminate. }
    cbn [perform] in H. destruct (nh_stop nh st s r) as [st1 ok]. destruct ok.
    + destruct (do_remove nh st1 s r) as [[st2 ev2] o2] eqn:R. inversion H; subst.
      constructor; [reflexivity|]. eapply Hrem. exact R.
    + inversion H; subst. constructor; [reflexivity|constructor].
Qed.

Lemma run_shard_events_shard : forall s rqs st,
  (forall rq, In rq rqs -> q_shard rq = s) ->
  Forall (fun e => event_shard e = s) (snd (fst (run_shard nh st rqs))).
Proof.
  intros s. induction rqs as [|rq rqs IH]; intros st Hs.
  - cbn [run_shard fst snd]. constructor.
  - cbn [run_shard]. destruct (handle nh st rq) as [[st1 ev1] o1] eqn:Hh.
    assert (H1 : Forall (fun e => event_shard e = s) ev1).
    { unfold handle in Hh. apply perform_shard in Hh. rewrite (Hs rq (or_introl eq_refl)) in Hh. exact Hh. }
    destruct o1; [|exact H1].
    specialize (IH st1 (fun rq' H => Hs rq' (or_intror H))).
    destruct (run_shard nh st1 rqs) as [[st2 ev2] o2]. cbn [fst snd] in *.
    apply Forall_app. split; assumption.
Qed.

(** * 5. any interleaving of the workers *)

Lemma wstep_same : forall w rq s, q_shard rq = s -> wstep nh w rq s = continue (w s) [rq].
Proof.
  intros w rq s E. unfold wstep. rewrite E. destruct (w s) as [[st ev] o] eqn:W.
  destruct o.
  - cbn [continue run_shard]. destruct (handle nh st rq) as [[st1 ev1] o1].
    rewrite N.eqb_refl. destruct o1; [now rewrite app_nil_r|reflexivity].
  - rewrite W. reflexivity.
Qed.

Lemma wstep_other : forall w rq s, q_shard rq <> s -> wstep nh w rq s = w s.
Proof.
  intros w rq s E. unfold wstep. destruct (w (q_shard rq)) as [[st ev] o].
  destruct o; [|reflexivity]. destruct (handle nh st rq) as [[st1 ev1] o1].
  destruct (s =? q_shard rq) eqn:Q; [|reflexivity]. apply N.eqb_eq in Q. elim E. now symmetry.
Qed.

Lemma run_seq_shard : forall l w s, run_seq nh w l s = continue (w s) (sub_batch s l).
Proof.
  induction l as [|rq l IH]; intros w s.
  - cbn [run_seq fold_left sub_batch filter]. now rewrite continue_nil.
  - unfold run_seq in *. cbn [fold_left]. rewrite IH. unfold sub_batch. cbn [filter].
    destruct (q_shard rq =? s) eqn:Q.
    + apply N.eqb_eq in Q. rewrite (wstep_same w rq s Q). rewrite continue_app. reflexivity.
    + apply N.eqb_neq in Q. rewrite (wstep_other w rq s Q). reflexivity.
Qed.

(* whatever order the requests of the batch are picked up in, as long as every shard's own order is
   respected, every shard ends in the state, with the calls and outcome, its own worker computes *)
Lemma interleaving_irrelevant : forall g b l s,
  (forall s', sub_batch s' l = sub_batch s' b) ->
  run_seq nh (winit g) l s = run_shard nh (g s) (sub_batch s b).
Proof.
  intros g b l s H. rewrite run_seq_shard. unfold winit. rewrite H. apply continue_init.
Qed.

(* what happens to a shard depends on that shard's state and requests only *)
Lemma shards_independent : forall g g' b b' s,
  g s = g' s -> sub_batch s b = sub_batch s b' ->
  run_shard nh (g s) (sub_batch s b) = run_shard nh (g' s) (sub_batch s b').
Proof. intros g g' b b' s H1 H2. now rewrite H1, H2. Qed.

(* execute = the per shard workers *)
Lemma execute_spec : forall a g,
  let '(a', g', res) := execute nh a g in
  queue a' = [] /\
  (forall s, g' s = fst (fst (run_shard nh (g s) (sub_batch s (queue a))))) /\
  map (fun x => fst (fst x)) res = shard_ids (queue a) /\
  (forall s ev o, In (s, ev, o) res ->
     exists st', run_shard nh (g s) (sub_batch s (queue a)) = (st', ev, o)).
Proof.
  intros a g. unfold execute, take. split; [reflexivity|]. split; [reflexivity|]. split.
  - rewrite map_map. rewrite <- (map_id (shard_ids (queue a))) at 2. apply map_ext.
    intros s. destruct (run_shard nh (g s) (sub_batch s (queue a))) as [[st ev] o]. reflexivity.
  - intros s ev o Hin. apply in_map_iff in Hin. destruct Hin as [s0 [H0 _]].
    destruct (run_shard nh (g s0) (sub_batch s0 (queue a))) as [[st1 ev1] o1] eqn:R.
    inversion H0; subst. exists st1. exact R.
Qed.

(* a second HandleMasterRequests without a delivery in between does nothing *)
Lemma execute_twice : forall a g,
  let '(a', g', _) := execute nh a g in
  let '(a'', g'', res) := execute nh a' g' in
  queue a'' = [] /\ res = [] /\ forall s, g'' s = g' s.
Proof.
  intros a g. unfold execute, take. cbn [queue shard_ids map nodupN sub_batch filter run_shard fst].
  repeat split.
Qed.

(** * 6. the decision table *)

Lemma effect_launch : forall hi rq,
  q_type rq = TCreate -> q_join rq = false -> q_restore rq = false ->
  decide hi rq =
  if hi then DPanic
  else match build_peers (q_ids rq) (q_addrs rq) [], plugin (q_app rq) with
       | Some peers, Some k => DStart (mkStart k peers false (q_shard rq) (q_inst rq) (q_cfg rq) true true)
       | _, _ => DPanic
       end.
Proof.
  intros hi rq Ht Hj Hr. unfold decide, decide_create, start_decision. rewrite Ht, Hj, Hr.
  destruct hi; [reflexivity|]. destruct (build_peers (q_ids rq) (q_addrs rq) []); [|reflexivity].
  destruct (plugin (q_app rq)); reflexivity.
Qed.

Lemma effect_join : forall hi rq,
  q_type rq = TCreate -> q_join rq = true -> q_restore rq = false ->
  decide hi rq =
  match plugin (q_app rq) with
  | Some k => DStart (mkStart k [] true (q_shard rq) (q_inst rq) (q_cfg rq) true true)
  | None => DPanic
  end.
Proof.
  intros hi rq Ht Hj Hr. unfold decide, decide_create, start_decision. rewrite Ht, Hj, Hr.
  destruct (plugin (q_app rq)); reflexivity.
Qed.

Lemma effect_restore : forall hi rq,
  q_type rq = TCreate -> q_join rq = false -> q_restore rq = true ->
  decide hi rq =
  if hi then match plugin (q_app rq) with
             | Some k => DStart (mkStart k [] false (q_shard rq) (q_inst rq) (q_cfg rq) true true)
             | None => DPanic
             end
  else DIgnore.
Proof.
  intros hi rq Ht Hj Hr. unfold decide, decide_create, start_decision. rewrite Ht, Hj, Hr.
  destruct hi; [|reflexivity]. destruct (plugin (q_app rq)); reflexivity.
Qed.

Lemma effect_join_restore : forall hi rq,
  q_type rq = TCreate -> q_join rq = true -> q_restore rq = true -> decide hi rq = DPanic.
Proof. intros hi rq Ht Hj Hr. unfold decide, decide_create. now rewrite Ht, Hj, Hr. Qed.

Lemma effect_add : forall hi rq r ms url us,
  q_type rq = TAdd -> q_members rq = r :: ms -> q_addrs rq = url :: us ->
  decide hi rq = DChange (mkChange true (q_shard rq) r url (q_ccid rq)).
Proof. intros hi rq r ms url us Ht Hm Ha. unfold decide. now rewrite Ht, Hm, Ha. Qed.

Lemma effect_delete : forall hi rq r ms,
  q_type rq = TDelete -> q_members rq = r :: ms ->
  decide hi rq = DChange (mkChange false (q_shard rq) r 0 (q_ccid rq)).
Proof. intros hi rq r ms Ht Hm. unfold decide. now rewrite Ht, Hm. Qed.

Lemma effect_kill : forall hi rq r ms,
  q_type rq = TKill -> q_members rq = r :: ms -> decide hi rq = DKill (q_shard rq) r.
Proof. intros hi rq r ms Ht Hm. unfold decide. now rewrite Ht, Hm. Qed.

(* launch peers: every listed address is bound to the replica id at the same position (later
   bindings of the same id win, as in a Go map); too few ids = index out of range *)
Lemma build_peers_none_iff : forall addrs ids acc,
  build_peers ids addrs acc = None <-> (length ids < length addrs)%nat.
Proof.
  induction addrs as [|a addrs IH]; intros ids acc.
  - destruct ids; cbn [build_peers length]; (split; [intros H; discriminate H|lia]).
  - destruct ids as [|i ids]; cbn [build_peers length].
    + split; [lia|reflexivity].
    + rewrite IH. lia.
Qed.

Lemma lookup_map_set : forall m k v k', lookup k' (map_set k v m) = if k =? k' then Some v else lookup k' m.
Proof.
  induction m as [|[k0 v0] m IH]; intros k v k'; cbn [map_set lookup].
  - destruct (k =? k'); reflexivity.
  - destruct (k0 =? k) eqn:E0; cbn [lookup].
    + apply N.eqb_eq in E0. subst k0. destruct (k =? k'); reflexivity.
    + rewrite IH. destruct (k =? k') eqn:E1; [|reflexivity].
      apply N.eqb_eq in E1. subst k'. now rewrite E0.
Qed.

(* the last position at which id [k] occurs (within the first |addrs| positions) decides *)
Fixpoint last_binding (k : N) (ids addrs : list N) (cur : option N) : option N :=
  match ids, addrs with
  | i :: ids', a :: addrs' => last_binding k ids' addrs' (if i =? k then Some a else cur)
  | _, _ => cur
  end.

Lemma build_peers_lookup : forall addrs ids acc peers k,
  build_peers ids addrs acc = Some peers ->
  lookup k peers = last_binding k ids addrs (lookup k acc).
Proof.
  induction addrs as [|a addrs IH]; intros ids acc peers k H.
  - destruct ids; cbn [build_peers] in H; inversion H; subst; reflexivity.
  - destruct ids as [|i ids]; cbn [build_peers] in H; [discriminate|]. cbn [last_binding].
    rewrite (IH _ _ _ k H). rewrite lookup_map_set. reflexivity.
Qed.

(* what a decision does to the NodeHost *)
Lemma perform_start : forall st a,
  exists st' r, nh_start nh st a = (st', r) /\
  perform nh st (DStart a) = (st', [EStart a r], match r with SPanic => Panicked | _ => Done end).
Proof.
  intros st a. cbn [perform]. destruct (nh_start nh st a) as [st' r]. exists st', r. split; reflexivity.
Qed.

Lemma perform_change : forall st a,
  exists st1 r, nh_change nh st a = (st1, r) /\
  let '(st', ev, o) := perform nh st (DChange a) in
  match r with
  | ChCompleted =>
    if ca_add a then st' = st1 /\ ev = [EChange a r] /\ o = Done
    else exists ok, nh_remove nh st1 (ca_shard a) (ca_replica a) = (st', ok) /\
                    ev = [EChange a r; ERemove (ca_shard a) (ca_replica a) ok] /\
                    o = (if ok then Done else Panicked)
  | ChFatal | ChUnknownCode => st' = st1 /\ ev = [EChange a r] /\ o = Panicked
  | _ => st' = st1 /\ ev = [EChange a r] /\ o = Done
  end.
Proof.
  intros st a. cbn [perform]. destruct (nh_change nh st a) as [st1 r]. exists st1, r. split; [reflexivity|].
  destruct r; try (repeat split; reflexivity).
  destruct (ca_add a); [repeat split; reflexivity|].
  unfold do_remove. destruct (nh_remove nh st1 (ca_shard a) (ca_replica a)) as [st2 ok].
  exists ok. repeat split; reflexivity.
Qed.

Lemma perform_kill : forall st s r,
  exists st1 ok, nh_stop nh st s r = (st1, ok) /\
  let '(st', ev, o) := perform nh st (DKill s r) in
  if ok then exists ok', nh_remove nh st1 s r = (st', ok') /\
                         ev = [EStop s r true; ERemove s r ok'] /\ o = (if ok' then Done else Panicked)
  else st' = st1 /\ ev = [EStop s r false] /\ o = Done.
Proof.
  intros st s r. cbn [perform]. destruct (nh_stop nh st s r) as [st1 ok]. exists st1, ok. split; [reflexivity|].
  destruct ok; [|repeat split; reflexivity].
  unfold do_remove. destruct (nh_remove nh st1 s r) as [st2 ok']. exists ok'. repeat split; reflexivity.
Qed.

Lemma perform_nothing : forall st,
  perform nh st DIgnore = (st, [], Done) /\ perform nh st DPanic = (st, [], Panicked).
Proof. intros st. split; reflexivity. Qed.

End Exec.

(** * 7. join / restore do not read the member lists of the request *)

Lemma create_lists_irrelevant : forall hi s m c i j r app ids addrs cfg m' ids' addrs',
  j = true \/ r = true ->
  decide hi (mkReq TCreate s m c i j r app ids addrs cfg) = decide hi (mkReq TCreate s m' c i j r app ids' addrs' cfg).
Proof.
  intros hi s m c i j r app ids addrs cfg m' ids' addrs' H.
  unfold decide, decide_create, start_decision. cbn [q_type q_join q_restore q_app q_shard q_inst q_cfg q_ids q_addrs].
  destruct j, r; try reflexivity. destruct H; discriminate.
Qed.

(** * 8. the queue at the level of Go slices *)

Lemma set_arr_length : forall h i c, length (set_arr h i c) = length h.
Proof.
  induction h as [|x h IH]; intros i c; [reflexivity|].
  destruct i as [|i]; cbn [set_arr length]; [reflexivity|]. now rewrite IH.
Qed.

Lemma set_arr_same : forall h i c, (i < length h)%nat -> arr_of (set_arr h i c) i = c.
Proof.
  unfold arr_of. induction h as [|x h IH]; intros i c Hi; cbn [length] in Hi; [lia|].
  destruct i as [|i]; cbn [set_arr nth]; [reflexivity|]. apply IH. lia.
Qed.

Lemma set_arr_other : forall h i j c, i <> j -> arr_of (set_arr h i c) j = arr_of h j.
Proof.
  unfold arr_of. induction h as [|x h IH]; intros i j c Hij; [reflexivity|].
  destruct i as [|i]; destruct j as [|j]; cbn [set_arr nth]; try reflexivity; [congruence|].
  apply IH. congruence.
Qed.

Lemma arr_of_app_old : forall h x j, (j < length h)%nat -> arr_of (h ++ x) j = arr_of h j.
Proof. intros h x j Hj. unfold arr_of. now apply app_nth1. Qed.

Lemma arr_of_app_new : forall h c, arr_of (h ++ [c]) (length h) = c.
Proof. intros h c. unfold arr_of. rewrite app_nth2 by lia. now rewrite Nat.sub_diag. Qed.

Lemma firstn_app_exact : forall A (l r : list A) n, length l = n -> firstn n (l ++ r) = l.
Proof.
  intros A l r n Hn. subst n. rewrite firstn_app, Nat.sub_diag, firstn_all. cbn [firstn]. now rewrite app_nil_r.
Qed.

(* what ties the slice level state to the list level state, and keeps the batches handed out apart from the queue *)
Definition h_inv (a : agent) (ha : hagent) (old : list slice) : Prop :=
  view (ha_heap ha) (ha_queue ha) = queue a /\
  sl_len (ha_queue ha) = length (queue a) /\
  (sl_arr (ha_queue ha) < length (ha_heap ha))%nat /\
  Forall (fun t => (sl_arr t < length (ha_heap ha))%nat /\ sl_arr t <> sl_arr (ha_queue ha)) old.

Lemma h_receive_inv : forall slack a ha old reqs,
  h_inv a ha old ->
  h_inv (receive a reqs) (h_receive slack ha reqs) old /\
  map (view (ha_heap (h_receive slack ha reqs))) old = map (view (ha_heap ha)) old.
Proof.
  intros slack a [h q] old reqs (Hv & Hl & Hq & Hold). cbn [ha_heap ha_queue] in *.
  unfold h_receive, go_append. cbn [ha_heap ha_queue].
  destruct (Nat.leb (sl_len q + length reqs) (sl_cap q)) eqn:Efit; cbn [ha_heap ha_queue].
  - (* in place *)
    split.
    + unfold h_inv. cbn [ha_heap ha_queue sl_arr sl_len receive queue].
      split; [|split; [|split]].
      * unfold view. cbn [sl_arr sl_len]. rewrite set_arr_same by exact Hq.
        rewrite app_assoc. unfold view in Hv. rewrite Hv.
        apply firstn_app_exact. rewrite app_length. lia.
      * rewrite app_length. lia.
      * now rewrite set_arr_length.
      * rewrite set_arr_length. exact Hold.
    + apply map_ext_in. intros t Ht. rewrite Forall_forall in Hold. destruct (Hold t Ht) as [_ Hne].
      unfold view. rewrite set_arr_other by congruence. reflexivity.
  - (* a new array *)
    split.
    + unfold h_inv. cbn [ha_heap ha_queue sl_arr sl_len receive queue].
      split; [|split; [|split]].
      * unfold view at 1. cbn [sl_arr sl_len]. rewrite arr_of_app_new. rewrite Hv.
        rewrite <- (app_nil_r (queue a ++ reqs)) at 1. apply firstn_app_exact. rewrite app_length. lia.
      * rewrite app_length. lia.
      * rewrite app_length. cbn [length]. lia.
      * rewrite Forall_forall in *. intros t Ht. destruct (Hold t Ht) as [Hlt _].
        rewrite app_length. cbn [length]. split; lia.
    + apply map_ext_in. intros t Ht. rewrite Forall_forall in Hold. destruct (Hold t Ht) as [Hlt _].
      unfold view. now rewrite arr_of_app_old.
Qed.

Lemma h_take_inv : forall a ha old,
  h_inv a ha old ->
  let '(b, a1) := take a in
  let '(t, ha1) := h_take ha in
  h_inv a1 ha1 (t :: old) /\ view (ha_heap ha1) t = b /\
  map (view (ha_heap ha1)) old = map (view (ha_heap ha)) old.
Proof.
  intros a [h q] old (Hv & Hl & Hq & Hold). cbn [ha_heap ha_queue] in *.
  unfold take, h_take, go_make0. cbn [ha_heap ha_queue].
  split; [|split].
  - unfold h_inv. cbn [ha_heap ha_queue sl_arr sl_len queue length].
    split; [|split; [|split]].
    + reflexivity.
    + reflexivity.
    + rewrite app_length. cbn [length]. lia.
    + constructor.
      * rewrite app_length. cbn [length]. split; lia.
      * rewrite Forall_forall in *. intros t Ht. destruct (Hold t Ht) as [Hlt _].
        rewrite app_length. cbn [length]. split; lia.
  - unfold view. rewrite arr_of_app_old by exact Hq. exact Hv.
  - apply map_ext_in. intros t Ht. rewrite Forall_forall in Hold. destruct (Hold t Ht) as [Hlt _].
    unfold view. now rewrite arr_of_app_old.
Qed.

Lemma h_run_refines_gen : forall slack evs a ha old a' bs ha' sls,
  h_inv a ha old ->
  run_evs a evs = (a', bs) ->
  h_run h_take slack ha evs = (ha', sls) ->
  view (ha_heap ha') (ha_queue ha') = queue a' /\
  map (view (ha_heap ha')) sls = bs /\
  map (view (ha_heap ha')) old = map (view (ha_heap ha)) old.
Proof.
  intros slack. induction evs as [|e evs IH]; intros a ha old a' bs ha' sls Hinv Hr Hh.
  - cbn [run_evs h_run] in *. inversion Hr; subst. inversion Hh; subst.
    destruct Hinv as (Hv & _). split; [exact Hv|split; reflexivity].
  - destruct e as [reqs|].
    + cbn [run_evs h_run] in *.
      destruct (h_receive_inv slack a ha old reqs Hinv) as [Hinv1 Hold1].
      destruct (IH _ _ _ _ _ _ _ Hinv1 Hr Hh) as (Hq & Hb & Ho).
      split; [exact Hq|split; [exact Hb|]]. now rewrite Ho.
    + cbn [run_evs h_run] in *.
      pose proof (h_take_inv a ha old Hinv) as Ht.
      destruct (take a) as [b a1]. destruct (h_take ha) as [t ha1].
      destruct Ht as (Hinv1 & Hvt & Hold1).
      destruct (run_evs a1 evs) as [a2 bs2] eqn:Er. injection Hr as Ha' Hbs. subst a' bs.
      destruct (h_run h_take slack ha1 evs) as [ha2 sls2] eqn:Eh. injection Hh as Hha' Hsls. subst ha' sls.
      destruct (IH _ _ _ _ _ _ _ Hinv1 Er Eh) as (Hq & Hb & Ho).
      cbn [map] in Ho. inversion Ho as [[Ho1 Ho2]].
      split; [exact Hq|split].
      * cbn [map]. now rewrite Ho1, Hvt, Hb.
      * now rewrite Ho2.
Qed.

Lemma h_init_inv : h_inv (mkAgent []) h_init [].
Proof. unfold h_inv, h_init. cbn. repeat split; try lia. constructor. Qed.

(* the queue of Go slices (append in place when the capacity allows, take = hand out the slice and make a new empty one)
   implements the list level queue: after ANY history of deliveries and executions, every batch handed out earlier - read
   through the FINAL heap - is still the batch of the list model: no later delivery wrote into it *)
Lemma h_run_refines : forall slack evs a' bs ha' sls,
  run_evs (mkAgent []) evs = (a', bs) ->
  h_run h_take slack h_init evs = (ha', sls) ->
  map (view (ha_heap ha')) sls = bs /\ view (ha_heap ha') (ha_queue ha') = queue a'.
Proof.
  intros slack evs a' bs ha' sls Hr Hh.
  destruct (h_run_refines_gen slack evs _ _ [] _ _ _ _ h_init_inv Hr Hh) as (Hq & Hb & _).
  split; assumption.
Qed.

(** * 9. a reporting round over several servers *)

Definition no_accept_before (servers : list (list (N * N) * srv_mode)) (i : nat) : Prop :=
  forall j v m, (j < i)%nat -> nth_error servers j = Some (v, m) -> m <> MAccept.

(* the i-th server, when no earlier one accepted, is contacted and receives the report built from the local information and
   from ITS OWN versions (nothing when its index list call failed) *)
Lemma report_round_nth : forall local flag servers i vers m,
  nth_error servers i = Some (vers, m) ->
  no_accept_before servers i ->
  nth_error (report_round local flag servers) i =
  Some (match m with MFailIndex => None | _ => build_report local vers flag end).
Proof.
  intros local flag. induction servers as [|[v0 m0] t IH]; intros i vers m Hn Hb.
  - destruct i; discriminate.
  - destruct i as [|i].
    + cbn [nth_error] in Hn. injection Hn as -> ->. cbn [report_round]. destruct m; reflexivity.
    + cbn [nth_error] in Hn.
      assert (Hm0 : m0 <> MAccept) by (apply (Hb 0%nat v0 m0); [lia|reflexivity]).
      assert (Hb' : no_accept_before t i).
      { intros j v m' Hj Hnj. apply (Hb (S j) v m'); [lia|exact Hnj]. }
      cbn [report_round]. destruct m0; [congruence| |]; cbn [nth_error]; apply IH; assumption.
Qed.

(* ... and nobody is contacted after the first server that accepted *)
Lemma report_round_stops : forall local flag servers i vers,
  nth_error servers i = Some (vers, MAccept) ->
  no_accept_before servers i ->
  length (report_round local flag servers) = S i.
Proof.
  intros local flag. induction servers as [|[v0 m0] t IH]; intros i vers Hn Hb.
  - destruct i; discriminate.
  - destruct i as [|i].
    + cbn [nth_error] in Hn. injection Hn as -> ->. reflexivity.
    + cbn [nth_error] in Hn.
      assert (Hm0 : m0 <> MAccept) by (apply (Hb 0%nat v0 m0); [lia|reflexivity]).
      assert (Hb' : no_accept_before t i).
      { intros j v m' Hj Hnj. apply (Hb (S j) v m'); [lia|exact Hnj]. }
      cbn [report_round]. destruct m0; [congruence| |]; cbn [length]; f_equal; eapply IH; eassumption.
Qed.

Lemma report_round_all : forall local flag servers,
  (forall v m, In (v, m) servers -> m <> MAccept) ->
  length (report_round local flag servers) = length servers.
Proof.
  intros local flag. induction servers as [|[v0 m0] t IH]; intros H; [reflexivity|].
  assert (Hm0 : m0 <> MAccept) by (apply (H v0 m0); left; reflexivity).
  cbn [report_round]. destruct m0; [congruence| |]; cbn [length]; f_equal; apply IH; intros v m Hin; apply (H v m); right; exact Hin.
Qed.
