(** The election model's CAS ([Election.cas]) is the Drummer DB's applyKVUpdate
    ([DB.kv_update]) restricted to the non-finalized record stored under
    election-key, and [Election.lookup] is the DB's KV lookup of that key. *)
From stdpp Require Import gmap.
From Drummer.Model Require Import DB.
From Drummer.Model Require Election.
Local Open Scope N_scope.

(** the election record inside a DB state *)
Definition rec_of (d : db) : Election.rcd :=
  match d_kv d !! key_election with
  | Some kv => Some (kv_inst kv, kv_tick kv)
  | None => None
  end.

(** the record is never finalized (election.go always sends Finalized: false) *)
Definition rec_open (d : db) : Prop :=
  forall kv, d_kv d !! key_election = Some kv -> kv_fin kv = false.

(** the KV that renewLeadership / campaign propose *)
Definition vote (v self old tick : N) : kvrec := mkKVR key_election v self tick old false.

Theorem cas_is_kv_update d v self old tick :
  v <> 0 -> rec_open d ->
  exists d' code,
    kv_update d (vote v self old tick) = Some (d', code) /\
    rec_of d' = fst (Election.cas (rec_of d) self old tick) /\
    (code = 0 <-> snd (Election.cas (rec_of d) self old tick) = Election.Updated) /\
    (code = 0 \/ code = 2) /\
    rec_open d'.
Proof.
  intros Hv Hopen. unfold kv_update, vote. cbn [kv_key kv_val kv_inst kv_old].
  replace (key_election =? 0) with false by reflexivity.
  destruct (N.eqb_spec v 0) as [E|_]; [contradiction|]. cbn [orb].
  unfold rec_of, rec_open in *.
  destruct (d_kv d !! key_election) as [okv|] eqn:Hk.
  - rewrite (Hopen okv eq_refl). cbn [Election.cas].
    destruct ((kv_inst okv =? self) || (kv_inst okv =? old)) eqn:Hc.
    + eexists _, 0. split; [reflexivity|]. unfold set_kv. cbn [d_kv fst snd].
      rewrite lookup_insert. cbn [kv_inst kv_tick].
      split; [reflexivity|]. split; [split; reflexivity|]. split; [left; reflexivity|].
      intros kv Hkv. inversion Hkv. reflexivity.
    + eexists _, 2. split; [reflexivity|]. cbn [fst snd]. rewrite Hk.
      split; [reflexivity|]. split; [split; intros; discriminate|]. split; [right; reflexivity|].
      exact Hopen.
  - eexists _, 0. split; [reflexivity|]. unfold set_kv. cbn [d_kv fst snd Election.cas].
    rewrite lookup_insert. cbn [kv_inst kv_tick].
    split; [reflexivity|]. split; [split; reflexivity|]. split; [left; reflexivity|].
    intros kv Hkv. inversion Hkv. reflexivity.
Qed.

(** handleKVLookup of election-key: the stored record, or the zero KV *)
Theorem lookup_is_lookup_kv d :
  Election.lookup (rec_of d) =
  match lookup_kv d key_election with Some kv => (kv_inst kv, kv_tick kv) | None => (0, 0) end.
Proof. unfold rec_of, lookup_kv. destruct (d_kv d !! key_election); reflexivity. Qed.
