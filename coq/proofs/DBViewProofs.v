(** Proofs about the membership view of the Drummer DB model (DB.v): [view_update] =
    [update_entries] + [update_node_tick] + [sync_leader_info]  (shardimage.go
    multiShard.update).  Lemmas behind C04. *)
From stdpp Require Import gmap list numbers.
From Coq Require Import ZifyN ZifyNat ZifyBool Lia.
From Drummer.Model Require Import DB.
From Drummer.Proofs Require Import DBProofs.
Local Open Scope N_scope.

(** * Vocabulary *)

(* an entry that carries a membership: neither pending nor incomplete *)
Definition complete (ci : shard_info) : bool := negb (si_pending ci) && negb (si_incomplete ci).

(* a linear membership history per shard: shard -> version -> members (replica id -> address) *)
Definition history := N -> N -> option (gmap N N).

Record hist_ok (H : history) : Prop := mkHistOk {
  (* within one version no two replicas share an address *)
  hist_inj : forall s v m r1 r2 a, H s v = Some m -> m !! r1 = Some a -> m !! r2 = Some a -> r1 = r2;
  (* a replica id keeps its address across versions *)
  hist_addr : forall s v v' m m' r a a', H s v = Some m -> H s v' = Some m' -> m !! r = Some a -> m' !! r = Some a' -> a = a' }.

(* a removed replica id is never used again (dragonboat refuses to re-add a removed replica) *)
Definition hist_no_return (H : history) : Prop :=
  forall s v1 v2 v3 m1 m2 m3 r, v1 < v2 -> v2 < v3 -> H s v1 = Some m1 -> H s v2 = Some m2 -> H s v3 = Some m3 ->
    is_Some (m1 !! r) -> m2 !! r = None -> m3 !! r = None.

(* consistency of what is reported with the history: ONLY complete entries are constrained;
   replica id, leader flag, pending / incomplete flags, the version of a partial entry, the
   reporting address, the order and multiplicity of entries are all free *)
Definition entry_ok (H : history) (ci : shard_info) : Prop :=
  complete ci = true -> H (si_shard ci) (si_cci ci) = Some (si_members ci).
Definition report_ok (H : history) (r : report) : Prop := Forall (entry_ok H) (rp_infos r).
Definition cmd_ok (H : history) (c : cmd) : Prop := match c with CReport r => report_ok H r | _ => True end.
Definition cmds_ok (H : history) (cs : list cmd) : Prop := Forall (cmd_ok H) cs.

(* the versions of the complete entries for shard s, in processing order *)
Definition entry_versions (s : N) (cis : list shard_info) : list N :=
  cis ≫= (λ ci, if decide (si_shard ci = s ∧ complete ci = true) then [si_cci ci] else []).
Definition cmd_versions (s : N) (c : cmd) : list N :=
  match c with CReport r => entry_versions s (rp_infos r) | _ => [] end.
Definition seen_versions (s : N) (cs : list cmd) : list N := cs ≫= cmd_versions s.

Definition is_max (v : N) (l : list N) : Prop := v ∈ l ∧ ∀ w, w ∈ l → w ≤ v.

(* what the property calls "the view" of a replica / shard: everything except the
   report time and the leader flag *)
Definition rep_core (n : replica) : N * N * N * N := (r_shard n, r_id n, r_addr n, r_first n).
Definition shard_core (c : shard) : N * N * gmap N (N * N * N * N) := (s_id c, s_cci c, rep_core <$> s_reps c).
(* everything except the report time *)
Definition rep_notick (n : replica) : N * N * N * N * bool := (r_shard n, r_id n, r_addr n, r_first n, r_leader n).
Definition shard_notick (c : shard) : N * N * gmap N (N * N * N * N * bool) := (s_id c, s_cci c, rep_notick <$> s_reps c).

Definition one_leader (c : shard) : Prop :=
  forall r1 r2 n1 n2, s_reps c !! r1 = Some n1 -> s_reps c !! r2 = Some n2 -> r_leader n1 = true -> r_leader n2 = true -> r1 = r2.
Definition view_one_leader (view : gmap N shard) : Prop := forall s c, view !! s = Some c -> one_leader c.

(* the view mirrors the history *)
Definition shard_inv (H : history) (s : N) (c : shard) : Prop :=
  s_id c = s ∧ H s (s_cci c) = Some (r_addr <$> s_reps c) ∧
  ∀ rid n, s_reps c !! rid = Some n → r_id n = rid ∧ r_shard n = s.
Definition view_inv (H : history) (view : gmap N shard) : Prop := ∀ s c, view !! s = Some c → shard_inv H s c.

Definition ver (view : gmap N shard) (s : N) : option N := s_cci <$> view !! s.

(** * Growth of a maximum *)
Definition grows (l : list N) (o o' : option N) : Prop :=
  match o' with
  | None => o = None ∧ l = []
  | Some v' => (o = Some v' ∨ v' ∈ l) ∧ (∀ v, o = Some v → v ≤ v') ∧ (∀ w, w ∈ l → w ≤ v')
  end.

Lemma grows_nil o : grows [] o o.
Proof. destruct o as [v|]; cbn; [|done]. split; [by left|]. split; [intros w [= ->]; lia|]. intros w Hw. by apply elem_of_nil in Hw. Qed.

Lemma grows_app l1 l2 o1 o2 o3 : grows l1 o1 o2 → grows l2 o2 o3 → grows (l1 ++ l2) o1 o3.
Proof.
  unfold grows. intros H1 H2. destruct o3 as [v3|].
  - destruct H2 as (Hin & Hle & Hall). destruct o2 as [v2|].
    + destruct H1 as (Hin1 & Hle1 & Hall1). specialize (Hle v2 eq_refl). split; [|split].
      * destruct Hin as [[= ->]|Hin]; [|right; apply elem_of_app; by right].
        destruct Hin1 as [->|Hin1]; [by left|right; apply elem_of_app; by left].
      * intros v Hv. specialize (Hle1 v Hv). lia.
      * intros w [Hw|Hw]%elem_of_app; [specialize (Hall1 w Hw); lia|by apply Hall].
    + destruct H1 as [-> ->]. cbn. split; [|split].
      * destruct Hin as [Hin|Hin]; [done|by right].
      * intros v Hv; done.
      * exact Hall.
  - destruct H2 as [-> ->]. destruct H1 as [-> ->]. done.
Qed.

Lemma grows_from_none l o : grows l None o → match o with None => l = [] | Some v => is_max v l end.
Proof. unfold grows, is_max. destruct o as [v|]; [|tauto]. intros ([Hn|Hin] & _ & Hall); [done|]. by split. Qed.

Lemma grows_mono l o o' v : grows l o o' → o = Some v → ∃ v', o' = Some v' ∧ v ≤ v'.
Proof. unfold grows. intros Hg ->. destruct o' as [v'|]; [|by destruct Hg]. exists v'. split; [done|]. destruct Hg as (_ & Hle & _). by apply Hle. Qed.

(** * getShard / syncShard: the resulting member table *)
Lemma get_shard_lookup ci tick rid :
  s_reps (get_shard ci tick) !! rid =
  match si_members ci !! rid with
  | None => None
  | Some a => Some (mkReplica (si_shard ci) rid a (if decide (rid = si_replica ci) then si_leader ci else false) 0 tick)
  end.
Proof.
  unfold get_shard. cbn [s_reps].
  set (reps := map_imap _ _).
  assert (Hl : ∀ k, reps !! k = (λ a, new_replica (si_shard ci) k a tick) <$> si_members ci !! k).
  { intros k. unfold reps. rewrite map_lookup_imap. by destruct (si_members ci !! k). }
  destruct (reps !! si_replica ci) as [n|] eqn:E.
  - destruct (decide (rid = si_replica ci)) as [->|Hne].
    + rewrite lookup_insert. rewrite Hl in E. destruct (si_members ci !! si_replica ci) as [a|]; [|done].
      cbn in E. injection E as <-. reflexivity.
    + rewrite lookup_insert_ne by done. rewrite Hl. by destruct (si_members ci !! rid).
  - rewrite Hl. destruct (decide (rid = si_replica ci)) as [->|Hne].
    + rewrite Hl in E. by destruct (si_members ci !! si_replica ci).
    + by destruct (si_members ci !! rid).
Qed.

Lemma get_shard_addrs ci tick : r_addr <$> s_reps (get_shard ci tick) = si_members ci.
Proof.
  apply map_eq. intros k. rewrite lookup_fmap, get_shard_lookup. by destruct (si_members ci !! k).
Qed.

(* the member table syncShard builds when it accepts an entry *)
Definition synced_reps (c : shard) (ci : shard_info) (tick : N) : gmap N replica :=
  filter (λ kv, is_Some (si_members ci !! kv.1)) (s_reps c) ∪
  map_imap (λ nid a, match s_reps c !! nid with
                     | Some _ => None
                     | None => Some (new_replica (si_shard ci) nid a tick)
                     end) (si_members ci).

Lemma synced_reps_lookup c ci tick rid :
  synced_reps c ci tick !! rid =
  match si_members ci !! rid with
  | None => None
  | Some a => match s_reps c !! rid with Some n => Some n | None => Some (new_replica (si_shard ci) rid a tick) end
  end.
Proof.
  unfold synced_reps. rewrite lookup_union, map_filter_lookup, map_lookup_imap. cbn [fst].
  destruct (si_members ci !! rid) as [a|] eqn:Em; destruct (s_reps c !! rid) as [n|] eqn:Er; cbn; reflexivity.
Qed.

Lemma sync_shard_cases c ci tick c' rej :
  sync_shard c ci tick = Some (c', rej) →
  (si_cci ci < s_cci c ∧ rej = true ∧ c' = c) ∨
  (s_cci c ≤ si_cci ci ∧ rej = false ∧ c' = mkShard (s_id c) (si_cci ci) (synced_reps c ci tick) ∧
   (∀ rid n a, s_reps c !! rid = Some n → si_members ci !! rid = Some a → r_addr n = a) ∧
   NoDup (addrs_of (synced_reps c ci tick))).
Proof.
  unfold sync_shard. fold (synced_reps c ci tick).
  destruct (si_cci ci <? s_cci c) eqn:E1.
  { intros [= <- <-]. left. split; [lia|done]. }
  destruct (_ && _); [done|].
  destruct (bool_decide (map_Forall _ _)) eqn:E2; [|done]. cbn [negb].
  destruct (bool_decide (NoDup _)) eqn:E3; [|done].
  intros [= <- <-]. right. split; [lia|]. split; [done|]. split; [done|].
  apply bool_decide_eq_true in E2. apply bool_decide_eq_true in E3. split; [|done].
  intros rid n a Hn Ha.
  assert (Hk : filter (λ kv : N * replica, is_Some (si_members ci !! kv.1)) (s_reps c) !! rid = Some n).
  { apply map_filter_lookup_Some. split; [done|]. cbn. by eexists. }
  specialize (E2 rid n Hk). cbn in E2. congruence.
Qed.

Lemma synced_reps_addrs c ci tick :
  (∀ rid n a, s_reps c !! rid = Some n → si_members ci !! rid = Some a → r_addr n = a) →
  r_addr <$> synced_reps c ci tick = si_members ci.
Proof.
  intros Ha. apply map_eq. intros k. rewrite lookup_fmap, synced_reps_lookup.
  destruct (si_members ci !! k) as [a|] eqn:Em; [|done].
  destruct (s_reps c !! k) as [n|] eqn:Er; cbn; [|done]. f_equal. by eapply Ha.
Qed.

Lemma NoDup_addrs_inj (reps : gmap N replica) :
  (∀ r1 r2 n1 n2, reps !! r1 = Some n1 → reps !! r2 = Some n2 → r_addr n1 = r_addr n2 → r1 = r2) →
  NoDup (addrs_of reps).
Proof.
  intros Hinj. unfold addrs_of, mvals. rewrite <- list_fmap_compose.
  apply NoDup_fmap_2_strong; [|apply NoDup_map_to_list].
  intros [k1 n1] [k2 n2] H1%elem_of_map_to_list H2%elem_of_map_to_list Heq. cbn in Heq.
  assert (k1 = k2) as -> by eauto. congruence.
Qed.

(** * One entry of doUpdate: exact case analysis (all inputs) *)
Lemma update_entry_cases tick view tk ci view' tk' :
  update_entry tick (view, tk) ci = Some (view', tk') →
  (complete ci = false ∧ view' = view) ∨
  (complete ci = true ∧ view !! si_shard ci = None ∧ view' = <[si_shard ci := get_shard ci tick]> view) ∨
  (complete ci = true ∧ ∃ ec, view !! si_shard ci = Some ec ∧ si_cci ci < s_cci ec ∧ view' = view) ∨
  (complete ci = true ∧ ∃ ec, view !! si_shard ci = Some ec ∧ s_cci ec ≤ si_cci ci ∧
     (∀ rid n a, s_reps ec !! rid = Some n → si_members ci !! rid = Some a → r_addr n = a) ∧
     NoDup (addrs_of (synced_reps ec ci tick)) ∧
     view' = <[si_shard ci := mkShard (s_id ec) (si_cci ci) (synced_reps ec ci tick)]> view).
Proof.
  unfold update_entry, complete.
  assert (Hpart : ∀ x : option (gmap N shard * list shard_info),
            x = match view !! si_shard ci with
                | Some ec => if negb (bool_decide (size (s_reps ec) = 0%nat)) && (0 <? s_cci ec) && kill_required ec ci
                             then Some (view, tk ++ [ci]) else Some (view, tk)
                | None => Some (view, tk)
                end → x = Some (view', tk') → view' = view).
  { intros x ->. destruct (view !! si_shard ci) as [ec|]; [destruct (_ && _ && _)|]; by intros [= <- _]. }
  destruct (si_pending ci).
  { intros Hp. left. split; [done|]. eapply Hpart; [reflexivity|exact Hp]. }
  destruct (si_incomplete ci); cbn [negb andb].
  { intros Hp. left. split; [done|]. eapply Hpart; [reflexivity|exact Hp]. }
  clear Hpart.
  destruct (view !! si_shard ci) as [ec|] eqn:Ev.
  - destruct (sync_shard ec ci tick) as [[ec' rej]|] eqn:Es; [|done].
    intros Hr. assert (view' = <[si_shard ci := ec']> view) as -> by (destruct (rej && _); by injection Hr as <- _).
    apply sync_shard_cases in Es as [(Hlt & -> & ->)|(Hle & -> & -> & Ha & Hnd)].
    + right; right; left. split; [done|]. exists ec. rewrite insert_id by done. done.
    + right; right; right. split; [done|]. exists ec. done.
  - intros [= <- <-]. right; left. done.
Qed.

Lemma update_entry_other tick view tk ci view' tk' s :
  update_entry tick (view, tk) ci = Some (view', tk') → si_shard ci ≠ s → view' !! s = view !! s.
Proof.
  intros Hu Hne. apply update_entry_cases in Hu as [[_ ->]|[(_ & _ & ->)|[(_ & ec & _ & _ & ->)|(_ & ec & _ & _ & _ & _ & ->)]]];
    try done; by rewrite lookup_insert_ne.
Qed.

Lemma entry_versions_cons s ci cis :
  entry_versions s (ci :: cis) = (if decide (si_shard ci = s ∧ complete ci = true) then [si_cci ci] else []) ++ entry_versions s cis.
Proof. reflexivity. Qed.

Lemma ver_insert view s c s' : ver (<[s := c]> view) s' = if decide (s = s') then Some (s_cci c) else ver view s'.
Proof. unfold ver. destruct (decide (s = s')) as [->|Hne]; [by rewrite lookup_insert|by rewrite lookup_insert_ne]. Qed.

Lemma update_entry_grows tick view tk ci view' tk' s :
  update_entry tick (view, tk) ci = Some (view', tk') →
  grows (if decide (si_shard ci = s ∧ complete ci = true) then [si_cci ci] else []) (ver view s) (ver view' s).
Proof.
  intros Hu. apply update_entry_cases in Hu as [[Hc ->]|[(Hc & Hn & ->)|[(Hc & ec & He & Hlt & ->)|(Hc & ec & He & Hle & _ & _ & ->)]]].
  - rewrite decide_False by (intros [_ ?]; congruence). apply grows_nil.
  - rewrite ver_insert. destruct (decide (si_shard ci = s)) as [<-|Hne].
    + rewrite decide_True by done. unfold ver. rewrite Hn. cbn. split; [right; set_solver|]. split; [done|].
      intros w Hw. apply elem_of_list_singleton in Hw as ->. lia.
    + rewrite decide_False by (intros [? _]; done). apply grows_nil.
  - destruct (decide (si_shard ci = s)) as [<-|Hne].
    + rewrite decide_True by done. unfold ver. rewrite He. cbn. split; [by left|]. split; [intros v [= <-]; lia|].
      intros w Hw. apply elem_of_list_singleton in Hw as ->. lia.
    + rewrite decide_False by (intros [? _]; done). apply grows_nil.
  - rewrite ver_insert. destruct (decide (si_shard ci = s)) as [<-|Hne].
    + rewrite decide_True by done. unfold ver. rewrite He. cbn. split; [right; set_solver|]. split; [intros v [= <-]; lia|].
      intros w Hw. apply elem_of_list_singleton in Hw as ->. lia.
    + rewrite decide_False by (intros [? _]; done). apply grows_nil.
Qed.

Lemma update_entries_grows tick cis : ∀ view tk view' tk' s,
  update_entries tick (view, tk) cis = Some (view', tk') → grows (entry_versions s cis) (ver view s) (ver view' s).
Proof.
  induction cis as [|ci cis IH]; intros view tk view' tk' s Hu.
  - cbn in Hu. injection Hu as <- <-. apply grows_nil.
  - cbn [update_entries] in Hu. destruct (update_entry tick (view, tk) ci) as [[view1 tk1]|] eqn:E1; [|done].
    rewrite entry_versions_cons. eapply grows_app; [eapply update_entry_grows; exact E1|eapply IH; exact Hu].
Qed.

(* lifting a reflexive-transitive relation on views through the entry loop *)
Lemma update_entries_rel tick (Q : shard_info → Prop) (R : gmap N shard → gmap N shard → Prop) :
  (∀ v, R v v) → (∀ a b c, R a b → R b c → R a c) →
  (∀ view tk ci view' tk', Q ci → update_entry tick (view, tk) ci = Some (view', tk') → R view view') →
  ∀ cis view tk view' tk', Forall Q cis → update_entries tick (view, tk) cis = Some (view', tk') → R view view'.
Proof.
  intros Hr Ht Hs cis. induction cis as [|ci cis IH]; intros view tk view' tk' HQ Hu.
  - cbn in Hu. injection Hu as <- <-. apply Hr.
  - cbn [update_entries] in Hu. destruct (update_entry tick (view, tk) ci) as [[view1 tk1]|] eqn:E1; [|done].
    apply Forall_cons_1 in HQ as [HQ1 HQ]. eapply Ht; [eapply Hs; [exact HQ1|exact E1]|eapply IH; [exact HQ|exact Hu]].
Qed.

Lemma foldl_rel {A B} (f : A → B → A) (Q : B → Prop) (R : A → A → Prop) :
  (∀ a, R a a) → (∀ a b c, R a b → R b c → R a c) → (∀ a b, Q b → R a (f a b)) →
  ∀ l a, Forall Q l → R a (foldl f a l).
Proof.
  intros Hr Ht Hs l. induction l as [|b l IH]; intros a HQ; [apply Hr|].
  apply Forall_cons_1 in HQ as [HQ1 HQ]. cbn. eapply Ht; [apply Hs; exact HQ1|apply IH; exact HQ].
Qed.

Lemma view_update_split view kill r tick view' kill' :
  view_update view kill r tick = Some (view', kill') →
  ∃ view1 tokill, update_entries tick (view, []) (rp_infos r) = Some (view1, tokill) ∧
    view' = sync_leader_info (update_node_tick tick view1 (rp_infos r)) (rp_infos r).
Proof.
  unfold view_update. destruct (update_entries tick (view, []) (rp_infos r)) as [[view1 tokill]|]; [|done].
  intros [= <- _]. by exists view1, tokill.
Qed.

Lemma view_update_rel tick (Q : shard_info → Prop) (R : gmap N shard → gmap N shard → Prop) :
  (∀ v, R v v) → (∀ a b c, R a b → R b c → R a c) →
  (∀ view tk ci view' tk', Q ci → update_entry tick (view, tk) ci = Some (view', tk') → R view view') →
  (∀ view ci, Q ci → R view (touch_replica tick view ci)) →
  (∀ view ci, Q ci → R view (leader_entry view ci)) →
  ∀ view kill r view' kill', Forall Q (rp_infos r) → view_update view kill r tick = Some (view', kill') → R view view'.
Proof.
  intros Hr Ht Hs1 Hs2 Hs3 view kill r view' kill' HQ Hu.
  apply view_update_split in Hu as (view1 & tokill & Hu & ->).
  assert (H1 : R view view1) by (eapply update_entries_rel; eauto).
  assert (H2 : R view1 (update_node_tick tick view1 (rp_infos r))).
  { unfold update_node_tick. apply (foldl_rel (touch_replica tick) Q R); auto. }
  assert (H3 : R (update_node_tick tick view1 (rp_infos r)) (sync_leader_info (update_node_tick tick view1 (rp_infos r)) (rp_infos r))).
  { unfold sync_leader_info. apply (foldl_rel leader_entry Q R); auto. }
  eauto.
Qed.

(** * updateNodeTick / syncLeaderInfo: what they can touch *)
Lemma touch_replica_notick tick view ci s :
  shard_notick <$> touch_replica tick view ci !! s = shard_notick <$> view !! s.
Proof.
  unfold touch_replica. destruct (view !! si_shard ci) as [ec|] eqn:Ev; [|done].
  destruct (s_reps ec !! si_replica ci) as [n|] eqn:En; [|done].
  destruct (decide (si_shard ci = s)) as [<-|Hne]; [|by rewrite lookup_insert_ne].
  rewrite lookup_insert, Ev. cbn. unfold shard_notick. cbn [s_id s_cci s_reps]. do 2 f_equal.
  rewrite fmap_insert. apply insert_id. rewrite lookup_fmap, En. reflexivity.
Qed.

Lemma notick_core c c' : shard_notick c = shard_notick c' → shard_core c = shard_core c'.
Proof.
  unfold shard_notick, shard_core. intros [= H1 H2 H3]. rewrite H1, H2. f_equal.
  assert (Hc : ∀ m : gmap N replica, rep_core <$> m = fst <$> (rep_notick <$> m)).
  { intros m. rewrite <- map_fmap_compose. apply map_fmap_ext. intros k n _. reflexivity. }
  by rewrite !Hc, H3.
Qed.

Lemma notick_core_opt (x y : option shard) : shard_notick <$> x = shard_notick <$> y → shard_core <$> x = shard_core <$> y.
Proof.
  destruct x as [c|], y as [c'|]; try done.
  intros E. change (Some (shard_notick c) = Some (shard_notick c')) in E.
  change (Some (shard_core c) = Some (shard_core c')). f_equal. apply notick_core. congruence.
Qed.

Lemma leader_entry_other view ci s : si_shard ci ≠ s → leader_entry view ci !! s = view !! s.
Proof.
  intros Hne. unfold leader_entry. destruct (view !! si_shard ci) as [c|]; [|done].
  destruct (si_cci ci <? s_cci c); [done|]. destruct (s_reps c !! si_replica ci) as [n|]; [|done].
  destruct (negb (si_leader ci) && r_leader n); [by rewrite lookup_insert_ne|].
  destruct (si_leader ci && negb (r_leader n)); [by rewrite lookup_insert_ne|done].
Qed.

Lemma leader_entry_stale view ci c : view !! si_shard ci = Some c → si_cci ci < s_cci c → leader_entry view ci = view.
Proof.
  intros Hv Hlt. unfold leader_entry. rewrite Hv. destruct (si_cci ci <? s_cci c) eqn:E; [done|lia].
Qed.

Lemma leader_entry_core view ci s : shard_core <$> leader_entry view ci !! s = shard_core <$> view !! s.
Proof.
  destruct (decide (si_shard ci = s)) as [<-|Hne]; [|by rewrite leader_entry_other].
  unfold leader_entry. destruct (view !! si_shard ci) as [c|] eqn:Ev; [|by rewrite Ev].
  destruct (si_cci ci <? s_cci c); [by rewrite Ev|]. destruct (s_reps c !! si_replica ci) as [n|] eqn:En; [|by rewrite Ev].
  destruct (negb (si_leader ci) && r_leader n).
  { rewrite lookup_insert. cbn. unfold shard_core. cbn [s_id s_cci s_reps]. do 2 f_equal.
    rewrite fmap_insert. apply insert_id. rewrite lookup_fmap, En. reflexivity. }
  destruct (si_leader ci && negb (r_leader n)); [|by rewrite Ev].
  rewrite lookup_insert. cbn. unfold shard_core. cbn [s_id s_cci s_reps]. do 2 f_equal.
  rewrite fmap_insert, <- map_fmap_compose.
  rewrite (map_fmap_ext _ rep_core) by (intros k x _; reflexivity).
  apply insert_id. rewrite lookup_fmap, En. reflexivity.
Qed.

Lemma update_node_tick_notick tick view cis s :
  shard_notick <$> update_node_tick tick view cis !! s = shard_notick <$> view !! s.
Proof.
  unfold update_node_tick.
  apply (foldl_rel (touch_replica tick) (λ _, True) (λ a b, shard_notick <$> b !! s = shard_notick <$> a !! s)); auto.
  - intros a b c H1 H2. congruence.
  - intros a ci _. apply touch_replica_notick.
  - apply list.Forall_forall. done.
Qed.

Lemma sync_leader_info_core view cis s :
  shard_core <$> sync_leader_info view cis !! s = shard_core <$> view !! s.
Proof.
  unfold sync_leader_info.
  apply (foldl_rel leader_entry (λ _, True) (λ a b, shard_core <$> b !! s = shard_core <$> a !! s)); auto.
  - intros a b c H1 H2. congruence.
  - intros a ci _. apply leader_entry_core.
  - apply list.Forall_forall. done.
Qed.

(* tick pass + leader pass leave the core of every shard alone *)
Lemma passes_core tick view cis s :
  shard_core <$> sync_leader_info (update_node_tick tick view cis) cis !! s = shard_core <$> view !! s.
Proof. rewrite sync_leader_info_core. apply notick_core_opt, update_node_tick_notick. Qed.

Lemma ver_core a b s : shard_core <$> a !! s = shard_core <$> b !! s → ver a s = ver b s.
Proof.
  unfold ver. destruct (a !! s) as [c|], (b !! s) as [c'|]; try done.
  intros E. change (Some (shard_core c) = Some (shard_core c')) in E. cbn. f_equal.
  unfold shard_core in E. congruence.
Qed.

Lemma core_addrs c c' : shard_core c = shard_core c' → r_addr <$> s_reps c = r_addr <$> s_reps c'.
Proof.
  unfold shard_core. intros [= _ _ E].
  assert (Hc : ∀ m : gmap N replica, r_addr <$> m = (λ x : N * N * N * N, x.1.2) <$> (rep_core <$> m)).
  { intros m. rewrite <- map_fmap_compose. apply map_fmap_ext. intros k n _. reflexivity. }
  by rewrite !Hc, E.
Qed.

Lemma core_lookup c c' rid n' :
  shard_core c = shard_core c' → s_reps c' !! rid = Some n' → ∃ n, s_reps c !! rid = Some n ∧ rep_core n = rep_core n'.
Proof.
  unfold shard_core. intros [= _ _ E] Hn.
  assert (E' : (rep_core <$> s_reps c) !! rid = (rep_core <$> s_reps c') !! rid) by (by rewrite E).
  rewrite !lookup_fmap, Hn in E'. destruct (s_reps c !! rid) as [n|]; [|done]. exists n. split; [done|]. cbn in E'. congruence.
Qed.

Lemma shard_inv_core H s c c' : shard_core c = shard_core c' → shard_inv H s c → shard_inv H s c'.
Proof.
  intros E (Hid & Hh & Hids). pose proof (core_addrs _ _ E) as Ea.
  assert (Hv : s_cci c = s_cci c') by (unfold shard_core in E; congruence).
  assert (Hi : s_id c = s_id c') by (unfold shard_core in E; congruence).
  split; [congruence|]. split; [by rewrite <- Hv, <- Ea|].
  intros rid n' Hn'. destruct (core_lookup _ _ _ _ E Hn') as (n & Hn & Ec).
  destruct (Hids rid n Hn) as [H1 H2]. unfold rep_core in Ec. split; congruence.
Qed.

Lemma view_inv_core H a b : (∀ s, shard_core <$> b !! s = shard_core <$> a !! s) → view_inv H a → view_inv H b.
Proof.
  intros E Ha s c' Hc'. specialize (E s). rewrite Hc' in E. destruct (a !! s) as [c|] eqn:Ec; [|done].
  change (Some (shard_core c') = Some (shard_core c)) in E. eapply shard_inv_core; [|eapply Ha; exact Ec]. congruence.
Qed.

(** * Under a history: no panic, the invariant is kept *)
Section WithHistory.
Context (H : history) (Hok : hist_ok H).

Lemma sync_shard_no_panic s c ci tick :
  shard_inv H s c → si_shard ci = s → H s (si_cci ci) = Some (si_members ci) → is_Some (sync_shard c ci tick).
Proof.
  intros (Hid & Hh & Hids) Hs Hm. unfold sync_shard. fold (synced_reps c ci tick).
  destruct (si_cci ci <? s_cci c); [by eexists|].
  assert (Haddr : ∀ rid n a, s_reps c !! rid = Some n → si_members ci !! rid = Some a → r_addr n = a).
  { intros rid n a Hn Ha. eapply (hist_addr H Hok s (s_cci c) (si_cci ci)); [exact Hh|exact Hm| |exact Ha].
    by rewrite lookup_fmap, Hn. }
  destruct (_ && _) eqn:Ec1.
  { exfalso. apply andb_true_iff in Ec1 as [Ee Ec1]. apply N.eqb_eq in Ee.
    assert (Hmm : si_members ci = r_addr <$> s_reps c) by (rewrite Ee in Hh; congruence).
    apply orb_true_iff in Ec1 as [Ec1|Ec1]; apply negb_true_iff, bool_decide_eq_false in Ec1; apply Ec1.
    - by rewrite Hmm, map_size_fmap.
    - intros k a Hk. cbn. rewrite Hmm, lookup_fmap in Hk. destruct (s_reps c !! k); [by eexists|done]. }
  rewrite bool_decide_eq_true_2; cbn [negb].
  2:{ intros k n Hk. apply map_filter_lookup_Some in Hk as [Hk [a Ha]]. cbn in Ha |- *. rewrite Ha. f_equal.
      symmetry. by eapply Haddr. }
  rewrite bool_decide_eq_true_2; [by eexists|].
  apply NoDup_addrs_inj. intros r1 r2 n1 n2 H1 H2 Ea.
  pose proof (synced_reps_addrs c ci tick Haddr) as Hsa.
  eapply (hist_inj H Hok s (si_cci ci) (si_members ci) r1 r2 (r_addr n1)); [exact Hm| |].
  - by rewrite <- Hsa, lookup_fmap, H1.
  - by rewrite <- Hsa, lookup_fmap, H2, Ea.
Qed.

Lemma update_entry_no_panic tick view tk ci :
  view_inv H view → entry_ok H ci → is_Some (update_entry tick (view, tk) ci).
Proof.
  intros Hinv Hci. unfold update_entry, entry_ok, complete in *.
  assert (Hpart : is_Some (match view !! si_shard ci with
                | Some ec => if negb (bool_decide (size (s_reps ec) = 0%nat)) && (0 <? s_cci ec) && kill_required ec ci
                             then Some (view, tk ++ [ci]) else Some (view, tk)
                | None => Some (view, tk)
                end)).
  { destruct (view !! si_shard ci) as [ec|]; [destruct (_ && _ && _)|]; by eexists. }
  destruct (si_pending ci); [exact Hpart|]. destruct (si_incomplete ci); [exact Hpart|]. cbn [negb andb] in *.
  clear Hpart. specialize (Hci eq_refl).
  destruct (view !! si_shard ci) as [ec|] eqn:Ev; [|by eexists].
  destruct (sync_shard_no_panic (si_shard ci) ec ci tick (Hinv _ _ Ev) eq_refl Hci) as [[ec' rej] ->].
  destruct (rej && _); by eexists.
Qed.

Lemma update_entry_inv tick view tk ci view' tk' :
  view_inv H view → entry_ok H ci → update_entry tick (view, tk) ci = Some (view', tk') → view_inv H view'.
Proof.
  intros Hinv Hci Hu.
  apply update_entry_cases in Hu as [[Hc ->]|[(Hc & Hn & ->)|[(Hc & ec & He & Hlt & ->)|(Hc & ec & He & Hle & Ha & _ & ->)]]]; try done.
  - specialize (Hci Hc). intros s c Hl. destruct (decide (si_shard ci = s)) as [<-|Hne]; [|rewrite lookup_insert_ne in Hl by done; eauto].
    rewrite lookup_insert in Hl. injection Hl as <-. split; [done|]. split.
    + rewrite get_shard_addrs. exact Hci.
    + intros rid n Hl. rewrite get_shard_lookup in Hl. destruct (si_members ci !! rid) as [a|]; [|done]. injection Hl as <-. done.
  - specialize (Hci Hc). intros s c Hl. destruct (decide (si_shard ci = s)) as [<-|Hne]; [|rewrite lookup_insert_ne in Hl by done; eauto].
    rewrite lookup_insert in Hl. injection Hl as <-. destruct (Hinv _ _ He) as (Hid & Hh & Hids).
    split; [done|]. split.
    + cbn [s_cci s_reps]. rewrite synced_reps_addrs by exact Ha. exact Hci.
    + cbn [s_reps]. intros rid n Hl. rewrite synced_reps_lookup in Hl. destruct (si_members ci !! rid) as [a|]; [|done].
      destruct (s_reps ec !! rid) as [n0|] eqn:E0; injection Hl as <-; [eauto|done].
Qed.

Lemma update_entries_no_panic tick cis : ∀ view tk,
  view_inv H view → Forall (entry_ok H) cis → is_Some (update_entries tick (view, tk) cis).
Proof.
  induction cis as [|ci cis IH]; intros view tk Hinv HQ; [by eexists|].
  apply Forall_cons_1 in HQ as [HQ1 HQ]. cbn [update_entries].
  destruct (update_entry_no_panic tick view tk ci Hinv HQ1) as [[view1 tk1] E1]. rewrite E1.
  apply IH; [|exact HQ]. eapply update_entry_inv; eauto.
Qed.

Lemma view_update_no_panic view kill r tick :
  view_inv H view → report_ok H r → is_Some (view_update view kill r tick).
Proof.
  intros Hinv Hr. unfold view_update.
  destruct (update_entries_no_panic tick (rp_infos r) view [] Hinv Hr) as [[view1 tk1] ->]. by eexists.
Qed.

Lemma view_update_inv view kill r tick view' kill' :
  view_inv H view → report_ok H r → view_update view kill r tick = Some (view', kill') → view_inv H view'.
Proof.
  intros Hinv Hr Hu. apply view_update_split in Hu as (view1 & tk1 & Hu & ->).
  eapply view_inv_core; [intros s; apply passes_core|].
  revert Hinv. eapply (update_entries_rel tick (entry_ok H) (λ a b, view_inv H a → view_inv H b)); eauto.
  intros view0 tk ci view0' tk' HQ Hu0 Hi. eapply update_entry_inv; eauto.
Qed.

Lemma view_update_grows view kill r tick view' kill' s :
  view_update view kill r tick = Some (view', kill') → grows (entry_versions s (rp_infos r)) (ver view s) (ver view' s).
Proof.
  intros Hu. apply view_update_split in Hu as (view1 & tk1 & Hu & ->).
  assert (E : ver (sync_leader_info (update_node_tick tick view1 (rp_infos r)) (rp_infos r)) s = ver view1 s)
    by apply ver_core, passes_core.
  rewrite E. eapply update_entries_grows; exact Hu.
Qed.
End WithHistory.

(** * From [view_update] to [db_step] and runs *)
Lemma report_result_view d r view' kill' : d_view (report_result d r view' kill') = view'.
Proof.
  unfold report_result, on_updated_shard_info, pickup. cbn.
  repeat (match goal with |- context [if ?b then _ else _] => destruct b end ||
          match goal with |- context [match ?x with Some _ => _ | None => _ end] => destruct x end); reflexivity.
Qed.

Lemma step_view P d c d' :
  next P d c = Some d' →
  (d_view d' = d_view d ∧ (d_failed d = true ∨ ∀ r, c ≠ CReport r)) ∨
  (∃ r kill', c = CReport r ∧ d_failed d = false ∧
     view_update (d_view d) (d_kill d) (stamp d r) (d_tick d) = Some (d_view d', kill')).
Proof.
  intros Hn. apply next_cases in Hn as [[Hf ->]|[Hf Hc]]; [left; split; [done|by left]|].
  destruct c as [|kv|t sd|r|qs|].
  - subst d'. left. split; [|by right]. unfold tick_result. destruct (_ && _); reflexivity.
  - destruct Hc as [v Hc]. apply kv_update_frame in Hc. left. split; [tauto|by right].
  - destruct Hc as [v Hc]. left. split; [|by right].
    apply try_create_shard_spec in Hc as (_ & _ & _ & [(_ & _ & ->)|[(_ & _ & _ & ->)|(_ & _ & _ & ->)]]); reflexivity.
  - destruct Hc as (view' & kill' & Hu & ->). right. exists r, kill'. rewrite report_result_view. done.
  - destruct Hc as [v Hc]. left. split; [|by right].
    destruct (requests_cases P d qs) as [[_ E]|[_ [(_ & _ & E)|[(_ & _ & E)|(_ & E)]]]]; rewrite E in Hc; try done;
      injection Hc as <- _; reflexivity.
  - done.
Qed.

Lemma run_failed P cs : ∀ d, d_failed d = true → run_from P (Live d) cs = Live d.
Proof.
  induction cs as [|c cs IH]; intros d Hf; [done|].
  rewrite run_from_cons. unfold rstep. rewrite step_failed by done. cbn [fst]. by apply IH.
Qed.

Lemma next_failed P d c d' : next P d c = Some d' → d_failed d = true → d' = d.
Proof. intros Hn Hf. unfold next in Hn. rewrite step_failed in Hn by done. congruence. Qed.

Lemma run_live_ind_Q P (Q : cmd → Prop) (R : db → db → Prop) :
  (∀ d, R d d) → (∀ a b c, R a b → R b c → R a c) →
  (∀ d c d', Q c → next P d c = Some d' → R d d') →
  ∀ cs d d', Forall Q cs → run_from P (Live d) cs = Live d' → R d d'.
Proof.
  intros Hr Ht Hs cs. induction cs as [|c cs IH]; intros d d' HQ Hrun.
  - cbn in Hrun. injection Hrun as ->. apply Hr.
  - apply Forall_cons_1 in HQ as [HQ1 HQ]. rewrite run_from_cons, rstep_live in Hrun.
    destruct (next P d c) as [d1|] eqn:E.
    + eapply Ht; [eapply Hs; [exact HQ1|exact E] | apply IH; [exact HQ|exact Hrun]].
    + rewrite run_from_dead in Hrun. discriminate.
Qed.

(* a relation on views (indexed by the tick of the step) that holds for the three passes holds for steps *)
Lemma step_view_rel P (Q : shard_info → Prop) (R : N → gmap N shard → gmap N shard → Prop) :
  (∀ t v, R t v v) → (∀ t a b c, R t a b → R t b c → R t a c) →
  (∀ t view tk ci view' tk', Q ci → update_entry t (view, tk) ci = Some (view', tk') → R t view view') →
  (∀ t view ci, Q ci → R t view (touch_replica t view ci)) →
  (∀ t view ci, Q ci → R t view (leader_entry view ci)) →
  ∀ d c d', match c with CReport r => Forall Q (rp_infos r) | _ => True end →
    next P d c = Some d' → R (d_tick d) (d_view d) (d_view d').
Proof.
  intros Hr Ht H1 H2 H3 d c d' HQ Hn.
  apply step_view in Hn as [[-> _]|(r & kill' & -> & _ & Hu)]; [apply Hr|].
  eapply (view_update_rel (d_tick d) Q (R (d_tick d))); eauto.
Qed.

Definition all_entries (Q : shard_info → Prop) (c : cmd) : Prop :=
  match c with CReport r => Forall Q (rp_infos r) | _ => True end.

Lemma all_entries_True c : all_entries (λ _, True) c.
Proof. destruct c; cbn; try done. apply list.Forall_forall. done. Qed.

(** * C04_version_monotone (all inputs) *)
Definition ver_mono (a b : gmap N shard) : Prop := ∀ s v, ver a s = Some v → ∃ v', ver b s = Some v' ∧ v ≤ v'.

Lemma ver_mono_refl a : ver_mono a a.
Proof. intros s v Hv. exists v. split; [done|lia]. Qed.
Lemma ver_mono_trans a b c : ver_mono a b → ver_mono b c → ver_mono a c.
Proof. intros H1 H2 s v Hv. destruct (H1 s v Hv) as (v1 & Hv1 & Hle1). destruct (H2 s v1 Hv1) as (v2 & Hv2 & Hle2). exists v2. split; [done|lia]. Qed.
Lemma ver_mono_core a b : (∀ s, shard_core <$> b !! s = shard_core <$> a !! s) → ver_mono a b.
Proof. intros E s v Hv. exists v. split; [|lia]. rewrite <- Hv. apply ver_core, E. Qed.

Lemma update_entry_mono t view tk ci view' tk' : update_entry t (view, tk) ci = Some (view', tk') → ver_mono view view'.
Proof. intros Hu s v Hv. eapply grows_mono; [eapply update_entry_grows; exact Hu|exact Hv]. Qed.

Lemma touch_replica_core t view ci s : shard_core <$> touch_replica t view ci !! s = shard_core <$> view !! s.
Proof. apply notick_core_opt, touch_replica_notick. Qed.

Lemma step_ver_mono P d c d' : next P d c = Some d' → ver_mono (d_view d) (d_view d').
Proof.
  intros Hn.
  apply (step_view_rel P (λ _, True) (λ _, ver_mono)) with (c := c); auto using ver_mono_refl.
  - intros _. apply ver_mono_trans.
  - intros t view tk ci view' tk' _. apply update_entry_mono.
  - intros t view ci _. apply ver_mono_core. intros s. apply touch_replica_core.
  - intros t view ci _. apply ver_mono_core. intros s. apply leader_entry_core.
  - apply all_entries_True.
Qed.

Lemma run_ver_mono P cs d d' : run_from P (Live d) cs = Live d' → ver_mono (d_view d) (d_view d').
Proof.
  apply (run_live_ind P (λ a b, ver_mono (d_view a) (d_view b))).
  - intros a. apply ver_mono_refl.
  - intros a b c. apply ver_mono_trans.
  - intros a c b. apply step_ver_mono.
Qed.

Lemma run_version_monotone P cs d d' s c :
  run_from P (Live d) cs = Live d' → d_view d !! s = Some c → ∃ c', d_view d' !! s = Some c' ∧ s_cci c ≤ s_cci c'.
Proof.
  intros Hrun Hc. destruct (run_ver_mono P cs d d' Hrun s (s_cci c)) as (v' & Hv' & Hle); [unfold ver; by rewrite Hc|].
  unfold ver in Hv'. destruct (d_view d' !! s) as [c'|]; [|done]. exists c'. cbn in Hv'. split; [done|]. congruence.
Qed.

(** * C04_view_is_max, C04_no_panic *)
Section WithHistory2.
Context (H : history) (Hok : hist_ok H).

Lemma step_inv_grows P d c d' :
  view_inv H (d_view d) → cmd_ok H c → next P d c = Some d' →
  view_inv H (d_view d') ∧ (d_failed d = false → ∀ s, grows (cmd_versions s c) (ver (d_view d) s) (ver (d_view d') s)).
Proof.
  intros Hinv Hc Hn. apply step_view in Hn as [[E Hwhy]|(r & kill' & -> & Hf & Hu)].
  - rewrite E. split; [done|]. intros Hf s. destruct Hwhy as [Hf'|Hnr]; [congruence|].
    destruct c; try apply grows_nil. by destruct (Hnr r).
  - split; [eapply view_update_inv; eauto|]. intros _ s. eapply view_update_grows in Hu. exact Hu.
Qed.

Lemma seen_versions_cons s c cs : seen_versions s (c :: cs) = cmd_versions s c ++ seen_versions s cs.
Proof. reflexivity. Qed.

Lemma run_inv_grows P cs : ∀ d d',
  view_inv H (d_view d) → cmds_ok H cs → run_from P (Live d) cs = Live d' →
  view_inv H (d_view d') ∧ (d_failed d' = false → ∀ s, grows (seen_versions s cs) (ver (d_view d) s) (ver (d_view d') s)).
Proof.
  induction cs as [|c cs IH]; intros d d' Hinv HQ Hrun.
  - cbn in Hrun. injection Hrun as <-. split; [done|]. intros _ s. apply grows_nil.
  - apply Forall_cons_1 in HQ as [HQ1 HQ]. rewrite run_from_cons, rstep_live in Hrun.
    destruct (next P d c) as [d1|] eqn:E; [|rewrite run_from_dead in Hrun; discriminate].
    destruct (step_inv_grows P d c d1 Hinv HQ1 E) as [Hinv1 Hg1].
    destruct (IH d1 d' Hinv1 HQ Hrun) as [Hinv' Hg]. split; [done|]. intros Hf' s.
    rewrite seen_versions_cons.
    assert (Hf1 : d_failed d1 = false).
    { destruct (d_failed d1) eqn:Ef; [|done]. rewrite (run_failed P cs d1 Ef) in Hrun. congruence. }
    assert (Hf : d_failed d = false).
    { destruct (d_failed d) eqn:Ef; [|done]. rewrite (next_failed P d c d1 E Ef) in Hf1. congruence. }
    eapply grows_app; [apply Hg1; exact Hf|apply Hg; exact Hf'].
Qed.

Lemma view_inv_empty : view_inv H ∅.
Proof. intros s c Hl. by rewrite lookup_empty in Hl. Qed.

Definition view_spec (s : N) (l : list N) (x : option shard) : Prop :=
  match x with
  | None => l = []
  | Some c => is_max (s_cci c) l ∧ s_id c = s ∧ H s (s_cci c) = Some (r_addr <$> s_reps c) ∧
              ∀ rid n, s_reps c !! rid = Some n → r_id n = rid ∧ r_shard n = s
  end.

Lemma run_view_is_max P cs d s :
  cmds_ok H cs → run P cs = Live d → d_failed d = false → view_spec s (seen_versions s cs) (d_view d !! s).
Proof.
  intros HQ Hrun Hf. destruct (run_inv_grows P cs db_init d view_inv_empty HQ Hrun) as [Hinv Hg].
  specialize (Hg Hf s). apply grows_from_none in Hg. unfold ver in Hg. unfold view_spec.
  destruct (d_view d !! s) as [c|] eqn:Ec; [|exact Hg]. cbn in Hg. destruct (Hinv s c Ec) as (H1 & H2 & H3). done.
Qed.

Lemma run_invariant P cs d : cmds_ok H cs → run P cs = Live d → view_inv H (d_view d).
Proof. intros HQ Hrun. by destruct (run_inv_grows P cs db_init d view_inv_empty HQ Hrun). Qed.

Lemma report_no_panic_inv P d r : view_inv H (d_view d) → report_ok H r → db_step P d (CReport r) ≠ SDead.
Proof.
  intros Hinv Hr. unfold db_step. destruct (d_failed d); [done|]. unfold apply_report.
  destruct (view_update_no_panic H Hok (d_view d) (d_kill d) (stamp d r) (d_tick d) Hinv Hr) as [[view' kill'] ->]. done.
Qed.

Lemma run_no_panic P cs d r : cmds_ok H cs → run P cs = Live d → report_ok H r → db_step P d (CReport r) ≠ SDead.
Proof. intros HQ Hrun Hr. apply report_no_panic_inv; [|done]. eapply run_invariant; eauto. Qed.
End WithHistory2.

(** * C04_one_leader (all inputs) *)
Lemma one_leader_sub (c c' : shard) :
  (∀ r n', s_reps c' !! r = Some n' → r_leader n' = true → ∃ n, s_reps c !! r = Some n ∧ r_leader n = true) →
  one_leader c → one_leader c'.
Proof.
  intros Hsub Hone r1 r2 n1 n2 H1 H2 L1 L2.
  destruct (Hsub r1 n1 H1 L1) as (m1 & Hm1 & Lm1). destruct (Hsub r2 n2 H2 L2) as (m2 & Hm2 & Lm2).
  eapply Hone; eauto.
Qed.

Lemma get_shard_one_leader ci t : one_leader (get_shard ci t).
Proof.
  intros r1 r2 n1 n2 H1 H2 L1 L2. rewrite get_shard_lookup in H1, H2.
  destruct (si_members ci !! r1) as [a1|]; [|done]. destruct (si_members ci !! r2) as [a2|]; [|done].
  injection H1 as <-. injection H2 as <-. cbn in L1, L2.
  destruct (decide (r1 = si_replica ci)) as [->|]; [|done]. destruct (decide (r2 = si_replica ci)) as [->|]; done.
Qed.

Lemma update_entry_one_leader t view tk ci view' tk' :
  update_entry t (view, tk) ci = Some (view', tk') → view_one_leader view → view_one_leader view'.
Proof.
  intros Hu Hone.
  apply update_entry_cases in Hu as [[Hc ->]|[(Hc & Hn & ->)|[(Hc & ec & He & Hlt & ->)|(Hc & ec & He & Hle & _ & _ & ->)]]]; try done.
  - intros s c Hl. destruct (decide (si_shard ci = s)) as [<-|Hne]; [|rewrite lookup_insert_ne in Hl by done; eauto].
    rewrite lookup_insert in Hl. injection Hl as <-. apply get_shard_one_leader.
  - intros s c Hl. destruct (decide (si_shard ci = s)) as [<-|Hne]; [|rewrite lookup_insert_ne in Hl by done; eauto].
    rewrite lookup_insert in Hl. injection Hl as <-. eapply one_leader_sub; [|eapply Hone; exact He].
    cbn [s_reps]. intros r n' Hl Ll. rewrite synced_reps_lookup in Hl. destruct (si_members ci !! r) as [a|]; [|done].
    destruct (s_reps ec !! r) as [n|]; injection Hl as <-; [by exists n|done].
Qed.

Lemma touch_replica_one_leader t view ci : view_one_leader view → view_one_leader (touch_replica t view ci).
Proof.
  intros Hone s c' Hl. pose proof (touch_replica_notick t view ci s) as E. rewrite Hl in E.
  destruct (view !! s) as [c|] eqn:Ec; [|done]. change (Some (shard_notick c') = Some (shard_notick c)) in E.
  eapply one_leader_sub; [|eapply Hone; exact Ec].
  intros r n' Hn' Ln'. unfold shard_notick in E. injection E as _ _ E.
  assert (E' : (rep_notick <$> s_reps c') !! r = (rep_notick <$> s_reps c) !! r) by (by rewrite E).
  rewrite !lookup_fmap, Hn' in E'. destruct (s_reps c !! r) as [n|]; [|done]. exists n. split; [done|].
  cbn in E'. unfold rep_notick in E'. congruence.
Qed.

Lemma leader_entry_one_leader view ci : view_one_leader view → view_one_leader (leader_entry view ci).
Proof.
  intros Hone. unfold leader_entry. destruct (view !! si_shard ci) as [c|] eqn:Ev; [|done].
  destruct (si_cci ci <? s_cci c); [done|]. destruct (s_reps c !! si_replica ci) as [n|] eqn:En; [|done].
  destruct (negb (si_leader ci) && r_leader n).
  { intros s c' Hl. destruct (decide (si_shard ci = s)) as [<-|Hne]; [|rewrite lookup_insert_ne in Hl by done; eauto].
    rewrite lookup_insert in Hl. injection Hl as <-. eapply one_leader_sub; [|eapply Hone; exact Ev].
    cbn [s_reps]. intros r n' Hl Ll. destruct (decide (si_replica ci = r)) as [<-|Hner].
    - rewrite lookup_insert in Hl. injection Hl as <-. done.
    - rewrite lookup_insert_ne in Hl by done. by exists n'. }
  destruct (si_leader ci && negb (r_leader n)); [|done].
  intros s c' Hl. destruct (decide (si_shard ci = s)) as [<-|Hne]; [|rewrite lookup_insert_ne in Hl by done; eauto].
  rewrite lookup_insert in Hl. injection Hl as <-. cbn [s_reps].
  assert (Hall : ∀ r n', (<[si_replica ci := set_leader n true]> ((λ x, set_leader x false) <$> s_reps c)) !! r = Some n' →
                 r_leader n' = true → r = si_replica ci).
  { intros r n' Hl Ll. destruct (decide (si_replica ci = r)) as [<-|Hner]; [done|].
    rewrite lookup_insert_ne, lookup_fmap in Hl by done. destruct (s_reps c !! r) as [x|]; [|done].
    injection Hl as <-. done. }
  intros r1 r2 n1 n2 H1 H2 L1 L2. cbn [s_reps] in H1, H2. rewrite (Hall r1 n1 H1 L1), (Hall r2 n2 H2 L2). reflexivity.
Qed.

Lemma step_one_leader P d c d' : next P d c = Some d' → view_one_leader (d_view d) → view_one_leader (d_view d').
Proof.
  intros Hn.
  apply (step_view_rel P (λ _, True) (λ _ a b, view_one_leader a → view_one_leader b)) with (c := c); auto.
  - intros t view tk ci view' tk' _. apply update_entry_one_leader.
  - intros t view ci _. apply touch_replica_one_leader.
  - intros t view ci _. apply leader_entry_one_leader.
  - apply all_entries_True.
Qed.

Lemma run_one_leader_from P cs d d' : run_from P (Live d) cs = Live d' → view_one_leader (d_view d) → view_one_leader (d_view d').
Proof.
  apply (run_live_ind P (λ a b, view_one_leader (d_view a) → view_one_leader (d_view b))); auto.
  intros a c b. apply step_one_leader.
Qed.

Lemma run_one_leader P cs d : run P cs = Live d → view_one_leader (d_view d).
Proof. intros Hrun. eapply run_one_leader_from; [exact Hrun|]. intros s c Hl.
  change (d_view db_init) with (∅ : gmap N shard) in Hl. by rewrite lookup_empty in Hl. Qed.

(** * Inert entries (all inputs): entries that are pending, incomplete or carry an older
    version leave the core of the shard alone; if ALL entries for the shard carry an
    older version, leader flags are untouched too *)
Definition core_ver (x : N * N * gmap N (N * N * N * N)) : N := x.1.2.
Definition notick_ver (x : N * N * gmap N (N * N * N * N * bool)) : N := x.1.2.

Lemma update_entry_inert t view tk ci view' tk' s :
  update_entry t (view, tk) ci = Some (view', tk') →
  (si_shard ci = s → complete ci = true → ∃ c, view !! s = Some c ∧ si_cci ci < s_cci c) →
  view' !! s = view !! s.
Proof.
  intros Hu HQ. destruct (decide (si_shard ci = s)) as [Hs|Hne]; [|eapply update_entry_other; eauto].
  apply update_entry_cases in Hu as [[Hc ->]|[(Hc & Hn & ->)|[(Hc & ec & He & Hlt & ->)|(Hc & ec & He & Hle & _ & _ & ->)]]]; try done.
  - destruct (HQ Hs Hc) as (c & Hl & _). subst s. congruence.
  - destruct (HQ Hs Hc) as (c & Hl & Hlt). subst s. rewrite He in Hl. injection Hl as <-. lia.
Qed.

Lemma step_inert_core P d r d' s :
  next P d (CReport r) = Some d' →
  (∀ ci, ci ∈ rp_infos r → si_shard ci = s → complete ci = true → ∃ c, d_view d !! s = Some c ∧ si_cci ci < s_cci c) →
  shard_core <$> d_view d' !! s = shard_core <$> d_view d !! s.
Proof.
  intros Hn HQ. set (X0 := shard_core <$> d_view d !! s).
  set (Q := λ ci, si_shard ci = s → complete ci = true → ∃ x, X0 = Some x ∧ si_cci ci < core_ver x).
  apply (step_view_rel P Q (λ _ a b, shard_core <$> a !! s = X0 → shard_core <$> b !! s = X0)) with (c := CReport r) (d' := d') (d := d); auto.
  - intros t view tk ci view' tk' Hq Hu Ha. rewrite <- Ha. f_equal. eapply update_entry_inert; [exact Hu|].
    intros Hs Hc. destruct (Hq Hs Hc) as (x & Hx & Hlt). rewrite Hx in Ha.
    destruct (view !! s) as [c|]; [|done]. exists c. split; [done|]. change (Some (shard_core c) = Some x) in Ha.
    injection Ha as <-. exact Hlt.
  - intros t view ci _ Ha. rewrite <- Ha. apply touch_replica_core.
  - intros t view ci _ Ha. rewrite <- Ha. apply leader_entry_core.
  - cbn. apply list.Forall_forall. intros ci Hin Hs Hc. destruct (HQ ci Hin Hs Hc) as (c & Hl & Hlt).
    exists (shard_core c). split; [unfold X0; by rewrite Hl|exact Hlt].
Qed.

Lemma leader_entry_inert view ci s :
  (si_shard ci = s → ∃ c, view !! s = Some c ∧ si_cci ci < s_cci c) → leader_entry view ci !! s = view !! s.
Proof.
  intros HQ. destruct (decide (si_shard ci = s)) as [Hs|Hne]; [|by apply leader_entry_other].
  destruct (HQ Hs) as (c & Hl & Hlt). subst s. by rewrite (leader_entry_stale view ci c).
Qed.

Lemma step_inert_notick P d r d' s :
  next P d (CReport r) = Some d' →
  (∀ ci, ci ∈ rp_infos r → si_shard ci = s → ∃ c, d_view d !! s = Some c ∧ si_cci ci < s_cci c) →
  shard_notick <$> d_view d' !! s = shard_notick <$> d_view d !! s.
Proof.
  intros Hn HQ. set (X0 := shard_notick <$> d_view d !! s).
  set (Q := λ ci, si_shard ci = s → ∃ x, X0 = Some x ∧ si_cci ci < notick_ver x).
  assert (Hlift : ∀ (view : gmap N shard) ci, Q ci → shard_notick <$> view !! s = X0 → si_shard ci = s → ∃ c, view !! s = Some c ∧ si_cci ci < s_cci c).
  { intros view ci Hq Ha Hs. destruct (Hq Hs) as (x & Hx & Hlt). rewrite Hx in Ha.
    destruct (view !! s) as [c|]; [|done]. exists c. split; [done|]. change (Some (shard_notick c) = Some x) in Ha.
    injection Ha as <-. exact Hlt. }
  apply (step_view_rel P Q (λ _ a b, shard_notick <$> a !! s = X0 → shard_notick <$> b !! s = X0)) with (c := CReport r) (d' := d') (d := d); auto.
  - intros t view tk ci view' tk' Hq Hu Ha. rewrite <- Ha. f_equal. eapply update_entry_inert; [exact Hu|].
    intros Hs _. eapply Hlift; eauto.
  - intros t view ci _ Ha. rewrite <- Ha. apply touch_replica_notick.
  - intros t view ci Hq Ha. rewrite <- Ha. f_equal. apply leader_entry_inert. intros Hs. eapply Hlift; eauto.
  - cbn. apply list.Forall_forall. intros ci Hin Hs. destruct (HQ ci Hin Hs) as (c & Hl & Hlt).
    exists (shard_notick c). split; [unfold X0; by rewrite Hl|exact Hlt].
Qed.

(** * C04_first_observed *)
(* one entry (all inputs): a member after the entry either has exactly the record it had
   before, or was not a member before and is a fresh record stamped with the tick *)
Lemma update_entry_members t view tk ci view' tk' s c' rid n' :
  update_entry t (view, tk) ci = Some (view', tk') → view' !! s = Some c' → s_reps c' !! rid = Some n' →
  (∃ c, view !! s = Some c ∧ s_reps c !! rid = Some n') ∨
  ((∀ c, view !! s = Some c → s_reps c !! rid = None) ∧ r_first n' = t ∧ r_tick n' = 0).
Proof.
  intros Hu Hc' Hn'.
  apply update_entry_cases in Hu as [[Hc ->]|[(Hc & Hn & ->)|[(Hc & ec & He & Hlt & ->)|(Hc & ec & He & Hle & _ & _ & ->)]]].
  - left. by exists c'.
  - destruct (decide (si_shard ci = s)) as [<-|Hne]; [|rewrite lookup_insert_ne in Hc' by done; left; by exists c'].
    rewrite lookup_insert in Hc'. injection Hc' as <-. right. split; [intros c Hl; congruence|].
    rewrite get_shard_lookup in Hn'. destruct (si_members ci !! rid) as [a|]; [|done]. injection Hn' as <-. done.
  - left. by exists c'.
  - destruct (decide (si_shard ci = s)) as [<-|Hne]; [|rewrite lookup_insert_ne in Hc' by done; left; by exists c'].
    rewrite lookup_insert in Hc'. injection Hc' as <-. cbn [s_reps] in Hn'. rewrite synced_reps_lookup in Hn'.
    destruct (si_members ci !! rid) as [a|]; [|done].
    destruct (s_reps ec !! rid) as [n|] eqn:En; injection Hn' as <-.
    + left. by exists ec.
    + right. split; [|done]. intros c Hl. congruence.
Qed.

Lemma core_members (a b : gmap N shard) s c' rid n' :
  shard_core <$> b !! s = shard_core <$> a !! s → b !! s = Some c' → s_reps c' !! rid = Some n' →
  ∃ c n, a !! s = Some c ∧ s_reps c !! rid = Some n ∧ rep_core n = rep_core n'.
Proof.
  intros E Hb Hn'. rewrite Hb in E. destruct (a !! s) as [c|]; [|done].
  change (Some (shard_core c') = Some (shard_core c)) in E.
  assert (E' : shard_core c = shard_core c') by congruence.
  destruct (core_lookup c c' rid n' E' Hn') as (n & Hn & Hc). by exists c, n.
Qed.

(* one step (all inputs): FirstObserved of a member after the step is its value before the step or the DB tick *)
Definition first_rel (t : N) (a b : gmap N shard) : Prop :=
  ∀ s c' rid n', b !! s = Some c' → s_reps c' !! rid = Some n' →
    r_first n' = t ∨ ∃ c n, a !! s = Some c ∧ s_reps c !! rid = Some n ∧ r_first n = r_first n'.

Lemma first_rel_core t a b : (∀ s, shard_core <$> b !! s = shard_core <$> a !! s) → first_rel t a b.
Proof.
  intros E s c' rid n' Hb Hn'. right. destruct (core_members a b s c' rid n' (E s) Hb Hn') as (c & n & Ha & Hn & Hc).
  exists c, n. split; [done|]. split; [done|]. unfold rep_core in Hc. congruence.
Qed.

Lemma step_first_rel P d c d' : next P d c = Some d' → first_rel (d_tick d) (d_view d) (d_view d').
Proof.
  intros Hn. apply (step_view_rel P (λ _, True) first_rel) with (c := c); auto.
  - intros t v s c' rid n' Hb Hn'. right. by exists c', n'.
  - intros t a b c0 Hab Hbc s c' rid n' Hc' Hn'.
    destruct (Hbc s c' rid n' Hc' Hn') as [Ht|(cb & nb & Hcb & Hnb & Hf)]; [by left|].
    destruct (Hab s cb rid nb Hcb Hnb) as [Ht|(ca & na & Hca & Hna & Hf')]; [left; congruence|].
    right. exists ca, na. split; [done|]. split; [done|]. congruence.
  - intros t view tk ci view' tk' _ Hu s c' rid n' Hc' Hn'.
    destruct (update_entry_members t view tk ci view' tk' s c' rid n' Hu Hc' Hn') as [(c0 & Hc0 & Hn0)|(_ & Hf & _)]; [|by left].
    right. by exists c0, n'.
  - intros t view ci _. apply first_rel_core. intros s. apply touch_replica_core.
  - intros t view ci _. apply first_rel_core. intros s. apply leader_entry_core.
  - apply all_entries_True.
Qed.

Lemma step_first_new P d c d' s c' rid n' :
  next P d c = Some d' → d_view d' !! s = Some c' → s_reps c' !! rid = Some n' →
  (∀ c0, d_view d !! s = Some c0 → s_reps c0 !! rid = None) → r_first n' = d_tick d.
Proof.
  intros Hn Hc' Hn' Hnew. destruct (step_first_rel P d c d' Hn s c' rid n' Hc' Hn') as [Ht|(c0 & n0 & Hc0 & Hn0 & _)]; [done|].
  rewrite (Hnew c0 Hc0) in Hn0. done.
Qed.

(* along runs consistent with a history in which removed ids do not come back *)
Definition first_stable (a b : gmap N shard) : Prop :=
  ∀ s c c' rid n n', a !! s = Some c → b !! s = Some c' → s_reps c !! rid = Some n → s_reps c' !! rid = Some n' →
    r_first n' = r_first n.

Section WithHistory3.
Context (H : history) (Hok : hist_ok H) (Hnr : hist_no_return H).

Definition hrel (a b : gmap N shard) : Prop := view_inv H a → view_inv H b ∧ ver_mono a b ∧ first_stable a b.

Lemma hrel_refl a : hrel a a.
Proof.
  intros Hinv. split; [done|]. split; [apply ver_mono_refl|].
  intros s c c' rid n n' Hc Hc' Hn Hn'. congruence.
Qed.

Lemma hrel_trans a b c : hrel a b → hrel b c → hrel a c.
Proof.
  intros Hab Hbc Ha. destruct (Hab Ha) as (Hb & Mab & Sab). destruct (Hbc Hb) as (Hc & Mbc & Sbc).
  split; [done|]. split; [eapply ver_mono_trans; eauto|].
  intros s ca cc rid na nc Hca Hcc Hna Hnc.
  destruct (Mab s (s_cci ca)) as (v2 & Hv2 & Hle12); [unfold ver; by rewrite Hca|].
  unfold ver in Hv2. destruct (b !! s) as [cb|] eqn:Hcb; [|done]. cbn in Hv2. injection Hv2 as <-.
  destruct (Mbc s (s_cci cb)) as (v3 & Hv3 & Hle23); [unfold ver; by rewrite Hcb|].
  unfold ver in Hv3. rewrite Hcc in Hv3. cbn in Hv3. injection Hv3 as <-.
  destruct (Ha s ca Hca) as (_ & Hha & _). destruct (Hb s cb Hcb) as (_ & Hhb & _). destruct (Hc s cc Hcc) as (_ & Hhc & _).
  destruct (s_reps cb !! rid) as [nb|] eqn:Hnb.
  { rewrite (Sbc s cb cc rid nb nc Hcb Hcc Hnb Hnc). eapply Sab; eauto. }
  exfalso.
  assert (Ma : (r_addr <$> s_reps ca) !! rid = Some (r_addr na)) by (by rewrite lookup_fmap, Hna).
  assert (Mb : (r_addr <$> s_reps cb) !! rid = None) by (by rewrite lookup_fmap, Hnb).
  assert (Mc : (r_addr <$> s_reps cc) !! rid = Some (r_addr nc)) by (by rewrite lookup_fmap, Hnc).
  destruct (decide (s_cci ca = s_cci cb)) as [E12|N12]; [rewrite E12 in Hha; congruence|].
  destruct (decide (s_cci cb = s_cci cc)) as [E23|N23]; [rewrite E23 in Hhb; congruence|].
  assert (Hnone : (r_addr <$> s_reps cc) !! rid = None).
  { eapply (Hnr s (s_cci ca) (s_cci cb) (s_cci cc)); [lia|lia|exact Hha|exact Hhb|exact Hhc|by eexists|exact Mb]. }
  congruence.
Qed.

Lemma hrel_core a b : (∀ s, shard_core <$> b !! s = shard_core <$> a !! s) → hrel a b.
Proof.
  intros E Ha. split; [eapply view_inv_core; eauto|]. split; [by apply ver_mono_core|].
  intros s c c' rid n n' Hc Hc' Hn Hn'.
  destruct (core_members a b s c' rid n' (E s) Hc' Hn') as (c0 & n0 & Hc0 & Hn0 & Hcore).
  assert (c0 = c) as -> by congruence. assert (n0 = n) as -> by congruence. unfold rep_core in Hcore. congruence.
Qed.

Lemma step_hrel P d c d' : cmd_ok H c → next P d c = Some d' → hrel (d_view d) (d_view d').
Proof.
  intros HQ Hn. apply (step_view_rel P (entry_ok H) (λ _, hrel)) with (c := c); auto.
  - intros _. apply hrel_refl.
  - intros _. apply hrel_trans.
  - intros t view tk ci view' tk' Hq Hu Hinv. split; [eapply update_entry_inv; eauto|]. split; [eapply update_entry_mono; eauto|].
    intros s c0 c' rid n n' Hc0 Hc' Hn0 Hn'.
    destruct (update_entry_members t view tk ci view' tk' s c' rid n' Hu Hc' Hn') as [(c1 & Hc1 & Hn1)|(Hnone & _)].
    + assert (c1 = c0) as -> by congruence. congruence.
    + rewrite (Hnone c0 Hc0) in Hn0. done.
  - intros t view ci _. apply hrel_core. intros s. apply touch_replica_core.
  - intros t view ci _. apply hrel_core. intros s. apply leader_entry_core.
Qed.

Lemma run_first_stable P cs d d' s c c' rid n n' :
  view_inv H (d_view d) → cmds_ok H cs → run_from P (Live d) cs = Live d' →
  d_view d !! s = Some c → d_view d' !! s = Some c' → s_reps c !! rid = Some n → s_reps c' !! rid = Some n' →
  r_first n' = r_first n.
Proof.
  intros Hinv HQ Hrun.
  assert (Hrel : hrel (d_view d) (d_view d')).
  { apply (run_live_ind_Q P (cmd_ok H) (λ a b, hrel (d_view a) (d_view b))) with (cs := cs); auto.
    - intros a. apply hrel_refl.
    - intros a b c0. apply hrel_trans.
    - intros a c0 b. apply step_hrel. }
  destruct (Hrel Hinv) as (_ & _ & Hst). apply Hst.
Qed.
End WithHistory3.

(** * C04_view_is_max without assuming that the launch-deadline fail-stop did not happen:
    the view is the maximum over the prefix processed before the fail-stop *)
Section WithHistory4.
Context (H : history) (Hok : hist_ok H).

Lemma run_inv_grows_gen P cs : ∀ d d',
  view_inv H (d_view d) → cmds_ok H cs → run_from P (Live d) cs = Live d' →
  ∃ cs1 cs2, cs = cs1 ++ cs2 ∧ (d_failed d' = false → cs2 = []) ∧
    ∀ s, grows (seen_versions s cs1) (ver (d_view d) s) (ver (d_view d') s).
Proof.
  induction cs as [|c cs IH]; intros d d' Hinv HQ Hrun.
  - cbn in Hrun. injection Hrun as <-. exists [], []. split; [done|]. split; [done|]. intros s. apply grows_nil.
  - destruct (d_failed d) eqn:Ef.
    + rewrite (run_failed P (c :: cs) d Ef) in Hrun. injection Hrun as <-. exists [], (c :: cs).
      split; [done|]. split; [congruence|]. intros s. apply grows_nil.
    + apply Forall_cons_1 in HQ as [HQ1 HQ]. rewrite run_from_cons, rstep_live in Hrun.
      destruct (next P d c) as [d1|] eqn:E; [|rewrite run_from_dead in Hrun; discriminate].
      destruct (step_inv_grows H P d c d1 Hinv HQ1 E) as [Hinv1 Hg1].
      destruct (IH d1 d' Hinv1 HQ Hrun) as (cs1 & cs2 & -> & Hf2 & Hg).
      exists (c :: cs1), cs2. split; [done|]. split; [done|]. intros s. rewrite seen_versions_cons.
      eapply grows_app; [apply Hg1; exact Ef|apply Hg].
Qed.

Lemma run_view_is_max_gen P cs d :
  cmds_ok H cs → run P cs = Live d →
  ∃ cs1 cs2, cs = cs1 ++ cs2 ∧ (d_failed d = false → cs2 = []) ∧
    ∀ s, view_spec H s (seen_versions s cs1) (d_view d !! s).
Proof.
  intros HQ Hrun. pose proof (run_invariant H P cs d HQ Hrun) as Hinv.
  destruct (run_inv_grows_gen P cs db_init d (view_inv_empty H) HQ Hrun) as (cs1 & cs2 & -> & Hf & Hg).
  exists cs1, cs2. split; [done|]. split; [done|]. intros s. specialize (Hg s).
  apply grows_from_none in Hg. unfold ver in Hg. unfold view_spec.
  destruct (d_view d !! s) as [c|] eqn:Ec; [|exact Hg]. cbn in Hg. destruct (Hinv s c Ec) as (H1 & H2 & H3). done.
Qed.
End WithHistory4.

(** * Histories given by a finite table: the side conditions are decidable *)
Definition hist_of (g : gmap (N * N) (gmap N N)) : history := λ s v, g !! (s, v).

Definition fin_inj (g : gmap (N * N) (gmap N N)) : Prop :=
  map_Forall (λ _ m, map_Forall (λ r1 a1, map_Forall (λ r2 a2, a1 = a2 → r1 = r2) m) m) g.
Definition fin_addr (g : gmap (N * N) (gmap N N)) : Prop :=
  map_Forall (λ k m, map_Forall (λ k' m', k.1 = k'.1 → map_Forall (λ r a, map_Forall (λ r' a', r = r' → a = a') m') m) g) g.
Definition fin_no_return (g : gmap (N * N) (gmap N N)) : Prop :=
  map_Forall (λ k1 m1, map_Forall (λ k2 m2, map_Forall (λ k3 m3,
     k1.1 = k2.1 → k2.1 = k3.1 → k1.2 < k2.2 → k2.2 < k3.2 →
     map_Forall (λ r _, m2 !! r = None → m3 !! r = None) m1) g) g) g.

Global Instance fin_inj_dec g : Decision (fin_inj g).
Proof. unfold fin_inj. apply _. Defined.
Global Instance fin_addr_dec g : Decision (fin_addr g).
Proof. unfold fin_addr. apply _. Defined.
Global Instance fin_no_return_dec g : Decision (fin_no_return g).
Proof. unfold fin_no_return. apply _. Defined.

Lemma hist_of_ok g : fin_inj g → fin_addr g → hist_ok (hist_of g).
Proof.
  intros Hi Ha. split.
  - intros s v m r1 r2 a Hm H1 H2. exact (Hi (s, v) m Hm r1 a H1 r2 a H2 eq_refl).
  - intros s v v' m m' r a a' Hm Hm' H1 H2. exact (Ha (s, v) m Hm (s, v') m' Hm' eq_refl r a H1 r a' H2 eq_refl).
Qed.

Lemma hist_of_no_return g : fin_no_return g → hist_no_return (hist_of g).
Proof.
  intros Hn s v1 v2 v3 m1 m2 m3 r L12 L23 H1 H2 H3 [a Ha] Hnone.
  exact (Hn (s, v1) m1 H1 (s, v2) m2 H2 (s, v3) m3 H3 eq_refl eq_refl L12 L23 r a Ha Hnone).
Qed.

Lemma step_inert_partial P d r d' s :
  next P d (CReport r) = Some d' →
  (∀ ci, ci ∈ rp_infos r → si_shard ci = s → complete ci = false) →
  shard_core <$> d_view d' !! s = shard_core <$> d_view d !! s.
Proof.
  intros Hn HQ. eapply step_inert_core; [exact Hn|]. intros ci Hin Hs Hc. rewrite (HQ ci Hin Hs) in Hc. done.
Qed.

(** * Report times: only the reporting replica's own record is touched (all inputs).
    After a command none of whose entries names replica rid of shard s, the report time of that
    member is what it was before, or 0 if the record was created by this command. *)
Definition tick_rel (s rid : N) (a b : gmap N shard) : Prop :=
  ∀ c1 n1, b !! s = Some c1 → s_reps c1 !! rid = Some n1 →
    r_tick n1 = 0 ∨ ∃ c0 n0, a !! s = Some c0 ∧ s_reps c0 !! rid = Some n0 ∧ r_tick n0 = r_tick n1.

Lemma tick_rel_refl s rid a : tick_rel s rid a a.
Proof. intros c1 n1 Hc Hn. right. by exists c1, n1. Qed.

Lemma tick_rel_trans s rid a b c : tick_rel s rid a b → tick_rel s rid b c → tick_rel s rid a c.
Proof.
  intros Hab Hbc c1 n1 Hc Hn. destruct (Hbc c1 n1 Hc Hn) as [Hz|(cb & nb & Hcb & Hnb & Et)]; [by left|].
  destruct (Hab cb nb Hcb Hnb) as [Hz|(ca & na & Hca & Hna & Et')]; [left; congruence|].
  right. exists ca, na. split; [done|]. split; [done|]. congruence.
Qed.

Lemma touch_replica_tick_rel t view ci s rid :
  ¬ (si_shard ci = s ∧ si_replica ci = rid) → tick_rel s rid view (touch_replica t view ci).
Proof.
  intros HQ c1 n1 Hc Hn. unfold touch_replica in Hc.
  destruct (view !! si_shard ci) as [ec|] eqn:Ev; [|right; by exists c1, n1].
  destruct (s_reps ec !! si_replica ci) as [n|] eqn:En; [|right; by exists c1, n1].
  destruct (decide (si_shard ci = s)) as [Hs|Hne]; [|rewrite lookup_insert_ne in Hc by done; right; by exists c1, n1].
  subst s. rewrite lookup_insert in Hc. injection Hc as <-. cbn [s_reps] in Hn.
  rewrite lookup_insert_ne in Hn by (intros E; apply HQ; done). right. by exists ec, n1.
Qed.

Lemma leader_entry_tick_rel view ci s rid : tick_rel s rid view (leader_entry view ci).
Proof.
  intros c1 n1 Hc Hn. unfold leader_entry in Hc.
  destruct (view !! si_shard ci) as [c|] eqn:Ev; [|right; by exists c1, n1].
  destruct (si_cci ci <? s_cci c); [right; by exists c1, n1|].
  destruct (s_reps c !! si_replica ci) as [n|] eqn:En; [|right; by exists c1, n1].
  destruct (negb (si_leader ci) && r_leader n).
  { destruct (decide (si_shard ci = s)) as [Hs|Hne]; [|rewrite lookup_insert_ne in Hc by done; right; by exists c1, n1].
    subst s. rewrite lookup_insert in Hc. injection Hc as <-. cbn [s_reps] in Hn. right.
    destruct (decide (si_replica ci = rid)) as [Hr|Hner].
    - subst rid. rewrite lookup_insert in Hn. injection Hn as <-. by exists c, n.
    - rewrite lookup_insert_ne in Hn by done. by exists c, n1. }
  destruct (si_leader ci && negb (r_leader n)); [|right; by exists c1, n1].
  destruct (decide (si_shard ci = s)) as [Hs|Hne]; [|rewrite lookup_insert_ne in Hc by done; right; by exists c1, n1].
  subst s. rewrite lookup_insert in Hc. injection Hc as <-. cbn [s_reps] in Hn. right.
  destruct (decide (si_replica ci = rid)) as [Hr|Hner].
  - subst rid. rewrite lookup_insert in Hn. injection Hn as <-. by exists c, n.
  - rewrite lookup_insert_ne, lookup_fmap in Hn by done. destruct (s_reps c !! rid) as [x|] eqn:Ex; [|done].
    injection Hn as <-. by exists c, x.
Qed.

Lemma step_tick_only_reporter P d c d' s rid c1 n1 :
  next P d c = Some d' →
  (∀ r ci, c = CReport r → ci ∈ rp_infos r → ¬ (si_shard ci = s ∧ si_replica ci = rid)) →
  d_view d' !! s = Some c1 → s_reps c1 !! rid = Some n1 →
  r_tick n1 = 0 ∨ ∃ c0 n0, d_view d !! s = Some c0 ∧ s_reps c0 !! rid = Some n0 ∧ r_tick n0 = r_tick n1.
Proof.
  intros Hn HQ Hc1 Hn1. cut (tick_rel s rid (d_view d) (d_view d')); [intros Hrel; exact (Hrel c1 n1 Hc1 Hn1)|].
  clear Hc1 Hn1.
  apply (step_view_rel P (λ ci, ¬ (si_shard ci = s ∧ si_replica ci = rid)) (λ _, tick_rel s rid)) with (c := c); auto.
  - intros _. apply tick_rel_refl.
  - intros _. apply tick_rel_trans.
  - intros t view tk ci view' tk' _ Hu c' n' Hc' Hn'.
    destruct (update_entry_members t view tk ci view' tk' s c' rid n' Hu Hc' Hn') as [(c0 & Hc0 & Hn0)|(_ & _ & Hz)]; [|by left].
    right. by exists c0, n'.
  - intros t view ci Hq. by apply touch_replica_tick_rel.
  - intros t view ci _. apply leader_entry_tick_rel.
  - destruct c; try done. apply list.Forall_forall. intros ci Hin. by apply (HQ r).
Qed.

(* and the reporting replica, if it is a member after the entry loop, is stamped with the tick *)
Lemma touch_replica_hit t view ci c n :
  view !! si_shard ci = Some c → s_reps c !! si_replica ci = Some n →
  ∃ c', touch_replica t view ci !! si_shard ci = Some c' ∧
        s_reps c' !! si_replica ci = Some (mkReplica (r_shard n) (r_id n) (r_addr n) (r_leader n) t (r_first n)).
Proof.
  intros Hc Hn. unfold touch_replica. rewrite Hc, Hn. eexists. rewrite lookup_insert. split; [reflexivity|].
  cbn [s_reps]. by rewrite lookup_insert.
Qed.

(** * The leader pass ignores every entry whose version is below the view's (all inputs):
    running syncLeaderInfo on the report is the same as running it on the report with those entries removed *)
Definition stale_b (view : gmap N shard) (ci : shard_info) : bool :=
  match view !! si_shard ci with Some c => si_cci ci <? s_cci c | None => false end.

Lemma stale_b_ver view ci : stale_b view ci = match ver view (si_shard ci) with Some v => si_cci ci <? v | None => false end.
Proof. unfold stale_b, ver. by destruct (view !! si_shard ci). Qed.

Lemma leader_entry_stale_b view ci : stale_b view ci = true → leader_entry view ci = view.
Proof.
  unfold stale_b. intros Hs. destruct (view !! si_shard ci) as [c|] eqn:Ev; [|done].
  eapply leader_entry_stale; [exact Ev|lia].
Qed.

Lemma stale_b_leader_entry view ci ci' : stale_b (leader_entry view ci) ci' = stale_b view ci'.
Proof. rewrite !stale_b_ver. by rewrite (ver_core (leader_entry view ci) view (si_shard ci')) by apply leader_entry_core. Qed.

Lemma sync_leader_info_drop_stale cis : ∀ view,
  sync_leader_info view cis = sync_leader_info view (filter (λ ci, stale_b view ci = false) cis).
Proof.
  unfold sync_leader_info. induction cis as [|ci cis IH]; intros view; [done|].
  destruct (stale_b view ci) eqn:Es.
  - rewrite filter_cons_False by congruence. cbn [foldl]. rewrite (leader_entry_stale_b view ci Es). apply IH.
  - rewrite filter_cons_True by done. cbn [foldl]. rewrite IH. f_equal.
    apply list_filter_iff. intros ci'. by rewrite stale_b_leader_entry.
Qed.
