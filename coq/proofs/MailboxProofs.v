(** C10: the Requests/Outgoing part of the DB refines the abstract mailbox. *)
From stdpp Require Import gmap list numbers.
From Drummer.Model Require Import DB MailboxSpec.
From Drummer.Proofs Require Import DBProofs.
Local Open Scope N_scope.
Arguments kv_update : simpl never.

Lemma foldl_put_lookup (qs : list request) (l : list N) (m : gmap N (list request)) (a : N) :
  foldl (λ m a, <[a := filter (λ q, q_raft q = a) qs]> m) m l !! a =
  if bool_decide (a ∈ l) then Some (for_addr a qs) else m !! a.
Proof.
  revert m. induction l as [|b l IH]; intros m; cbn [foldl].
  - rewrite bool_decide_eq_false_2; [done|]. apply not_elem_of_nil.
  - rewrite IH. destruct (decide (a ∈ l)) as [Hin|Hnin].
    + rewrite !bool_decide_eq_true_2; [done| |done]. by right.
    + rewrite (bool_decide_eq_false_2 (a ∈ l)) by done.
      destruct (decide (a = b)) as [->|Hne].
      * rewrite lookup_insert. rewrite bool_decide_eq_true_2; [done|]. by left.
      * rewrite lookup_insert_ne by done. rewrite bool_decide_eq_false_2; [done|].
        intros Hc. apply elem_of_cons in Hc as [?|?]; done.
Qed.

Lemma put_requests_lookup m qs a :
  put_requests m qs !! a = if bool_decide (mentions a qs) then Some (for_addr a qs) else m !! a.
Proof.
  unfold put_requests, addrs_in. rewrite foldl_put_lookup.
  destruct (decide (mentions a qs)) as [H|H].
  - rewrite !bool_decide_eq_true_2; [done|done|]. by rewrite elem_of_remove_dups.
  - rewrite (bool_decide_eq_false_2 (mentions a qs)) by done.
    rewrite bool_decide_eq_false_2; [done|]. intros Hc. rewrite elem_of_remove_dups in Hc. exact (H Hc).
Qed.

Definition mb (d : db) (a : N) : mbox := (d_requests d !! a, d_outgoing d !! a).

Lemma on_updated_mb d a : mb (on_updated_shard_info d) a = mb d a.
Proof. unfold on_updated_shard_info. destruct (_ && _); reflexivity. Qed.

Lemma report_result_mb d r view' kill' a :
  mb (report_result d r view' kill') a = mstep a (mb d a) (MReport (rp_addr r)).
Proof.
  unfold report_result. rewrite on_updated_mb. unfold pickup, mb, mstep. cbn.
  destruct (d_requests d !! rp_addr r) as [qs|] eqn:E; cbn.
  - destruct (decide (rp_addr r = a)) as [<-|Hne].
    + rewrite bool_decide_eq_true_2 by done. rewrite lookup_delete, lookup_insert. by rewrite E.
    + rewrite bool_decide_eq_false_2 by done. rewrite lookup_delete_ne, lookup_insert_ne, lookup_delete_ne by done. done.
  - destruct (decide (rp_addr r = a)) as [<-|Hne].
    + rewrite bool_decide_eq_true_2 by done. rewrite lookup_delete. by rewrite E.
    + rewrite bool_decide_eq_false_2 by done. rewrite lookup_delete_ne by done. done.
Qed.

Lemma step_mailbox_ok P d c d' v a :
  db_step P d c = SOk d' v -> mb d' a = mstep a (mb d a) (mev_of d c).
Proof.
  unfold db_step, mev_of. destruct (d_failed d) eqn:Hf; [done|].
  destruct c as [|kv|t sd|r|qs|].
  - unfold apply_tick. destruct (_ && _); [done|]. intros [= <- _]. reflexivity.
  - destruct (kv_update d kv) as [[d1 v1]|] eqn:E; [|done]. intros [= <- _].
    apply kv_update_frame in E. unfold mb. cbn. destruct E as (_ & _ & _ & _ & _ & _ & _ & _ & -> & ->). done.
  - destruct (try_create_shard d t sd) as [[d1 v1]|] eqn:E; [|done]. intros [= <- _].
    apply try_create_shard_spec in E as (_ & _ & _ & [(_ & _ & ->)|[(_ & _ & _ & ->)|(_ & _ & _ & ->)]]); reflexivity.
  - unfold apply_report. destruct (view_update _ _ _ _) as [[view' kill']|]; [|done]. intros [= <- _].
    rewrite report_result_mb. reflexivity.
  - intros H. destruct (requests_cases P d qs) as [[_ E]|[_ [(Hl & Hld & E)|[(Hl & Hnone & E)|(Hnl & E)]]]]; rewrite E in H; try done;
      injection H as <- _.
    + unfold batch_stored. rewrite Hld. rewrite bool_decide_eq_true_2 by exact Hl. reflexivity.
    + assert (batch_stored d qs = true) as ->.
      { unfold batch_stored. unfold is_launched. rewrite bool_decide_eq_false_2; [done|]. rewrite Hnone. by intros [? ?]. }
      unfold mb, launch_result, mstep. cbn. rewrite put_requests_lookup. by destruct (bool_decide (mentions a qs)).
    + assert (batch_stored d qs = true) as ->.
      { unfold batch_stored. rewrite (bool_decide_eq_false_2 _ Hnl). by rewrite andb_false_r. }
      unfold mb, mstep. cbn. rewrite put_requests_lookup. by destruct (bool_decide (mentions a qs)).
  - done.
Qed.

Lemma step_mailbox_panic P d c d' a : db_step P d c = SPanic d' -> mb d' a = mb d a.
Proof.
  unfold db_step. destruct (d_failed d); [by intros [= <-]|].
  destruct c as [|kv|t sd|r|qs|]; try done.
  - unfold apply_tick. destruct (_ && _); [|done]. intros [= <-]. reflexivity.
  - destruct (kv_update d kv) as [[? ?]|]; done.
  - destruct (try_create_shard d t sd) as [[? ?]|]; done.
  - unfold apply_report. destruct (view_update _ _ _ _) as [[? ?]|]; done.
  - destruct (requests_cases P d qs) as [[_ E]|[_ [(_ & _ & E)|[(_ & _ & E)|(_ & E)]]]]; rewrite E; done.
Qed.

(** refinement over whole runs *)
Lemma run_refines P cs d d' a :
  run_from P (Live d) cs = Live d' -> mb d' a = mspec_from a (mb d a) (mevs P d cs).
Proof.
  revert d. induction cs as [|c cs IH]; intros d Hrun.
  - cbn in Hrun. by injection Hrun as ->.
  - rewrite run_from_cons in Hrun. unfold rstep in Hrun. cbn [mevs].
    destruct (db_step P d c) as [d1 v|d1|] eqn:E; cbn [fst] in Hrun.
    + rewrite (IH _ Hrun). unfold mspec_from. cbn [foldl]. by rewrite (step_mailbox_ok _ _ _ _ _ _ E).
    + rewrite (IH _ Hrun). unfold mspec_from. cbn [foldl mstep]. by rewrite (step_mailbox_panic _ _ _ _ _ E).
    + rewrite run_from_dead in Hrun. discriminate.
Qed.

Lemma mevs_app P d cs1 cs2 d1 :
  run_from P (Live d) cs1 = Live d1 -> mevs P d (cs1 ++ cs2) = mevs P d cs1 ++ mevs P d1 cs2.
Proof.
  revert d. induction cs1 as [|c cs1 IH]; intros d Hrun.
  - cbn in Hrun. injection Hrun as ->. reflexivity.
  - rewrite run_from_cons in Hrun. unfold rstep in Hrun. cbn [app mevs].
    destruct (db_step P d c) as [d2 v|d2|] eqn:E; cbn [fst] in Hrun.
    + cbn. f_equal. by apply IH.
    + cbn. f_equal. by apply IH.
    + rewrite run_from_dead in Hrun. discriminate.
Qed.

(** the reply to a report: exactly what was pending for the reporter *)
Lemma reply_is_pending P d r d' v :
  db_step P d (CReport r) = SOk d' v ->
  lookup_requests d' (rp_addr r) = default [] (d_requests d !! rp_addr r) /\
  v = N.of_nat (length (default [] (d_requests d !! rp_addr r))).
Proof.
  intros H. pose proof (step_mailbox_ok P d (CReport r) d' v (rp_addr r) H) as Hm.
  unfold db_step in H. destruct (d_failed d) eqn:Hf; [done|].
  unfold mev_of in Hm. rewrite Hf in Hm. unfold mstep, mb in Hm. rewrite bool_decide_eq_true_2 in Hm by done.
  injection Hm as _ Ho. cbn [fst] in Ho. unfold lookup_requests. rewrite Ho. split; [done|].
  unfold apply_report in H. destruct (view_update _ _ _ _) as [[? ?]|]; [|done]. injection H as _ <-.
  unfold pickup_count, stamp. cbn. by destruct (d_requests d !! rp_addr r).
Qed.

(** declarative characterisation of the spec: "most recent stored batch mentioning a since a's previous report" *)
Lemma mspec_quiet a m evs : Forall (quiet a) evs -> mspec_from a m evs = m.
Proof.
  revert m. induction evs as [|e evs IH]; intros m H; [done|].
  inversion H as [|? ? He H']; subst. unfold mspec_from in *. cbn [foldl]. rewrite <- (IH m H') at 2. f_equal.
  destruct e as [qs|b|]; cbn in *; [by rewrite bool_decide_eq_false_2|by rewrite bool_decide_eq_false_2|done].
Qed.

Lemma mspec_from_app a m e1 e2 : mspec_from a m (e1 ++ e2) = mspec_from a (mspec_from a m e1) e2.
Proof. apply foldl_app. Qed.

Lemma pending_is_latest_batch a m pre qs post :
  mentions a qs -> Forall (quiet a) post ->
  (mspec_from a m (pre ++ MBatch qs :: post)).1 = Some (for_addr a qs).
Proof.
  intros Hm Hq. rewrite mspec_from_app. change (MBatch qs :: post) with ([MBatch qs] ++ post).
  rewrite mspec_from_app, (mspec_quiet _ _ _ Hq). unfold mspec_from. cbn. by rewrite bool_decide_eq_true_2.
Qed.

Lemma pending_none_after_report a m pre post :
  Forall (quiet a) post -> (mspec_from a m (pre ++ MReport a :: post)).1 = None.
Proof.
  intros Hq. rewrite mspec_from_app. change (MReport a :: post) with ([MReport a] ++ post).
  rewrite mspec_from_app, (mspec_quiet _ _ _ Hq). unfold mspec_from. cbn. by rewrite bool_decide_eq_true_2.
Qed.

Lemma pending_none_initially a post : Forall (quiet a) post -> (mspec a post).1 = None.
Proof. intros Hq. unfold mspec. by rewrite (mspec_quiet _ _ _ Hq). Qed.

(* a batch handed over by a report is gone after the next report of the same address *)
Lemma handed_once a m pre post1 post2 :
  Forall (quiet a) post1 -> Forall (quiet a) post2 ->
  (mspec_from a m (pre ++ MReport a :: post1 ++ MReport a :: post2)).2 = None.
Proof.
  intros H1 H2. rewrite mspec_from_app. change (MReport a :: post1 ++ MReport a :: post2) with ([MReport a] ++ post1 ++ [MReport a] ++ post2).
  rewrite !mspec_from_app, (mspec_quiet _ _ _ H2), (mspec_quiet _ _ _ H1). unfold mspec_from. cbn. by rewrite !bool_decide_eq_true_2.
Qed.

(** addressee invariant *)
Definition addressed (d : db) : Prop :=
  (forall a qs, d_requests d !! a = Some qs -> Forall (λ q, q_raft q = a) qs) /\
  (forall a qs, d_outgoing d !! a = Some qs -> Forall (λ q, q_raft q = a) qs).

Lemma mstep_addressed a m e :
  (forall qs, m.1 = Some qs -> Forall (λ q, q_raft q = a) qs) ->
  (forall qs, m.2 = Some qs -> Forall (λ q, q_raft q = a) qs) ->
  (forall qs, (mstep a m e).1 = Some qs -> Forall (λ q, q_raft q = a) qs) /\
  (forall qs, (mstep a m e).2 = Some qs -> Forall (λ q, q_raft q = a) qs).
Proof.
  intros H1 H2. destruct e as [qs0|b|]; cbn.
  - destruct (bool_decide (mentions a qs0)); [|done]. cbn. split; [|done].
    intros qs [= <-]. unfold for_addr. apply list.Forall_forall. intros q Hq. by apply elem_of_list_filter in Hq as [? _].
  - destruct (bool_decide (b = a)); [|done]. cbn. split; [done|exact H1].
  - done.
Qed.

Lemma step_addressed P d c d' : next P d c = Some d' -> addressed d -> addressed d'.
Proof.
  unfold next. intros Hn [H1 H2].
  assert (forall a, mb d' a = mstep a (mb d a) (mev_of d c) \/ mb d' a = mb d a) as Hmb.
  { intros a. destruct (db_step P d c) as [d1 v|d1|] eqn:E; [|right|done]; injection Hn as <-.
    - left. eapply step_mailbox_ok; eauto.
    - eapply step_mailbox_panic; eauto. }
  split; intros a qs Hl.
  - destruct (Hmb a) as [E|E].
    + pose proof (mstep_addressed a (mb d a) (mev_of d c) (H1 a) (H2 a)) as [G _]. apply G. rewrite <- E. exact Hl.
    + apply (H1 a). unfold mb in E. injection E as E _. by rewrite <- E.
  - destruct (Hmb a) as [E|E].
    + pose proof (mstep_addressed a (mb d a) (mev_of d c) (H1 a) (H2 a)) as [_ G]. apply G. rewrite <- E. exact Hl.
    + apply (H2 a). unfold mb in E. injection E as _ E. by rewrite <- E.
Qed.

Lemma addressed_init : addressed db_init.
Proof. split; intros a qs H; cbn in H; by rewrite lookup_empty in H. Qed.

Lemma run_addressed P cs d : run P cs = Live d -> addressed d.
Proof.
  unfold run. intros Hrun.
  pose proof (run_live_ind P (λ a b, addressed a -> addressed b)) as Hind.
  eapply Hind; [| | |exact Hrun|exact addressed_init].
  - auto.
  - auto.
  - intros a c b Hs. exact (step_addressed P a c b Hs).
Qed.

Lemma reply_addressee P cs d a q : run P cs = Live d -> q ∈ lookup_requests d a -> q_raft q = a.
Proof.
  intros Hrun Hq. apply run_addressed in Hrun as [_ H2]. unfold lookup_requests in Hq.
  destruct (d_outgoing d !! a) as [qs|] eqn:E; cbn in Hq; [|by apply elem_of_nil in Hq].
  specialize (H2 a qs E). rewrite list.Forall_forall in H2. by apply H2.
Qed.

(** * History-level statements from the initial state *)
Lemma run_mb P cs d a : run P cs = Live d -> mb d a = mspec a (mevs P db_init cs).
Proof. intros H. unfold run in H. rewrite (run_refines P cs db_init d a H). reflexivity. Qed.

(* the reply to a report of [a] after the history [cs] *)
Lemma reply_latest_batch P cs d r d' v pre qs post :
  run P cs = Live d -> mevs P db_init cs = pre ++ MBatch qs :: post ->
  mentions (rp_addr r) qs -> Forall (quiet (rp_addr r)) post ->
  db_step P d (CReport r) = SOk d' v ->
  lookup_requests d' (rp_addr r) = for_addr (rp_addr r) qs /\ v = N.of_nat (length (for_addr (rp_addr r) qs)).
Proof.
  intros Hrun Hev Hm Hq Hstep.
  pose proof (run_mb P cs d (rp_addr r) Hrun) as Hmb. rewrite Hev in Hmb.
  assert (d_requests d !! rp_addr r = Some (for_addr (rp_addr r) qs)) as Hp.
  { apply (f_equal fst) in Hmb. cbn [mb fst] in Hmb. rewrite Hmb. unfold mspec. by apply pending_is_latest_batch. }
  apply reply_is_pending in Hstep as [H1 H2]. rewrite Hp in H1, H2. done.
Qed.

Lemma reply_empty_after_report P cs d r d' v pre post :
  run P cs = Live d -> mevs P db_init cs = pre ++ MReport (rp_addr r) :: post ->
  Forall (quiet (rp_addr r)) post ->
  db_step P d (CReport r) = SOk d' v ->
  lookup_requests d' (rp_addr r) = [] /\ v = 0.
Proof.
  intros Hrun Hev Hq Hstep.
  pose proof (run_mb P cs d (rp_addr r) Hrun) as Hmb. rewrite Hev in Hmb.
  assert (d_requests d !! rp_addr r = None) as Hp.
  { apply (f_equal fst) in Hmb. cbn [mb fst] in Hmb. rewrite Hmb. unfold mspec. by apply pending_none_after_report. }
  apply reply_is_pending in Hstep as [H1 H2]. rewrite Hp in H1, H2. done.
Qed.

Lemma reply_empty_initially P cs d r d' v :
  run P cs = Live d -> Forall (quiet (rp_addr r)) (mevs P db_init cs) ->
  db_step P d (CReport r) = SOk d' v ->
  lookup_requests d' (rp_addr r) = [] /\ v = 0.
Proof.
  intros Hrun Hq Hstep.
  pose proof (run_mb P cs d (rp_addr r) Hrun) as Hmb.
  assert (d_requests d !! rp_addr r = None) as Hp.
  { apply (f_equal fst) in Hmb. cbn [mb fst] in Hmb. rewrite Hmb. by apply pending_none_initially. }
  apply reply_is_pending in Hstep as [H1 H2]. rewrite Hp in H1, H2. done.
Qed.

(* the answer to a REQUESTS lookup (re-read after a lost reply): what the last report of [a] handed over,
   as long as [a] has not reported again; batches stored meanwhile do not show *)
Lemma lookup_is_handed P cs d a : run P cs = Live d -> lookup_requests d a = default [] (mspec a (mevs P db_init cs)).2.
Proof. intros H. pose proof (run_mb P cs d a H) as Hmb. apply (f_equal snd) in Hmb. cbn [mb snd] in Hmb. unfold lookup_requests. by rewrite Hmb. Qed.

Lemma handed_stable a m evs : Forall (λ e, e <> MReport a) evs -> (mspec_from a m evs).2 = m.2.
Proof.
  revert m. induction evs as [|e evs IH]; intros m H; [done|].
  inversion H as [|? ? He H']; subst. unfold mspec_from in *. cbn [foldl]. rewrite (IH _ H').
  destruct e as [qs|b|]; cbn; [by destruct (bool_decide _)| |done].
  destruct (decide (b = a)) as [->|Hne]; [done|]. by rewrite bool_decide_eq_false_2.
Qed.
