(** The record Tick of a KV write is inert data for acceptance: neither the Tick presented by the
    writer nor the Ticks stored in the replica influence the result code of a KV command
    (added after seed C13-r5-m1, a take-over rule keyed on the distance between the two). *)
From stdpp Require Import gmap.
From Drummer.Model Require Import DB.
Local Open Scope N_scope.

Definition with_tick (kv : kvrec) (t : N) : kvrec :=
  mkKVR (kv_key kv) (kv_val kv) (kv_inst kv) t (kv_old kv) (kv_fin kv).
Definition res_code (r : sres) : option (option N) :=     (* Some (Some v) = code v, Some None = refused by a failed replica, None = fail-stop *)
  match r with SOk _ v => Some (Some v) | SPanic _ => Some None | SDead => None end.
(* [d2] is [d1] with every stored KV record's Tick replaced (by any function of the record) *)
Definition reticked (g : kvrec -> N) (d1 d2 : db) : Prop :=
  d_failed d2 = d_failed d1 /\ d_kv d2 = (λ r, with_tick r (g r)) <$> d_kv d1.

Lemma kv_code_ignores_ticks P g d1 d2 kv t :
  reticked g d1 d2 ->
  res_code (db_step P d2 (CKV (with_tick kv t))) = res_code (db_step P d1 (CKV kv)).
Proof.
  intros [Hf Hk]. unfold db_step. rewrite Hf. destruct (d_failed d1); [reflexivity|].
  unfold kv_update. cbn [kv_key kv_val kv_inst kv_old kv_fin with_tick].
  destruct ((kv_key kv =? 0) || (kv_val kv =? 0)); [reflexivity|].
  rewrite Hk, lookup_fmap. destruct (d_kv d1 !! kv_key kv) as [old|]; cbn; [|reflexivity].
  destruct (kv_fin old); [reflexivity|].
  destruct ((kv_inst old =? kv_inst kv) || (kv_inst old =? kv_old kv)); reflexivity.
Qed.

(* the stored record after an accepted write is exactly the presented one, Tick included *)
Lemma kv_accepted_stores_presented P d kv d' :
  db_step P d (CKV kv) = SOk d' 0 -> d_kv d' !! kv_key kv = Some kv.
Proof.
  unfold db_step. destruct (d_failed d); [discriminate|].
  unfold kv_update. destruct ((kv_key kv =? 0) || (kv_val kv =? 0)); [discriminate|].
  destruct (d_kv d !! kv_key kv) as [old|] eqn:E.
  - destruct (kv_fin old); [intros H; inversion H|].
    destruct ((kv_inst old =? kv_inst kv) || (kv_inst old =? kv_old kv)); intros H; inversion H; subst.
    cbn. apply lookup_insert.
  - intros H; inversion H; subst. cbn. apply lookup_insert.
Qed.
