(** Proofs about the model of the three test state machines (C15): sorted association lists, the UTF-8 coercion,
    the refinement of every machine to "replay of the update history on a fresh machine", and the replica system. *)
From Drummer.Model Require Import Base KVCodec KVSM.
From Coq Require Import ZifyN ZifyNat ZifyBool.

(** * Byte-string order *)
Lemma bcmp_refl a : bcmp a a = Eq.
Proof. induction a as [|x a IH]; cbn [bcmp]; [reflexivity|]. rewrite N.compare_refl. exact IH. Qed.

Lemma bcmp_eq a : forall b, bcmp a b = Eq -> a = b.
Proof.
  induction a as [|x a IH]; intros [|y b] H; cbn [bcmp] in H; try discriminate; [reflexivity|].
  destruct (N.compare x y) eqn:E; try discriminate.
  apply N.compare_eq in E. subst y. f_equal. apply IH. exact H.
Qed.

Lemma bcmp_antisym a : forall b, bcmp b a = CompOpp (bcmp a b).
Proof.
  induction a as [|x a IH]; intros [|y b]; cbn [bcmp]; try reflexivity.
  rewrite (N.compare_antisym x y). destruct (N.compare x y); cbn [CompOpp]; [apply IH|reflexivity|reflexivity].
Qed.

Lemma bcmp_gt_lt a b : bcmp a b = Gt -> bcmp b a = Lt.
Proof. intros H. rewrite bcmp_antisym, H. reflexivity. Qed.

Lemma bcmp_lt_gt a b : bcmp a b = Lt -> bcmp b a = Gt.
Proof. intros H. rewrite bcmp_antisym, H. reflexivity. Qed.

Lemma bcmp_trans a : forall b c, bcmp a b = Lt -> bcmp b c = Lt -> bcmp a c = Lt.
Proof.
  induction a as [|x a IH]; intros [|y b] [|z c] H1 H2; cbn [bcmp] in *; try discriminate; try reflexivity.
  destruct (N.compare_spec x y) as [E1|E1|E1]; try discriminate;
    destruct (N.compare_spec y z) as [E2|E2|E2]; try discriminate.
  - subst y z. rewrite N.compare_refl. eapply IH; eassumption.
  - subst y. replace (x ?= z) with Lt by (symmetry; apply N.compare_lt_iff; exact E2). reflexivity.
  - subst z. replace (x ?= y) with Lt by (symmetry; apply N.compare_lt_iff; exact E1). reflexivity.
  - replace (x ?= z) with Lt by (symmetry; apply N.compare_lt_iff; lia). reflexivity.
Qed.

Lemma beqb_refl a : beqb a a = true.
Proof. unfold beqb. rewrite bcmp_refl. reflexivity. Qed.

Lemma beqb_true a b : beqb a b = true -> a = b.
Proof. unfold beqb. destruct (bcmp a b) eqn:E; try discriminate. intros _. apply bcmp_eq. exact E. Qed.

Lemma beqb_false a b : a <> b -> beqb a b = false.
Proof. intros H. destruct (beqb a b) eqn:E; [|reflexivity]. apply beqb_true in E. contradiction. Qed.

Lemma beqb_lt a b : bcmp a b = Lt -> beqb a b = false.
Proof. unfold beqb. intros ->. reflexivity. Qed.

Lemma beqb_gt a b : bcmp a b = Gt -> beqb a b = false.
Proof. unfold beqb. intros ->. reflexivity. Qed.

Lemma beqb_sym a b : beqb a b = beqb b a.
Proof. unfold beqb. rewrite (bcmp_antisym a b). destruct (bcmp a b); reflexivity. Qed.

(** * Sorted association lists *)
Definition klt (k : bytes) (m : amap) : Prop :=
  match m with [] => True | (k', _) :: _ => bcmp k k' = Lt end.
Fixpoint sorted (m : amap) : Prop :=
  match m with [] => True | (k, _) :: m' => klt k m' /\ sorted m' end.

Lemma find_put k k' v m : find k (put k' v m) = if beqb k k' then Some v else find k m.
Proof.
  induction m as [|[k2 v2] m IH]; cbn [put find].
  - reflexivity.
  - destruct (bcmp k' k2) eqn:E; cbn [find].
    + apply bcmp_eq in E. subst k2. destruct (beqb k k'); reflexivity.
    + reflexivity.
    + rewrite IH. destruct (beqb k k2) eqn:E2; [|reflexivity].
      apply beqb_true in E2. subst k2. rewrite beqb_sym, (beqb_gt k' k E). reflexivity.
Qed.

Lemma klt_trans k k' v m : bcmp k k' = Lt -> klt k' m -> klt k ((k', v) :: m).
Proof. intros H _. exact H. Qed.

Lemma klt_weaken k k' m : bcmp k k' = Lt -> klt k' m -> klt k m.
Proof. destruct m as [|[k2 v2] m]; cbn [klt]; [trivial|]. intros H1 H2. eapply bcmp_trans; eassumption. Qed.

Lemma find_klt_none k m : sorted m -> klt k m -> find k m = None.
Proof.
  induction m as [|[k2 v2] m IH]; cbn [sorted klt find]; [reflexivity|].
  intros [H1 H2] H3. rewrite (beqb_lt _ _ H3). apply IH; [exact H2|]. eapply klt_weaken; eassumption.
Qed.

Lemma klt_put k0 k v m : klt k0 m -> bcmp k0 k = Lt -> klt k0 (put k v m).
Proof.
  destruct m as [|[k2 v2] m]; cbn [put klt]; [intros _ H; exact H|].
  intros H1 H2. destruct (bcmp k k2); cbn [klt]; assumption.
Qed.

Lemma sorted_put k v m : sorted m -> sorted (put k v m).
Proof.
  induction m as [|[k2 v2] m IH]; cbn [put sorted].
  - intros _. split; exact I.
  - intros [H1 H2]. destruct (bcmp k k2) eqn:E; cbn [sorted].
    + apply bcmp_eq in E. subst k2. split; assumption.
    + split; [exact E|]. split; assumption.
    + split; [|apply IH; exact H2]. apply klt_put; [exact H1|]. apply bcmp_gt_lt. exact E.
Qed.

Lemma amap_ext m1 : forall m2, sorted m1 -> sorted m2 -> (forall k, find k m1 = find k m2) -> m1 = m2.
Proof.
  induction m1 as [|[k1 v1] m1 IH]; intros [|[k2 v2] m2] S1 S2 H.
  - reflexivity.
  - specialize (H k2). cbn [find] in H. rewrite beqb_refl in H. discriminate.
  - specialize (H k1). cbn [find] in H. rewrite beqb_refl in H. discriminate.
  - cbn [sorted] in S1, S2. destruct S1 as [L1 S1]. destruct S2 as [L2 S2].
    destruct (bcmp k1 k2) eqn:E.
    + apply bcmp_eq in E. subst k2.
      pose proof (H k1) as Hk. cbn [find] in Hk. rewrite beqb_refl in Hk. inversion Hk; subst v2.
      f_equal. apply IH; [exact S1|exact S2|]. intros k.
      destruct (beqb k k1) eqn:Ek.
      * apply beqb_true in Ek. subst k. rewrite (find_klt_none _ _ S1 L1), (find_klt_none _ _ S2 L2). reflexivity.
      * specialize (H k). cbn [find] in H. rewrite Ek in H. exact H.
    + exfalso. specialize (H k1). cbn [find] in H. rewrite beqb_refl, (beqb_lt _ _ E) in H.
      rewrite (find_klt_none k1 m2 S2) in H; [discriminate|]. eapply klt_weaken; eassumption.
    + exfalso. apply bcmp_gt_lt in E. specialize (H k2). cbn [find] in H. rewrite beqb_refl, (beqb_lt _ _ E) in H.
      rewrite (find_klt_none k2 m1 S1) in H; [discriminate|]. eapply klt_weaken; eassumption.
Qed.

(** rebuilding a sorted listing gives the listing *)
Definition putf (acc : amap) (kv : bytes * bytes) : amap := put (fst kv) (snd kv) acc.

Lemma sorted_app_l a : forall b, sorted (a ++ b) -> sorted a.
Proof.
  induction a as [|[k v] a IH]; intros b H; cbn [app sorted] in *; [exact I|].
  destruct H as [H1 H2]. split; [|eapply IH; exact H2].
  destruct a as [|[k2 v2] a]; cbn [app klt] in *; [exact I|exact H1].
Qed.

Lemma sorted_head_lt k v l : sorted ((k, v) :: l) -> forall k' v', In (k', v') l -> bcmp k k' = Lt.
Proof.
  revert k v. induction l as [|[k2 v2] l IH]; intros k v H k' v' HI; [destruct HI|].
  cbn [sorted klt] in H. destruct H as [H1 [H2 H3]].
  destruct HI as [HI|HI].
  - inversion HI; subst. exact H1.
  - eapply bcmp_trans; [exact H1|]. eapply (IH k2 v2); [|exact HI]. cbn [sorted]. split; assumption.
Qed.

Lemma put_snoc k v acc : sorted (acc ++ [(k, v)]) -> put k v acc = acc ++ [(k, v)].
Proof.
  induction acc as [|[k2 v2] acc IH]; intros H; cbn [put app]; [reflexivity|].
  cbn [app] in H.
  assert (E : bcmp k2 k = Lt).
  { eapply sorted_head_lt; [exact H|]. apply in_or_app. right. left. reflexivity. }
  rewrite (bcmp_lt_gt _ _ E). f_equal. apply IH. cbn [sorted] in H. exact (proj2 H).
Qed.

Lemma fold_putf_sorted l : forall acc, sorted (acc ++ l) -> fold_left putf l acc = acc ++ l.
Proof.
  induction l as [|[k v] l IH]; intros acc H; cbn [fold_left].
  - now rewrite app_nil_r.
  - unfold putf at 2. cbn [fst snd].
    assert (H' : sorted ((acc ++ [(k, v)]) ++ l)) by (rewrite <- app_assoc; exact H).
    rewrite put_snoc by (eapply sorted_app_l; exact H').
    rewrite IH by exact H'. now rewrite <- app_assoc.
Qed.

Lemma of_list_sorted m : sorted m -> of_list m = m.
Proof. intros H. unfold of_list. change (fold_left putf m [] = m). rewrite fold_putf_sorted; [reflexivity|exact H]. Qed.
(** * UTF-8 coercion *)
Lemma valid_jtext_aux s : forall n, valid_aux n s = true -> jtext_aux n s = map Some s.
Proof.
  induction s as [|b r IH]; intros n H; cbn [jtext_aux valid_aux map] in *; [reflexivity|].
  destruct n as [|n].
  - destruct (b <? 128).
    + f_equal. apply IH. exact H.
    + destruct (seq_ok b r) as [|m]; [discriminate|]. f_equal. apply IH. exact H.
  - f_equal. apply IH. exact H.
Qed.

Lemma junescape_some s : junescape (map Some s) = s.
Proof. unfold junescape. induction s as [|b r IH]; cbn [map flat_map app]; [reflexivity|]. now rewrite IH. Qed.

Lemma valid_jtext s : utf8_valid s = true -> jtext s = map Some s.
Proof. apply valid_jtext_aux. Qed.

Lemma valid_coerce s : utf8_valid s = true -> coerce s = s.
Proof. intros H. unfold coerce. rewrite (valid_jtext _ H). apply junescape_some. Qed.

Lemma coerce_aux_len s : forall n,
  (length s <= length (coerce_aux n s))%nat /\
  (valid_aux n s = false -> (length s < length (coerce_aux n s))%nat).
Proof.
  unfold coerce_aux, junescape.
  induction s as [|b r IH]; intros n; cbn [jtext_aux valid_aux length flat_map].
  - split; [lia|discriminate].
  - destruct n as [|n].
    + destruct (b <? 128).
      * destruct (IH O) as [H1 H2]. cbn [flat_map app length]. split; [lia|]. intros H. specialize (H2 H). lia.
      * destruct (seq_ok b r) as [|m].
        -- destruct (IH O) as [H1 _]. cbn [flat_map app length]. split; [lia|]. intros _. lia.
        -- destruct (IH (S m)) as [H1 H2]. cbn [flat_map app length]. split; [lia|]. intros H. specialize (H2 H). lia.
    + destruct (IH n) as [H1 H2]. cbn [flat_map app length]. split; [lia|]. intros H. specialize (H2 H). lia.
Qed.

(* the carve-out is exact: coercion is the identity precisely on valid UTF-8 *)
Lemma coerce_id_iff s : coerce s = s <-> utf8_valid s = true.
Proof.
  split; [|apply valid_coerce].
  intros H. destruct (utf8_valid s) eqn:E; [reflexivity|].
  destruct (coerce_aux_len s O) as [_ H2]. specialize (H2 E).
  change (coerce_aux 0 s) with (coerce s) in H2. rewrite H in H2. lia.
Qed.

Definition all_valid (m : amap) : Prop :=
  Forall (fun kv => utf8_valid (fst kv) = true /\ utf8_valid (snd kv) = true) m.

Lemma jpairs_valid m : all_valid m -> junpairs (jpairs m) = m.
Proof.
  unfold jpairs, junpairs. induction 1 as [|[k v] m [H1 H2] _ IH]; cbn [map]; [reflexivity|].
  cbn [fst snd] in *. rewrite (valid_jtext _ H1), (valid_jtext _ H2), !junescape_some, IH. reflexivity.
Qed.

Lemma all_valid_put k v m : utf8_valid k = true -> utf8_valid v = true -> all_valid m -> all_valid (put k v m).
Proof.
  intros Hk Hv. unfold all_valid. induction 1 as [|[k2 v2] m H2 Hm IH]; cbn [put].
  - constructor; [split; assumption|constructor].
  - destruct (bcmp k k2).
    + constructor; [split; assumption|exact Hm].
    + constructor; [split; assumption|]. constructor; assumption.
    + constructor; [exact H2|exact IH].
Qed.

(** * apply_ents *)
Lemma apply_ents_app sm a : forall b m,
  apply_ents sm (a ++ b) m = match apply_ents sm a m with Some m' => apply_ents sm b m' | None => None end.
Proof.
  induction a as [|[i cmd] a IH]; intros b m; cbn [app apply_ents]; [reflexivity|].
  destruct (decode_cmd sm cmd) as [[k v]|]; [apply IH|reflexivity].
Qed.

Lemma apply_ents_sorted sm ents : forall m m', sorted m -> apply_ents sm ents m = Some m' -> sorted m'.
Proof.
  induction ents as [|[i cmd] ents IH]; intros m m' S H; cbn [apply_ents] in H.
  - inversion H; subst; exact S.
  - destruct (decode_cmd sm cmd) as [[k v]|]; [|discriminate].
    eapply IH; [|exact H]. apply sorted_put. exact S.
Qed.

Lemma apply_ents_indep sm ents : forall m1 m2 m1', apply_ents sm ents m1 = Some m1' -> exists m2', apply_ents sm ents m2 = Some m2'.
Proof.
  induction ents as [|[i cmd] ents IH]; intros m1 m2 m1' H; cbn [apply_ents] in *.
  - eexists; reflexivity.
  - destruct (decode_cmd sm cmd) as [[k v]|]; [|discriminate]. eapply IH. exact H.
Qed.

Lemma find_apply_ents sm k ents : forall m m', apply_ents sm ents m = Some m' ->
  find k m' = fold_left (lw_step sm k) ents (find k m).
Proof.
  induction ents as [|[i cmd] ents IH]; intros m m' H; cbn [apply_ents fold_left] in *.
  - inversion H; subst; reflexivity.
  - unfold lw_step at 2. cbn [snd]. destruct (decode_cmd sm cmd) as [[k' v]|]; [|discriminate].
    rewrite (IH _ _ H), find_put. reflexivity.
Qed.

Lemma apply_ents_valid sm ents : forall m m',
  Forall (fun e => entry_utf8 sm e = true) ents -> all_valid m -> apply_ents sm ents m = Some m' -> all_valid m'.
Proof.
  induction ents as [|[i cmd] ents IH]; intros m m' HF HV H; cbn [apply_ents] in H.
  - inversion H; subst; exact HV.
  - inversion HF as [|e l He Hl]; subst. unfold entry_utf8 in He. cbn [snd] in He.
    destruct (decode_cmd sm cmd) as [[k v]|]; [|discriminate].
    apply andb_prop in He. destruct He as [Hk Hv].
    eapply IH; [exact Hl| |exact H]. apply all_valid_put; assumption.
Qed.

(** * little endian *)
Lemma le_bytes_len n : forall x, length (le_bytes n x) = n.
Proof. induction n as [|n IH]; intros x; cbn [le_bytes length]; [reflexivity|]. now rewrite IH. Qed.

Lemma of_le_le_bytes n : forall x, of_le (le_bytes n x) = x mod (256 ^ N.of_nat n).
Proof.
  induction n as [|n IH]; intros x; cbn [le_bytes of_le].
  - change (256 ^ N.of_nat 0) with 1. now rewrite N.mod_1_r.
  - rewrite IH. replace (N.of_nat (S n)) with (N.succ (N.of_nat n)) by lia.
    rewrite N.pow_succ_r'. rewrite N.mod_mul_r; [reflexivity|lia|].
    apply N.pow_nonzero. lia.
Qed.

Lemma le64_roundtrip x : x < w64 -> of_le (firstn 8 (le64 x)) = x.
Proof.
  intros H. unfold le64. rewrite firstn_all2 by (rewrite le_bytes_len; lia).
  rewrite of_le_le_bytes. change (256 ^ N.of_nat 8) with w64. apply N.mod_small. exact H.
Qed.

Lemma le64_nlen x : nlen (le64 x) = 8.
Proof. unfold nlen, le64. rewrite le_bytes_len. reflexivity. Qed.

Lemma last_app_cons {A} (h : list A) e l d : last (h ++ e :: l) d = last (e :: l) d.
Proof.
  induction h as [|x h IH]; [reflexivity|].
  change ((x :: h) ++ e :: l) with (x :: (h ++ e :: l)).
  destruct (h ++ e :: l) eqn:E; [destruct h; discriminate|]. cbn [last] in *. exact IH.
Qed.

Lemma last_index_app h e ents : last_index (h ++ e :: ents) = last_index (e :: ents).
Proof. unfold last_index. now rewrite last_app_cons. Qed.
(** * What a machine has to satisfy: refinement of "replay the update history on a fresh machine" *)
Record refines (M : machine) (sm : N) (eok : entry -> Prop) (kok : bytes -> Prop) : Prop := {
  rf_fuse : forall h s ents s',
      replay M h = Some s -> m_update M s ents = Some s' -> replay M (h ++ ents) = Some s';
  rf_sync : forall s s', m_sync M s = Some s' -> s' = s;
  rf_snap : forall h s cur t s',
      replay M h = Some s -> Forall eok h -> m_recover M t (m_save M cur (m_prepare M s)) = Some s' -> s' = s;
  rf_reopen : forall h s s' i,
      replay M h = Some s -> m_reopen M s = Some (s', i) -> s' = s /\ i = last_index h;
  rf_lookup : forall h s k,
      replay M h = Some s -> kok k -> m_lookup M s k = last_written sm h k
}.

(** ** the JSON machines *)
Definition eok_json (sm : N) (e : entry) : Prop := entry_utf8 sm e = true.

Lemma j_replay_eq c sm h :
  replay (json_machine c sm) h =
  match apply_ents sm h [] with
  | Some m => Some (mkJ m (if j_counts c then nlen h else 0) junk0)
  | None => None
  end.
Proof.
  destruct h as [|e h].
  - cbn [replay apply_ents json_machine m_init]. unfold j_init. destruct (j_counts c); reflexivity.
  - cbn [replay json_machine m_update m_init]. unfold j_update, j_init. cbn [js_store js_count js_junk].
    destruct (apply_ents sm (e :: h) []); [|reflexivity]. destruct (j_counts c); [|reflexivity].
    rewrite N.add_0_l. reflexivity.
Qed.

Lemma json_refines c sm : refines (json_machine c sm) sm (eok_json sm) (fun _ => True).
Proof.
  constructor.
  - intros h s ents s' H1 H2. rewrite j_replay_eq in *. rewrite apply_ents_app.
    destruct (apply_ents sm h []) as [m|]; [|discriminate]. inversion H1; subst s. clear H1.
    cbn [json_machine m_update] in H2. unfold j_update in H2. cbn [js_store js_count js_junk] in H2.
    destruct (apply_ents sm ents m) as [m'|]; [|discriminate]. inversion H2; subst s'.
    destruct (j_counts c); [|reflexivity]. unfold nlen. rewrite app_length. replace (N.of_nat (length h + length ents)) with (N.of_nat (length h) + N.of_nat (length ents)) by lia. reflexivity.
  - intros s s' H. cbn [json_machine m_sync] in H. discriminate.
  - intros h s cur t s' H1 HF H2. rewrite j_replay_eq in H1.
    destruct (apply_ents sm h []) as [m|] eqn:E; [|discriminate]. inversion H1; subst s. clear H1.
    cbn [json_machine m_recover m_save m_prepare] in H2. unfold j_recover, j_save, j_prepare_st, j_doc in H2.
    cbn [jd_pairs jd_count jd_junk js_store js_count js_junk] in H2. inversion H2; subst s'.
    assert (HV : all_valid m). { eapply apply_ents_valid; [exact HF| |exact E]. constructor. }
    assert (HS : sorted m). { eapply apply_ents_sorted; [|exact E]. exact I. }
    rewrite (jpairs_valid _ HV), (of_list_sorted _ HS). reflexivity.
  - intros h s s' i _ H. cbn [json_machine m_reopen] in H. discriminate.
  - intros h s k H _. rewrite j_replay_eq in H.
    destruct (apply_ents sm h []) as [m|] eqn:E; [|discriminate]. inversion H; subst s.
    cbn [json_machine m_lookup]. unfold j_lookup, last_written. cbn [js_store].
    rewrite (find_apply_ents sm k h [] m E). reflexivity.
Qed.

(** ** DiskKVTest *)
Lemma d_update_cons sm s e l :
  d_update sm s (e :: l) =
  let li := last_index (e :: l) in
  if w64 <=? li then None else
  match apply_ents sm (e :: l) (dk_space s) with
  | None => None
  | Some m => if li <=? dk_last s then None else Some (mkDk (put idx_key (le64 li) m) li)
  end.
Proof. reflexivity. Qed.

(* shape of every replayed DiskKV state *)
Definition d_shape (sm : N) (h : list entry) (s : dst) : Prop :=
  match h with
  | [] => s = d_init
  | _ => exists m, apply_ents sm h [] = Some m /\ s = mkDk (put idx_key (le64 (last_index h)) m) (last_index h)
                   /\ 0 < last_index h < w64
  end.

Lemma d_replay_shape sm h s : replay (disk_m sm) h = Some s <-> d_shape sm h s.
Proof.
  destruct h as [|e l]; cbn [replay disk_m m_init m_update d_shape].
  - split; intros H; [now inversion H|now subst].
  - rewrite d_update_cons. cbv zeta. cbn [d_init dk_space dk_last].
    destruct (w64 <=? last_index (e :: l)) eqn:E1.
    + split; [discriminate|]. intros (m & _ & _ & H). lia.
    + destruct (apply_ents sm (e :: l) []) as [m|].
      * destruct (last_index (e :: l) <=? 0) eqn:E2.
        -- split; [discriminate|]. intros (m' & _ & _ & H). lia.
        -- split.
           ++ intros H. inversion H. exists m. repeat split; lia.
           ++ intros (m' & Hm & Hs & _). inversion Hm; subst. reflexivity.
      * split; [discriminate|]. intros (m' & Hm & _). discriminate.
Qed.

Lemma d_shape_facts sm h s : d_shape sm h s ->
  sorted (dk_space s) /\ d_query (dk_space s) = Some (dk_last s) /\ dk_last s = last_index h /\ dk_last s < w64.
Proof.
  destruct h as [|e l]; cbn [d_shape].
  - intros ->. cbn [d_init dk_space dk_last sorted last_index last fst]. repeat split; reflexivity.
  - intros (m & Hm & -> & Hr). cbn [dk_space dk_last].
    assert (HS : sorted m). { eapply apply_ents_sorted; [|exact Hm]. exact I. }
    split; [apply sorted_put; exact HS|]. split; [|split; [reflexivity|lia]].
    unfold d_query. rewrite find_put, beqb_refl, le64_nlen. cbn [N.eqb N.ltb N.compare Pos.compare Pos.compare_cont].
    rewrite le64_roundtrip by lia. reflexivity.
Qed.

Lemma put_shadow sm k x y ents : forall m m' m'',
  sorted m -> apply_ents sm ents (put k x m) = Some m' -> apply_ents sm ents m = Some m'' ->
  put k y m' = put k y m''.
Proof.
  intros m m' m'' S H1 H2.
  apply amap_ext.
  - apply sorted_put. eapply apply_ents_sorted; [|exact H1]. apply sorted_put. exact S.
  - apply sorted_put. eapply apply_ents_sorted; [|exact H2]. exact S.
  - intros k'. rewrite !find_put. destruct (beqb k' k) eqn:E; [reflexivity|].
    rewrite (find_apply_ents sm k' ents _ _ H1), (find_apply_ents sm k' ents _ _ H2), find_put, E. reflexivity.
Qed.

Lemma disk_refines sm : refines (disk_m sm) sm (fun _ => True) (fun k => k <> idx_key).
Proof.
  constructor.
  - intros h s ents s' H1 H2. apply d_replay_shape in H1. apply d_replay_shape.
    cbn [disk_m m_update] in H2. destruct ents as [|e l]; [discriminate|].
    rewrite d_update_cons in H2. cbv zeta in H2.
    destruct (w64 <=? last_index (e :: l)) eqn:E1; [discriminate|].
    destruct (apply_ents sm (e :: l) (dk_space s)) as [m'|] eqn:E2; [|discriminate].
    destruct (last_index (e :: l) <=? dk_last s) eqn:E3; [discriminate|]. inversion H2; subst s'. clear H2.
    destruct (d_shape_facts _ _ _ H1) as (_ & _ & HL & _).
    assert (HN : h ++ e :: l <> []) by (destruct h; discriminate).
    unfold d_shape. destruct (h ++ e :: l) as [|e0 l0] eqn:EH; [contradiction|]. rewrite <- EH. clear EH HN e0 l0.
    rewrite last_index_app, apply_ents_app.
    destruct h as [|e1 h1].
    + cbn [d_shape] in H1. subst s. cbn [apply_ents]. cbn [d_init dk_space] in E2.
      exists m'. split; [exact E2|]. split; [reflexivity|lia].
    + cbn [d_shape] in H1. destruct H1 as (m & Hm & -> & Hr). rewrite Hm. cbn [dk_space dk_last] in *.
      destruct (apply_ents_indep sm (e :: l) _ m _ E2) as [m'' Hm''].
      exists m''. split; [exact Hm''|]. split; [|lia].
      f_equal. eapply put_shadow; [|exact E2|exact Hm'']. eapply apply_ents_sorted; [|exact Hm]. exact I.
  - intros s s' H. cbn [disk_m m_sync] in H. unfold d_sync in H. now inversion H.
  - intros h s cur t s' H1 _ H2. apply d_replay_shape in H1.
    destruct (d_shape_facts _ _ _ H1) as (HS & HQ & _ & _).
    cbn [disk_m m_recover m_save m_prepare] in H2. unfold d_recover, d_save, d_prepare in H2. cbv zeta in H2.
    rewrite (of_list_sorted _ HS), HQ in H2. destruct (dk_last s <? dk_last t); [discriminate|].
    inversion H2. destruct s; reflexivity.
  - intros h s s' i H1 H2. apply d_replay_shape in H1.
    destruct (d_shape_facts _ _ _ H1) as (_ & HQ & HL & _).
    cbn [disk_m m_reopen] in H2. unfold d_reopen in H2. rewrite HQ in H2. inversion H2; subst.
    split; [destruct s; reflexivity|exact HL].
  - intros h s k H1 Hk. apply d_replay_shape in H1.
    cbn [disk_m m_lookup]. unfold d_lookup, last_written.
    destruct h as [|e l]; cbn [d_shape] in H1.
    + subst s. reflexivity.
    + destruct H1 as (m & Hm & -> & _). cbn [dk_space]. rewrite find_put, (beqb_false _ _ Hk).
      rewrite (find_apply_ents sm k _ [] m Hm). reflexivity.
Qed.
(** * The replica system: every replica is "replay of its update history" *)
Definition is_recover (o : op) : bool := match o with ORecover _ _ => true | _ => false end.

Section Generic.
Variable M : machine.
Variable sm : N.
Variable eok : entry -> Prop.
Variable kok : bytes -> Prop.
Hypothesis RF : refines M sm eok kok.

Definition rep_inv (x : rep M) (g : ghost) : Prop :=
  replay M (g_hist g) = Some (r_st M x) /\
  (forall c, r_ctx M x = Some c ->
     exists h s, g_ctx g = Some h /\ replay M h = Some s /\ c = m_prepare M s) /\
  (forall sn, r_snap M x = Some sn ->
     exists h s cur, g_snap g = Some h /\ replay M h = Some s /\ sn = m_save M cur (m_prepare M s)).

Definition g_ok (g : ghost) : Prop :=
  Forall eok (g_hist g) /\ (forall h, g_ctx g = Some h -> Forall eok h) /\ (forall h, g_snap g = Some h -> Forall eok h).

Lemma gok_step g o : (forall r, g_ok (g r)) -> Forall eok (op_entries o) ->
  forall r, g_ok (gstep (m_has_prepare M) g o r).
Proof.
  intros HG HE r'. destruct o as [r ents|r k|r|r|r|r src|r|r]; cbn [gstep op_entries] in *; try apply HG.
  - unfold set_g. destruct (r' =? r); [|apply HG]. destruct (HG r) as (H1 & H2 & H3).
    split; [|split]; cbn [g_hist g_ctx g_snap]; [|exact H2|exact H3]. apply Forall_app. split; assumption.
  - unfold set_g. destruct (r' =? r); [|apply HG]. destruct (HG r) as (H1 & H2 & H3).
    split; [|split]; cbn [g_hist g_ctx g_snap]; [exact H1| |exact H3]. intros h Hh. inversion Hh; subst. exact H1.
  - destruct (HG r) as (H1 & H2 & H3).
    destruct (m_has_prepare M).
    + destruct (g_ctx (g r)) as [h|] eqn:E; [|apply HG].
      unfold set_g. destruct (r' =? r); [|apply HG].
      split; [|split]; cbn [g_hist g_ctx g_snap]; [exact H1|discriminate|]. intros h' Hh. inversion Hh; subst. apply H2. reflexivity.
    + unfold set_g. destruct (r' =? r); [|apply HG].
      split; [|split]; cbn [g_hist g_ctx g_snap]; [exact H1|discriminate|]. intros h' Hh. inversion Hh; subst. exact H1.
  - destruct (g_snap (g src)) as [h|] eqn:E; [|apply HG].
    unfold set_g. destruct (r' =? r); [|apply HG]. destruct (HG r) as (H1 & H2 & H3). destruct (HG src) as (_ & _ & H3s).
    split; [|split]; cbn [g_hist g_ctx g_snap]; [apply H3s; exact E|discriminate|exact H3].
  - unfold set_g. destruct (r' =? r); [|apply HG]. destruct (HG r) as (H1 & H2 & H3).
    split; [|split]; cbn [g_hist g_ctx g_snap]; [exact H1|discriminate|exact H3].
Qed.

Lemma inv_step s g o s' mo :
  (forall r, rep_inv (s r) (g r)) ->
  (is_recover o = true -> forall r, g_ok (g r)) ->
  step M s o = Some (s', mo) ->
  forall r, rep_inv (s' r) (gstep (m_has_prepare M) g o r).
Proof.
  intros HI HG HS r'.
  destruct o as [r ents|r k|r|r|r|r src|r|r]; cbn [step gstep is_recover] in *.
  - (* update *)
    destruct (m_update M (r_st M (s r)) ents) as [st'|] eqn:E; [|discriminate]. inversion HS; subst s' mo. clear HS.
    unfold set_rep, set_g. destruct (r' =? r); [|apply HI].
    destruct (HI r) as (H1 & H2 & H3). split; [|split]; cbn [r_st r_ctx r_snap g_hist g_ctx g_snap]; [|exact H2|exact H3].
    eapply (rf_fuse _ _ _ _ RF); eassumption.
  - inversion HS; subst. apply HI.
  - (* sync *)
    destruct (m_sync M (r_st M (s r))) as [st'|] eqn:E; [|discriminate]. inversion HS; subst s' mo. clear HS.
    unfold set_rep. destruct (r' =? r) eqn:ER; [|apply HI]. apply N.eqb_eq in ER. subst r'.
    destruct (HI r) as (H1 & H2 & H3). apply (rf_sync _ _ _ _ RF) in E. subst st'.
    split; [|split]; cbn [r_st r_ctx r_snap]; assumption.
  - (* prepare *)
    destruct (m_has_prepare M); [|discriminate]. inversion HS; subst s' mo. clear HS.
    unfold set_rep, set_g. destruct (r' =? r); [|apply HI].
    destruct (HI r) as (H1 & H2 & H3). split; [|split]; cbn [r_st r_ctx r_snap g_hist g_ctx g_snap]; [exact H1| |exact H3].
    intros c Hc. inversion Hc; subst c. exists (g_hist (g r)), (r_st M (s r)). repeat split. exact H1.
  - (* save *)
    destruct (HI r) as (H1 & H2 & H3).
    destruct (m_has_prepare M).
    + destruct (r_ctx M (s r)) as [c|] eqn:E; [|discriminate]. inversion HS; subst s' mo. clear HS.
      destruct (H2 c eq_refl) as (h & s0 & Hg & Hr & Hc). rewrite Hg.
      unfold set_rep, set_g. destruct (r' =? r); [|apply HI].
      split; [|split]; cbn [r_st r_ctx r_snap g_hist g_ctx g_snap]; [exact H1|discriminate|].
      intros sn Hsn. inversion Hsn; subst sn. subst c. exists h, s0, (r_st M (s r)). repeat split. exact Hr.
    + inversion HS; subst s' mo. clear HS.
      unfold set_rep, set_g. destruct (r' =? r); [|apply HI].
      split; [|split]; cbn [r_st r_ctx r_snap g_hist g_ctx g_snap]; [exact H1|discriminate|].
      intros sn Hsn. inversion Hsn; subst sn. exists (g_hist (g r)), (r_st M (s r)), (r_st M (s r)). repeat split. exact H1.
  - (* recover *)
    destruct (r_snap M (s src)) as [sn|] eqn:E; [|discriminate].
    destruct (m_recover M (r_st M (s r)) sn) as [st'|] eqn:E2; [|discriminate]. inversion HS; subst s' mo. clear HS.
    destruct (HI src) as (_ & _ & H3s). destruct (H3s sn E) as (h & s0 & cur & Hg & Hr & Hsn). rewrite Hg.
    unfold set_rep, set_g. destruct (r' =? r); [|apply HI].
    destruct (HI r) as (H1 & H2 & H3).
    split; [|split]; cbn [r_st r_ctx r_snap g_hist g_ctx g_snap]; [|discriminate|exact H3].
    subst sn. destruct (HG eq_refl src) as (_ & _ & HF).
    rewrite (rf_snap _ _ _ _ RF h s0 cur _ st' Hr (HF h Hg) E2). exact Hr.
  - (* reopen *)
    destruct (m_reopen M (r_st M (s r))) as [[st' i]|] eqn:E; [|discriminate]. inversion HS; subst s' mo. clear HS.
    unfold set_rep, set_g. destruct (r' =? r); [|apply HI].
    destruct (HI r) as (H1 & H2 & H3).
    destruct (rf_reopen _ _ _ _ RF _ _ _ _ H1 E) as [-> _].
    split; [|split]; cbn [r_st r_ctx r_snap g_hist g_ctx g_snap]; [exact H1|discriminate|exact H3].
  - inversion HS; subst. apply HI.
Qed.

Lemma has_recover_cons o ops : has_recover (o :: ops) = is_recover o || has_recover ops.
Proof. reflexivity. Qed.

Lemma run_inv ops : forall s g s',
  (forall r, rep_inv (s r) (g r)) ->
  (has_recover ops = true -> Forall eok (script_entries ops) /\ forall r, g_ok (g r)) ->
  run_from M s ops = Some s' ->
  forall r, rep_inv (s' r) (fold_left (gstep (m_has_prepare M)) ops g r).
Proof.
  induction ops as [|o ops IH]; intros s g s' HI HG HR; cbn [run_from fold_left] in *.
  - inversion HR; subst. exact HI.
  - destruct (step M s o) as [[s1 mo]|] eqn:E; [|discriminate].
    eapply IH; [| |exact HR].
    + eapply inv_step; [exact HI| |exact E].
      intros Hrec. apply HG. rewrite has_recover_cons, Hrec. reflexivity.
    + intros Hrec. rewrite has_recover_cons, Hrec, orb_true_r in HG. destruct (HG eq_refl) as [HF HO].
      unfold script_entries in HF. cbn [flat_map] in HF. apply Forall_app in HF. destruct HF as [HF1 HF2].
      split; [exact HF2|]. apply gok_step; assumption.
Qed.

Lemma inv0 : forall r, rep_inv (sys0 M r) (gsys0 r).
Proof.
  intros r. split; [reflexivity|]. split; intros x Hx; discriminate.
Qed.

Lemma gok0 : forall r, g_ok (gsys0 r).
Proof. intros r. split; [constructor|]. split; intros h Hh; discriminate. Qed.

(* precondition of a script: if it contains a recovery, every entry satisfies the machine's entry condition *)
Definition script_ok (ops : list op) : Prop := has_recover ops = true -> Forall eok (script_entries ops).

Theorem run_replay ops s :
  run M ops = Some s -> script_ok ops ->
  forall r, replay M (hist (m_has_prepare M) ops r) = Some (r_st M (s r)).
Proof.
  intros HR HO r. unfold hist, hist_sys.
  apply (run_inv ops (sys0 M) gsys0 s inv0); [|exact HR].
  intros Hrec. split; [apply HO; exact Hrec|apply gok0].
Qed.

Theorem run_lookup ops s r k :
  run M ops = Some s -> script_ok ops -> kok k ->
  m_lookup M (r_st M (s r)) k = last_written sm (hist (m_has_prepare M) ops r) k.
Proof.
  intros HR HO Hk. apply (rf_lookup _ _ _ _ RF); [|exact Hk]. apply run_replay; assumption.
Qed.

(* two replicas (of two runs) with the same update history are in the same state *)
Theorem run_same_history ops1 ops2 s1 s2 r1 r2 :
  run M ops1 = Some s1 -> run M ops2 = Some s2 -> script_ok ops1 -> script_ok ops2 ->
  hist (m_has_prepare M) ops1 r1 = hist (m_has_prepare M) ops2 r2 ->
  r_st M (s1 r1) = r_st M (s2 r2).
Proof.
  intros H1 H2 O1 O2 HH.
  pose proof (run_replay _ _ H1 O1 r1) as E1. pose proof (run_replay _ _ H2 O2 r2) as E2.
  rewrite HH in E1. rewrite E1 in E2. now inversion E2.
Qed.

End Generic.
(** * Property C15 for the three machines *)
Lemma forallb_Forall {A} (f : A -> bool) l : forallb f l = true -> Forall (fun x => f x = true) l.
Proof. intros H. apply Forall_forall. intros x Hx. eapply forallb_forall in H; eassumption. Qed.

Lemma utf8_script_ok sm ops : utf8_script sm ops -> script_ok (eok_json sm) ops.
Proof.
  unfold utf8_script, script_ok. intros H Hrec. rewrite Hrec in H. cbn [negb orb] in H.
  apply forallb_Forall in H. exact H.
Qed.

Lemma any_script_ok ops : script_ok (fun _ : entry => True) ops.
Proof. intros _. apply Forall_forall. intros; exact I. Qed.

Lemma json_lookup c sm : lookup_spec (json_machine c sm) sm (utf8_script sm) any_key.
Proof.
  intros ops s r k HR HP _. eapply run_lookup; [apply json_refines|exact HR|apply utf8_script_ok; exact HP|exact I].
Qed.

Lemma disk_lookup sm : lookup_spec (disk_m sm) sm any_script user_key.
Proof.
  intros ops s r k HR _ Hk. eapply run_lookup; [apply disk_refines|exact HR|apply any_script_ok|exact Hk].
Qed.

Lemma json_updates_only c sm : updates_only_spec (json_machine c sm) (utf8_script sm).
Proof.
  intros ops s r HR HP. eexists. split; [|split; reflexivity].
  eapply run_replay; [apply json_refines|exact HR|apply utf8_script_ok; exact HP].
Qed.

Lemma disk_updates_only sm : updates_only_spec (disk_m sm) any_script.
Proof.
  intros ops s r HR _. eexists. split; [|split; reflexivity].
  eapply run_replay; [apply disk_refines|exact HR|apply any_script_ok].
Qed.

Lemma json_same_history c sm : same_history_spec (json_machine c sm) (utf8_script sm).
Proof.
  intros ops1 ops2 s1 s2 r1 r2 H1 H2 P1 P2 HH. f_equal.
  eapply run_same_history; [apply json_refines|exact H1|exact H2|apply utf8_script_ok; exact P1|apply utf8_script_ok; exact P2|exact HH].
Qed.

Lemma disk_same_history sm : same_history_spec (disk_m sm) any_script.
Proof.
  intros ops1 ops2 s1 s2 r1 r2 H1 H2 _ _ HH. f_equal.
  eapply run_same_history; [apply disk_refines|exact H1|exact H2|apply any_script_ok|apply any_script_ok|exact HH].
Qed.

Lemma json_snapshot_exact c sm : snapshot_exact (json_machine c sm) (utf8_history sm).
Proof.
  intros h s cur t s' HR HH HS. eapply (rf_snap _ _ _ _ (json_refines c sm)); [exact HR| |exact HS].
  apply forallb_Forall. exact HH.
Qed.

Lemma disk_snapshot_exact sm : snapshot_exact (disk_m sm) any_history.
Proof.
  intros h s cur t s' HR _ HS. eapply (rf_snap _ _ _ _ (disk_refines sm)); [exact HR| |exact HS].
  apply Forall_forall. intros; exact I.
Qed.

(* a JSON machine always recovers; DiskKV recovers iff the snapshot is not older than the replica *)
Lemma json_recover_total c sm t d : exists s', m_recover (json_machine c sm) t d = Some s'.
Proof. eexists. reflexivity. Qed.

Lemma disk_recover_defined sm h s cur t :
  replay (disk_m sm) h = Some s -> dk_last t <= dk_last s ->
  m_recover (disk_m sm) t (m_save (disk_m sm) cur (m_prepare (disk_m sm) s)) = Some s.
Proof.
  intros HR HL. apply d_replay_shape in HR. destruct (d_shape_facts _ _ _ HR) as (HS & HQ & _ & _).
  cbn [disk_m m_recover m_save m_prepare]. unfold d_recover, d_save, d_prepare. cbv zeta.
  rewrite (of_list_sorted _ HS), HQ. replace (dk_last s <? dk_last t) with false by lia. destruct s; reflexivity.
Qed.

(* Open after a restart returns the index of the last applied entry *)
Lemma disk_reopen_index sm ops s r s' i :
  run (disk_m sm) ops = Some s -> d_reopen (r_st (disk_m sm) (s r)) = Some (s', i) ->
  s' = r_st (disk_m sm) (s r) /\ i = last_index (hist true ops r).
Proof.
  intros HR HO. eapply (rf_reopen _ _ _ _ (disk_refines sm)); [|exact HO].
  apply (run_replay _ _ _ _ (disk_refines sm) ops s HR (any_script_ok ops) r).
Qed.

(* a restart is always possible in a reachable state *)
Lemma disk_reopen_defined sm ops s r :
  run (disk_m sm) ops = Some s -> exists i, d_reopen (r_st (disk_m sm) (s r)) = Some (r_st (disk_m sm) (s r), i).
Proof.
  intros HR. pose proof (run_replay _ _ _ _ (disk_refines sm) ops s HR (any_script_ok ops) r) as H.
  apply d_replay_shape in H. destruct (d_shape_facts _ _ _ H) as (_ & HQ & _ & _).
  exists (dk_last (r_st (disk_m sm) (s r))). unfold d_reopen. rewrite HQ. destruct (r_st (disk_m sm) (s r)); reflexivity.
Qed.

(** ** the open finding: the JSON snapshot is not exact on binary strings *)
Definition sm0 : N := 16777216.
(* history: one update writing key "\xff" := "a" *)
Definition wit_hist : list entry := [(1, [0; 1; 255; 1; 1; 97; 127])].

Lemma json_snapshot_refuted c : ~ snapshot_exact (json_machine c sm0) any_history.
Proof.
  intros H.
  assert (EA : apply_ents sm0 wit_hist [] = Some [([255], [97])]) by (vm_compute; reflexivity).
  assert (ER : replay (json_machine c sm0) wit_hist = Some (mkJ [([255], [97])] (if j_counts c then nlen wit_hist else 0) junk0)).
  { rewrite j_replay_eq, EA. reflexivity. }
  specialize (H wit_hist _ (mkJ [([255], [97])] (if j_counts c then nlen wit_hist else 0) junk0) j_init _ ER I eq_refl).
  apply (f_equal (fun x : jst => find [255] (js_store x))) in H.
  cbn [json_machine m_save m_prepare] in H. unfold j_save, j_prepare_st, j_doc in H. cbn [js_store jd_pairs] in H.
  vm_compute in H. discriminate.
Qed.

(* system level: replica 1 recovers replica 0's snapshot and answers a lookup differently from the last value written *)
Definition wit_ops : list op := [OUpdate 0 wit_hist; OSave 0; ORecover 1 0].
Definition wit_ops_c : list op := [OUpdate 0 wit_hist; OPrepare 0; OSave 0; ORecover 1 0].

Lemma kvtest_lookup_refuted : ~ lookup_spec (kvtest_m sm0) sm0 any_script any_key.
Proof.
  intros H.
  assert (E : match run (kvtest_m sm0) wit_ops with
              | Some x => m_lookup (kvtest_m sm0) (r_st _ (x 1)) [255]
              | None => [1] end = []) by (vm_compute; reflexivity).
  destruct (run (kvtest_m sm0) wit_ops) as [s|] eqn:ER; [|discriminate].
  specialize (H wit_ops s 1 [255] ER I I). rewrite E in H. vm_compute in H. discriminate.
Qed.

Lemma ckv_lookup_refuted : ~ lookup_spec (ckv_m sm0) sm0 any_script any_key.
Proof.
  intros H.
  assert (E : match run (ckv_m sm0) wit_ops_c with
              | Some x => m_lookup (ckv_m sm0) (r_st _ (x 1)) [255]
              | None => [1] end = []) by (vm_compute; reflexivity).
  destruct (run (ckv_m sm0) wit_ops_c) as [s|] eqn:ER; [|discriminate].
  specialize (H wit_ops_c s 1 [255] ER I I). rewrite E in H. vm_compute in H. discriminate.
Qed.
