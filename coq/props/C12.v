(** C12 — Restore is requested only where it can work, and never mixed with repair.
    Property theorems only; model coq/theories/Sched.v, proofs coq/proofs/SchedProofs.v.

    Every theorem is about EVERY scheduler context [C] (no bound on shards, members or
    hosts), EVERY parameter record [P] and EVERY batch [b] that [Drummer.maintainShards]
    may return in that context for some Go map iteration order and some random source
    ([allowed P C (OBatch b) = true]).  [ctx_wf C]: map keys agree with the id fields
    stored in the values (an invariant of the Drummer DB). *)
From stdpp Require Import gmap list numbers.
From Drummer.Model Require Import DB Sched SchedRun.
From Drummer.Proofs Require Import SchedProofs SchedTotal SchedExamples.
Local Open Scope N_scope.

(** 1. A restore request names a member of the view that is classified failed, is sent to
       that member's NodeHost, and that NodeHost is known, has reported within the failure
       timeout and listed a persisted log for exactly (shard, replica). *)
Theorem C12_target : ∀ P C b q,
  ctx_wf C → allowed P C (OBatch b) = true → q ∈ b → is_restore q = true →
  ∃ c n h, c_view C !! q_shard q = Some c ∧ s_reps c !! q_inst q = Some n ∧
           replica_failed P n (c_tick C) = true ∧ q_raft q = r_addr n ∧
           c_hosts C !! r_addr n = Some h ∧ c_tick C - h_tick h ≤ p_ttl P ∧
           (q_shard q, q_inst q) ∈ h_plog h.
Proof. exact sched_restore_target. Qed.
Print Assumptions C12_target.

(** 2. It is flagged restore, not join (and so not bootstrap either), and carries the
       shard's current membership (ids with their addresses). *)
Theorem C12_flags : ∀ P C b q,
  ctx_wf C → allowed P C (OBatch b) = true → q ∈ b → is_restore q = true →
  q_restore q = true ∧ q_join q = false ∧
  ∃ c, c_view C !! q_shard q = Some c ∧ q_members q = q_rids q ∧
       length (q_rids q) = length (q_addrs q) ∧
       zip (q_rids q) (q_addrs q) ≡ₚ (λ kv, (kv.1, r_addr kv.2)) <$> map_to_list (s_reps c).
Proof. exact sched_restore_flags. Qed.
Print Assumptions C12_flags.

(** 2'. Every CREATE of a maintenance round is either such a restore request or the join of
        a member that is waiting to start: a member is never bootstrapped (join = restore =
        false) or joined when it has data to restart from, and a restore is never flagged join. *)
Theorem C12_create_kinds : ∀ P C b q,
  ctx_wf C → allowed P C (OBatch b) = true → q ∈ b → is_create q = true →
  (q_restore q = true ∧ q_join q = false) ∨
  (q_restore q = false ∧ q_join q = true ∧
   ∃ c n, c_view C !! q_shard q = Some c ∧ s_reps c !! q_inst q = Some n ∧
          replica_waiting P n (c_tick C) = true ∧ q_raft q = r_addr n).
Proof. exact sched_create_kinds. Qed.
Print Assumptions C12_create_kinds.

(** 3. A shard that receives a restore request receives, in the same batch, nothing but
       restore requests (and KILLs of stray replicas): no ADD, no DELETE, no join CREATE. *)
Theorem C12_exclusive : ∀ P C b q q',
  allowed P C (OBatch b) = true → q ∈ b → is_restore q = true →
  q' ∈ b → q_shard q' = q_shard q → is_kill q' = false →
  is_restore q' = true ∧ q_join q' = false ∧ is_change q' = false.
Proof. exact sched_restore_exclusive. Qed.
Print Assumptions C12_exclusive.

(** 4. The quorum rule.  Full statement: for a shard without healthy majority, restores are
       issued only if together with the healthy members they reach a majority. *)
Definition C12_quorum_statement (P : params) (C : sctx) (b : list request) (q : request) (c : shard) : Prop :=
  ctx_wf C → allowed P C (OBatch b) = true → q ∈ b → is_restore q = true →
  c_view C !! q_shard q = Some c →
  shard_available P c (c_tick C) = false →
  (quorum_of (size (s_reps c)) ≤ length (ok_replicas P c (c_tick C)) + restores_for (q_shard q) b)%nat.
Definition C12_quorum : Prop := ∀ P C b q c, C12_quorum_statement P C b q c.

(** The full statement is FALSE of the faithful model (known finding
    C12-restore-below-quorum): [restoreFailed] handles every shard for which
    [needToBeRestored()] is false, and that is false for an unavailable shard with a
    waiting-to-start member.  Witness [Wctx]: 1 healthy + 1 restore < quorum 3. *)
Theorem C12_quorum_refuted : ∃ P C b q c,
  ctx_wf C ∧ allowed P C (OBatch b) = true ∧ q ∈ b ∧ is_restore q = true ∧
  c_view C !! q_shard q = Some c ∧ shard_available P c (c_tick C) = false ∧
  waiting_replicas P c (c_tick C) ≠ [] ∧
  ¬ (quorum_of (size (s_reps c)) ≤ length (ok_replicas P c (c_tick C)) + restores_for (q_shard q) b)%nat.
Proof. exact W_refutes. Qed.
Print Assumptions C12_quorum_refuted.

Theorem C12_quorum_not_full : ¬ C12_quorum.
Proof. exact W_not_full. Qed.
Print Assumptions C12_quorum_not_full.

(** Outside the finding's signature (no member waiting to start) the rule holds. *)
Theorem C12_quorum_partial : ∀ P C b q c,
  ctx_wf C → allowed P C (OBatch b) = true → q ∈ b → is_restore q = true →
  c_view C !! q_shard q = Some c →
  shard_available P c (c_tick C) = false →
  waiting_replicas P c (c_tick C) = [] →
  (quorum_of (size (s_reps c)) ≤ length (ok_replicas P c (c_tick C)) + restores_for (q_shard q) b)%nat.
Proof. exact sched_restore_quorum_partial. Qed.
Print Assumptions C12_quorum_partial.

(** The set of allowed outcomes is never empty: in every well-formed context the canonical
    outcome [canon] (first candidates in map order, new id for shard s = idf s) is allowed,
    so "every allowed batch" is not a vacuous quantification in any context. *)
Theorem C12_allowed_set_nonempty : ∀ P C idf, ctx_wf C → allowed P C (canon P C idf) = true.
Proof. exact allowed_canon. Qed.
Print Assumptions C12_allowed_set_nonempty.

(** Non-vacuity: the hypotheses are met by concrete contexts and batches. *)
Example C12_nonvacuous_restore :
  ctx_wf Rctx ∧ allowed P0 Rctx (OBatch Rb) = true ∧ Rq2 ∈ Rb ∧ is_restore Rq2 = true ∧
  c_view Rctx !! q_shard Rq2 = Some Rc ∧ shard_available P0 Rc (c_tick Rctx) = false ∧
  waiting_replicas P0 Rc (c_tick Rctx) = [].
Proof. exact R_nonvacuous. Qed.
(* restore and repair side by side: shard 1 restored, shard 2 joined *)
Example C12_nonvacuous_mixed_batch : ctx_wf Mctx ∧ allowed P0 Mctx (OBatch Mb) = true.
Proof. exact (conj M_wf M_allowed). Qed.
(* a restore request may NOT be accompanied by an ADD for the same shard *)
Example C12_exclusive_rejects :
  allowed P0 Mctx (OBatch (Mb ++ [REQ 2 1 [77] 5 [] [15] 0 11 false false 0])) = false.
Proof. vm_compute. reflexivity. Qed.

(** Remark (round locality).  [allowed P C o] is a function of the parameters and of ONE context:
    the outcome of a maintenance round may depend on that round's scheduler context only, not on
    earlier rounds, although the real Drummer keeps one scheduler object for its lifetime.  The
    correspondence check therefore also runs SEQUENCES of related contexts on one long-lived
    scheduler object and judges every round against its own context.  Example: the restore
    request of round 1 (members {1,2,3}) is not an allowed outcome of round 2 (members {2,3,4}). *)
Example C12_round_local :
  allowed P0 S1ctx (OBatch S1b) = true ∧ allowed P0 S2ctx (OBatch S2b) = true ∧
  allowed P0 S2ctx (OBatch S1b) = false.
Proof. exact S_rounds. Qed.
(** "a persisted log for exactly that replica": ids that merely agree modulo 100000 do not count *)
Example C12_exact_log_big_ids :
  allowed P0 Bctx (OBatch [REQ 0 100 [1;2;7300003] 0 [1;2;7300003] [11;12;13] 7300003 13 false true 7]) = false ∧
  allowed P0 Bctx (OBatch [REQ 2 100 [77] 5 [] [15] 0 11 false false 0]) = true.
Proof. exact B_big_ids. Qed.

(** 6. "has reported persisted log data for exactly that replica" against the report HISTORY (DB side; model
       theories/DB.v [host_update], proofs/DBPlogProofs.v).  [last_plog P (Live db_init) cs a]: the list carried by
       the last effective report of address a in cs that INCLUDED its persisted-log list (PlogInfoIncluded); [] if
       there is none.  In every reachable DB state the NodeHost record carries exactly that list: an included list
       that is shorter, or empty, replaces the older one - whether or not the NodeHost missed reports before -
       and a report that does not include the list leaves it alone. *)
From Drummer.Proofs Require Import DBProofs DBPlogProofs.
Theorem C12_plog_latest_included : ∀ P cs d a h,
  run P cs = Live d → d_hosts d !! a = Some h → h_plog h = last_plog P (Live db_init) cs a.
Proof. exact run_host_plog. Qed.
Print Assumptions C12_plog_latest_included.

(** ... and so a restore request of ANY batch the scheduler may return for the context of a reachable DB state
    names a (shard, replica) that is in the most recent included list of the NodeHost it is sent to. *)
Theorem C12_restore_log_in_latest_list : ∀ P cs d b q,
  run P cs = Live d → allowed P (ctx_of_db d) (OBatch b) = true → q ∈ b → is_restore q = true →
  (q_shard q, q_inst q) ∈ last_plog P (Live db_init) cs (q_raft q).
Proof. exact restore_log_in_latest_list. Qed.
Print Assumptions C12_restore_log_in_latest_list.

(* Non-vacuity: NodeHost 1 includes [(1,10)], then reports without a list (kept), then includes the EMPTY list
   without ever missing a report (dropped), then includes [(1,10);(2,7)] again *)
Definition plrep (incl : bool) (pl : list (N * N)) : cmd := CReport (mkReport 1 [] [] 0 incl pl 0 0).
Definition pltr : list cmd := [CTick; plrep true [(1,10)]; CTick; plrep false []].
Example C12_plog_history :
  (h_plog <$> (match run P0 pltr with Live d => d_hosts d !! 1 | Dead => None end)) = Some [(1,10)] ∧
  last_plog P0 (Live db_init) pltr 1 = [(1,10)] ∧
  (h_plog <$> (match run P0 (pltr ++ [CTick; plrep true []]) with Live d => d_hosts d !! 1 | Dead => None end)) = Some [] ∧
  last_plog P0 (Live db_init) (pltr ++ [CTick; plrep true []]) 1 = [] ∧
  (h_plog <$> (match run P0 (pltr ++ [CTick; plrep true []; plrep true [(1,10);(2,7)]]) with Live d => d_hosts d !! 1 | Dead => None end))
    = Some [(1,10);(2,7)].
Proof. vm_compute. repeat split; reflexivity. Qed.

(** Round 4 note: "exactly that replica" on exactly that NodeHost.  Addresses a1 / a11 and shards 15 / 5 read the same
    when address and shard id are written next to each other; the failed member (15,1) lives on a1 (live, no log), a11
    holds a log for (5,1): no restore, the member is replaced. *)
Definition Xctx : sctx := CTX 1000 [mkSD 15 [1;2;3] 7]
  [SH 15 5 [REP 15 1 1 935 10; REP 15 51 91 1000 10; REP 15 52 92 1000 10]]
  [HOST 1 1 1000 [] [15]; HOST 11 1 1000 [(5,1)] []; HOST 91 1 1000 [(15,51)] [15]; HOST 92 1 1000 [] [15]; HOST 95 1 1000 [] []] [].
Example C12_exact_log_lookalike_address :
  bool_decide (ctx_wf Xctx) = true ∧
  allowed P0 Xctx (OBatch [REQ 0 15 [1;51;52] 0 [1;51;52] [1;91;92] 1 1 false true 7]) = false ∧
  allowed P0 Xctx (OBatch [REQ 2 15 [77] 5 [] [95] 0 91 false false 0]) = true.
Proof. vm_compute. repeat split; reflexivity. Qed.
