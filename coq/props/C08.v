(** C08 — Launch planning is all-or-nothing, valid, and never crashes.  Property theorems only.

    Model: theories/Launch.v ([launch] = scheduler.launch/getLaunchRequests of the tree with commit
    0ed71ad).  All theorems quantify over every TTL, tick, fleet (list of NodeHosts in any order),
    list of shard definitions, regions specification (absent = [None], lists of any lengths, any
    counts, duplicates, unknown names) and every list [ds] of values returned by the random source.
    [go_sized shards] says that every member list has fewer than 2^63 entries (Go's [len] is an
    [int]); it is not a bound on the inputs that can occur. *)
From stdpp Require Import gmap.
From Drummer.Model Require Import Base DB Launch LaunchRun LaunchNames.
From Drummer.Proofs Require Import LaunchProofs LaunchNamesProofs.
Local Open Scope N_scope.

(** 1. Never a crash: no nil dereference, no index out of range ([regions.Count[idx]],
       [filtered[idx]], [selected[idx]], [shard.Members[idx]]), no division by zero
       ([Int() % len(filtered)]) — every such operation is a checked one in the model. *)
Theorem C08_no_crash : forall ttl tick fleet shards regs ds,
  go_sized shards -> launch ttl tick fleet shards regs ds <> Crash.
Proof. exact launch_no_crash. Qed.
Print Assumptions C08_no_crash.

(** 2. All or nothing: a plan contains, shard by shard in definition order, exactly one request per
       member, in member order (no hypothesis).  The other outcomes carry no request at all
       ([Refused] is [return nil, err]). *)
Theorem C08_all_or_nothing : forall ttl tick fleet shards regs ds qs,
  launch ttl tick fleet shards regs ds = Plan qs ->
  map (fun q => (q_shard q, q_inst q)) qs =
  flat_map (fun sd => map (fun m => (sd_id sd, m)) (sd_members sd)) shards.
Proof. exact launch_all_or_nothing. Qed.
Print Assumptions C08_all_or_nothing.

Theorem C08_plan_needs_regions : forall ttl tick fleet shards regs ds qs,
  launch ttl tick fleet shards regs ds = Plan qs -> exists r, regs = Some r.
Proof. exact launch_plan_needs_regions. Qed.
Print Assumptions C08_plan_needs_regions.

(** 3. Validity of a plan: it splits into one block of requests per defined shard and each block
       satisfies [shard_block_ok] (Launch.v): one request per member in member order, on pairwise
       distinct NodeHosts of the fleet, each live and not already hosting the shard, the region
       quotas met exactly (and no host from a region outside the specification), every request
       of the block carries the same member list and the same address list = the hosts of the block
       in member order, launch flags, and passes validateNodeHostRequest.
       Preconditions: what server.validateChange accepts for shard definitions and the NodeHost
       table being a map keyed by non-empty addresses. *)
Theorem C08_valid : forall ttl tick fleet shards r ds qs,
  go_sized shards -> Forall wf_shard shards -> wf_fleet fleet ->
  launch ttl tick fleet shards (Some r) ds = Plan qs ->
  exists blocks, qs = concat blocks /\ Forall2 (shard_block_ok ttl tick fleet r) shards blocks.
Proof. exact launch_valid. Qed.
Print Assumptions C08_valid.

(** 4. Refused exactly when it must be ([must_refuse], Launch.v): the specification is absent, its
       two lists differ in length, a region is listed twice, or for some defined shard the counts do
       not add up to the shard size or some region has fewer suitable hosts than its count.
       [OutOfDraws] (the finite script of random values ran out) is excluded here and
       characterised by 5. *)
Theorem C08_refuse_iff : forall ttl tick fleet shards regs ds,
  go_sized shards ->
  launch ttl tick fleet shards regs ds <> OutOfDraws ->
  (launch ttl tick fleet shards regs ds = Refused <-> must_refuse ttl tick fleet shards regs).
Proof. exact launch_refuse_iff. Qed.
Print Assumptions C08_refuse_iff.

Theorem C08_plan_iff : forall ttl tick fleet shards regs ds,
  go_sized shards ->
  launch ttl tick fleet shards regs ds <> OutOfDraws ->
  ((exists qs, launch ttl tick fleet shards regs ds = Plan qs) <-> ~ must_refuse ttl tick fleet shards regs).
Proof. exact launch_plan_iff. Qed.
Print Assumptions C08_plan_iff.

(** 5. The draw list only ever delays: an outcome that was reached does not change when more draws
       are supplied, and every draw list can be continued so that an outcome is reached.
       (Termination of the real loop with probability 1 is not modelled.) *)
Theorem C08_draws_extend : forall ttl tick fleet shards regs ds e,
  launch ttl tick fleet shards regs ds <> OutOfDraws ->
  launch ttl tick fleet shards regs (ds ++ e) = launch ttl tick fleet shards regs ds.
Proof. exact launch_extend. Qed.
Print Assumptions C08_draws_extend.

Theorem C08_can_finish : forall ttl tick fleet shards regs ds,
  go_sized shards -> exists e, launch ttl tick fleet shards regs (ds ++ e) <> OutOfDraws.
Proof. exact launch_can_finish. Qed.
Print Assumptions C08_can_finish.

(** 5'. The selection loop is set-valued: it returns distinct candidate indices (used by C08_valid) and
        every ordered choice of distinct candidates is returned for some values of the random source. *)
Theorem C08_any_selection_possible : forall n sl,
  NoDup sl -> Forall (fun i => i < n) sl ->
  pick_loop n (Z.of_nat (length sl)) [] sl = PDone sl [].
Proof. exact pick_any_selection. Qed.
Print Assumptions C08_any_selection_possible.

(** 6. What "live" means ([host_live] is the uint64 expression of liveFilter). *)
Theorem C08_live_past : forall ttl tick h,
  h_tick h <= tick -> tick < two64 -> (host_live ttl tick h <-> tick - h_tick h < ttl).
Proof. exact host_live_past. Qed.
Print Assumptions C08_live_past.

Theorem C08_live_future : forall ttl tick h,
  tick < h_tick h -> h_tick h < two64 -> ttl <= two63 -> h_tick h - tick <= two63 ->
  ~ host_live ttl tick h.
Proof. exact host_live_future. Qed.
Print Assumptions C08_live_future.

(** 7. The executable tests used by the correspondence check (LaunchRun.v) to decide whether an
       observed outcome is one the specification allows: [must_refuseb] decides [must_refuse], and a
       plan accepted by [blocks_okb true] satisfies the conclusion of C08_valid. *)
Theorem C08_must_refuse_decided : forall ttl tick fleet shards regs,
  must_refuseb ttl tick fleet shards regs = true <-> must_refuse ttl tick fleet shards regs.
Proof. exact must_refuseb_spec. Qed.
Print Assumptions C08_must_refuse_decided.

Theorem C08_allowed_plan_sound : forall ttl tick fleet r shards qs,
  blocks_okb true ttl tick fleet r shards qs = true ->
  exists blocks, qs = concat blocks /\ Forall2 (shard_block_ok ttl tick fleet r) shards blocks.
Proof. exact blocks_okb_sound. Qed.
Print Assumptions C08_allowed_plan_sound.

(** 8. server.validateRegions (run by SetRegions on the request before it is persisted): an accepted
       specification has at least one region, as many counts as regions, no duplicate and no empty
       name; for such a specification a launch is refused exactly when some defined shard cannot be
       placed. *)
Theorem C08_validated_spec : forall regs,
  validate_regions regs = true ->
  exists r, regs = Some r /\ rg_region r <> [] /\ length (rg_region r) = length (rg_count r) /\
            NoDup (rg_region r) /\ ~ In 0 (rg_region r).
Proof. exact validate_regions_ok. Qed.
Print Assumptions C08_validated_spec.

Theorem C08_validated_refuse_iff : forall ttl tick fleet shards r ds,
  validate_regions (Some r) = true -> go_sized shards ->
  launch ttl tick fleet shards (Some r) ds <> OutOfDraws ->
  (launch ttl tick fleet shards (Some r) ds = Refused <->
   exists sd, In sd shards /\ unplaceable ttl tick fleet r sd).
Proof. exact validated_refuse_iff. Qed.
Print Assumptions C08_validated_refuse_iff.

(** 16. Region names are opaque tokens.  The whole outcome of a launch - the plan, request by request, or the
       refusal - is unchanged by every re-spelling [f] of the region names (applied to the specification and to
       what the NodeHosts report) that keeps the names that occur apart.  So no name has a meaning of its own at
       launch (not "UNKNOWN" = settings.Soft.UnknownRegionName, not the empty name), and two names are the same
       region only if they are the same string: with C08_valid / C08_refuse_iff, quotas are met per exact name
       and hosts reporting a name that differs in case, blanks or normalisation form do not count. *)
Theorem C08_region_names_opaque : forall f ttl tick fleet shards regs ds,
  keeps_apart f (names_of fleet regs) ->
  launch ttl tick (map (rename_host f) fleet) shards (option_map (rename_spec f) regs) ds =
  launch ttl tick fleet shards regs ds.
Proof. exact launch_names_opaque. Qed.
Print Assumptions C08_region_names_opaque.

(** 17. The same for server.validateRegions (SetRegions), as long as the re-spelling neither produces nor removes
        the empty name (the one name validateRegions looks at). *)
Theorem C08_validate_regions_names_opaque : forall f regs,
  keeps_apart f (names_of [] regs) ->
  (forall x, In x (names_of [] regs) -> (f x = 0 <-> x = 0)) ->
  validate_regions (option_map (rename_spec f) regs) = validate_regions regs.
Proof. exact validate_regions_names_opaque. Qed.
Print Assumptions C08_validate_regions_names_opaque.

(** * Non-vacuity *)

Definition H (a r t : N) (ss : list N) : hostspec := mkHost a 0 r t [] (list_to_set ss).

(** TestSchedulerLaunchRequest-like fleet: 5 hosts, 3 regions; TTL 60, tick 100.
    host 4: last tick 41 (gap 59, live), host 5: last tick 40 (gap 60, not live), host 3 hosts shard 7 *)
Definition ex_fleet : list hostspec :=
  [H 1 1 100 []; H 2 2 100 []; H 3 3 100 [7]; H 4 3 41 []; H 5 3 40 []].
Definition ex_shards : list shard_def := [mkSD 100 [11; 12; 13] 9; mkSD 7 [21; 22] 9].

Definition rq (sid : N) (ms addrs : list N) (m a : N) : request :=
  mkReq RCreate sid ms 0 ms addrs m a false false 9.

(** shard 100: regions 1,2,3 one member each; shard 7 would need 3 members -> refused *)
Example ex_plan_one :
  launch 60 100 ex_fleet [mkSD 100 [11; 12; 13] 9] (Some (mkRegions [1; 2; 3] [1; 1; 1])) [0; 5; 1] =
  Plan [rq 100 [11; 12; 13] [1; 2; 4] 11 1; rq 100 [11; 12; 13] [1; 2; 4] 12 2; rq 100 [11; 12; 13] [1; 2; 4] 13 4].
Proof. vm_compute. reflexivity. Qed.

(** two shards, specification [3 -> 2] + nothing else does not fit shard 100 (3 members) *)
Example ex_refused_sum :
  launch 60 100 ex_fleet ex_shards (Some (mkRegions [3] [2])) [0; 1; 0; 1] = Refused.
Proof. vm_compute. reflexivity. Qed.

(** a plan for two shards of different placement: spec [1 -> 1; 3 -> 1] fits only 2-member shards;
    shard 7 cannot use host 3 (it already hosts shard 7) *)
Example ex_plan_two :
  launch 60 100 ex_fleet [mkSD 8 [31; 32] 9; mkSD 7 [21; 22] 9] (Some (mkRegions [1; 3] [1; 1])) [0; 0; 0; 0] =
  Plan [rq 8 [31; 32] [1; 3] 31 1; rq 8 [31; 32] [1; 3] 32 3;
        rq 7 [21; 22] [1; 4] 21 1; rq 7 [21; 22] [1; 4] 22 4].
Proof. vm_compute. reflexivity. Qed.

(** the preconditions of C08_valid hold for these inputs *)
Example ex_go_sized : go_sized ex_shards.
Proof. repeat constructor. Qed.

Example ex_wf_shards : Forall wf_shard ex_shards.
Proof.
  repeat constructor; cbn; try discriminate; try (intros Hx; repeat destruct Hx as [Hx | Hx]; try discriminate Hx; exact Hx).
Qed.

Example ex_wf_fleet : wf_fleet ex_fleet.
Proof.
  split; repeat constructor; cbn; try discriminate; try (intros Hx; repeat destruct Hx as [Hx | Hx]; try discriminate Hx; exact Hx).
Qed.

(** every malformed kind of specification is refused, not crashed on *)
Example ex_nil : launch 60 100 ex_fleet ex_shards None [0; 1; 2] = Refused.
Proof. vm_compute. reflexivity. Qed.
Example ex_short_counts : launch 60 100 ex_fleet ex_shards (Some (mkRegions [1; 2; 3] [1; 2])) [0; 1; 2] = Refused.
Proof. vm_compute. reflexivity. Qed.
Example ex_long_counts : launch 60 100 ex_fleet ex_shards (Some (mkRegions [1] [1; 2])) [0; 1; 2] = Refused.
Proof. vm_compute. reflexivity. Qed.
Example ex_dup_region :
  launch 60 100 ex_fleet [mkSD 8 [31; 32] 9] (Some (mkRegions [3; 3] [1; 1])) [0; 0] = Refused.
Proof. vm_compute. reflexivity. Qed.
Example ex_over :
  launch 60 100 ex_fleet [mkSD 8 [31; 32] 9] (Some (mkRegions [1; 3] [1; 2])) [0; 0; 1] = Refused.
Proof. vm_compute. reflexivity. Qed.
Example ex_wrap :
  launch 60 100 ex_fleet [mkSD 8 [31; 32] 9] (Some (mkRegions [1; 3] [18446744073709551615; 3])) [0; 0; 1] = Refused.
Proof. vm_compute. reflexivity. Qed.
Example ex_unknown_region :
  launch 60 100 ex_fleet [mkSD 8 [31; 32] 9] (Some (mkRegions [1; 99] [1; 1])) [0; 0; 1] = Refused.
Proof. vm_compute. reflexivity. Qed.
(** region 3 has two suitable hosts (3 and 4; 5 is not live): three members do not fit *)
Example ex_short_of_hosts :
  launch 60 100 ex_fleet [mkSD 8 [31; 32; 33] 9] (Some (mkRegions [3] [3])) [0; 1; 2] = Refused.
Proof. vm_compute. reflexivity. Qed.
Example ex_no_shards : launch 60 100 ex_fleet [] (Some (mkRegions [3] [3])) [] = Plan [].
Proof. vm_compute. reflexivity. Qed.

(** [must_refuse] is a real condition: it holds in the refused example, fails in the planned one *)
Example ex_must_refuse : must_refuse 60 100 ex_fleet [mkSD 8 [31; 32; 33] 9] (Some (mkRegions [3] [3])).
Proof.
  right. exists (mkRegions [3] [3]), (mkSD 8 [31; 32; 33] 9). split; [reflexivity|]. split; [left; reflexivity|].
  right. exists 0, 3, 3. split; [reflexivity|]. split; [reflexivity|]. vm_compute. reflexivity.
Qed.

Example ex_not_must_refuse :
  ~ must_refuse 60 100 ex_fleet [mkSD 8 [31; 32] 9; mkSD 7 [21; 22] 9] (Some (mkRegions [1; 3] [1; 1])).
Proof.
  pose proof ex_plan_two as Hp.
  apply (C08_plan_iff 60 100 ex_fleet [mkSD 8 [31; 32] 9; mkSD 7 [21; 22] 9]
                      (Some (mkRegions [1; 3] [1; 1])) [0; 0; 0; 0]).
  - repeat constructor.
  - rewrite Hp. discriminate.
  - eexists. exact Hp.
Qed.

(** rejection sampling: a repeated residue is skipped, the script can run out, more draws finish it *)
Example ex_rejection :
  pick_loop 3 2 [] [4; 7; 1; 5] = PDone [1; 2] [].
Proof. vm_compute. reflexivity. Qed.
Example ex_out_of_draws :
  launch 60 100 ex_fleet [mkSD 8 [31; 32] 9] (Some (mkRegions [3] [2])) [0; 2; 4] = OutOfDraws.
Proof. vm_compute. reflexivity. Qed.
Example ex_more_draws :
  launch 60 100 ex_fleet [mkSD 8 [31; 32] 9] (Some (mkRegions [3] [2])) ([0; 2; 4] ++ [1]) =
  Plan [rq 8 [31; 32] [3; 4] 31 3; rq 8 [31; 32] [3; 4] 32 4].
Proof. vm_compute. reflexivity. Qed.

(** the checked operations do crash when a guard is missing: [Crash] is not excluded by construction *)
Example ex_count_index_crash :   (* regions.Count[1] with one count *)
  select_regions 60 100 ex_fleet 8 [1] 0 [1; 3] [] [0; 0] = SCrash.
Proof. vm_compute. reflexivity. Qed.
Example ex_divide_by_zero :      (* count -1 over an empty candidate list *)
  find_suitable 60 100 8 99 ex_fleet (to_int 18446744073709551615) [0] = FCrash.
Proof. vm_compute. reflexivity. Qed.
Example ex_negative_count_spins :
  find_suitable 60 100 8 3 ex_fleet (to_int 18446744073709551615) [0; 1; 0; 1] = FOut.
Proof. vm_compute. reflexivity. Qed.
Example ex_selected_index_crash : addr_list [H 1 1 100 []] 0 [31; 32] = None.
Proof. vm_compute. reflexivity. Qed.
Example ex_members_index_crash :
  shard_requests (mkSD 8 [31] 9) [31] [1; 2] 0 [H 1 1 100 []; H 2 2 100 []] = None.
Proof. vm_compute. reflexivity. Qed.
Example ex_gather_checked : gather ex_fleet [0; 5] = None.
Proof. vm_compute. reflexivity. Qed.

(** liveness boundary: gap 59 live, gap 60 = TTL not live (strict <), a tick from the future not live *)
Example ex_live_edge :
  is_live 60 100 (H 4 3 41 []) = true /\ is_live 60 100 (H 5 3 40 []) = false /\ is_live 60 100 (H 6 3 101 []) = false.
Proof. vm_compute. repeat split; reflexivity. Qed.

(** validateNodeHostRequest accepts a launch request and rejects the broken ones *)
Example ex_validate :
  validate_request (rq 8 [31; 32] [3; 4] 31 3) = true /\
  validate_request (rq 8 [31; 0] [3; 4] 31 3) = false /\
  validate_request (rq 8 [31; 32] [3] 31 3) = false /\
  validate_request (rq 8 [31; 32] [3; 0] 31 3) = false /\
  validate_request (rq 8 [31; 32] [3; 4] 0 3) = false /\
  validate_request (mkReq RCreate 8 [31] 0 [31] [3] 31 3 false false 0) = false.
Proof. vm_compute. repeat split; reflexivity. Qed.

(** the executable "allowed" test accepts the model's own plan, another placement for the same
    inputs (members swapped over the hosts), and rejects a plan with both members on one host *)
Example ex_allowed :
  allowed 60 100 ex_fleet [mkSD 8 [31; 32] 9] (Some (mkRegions [3] [2]))
          (Plan [rq 8 [31; 32] [3; 4] 31 3; rq 8 [31; 32] [3; 4] 32 4]) = true /\
  allowed 60 100 ex_fleet [mkSD 8 [31; 32] 9] (Some (mkRegions [3] [2]))
          (Plan [rq 8 [31; 32] [4; 3] 31 4; rq 8 [31; 32] [4; 3] 32 3]) = true /\
  allowed 60 100 ex_fleet [mkSD 8 [31; 32] 9] (Some (mkRegions [3] [2]))
          (Plan [rq 8 [31; 32] [3; 3] 31 3; rq 8 [31; 32] [3; 3] 32 3]) = false /\
  allowed 60 100 ex_fleet [mkSD 8 [31; 32] 9] (Some (mkRegions [3] [2])) Refused = false /\
  allowed 60 100 ex_fleet [mkSD 8 [31; 32; 33] 9] (Some (mkRegions [3] [3])) Refused = true /\
  allowed 60 100 ex_fleet [mkSD 8 [31; 32] 9] (Some (mkRegions [3] [2])) (Plan [rq 8 [31; 32] [3; 5] 31 3; rq 8 [31; 32] [3; 5] 32 5]) = false.
Proof. vm_compute. repeat split; reflexivity. Qed.

(** validateRegions: accepted / every kind of refusal *)
Example ex_validate_regions :
  validate_regions (Some (mkRegions [3; 1] [2; 1])) = true /\
  validate_regions None = false /\ validate_regions (Some (mkRegions [] [])) = false /\
  validate_regions (Some (mkRegions [3; 1] [2])) = false /\
  validate_regions (Some (mkRegions [3; 0] [2; 1])) = false /\
  validate_regions (Some (mkRegions [3; 3] [2; 1])) = false.
Proof. vm_compute. repeat split; reflexivity. Qed.

(** a leftover persistent-log record for exactly the member that lands on the host changes nothing *)
Example ex_plog_ignored :
  launch 60 100 [mkHp 3 3 100 [] [(8, 31)]; mkHp 4 3 100 [] [(8, 32); (7, 31)]] [mkSD 8 [31; 32] 9]
         (Some (mkRegions [3] [2])) [0; 1] =
  Plan [rq 8 [31; 32] [3; 4] 31 3; rq 8 [31; 32] [3; 4] 32 4].
Proof. vm_compute. reflexivity. Qed.

(** region names as opaque tokens: 107 stands for "UNKNOWN", 101 / 201 for "east" / "EAST", 102 for "west".
    A quota for "UNKNOWN" is not filled from other regions: one host short -> refused, however many others there are *)
Example ex_reserved_name_short :
  launch 60 100 [H 1 107 100 []; H 2 102 100 []; H 3 102 100 []; H 4 101 100 []] [mkSD 8 [31; 32; 33] 9]
         (Some (mkRegions [107; 102] [2; 1])) [0; 1; 2; 3] = Refused.
Proof. vm_compute. reflexivity. Qed.

(** "east" and "EAST" are two regions: both quotas are served, each by the host reporting exactly that name ... *)
Example ex_case_variants_apart :
  launch 60 100 [H 1 101 100 []; H 2 201 100 []; H 3 102 100 []] [mkSD 8 [31; 32; 33] 9]
         (Some (mkRegions [201; 101; 102] [1; 1; 1])) [0; 0; 0] =
  Plan [rq 8 [31; 32; 33] [2; 1; 3] 31 2; rq 8 [31; 32; 33] [2; 1; 3] 32 1; rq 8 [31; 32; 33] [2; 1; 3] 33 3].
Proof. vm_compute. reflexivity. Qed.

(** ... and a host reporting "EAST" does not count for a quota of "east" *)
Example ex_case_variant_host_not_counted :
  launch 60 100 [H 1 101 100 []; H 2 201 100 []; H 3 102 100 []] [mkSD 8 [31; 32; 33] 9]
         (Some (mkRegions [101; 102] [2; 1])) [0; 1; 0] = Refused.
Proof. vm_compute. reflexivity. Qed.

(** the hypothesis of C08_region_names_opaque is satisfiable (a shift) and needed: a re-spelling that merges "EAST" into
    "east" (case folding) turns the plan of ex_case_variants_apart into a refusal (duplicated region) *)
Definition ex_fold (x : N) : N := if x =? 201 then 101 else x.
Example ex_keeps_apart :
  keeps_apart (fun x => x + 1000) (names_of [H 1 101 100 []; H 2 201 100 []] (Some (mkRegions [201; 101; 102] [1; 1; 1]))).
Proof. intros x y _ _ Hxy. apply (N.add_cancel_r x y 1000). exact Hxy. Qed.
Example ex_folding_is_not_a_respelling :
  launch 60 100 (map (rename_host ex_fold) [H 1 101 100 []; H 2 201 100 []; H 3 102 100 []]) [mkSD 8 [31; 32; 33] 9]
         (option_map (rename_spec ex_fold) (Some (mkRegions [201; 101; 102] [1; 1; 1]))) [0; 0; 0] = Refused.
Proof. vm_compute. reflexivity. Qed.
