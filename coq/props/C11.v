(** C11 — Only stray replicas are killed, and kill requests stop once they are gone.

    Three layers (DESIGN.md 7/C11):
    (a) replicated state, THIS FILE: which entries a report puts on DB.ShardImage.ReplicasToKill and when they
        disappear - theorems about [db_step] (DB.v), for every DB state and every report;
    (b) scheduler: the KILL requests of a round are exactly the entries of that list (props/C02.v / C12.v side,
        SchedProofs: [C11_kill_requests_are_kill_list]);
    (c) closed loop: no KILL ever names a CURRENT member ([C11_never_member], props/C01.v, part of LoopInv).

    [stray view ci]: the view knows the shard with a STRICTLY newer membership version than the replica's own
    and the replica is not a member of that membership. *)
From stdpp Require Import gmap list numbers.
From Drummer.Model Require Import DB.
From Drummer.Proofs Require Import DBProofs DBKillProofs.
Local Open Scope N_scope.

(** The kill list after a report of [a] = the entries of OTHER addresses, unchanged and in order, followed by
    one entry (shard, replica, a) for some of the replicas listed in this very report, each of which was a stray
    of the view at the moment its entry was processed. *)
Theorem C11_only_strays : forall P d r d' v,
  db_step P d (CReport r) = SOk d' v ->
  exists new, d_kill d' = filter (λ k, k_addr k ≠ rp_addr r) (d_kill d) ++
                          ((λ ci, mkKill (si_shard ci) (si_replica ci) (rp_addr r)) <$> new) /\
    Forall (λ ci, ci ∈ rp_infos r /\ exists view, stray view ci) new.
Proof. exact report_kill_list. Qed.
Print Assumptions C11_only_strays.

Theorem C11_stray_spec : forall ec ci,
  kill_required ec ci = true <-> si_cci ci < s_cci ec /\ s_reps ec !! si_replica ci = None.
Proof. exact kill_required_spec. Qed.
Print Assumptions C11_stray_spec.

(** an entry naming the reporter exists only for a replica this report lists ... *)
Theorem C11_entry_is_reported : forall P d r d' v k,
  db_step P d (CReport r) = SOk d' v -> k ∈ d_kill d' -> k_addr k = rp_addr r ->
  exists ci, ci ∈ rp_infos r /\ si_shard ci = k_shard k /\ si_replica ci = k_replica k /\ exists view, stray view ci.
Proof. exact kill_entry_of_reporter. Qed.
Print Assumptions C11_entry_is_reported.

(** ... so once a stray is no longer reported by its NodeHost, that NodeHost's next report removes its entry
    (and with (b) no further KILL is issued for it) *)
Theorem C11_stops_when_gone : forall P d r d' v s n,
  db_step P d (CReport r) = SOk d' v ->
  (forall ci, ci ∈ rp_infos r -> ~ (si_shard ci = s /\ si_replica ci = n)) ->
  mkKill s n (rp_addr r) ∉ d_kill d'.
Proof. exact not_reported_not_killed. Qed.
Print Assumptions C11_stops_when_gone.

Theorem C11_empty_report_clears : forall P d r d' v,
  db_step P d (CReport r) = SOk d' v -> rp_infos r = [] ->
  d_kill d' = filter (λ k, k_addr k ≠ rp_addr r) (d_kill d).
Proof. exact empty_report_clears. Qed.
Print Assumptions C11_empty_report_clears.

(** entries of other addresses are neither created nor dropped by a report, and no other command touches the list *)
Theorem C11_other_addresses_untouched : forall P d r d' v k,
  db_step P d (CReport r) = SOk d' v -> k ∈ d_kill d' -> k_addr k <> rp_addr r -> k ∈ d_kill d.
Proof. exact kill_entry_of_other. Qed.
Print Assumptions C11_other_addresses_untouched.

Theorem C11_only_reports_change_list : forall P d c d',
  next P d c = Some d' -> (forall r, c <> CReport r) -> d_kill d' = d_kill d.
Proof. exact other_cmds_keep_kill. Qed.
Print Assumptions C11_only_reports_change_list.

(** Exact characterisation, persistence included, for reports that list every shard at most once (a NodeHost runs at
    most one replica per shard, so every real report has this shape): after the report the entries of the reporter are
    EXACTLY the listed replicas that are strays of the DB's view ([kill_cond]: shard known with a strictly newer version,
    replica not a member; for pending / incomplete entries additionally a non-empty shard record with positive version),
    in report order - so a stray that keeps being reported keeps being listed, once. *)
Theorem C11_exact : forall P d r d' v,
  NoDup (si_shard <$> rp_infos r) ->
  db_step P d (CReport r) = SOk d' v ->
  d_kill d' = filter (λ k, k_addr k ≠ rp_addr r) (d_kill d) ++
              ((λ ci, mkKill (si_shard ci) (si_replica ci) (rp_addr r)) <$> filter (λ ci, kill_cond (d_view d) ci = true) (rp_infos r)).
Proof. exact report_kill_list_exact. Qed.
Print Assumptions C11_exact.

Theorem C11_kill_cond_is_stray : forall view ci, kill_cond view ci = true -> stray view ci.
Proof. exact kill_cond_stray. Qed.
Print Assumptions C11_kill_cond_is_stray.

(** without the one-entry-per-shard shape: persistence for the entry listed first *)
Theorem C11_persistent_head : forall P d r0 ci rest d' v,
  rp_infos r0 = ci :: rest -> db_step P d (CReport r0) = SOk d' v ->
  (exists ec, d_view d !! si_shard ci = Some ec /\ si_cci ci < s_cci ec /\ s_reps ec !! si_replica ci = None /\
              size (s_reps ec) ≠ 0%nat) ->
  mkKill (si_shard ci) (si_replica ci) (rp_addr r0) ∈ d_kill d'.
Proof. exact stray_head_persistent. Qed.
Print Assumptions C11_persistent_head.

(** Non-vacuity: view of shard 1 at version 5 with members 11,12; host 3 reports replica 13 at version 3 (removed
    member with old data): entered; reported again: still exactly one entry; host 3 reports nothing: gone. *)
Definition P0 := mkParams 60 5 24.
Definition full (a rid : N) : report := mkReport a [mkSI 1 rid false (list_to_map [(11, 1); (12, 2)]) 5 false false] [1] 0 false [] 0 0.
Definition old3 : report := mkReport 3 [mkSI 1 13 false (list_to_map [(11, 1); (12, 2); (13, 3)]) 3 false false] [1] 0 false [] 0 0.
Definition none3 : report := mkReport 3 [] [] 0 false [] 0 0.
Definition kills (cs : list cmd) : list (N * N * N) :=
  match run P0 cs with Live d => (λ k, (k_shard k, k_replica k, k_addr k)) <$> d_kill d | Dead => [(0, 0, 0)] end.
Example C11_ex :
  kills [CReport (full 1 11); CReport old3] = [(1, 13, 3)] /\
  kills [CReport (full 1 11); CReport old3; CTick; CReport old3; CReport (full 2 12); CReport old3] = [(1, 13, 3)] /\
  kills [CReport (full 1 11); CReport old3; CReport old3; CReport none3] = [].
Proof. vm_compute. repeat split. Qed.
