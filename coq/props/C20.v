(** C20 — property theorems only. *)
From Drummer.Model Require Import Base KVCodec.
From Drummer.Proofs Require Import KVCodecProofs.

Theorem C20_terminator : forall o, exists p, marshal_to o = p ++ [127].
Proof. exact marshal_to_last. Qed.
Print Assumptions C20_terminator.

(** 1. MarshalLen (when it succeeds) is exactly the number of bytes MarshalTo writes. *)
Theorem C20_len : forall sm o l, marshal_len sm o = Some l -> nlen (marshal_to o) = l.
Proof. exact marshal_len_ok. Qed.
Print Assumptions C20_len.

(** 2. MarshalBinary returns exactly the MarshalTo bytes (no padding) and never panics. *)
Theorem C20_marshal_binary_ok : forall sm o l,
  marshal_len sm o = Some l -> marshal_binary sm o = MOk (marshal_to o).
Proof. exact marshal_binary_ok. Qed.
Print Assumptions C20_marshal_binary_ok.

Theorem C20_marshal_never_crashes : forall sm o, marshal_binary sm o <> MCrash.
Proof. exact marshal_never_crashes. Qed.
Print Assumptions C20_marshal_never_crashes.

(** 3. The index-based literal transcription equals the list-consuming decoder. *)
Theorem C20_ix_ls : forall sm o data, unmarshal_ix sm o data = unmarshal_ls sm o data.
Proof. exact unmarshal_ix_ls. Qed.
Print Assumptions C20_ix_ls.

(** 4. No input makes Unmarshal / UnmarshalBinary index out of range: the bounds tests
       present in the code are sufficient (every read in [unmarshal_ix] is checked). *)
Theorem C20_no_crash : forall sm o data, snd (unmarshal_ix sm o data) <> Crash.
Proof. exact unmarshal_ix_no_crash. Qed.
Print Assumptions C20_no_crash.

Theorem C20_no_crash_binary : forall sm o data, snd (unmarshal_binary_ix sm o data) <> Crash.
Proof. exact unmarshal_binary_ix_no_crash. Qed.
Print Assumptions C20_no_crash_binary.

(** 5. The number of bytes reported as read never exceeds the input length. *)
Theorem C20_consumed_le : forall sm o data o' i,
  unmarshal_ix sm o data = (o', OkN i) -> i <= nlen data.
Proof. exact unmarshal_ix_consumed_le. Qed.
Print Assumptions C20_consumed_le.

(** 6. Round trip (strictly below the size limit). *)
Theorem C20_roundtrip : forall sm o o0 l,
  sm < 2 ^ 63 -> marshal_len sm o = Some l -> l < sm ->
  unmarshal_ix sm o0 (marshal_to o) =
  (mkKV (if nlen (key o) =? 0 then key o0 else key o)
        (if nlen (val o) =? 0 then val o0 else val o), OkN l).
Proof. exact roundtrip_ix. Qed.
Print Assumptions C20_roundtrip.

Theorem C20_roundtrip_fresh : forall sm o l,
  sm < 2 ^ 63 -> marshal_len sm o = Some l -> l < sm ->
  unmarshal_ix sm (mkKV [] []) (marshal_to o) = (o, OkN l).
Proof. exact roundtrip_fresh. Qed.
Print Assumptions C20_roundtrip_fresh.

Theorem C20_roundtrip_binary : forall sm o o0 l,
  sm < 2 ^ 63 -> marshal_len sm o = Some l -> l < sm ->
  unmarshal_binary_ix sm o0 (marshal_to o) =
  (mkKV (if nlen (key o) =? 0 then key o0 else key o)
        (if nlen (val o) =? 0 then val o0 else val o), OkN l).
Proof. exact roundtrip_binary. Qed.
Print Assumptions C20_roundtrip_binary.

Theorem C20_roundtrip_binary_fresh : forall sm o l,
  sm < 2 ^ 63 -> marshal_len sm o = Some l -> l < sm ->
  unmarshal_binary_ix sm (mkKV [] []) (marshal_to o) = (o, OkN l).
Proof. exact roundtrip_binary_fresh. Qed.
Print Assumptions C20_roundtrip_binary_fresh.

(** 6'. Unmarshal of an honest encoding followed by arbitrary bytes (stream use). *)
Theorem C20_roundtrip_suffix : forall sm o o0 l suffix,
  sm < 2 ^ 63 -> marshal_len sm o = Some l -> l < sm ->
  unmarshal_ix sm o0 (marshal_to o ++ suffix) =
  (mkKV (if nlen (key o) =? 0 then key o0 else key o)
        (if nlen (val o) =? 0 then val o0 else val o), OkN l).
Proof. exact roundtrip_ix_suffix. Qed.
Print Assumptions C20_roundtrip_suffix.

(** 7. UnmarshalBinary reports trailing bytes as ColferTail(l). *)
Theorem C20_tail : forall sm o o0 l suffix,
  sm < 2 ^ 63 -> marshal_len sm o = Some l -> l < sm -> suffix <> [] ->
  snd (unmarshal_binary_ix sm o0 (marshal_to o ++ suffix)) = Tail l.
Proof. exact tail_snd. Qed.
Print Assumptions C20_tail.

Theorem C20_tail_full : forall sm o o0 l suffix,
  sm < 2 ^ 63 -> marshal_len sm o = Some l -> l < sm -> suffix <> [] ->
  unmarshal_binary_ix sm o0 (marshal_to o ++ suffix) =
  (mkKV (if nlen (key o) =? 0 then key o0 else key o)
        (if nlen (val o) =? 0 then val o0 else val o), Tail l).
Proof. exact tail_full. Qed.
Print Assumptions C20_tail_full.

(** 8. Known open finding: the encoder accepts length == size_max, the decoder rejects it. *)
Theorem C20_boundary_refuted : exists sm o l,
  marshal_len sm o = Some l /\ l = sm /\
  snd (unmarshal_ix sm (mkKV [] []) (marshal_to o)) = Max.
Proof. exact boundary_refuted. Qed.
Print Assumptions C20_boundary_refuted.

(** Non-vacuity: the hypotheses are satisfiable on realistic values and the
    conclusions are the expected concrete ones. *)

Example ex_sm_lt : 16777216 < 2 ^ 63.
Proof. reflexivity. Qed.

Example ex_len : marshal_len 16777216 (mkKV (repeat 7 200) [3; 4]) = Some 208.
Proof. vm_compute. reflexivity. Qed.

Example ex_len_lt : 208 < 16777216.
Proof. reflexivity. Qed.

(* the 200-byte key needs a two-byte varint: 200 = 0xC8 -> [0xC8; 0x01] *)
Example ex_bytes : firstn 3 (marshal_to (mkKV (repeat 7 200) [3; 4])) = [0; 200; 1].
Proof. vm_compute. reflexivity. Qed.

Example ex_marshal_binary : marshal_binary 16777216 (mkKV (repeat 7 200) [3; 4]) = MOk (marshal_to (mkKV (repeat 7 200) [3; 4])).
Proof. vm_compute. reflexivity. Qed.

Example ex_roundtrip : unmarshal_ix 16777216 (mkKV [] []) (marshal_to (mkKV (repeat 7 200) [3; 4])) = (mkKV (repeat 7 200) [3; 4], OkN 208).
Proof. vm_compute. reflexivity. Qed.

Example ex_roundtrip_keep_old :
  unmarshal_ix 16777216 (mkKV [9] [8]) (marshal_to (mkKV [] [5])) = (mkKV [9] [5], OkN 4).
Proof. vm_compute. reflexivity. Qed.

Example ex_tail : unmarshal_binary_ix 16777216 (mkKV [] []) (marshal_to (mkKV (repeat 7 200) [3; 4]) ++ [0]) = (mkKV (repeat 7 200) [3; 4], Tail 208).
Proof. vm_compute. reflexivity. Qed.

(* encoder-side errors exist (C20_len's hypothesis is not always true) *)
Example ex_len_none : marshal_len 4 (mkKV [1; 2; 3; 4; 5] []) = None.
Proof. vm_compute. reflexivity. Qed.

Example ex_marshal_err : marshal_binary 4 (mkKV [1; 2; 3; 4; 5] []) = MErr.
Proof. vm_compute. reflexivity. Qed.

(* the decoder really has truncated / hostile inputs that end in the error paths, not in Crash *)
Example ex_truncated : snd (unmarshal_ix 16777216 (mkKV [] []) [0; 200; 1; 7; 7]) = EOF.
Proof. vm_compute. reflexivity. Qed.

Example ex_truncated_varint : snd (unmarshal_ix 16777216 (mkKV [] []) [0; 200]) = EOF.
Proof. vm_compute. reflexivity. Qed.

Example ex_huge_varint :
  snd (unmarshal_ix 16777216 (mkKV [] []) [0; 255; 255; 255; 255; 255; 255; 255; 255; 255; 255; 1; 127]) = Max.
Proof. vm_compute. reflexivity. Qed.

Example ex_bad_header : snd (unmarshal_ix 16777216 (mkKV [] []) [5; 127]) = Hdr 0.
Proof. vm_compute. reflexivity. Qed.

(* the unchecked read does crash in the model when a test is missing: [get]/[slice] are real checks *)
Example ex_get_checked : get [1; 2; 3] 3 = None /\ slice [1; 2; 3] 2 4 = None.
Proof. vm_compute. split; reflexivity. Qed.

(* boundary finding, concrete *)
Example ex_boundary :
  marshal_len 8 (mkKV [1; 2; 3; 4; 5] []) = Some 8 /\
  unmarshal_ix 8 (mkKV [] []) (marshal_to (mkKV [1; 2; 3; 4; 5] [])) = (mkKV [1; 2; 3; 4; 5] [], Max).
Proof. vm_compute. split; reflexivity. Qed.
