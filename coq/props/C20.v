(** C20 — property theorems only. *)
From Drummer.Model Require Import Base KVCodec.
From Drummer.Proofs Require Import KVCodecProofs.

Theorem C20_terminator : forall o, exists p, marshal_to o = p ++ [127].
Proof. exact marshal_to_last. Qed.
Print Assumptions C20_terminator.
