(** C18 — The NodeHost agent reports truthfully and executes requests once, in order.
    Property theorems only (model: theories/Agent.v, proofs: proofs/AgentProofs.v).

    Strength: partial.  Proved for the model: the report rules (for every local state, every
    table of versions advertised by Drummer, both values of the announce flag) and the
    request handling (for every NodeHost behaviour: the NodeHost is an arbitrary record of
    functions [nh], for every sequence of deliveries/executions and every batch; the queue also at the level of Go slices
    and backing arrays: a batch handed out is never written to by a later delivery, [C18_once_no_aliasing]).
    Not modelled (exercised by the harness only, which is testing): dragonboat itself, gRPC,
    goroutine scheduling below the granularity of one request ([C18_commute] covers every
    interleaving of whole requests; a call for shard s touching only the component s of the
    NodeHost state is the modelling assumption behind it). *)
From Drummer.Model Require Import Base Agent AgentRun.
From Drummer.Proofs Require Import AgentProofs.
From Coq Require Import Permutation.

(** * What is reported *)

(* node.go hands SendNodeHostInfo only what its assertion accepts: reporting never panics *)
Theorem C18_report_total : forall local vers flag, exists rp, build_report local vers flag = Some rp.
Proof. exact build_report_total. Qed.
Print Assumptions C18_report_total.

(* every hosted replica is listed (id list and one entry each, same order), with its local version,
   pending flag and leadership (LeaderID = ReplicaID); the host identifies itself *)
Theorem C18_lists_all : forall local vers flag rp,
  build_report local vers flag = Some rp ->
  rp_ids rp = map si_shard (nhi_shards local) /\
  map (fun r => (rs_shard r, rs_replica r, rs_cci r, rs_pending r, rs_leader r)) (rp_shards rp) =
  map (fun si => (si_shard si, si_replica si, si_cci si, si_pending si, is_leader si)) (nhi_shards local) /\
  rp_addr rp = nhi_addr local /\ rp_api rp = nhi_api local.
Proof. exact lists_all. Qed.
Print Assumptions C18_lists_all.

(* membership details are omitted (empty list + incomplete flag) iff Drummer knows the shard at a
   version >= the local one and the replica is not pending; otherwise they are the local ones *)
Theorem C18_membership_included_iff : forall local vers flag rp,
  build_report local vers flag = Some rp ->
  Forall2 (fun si r =>
     rs_shard r = si_shard si /\
     (rs_incomplete r = true <->
        (exists dv, lookup (si_shard si) vers = Some dv /\ si_cci si <= dv) /\ si_pending si = false) /\
     (rs_incomplete r = true -> rs_members r = []) /\
     (rs_incomplete r = false -> rs_members r = si_members si))
    (nhi_shards local) (rp_shards rp).
Proof. exact membership_included_iff. Qed.
Print Assumptions C18_membership_included_iff.

(* "never hides news": Drummer's version older than the local one, or shard unknown to Drummer *)
Theorem C18_membership_news_not_hidden : forall vers si,
  (lookup (si_shard si) vers = None \/ exists dv, lookup (si_shard si) vers = Some dv /\ dv < si_cci si) ->
  rs_incomplete (report_shard vers si) = false /\ rs_members (report_shard vers si) = si_members si.
Proof. exact membership_news_not_hidden. Qed.
Print Assumptions C18_membership_news_not_hidden.

(* persisted-log information is included exactly when announced *)
Theorem C18_plog_iff : forall local vers flag rp,
  build_report local vers flag = Some rp ->
  rp_plog_flag rp = flag /\ rp_plog rp = (if flag then nhi_logs local else []).
Proof. exact plog_iff. Qed.
Print Assumptions C18_plog_iff.

(* ... and SendNodeHostInfo itself refuses (Go panic) log information that was not announced *)
Theorem C18_plog_assert : forall nhi vers flag,
  send_report nhi vers flag = None <-> flag = false /\ nhi_logs nhi <> [].
Proof. exact send_report_none_iff. Qed.
Print Assumptions C18_plog_assert.

(* fail-over (node.go tries its Drummer servers one after the other with the SAME NodeHostInfo): every server contacted -
   the i-th one, as long as no earlier one accepted - receives the report built from the unchanged local information and from
   its OWN advertised versions, so all the clauses above hold for it whatever was sent to the servers tried before; after the
   first server that accepted nobody else is contacted, and when nobody accepts all are tried *)
Theorem C18_failover_truthful : forall local flag servers i vers m,
  nth_error servers i = Some (vers, m) ->
  no_accept_before servers i ->
  nth_error (report_round local flag servers) i =
  Some (match m with MFailIndex => None | _ => build_report local vers flag end).
Proof. exact report_round_nth. Qed.
Print Assumptions C18_failover_truthful.

Theorem C18_failover_extent : forall local flag servers,
  (forall i vers, nth_error servers i = Some (vers, MAccept) -> no_accept_before servers i ->
     length (report_round local flag servers) = S i) /\
  ((forall v m, In (v, m) servers -> m <> MAccept) -> length (report_round local flag servers) = length servers).
Proof. intros local flag servers. split; [intros i vers; apply report_round_stops|apply report_round_all]. Qed.
Print Assumptions C18_failover_extent.

(** * Executed at most once *)

(* over any sequence of deliveries (Recv) and HandleMasterRequests (Exec): the batches handed to the
   workers followed by what is still queued are exactly the requests received, in order of receipt --
   none lost, none duplicated *)
Theorem C18_once : forall evs a a' bs,
  run_evs a evs = (a', bs) -> concat bs ++ queue a' = queue a ++ received evs.
Proof. exact run_evs_conservation. Qed.
Print Assumptions C18_once.

(* ... also at the level of the Go slices the queue is made of (append writes in place when the capacity allows, getRequests
   hands out the queue's slice itself and installs a new empty one; [slack]: whatever the allocator adds to a new capacity):
   after ANY history of deliveries and executions, every batch handed to the workers earlier - read through the FINAL heap -
   is exactly the batch of [run_evs], and the queue holds exactly what [run_evs] says.  In particular a delivery made by the
   reporter while a batch is still being worked on cannot change that batch. *)
Theorem C18_once_no_aliasing : forall slack evs a' bs ha' sls,
  run_evs (mkAgent []) evs = (a', bs) ->
  h_run h_take slack h_init evs = (ha', sls) ->
  map (view (ha_heap ha')) sls = bs /\ view (ha_heap ha') (ha_queue ha') = queue a'.
Proof. exact h_run_refines. Qed.
Print Assumptions C18_once_no_aliasing.

(* within one execution: one worker per shard id, and the workers' inputs are a partition of the batch *)
Theorem C18_once_partition : forall b,
  NoDup (shard_ids b) /\ Permutation (flat_map (fun s => sub_batch s b) (shard_ids b)) b.
Proof. exact workers_partition. Qed.
Print Assumptions C18_once_partition.

(* a worker takes one decision per request, in order, until the process dies; its calls are exactly
   the calls of those decisions *)
Theorem C18_once_decisions : forall St (nh : nodehost St) rqs st,
  let '(_, ev, o) := run_shard nh st rqs in
  ev = concat (map snd (worker_log nh st rqs)) /\
  (exists rest, rqs = map (fun x => fst (fst x)) (worker_log nh st rqs) ++ rest /\ (o = Done -> rest = [])).
Proof. exact @worker_log_spec. Qed.
Print Assumptions C18_once_decisions.

(* a second HandleMasterRequests without a delivery in between does nothing *)
Theorem C18_once_second_execute : forall St (nh : nodehost St) a g,
  let '(a', g', _) := execute nh a g in
  let '(a'', g'', res) := execute nh a' g' in
  queue a'' = [] /\ res = [] /\ forall s, g'' s = g' s.
Proof. exact @execute_twice. Qed.
Print Assumptions C18_once_second_execute.

(** * In order, per shard *)

Theorem C18_execute_spec : forall St (nh : nodehost St) a g,
  let '(a', g', res) := execute nh a g in
  queue a' = [] /\
  (forall s, g' s = fst (fst (run_shard nh (g s) (sub_batch s (queue a))))) /\
  map (fun x => fst (fst x)) res = shard_ids (queue a) /\
  (forall s ev o, In (s, ev, o) res ->
     exists st', run_shard nh (g s) (sub_batch s (queue a)) = (st', ev, o)).
Proof. exact @execute_spec. Qed.
Print Assumptions C18_execute_spec.

(* for every split l1 ++ l2 of the batch, the worker of shard s performs the calls of its requests in
   l1 and then, from the state reached and unless the process died, those of its requests in l2 *)
Theorem C18_order : forall St (nh : nodehost St) (g : N -> St) l1 l2 s,
  run_shard nh (g s) (sub_batch s (l1 ++ l2)) =
  continue nh (run_shard nh (g s) (sub_batch s l1)) (sub_batch s l2).
Proof. exact @order. Qed.
Print Assumptions C18_order.

(* every call a worker makes is a call for its own shard *)
Theorem C18_calls_own_shard : forall St (nh : nodehost St) s rqs st,
  (forall rq, In rq rqs -> q_shard rq = s) ->
  Forall (fun e => event_shard e = s) (snd (fst (run_shard nh st rqs))).
Proof. exact @run_shard_events_shard. Qed.
Print Assumptions C18_calls_own_shard.

(** * Cross-shard commutation *)

(* whatever order l the requests of batch b are picked up in -- as long as every shard's own order is
   kept -- every shard ends in the state, with the calls and the outcome, that its worker computes *)
Theorem C18_commute : forall St (nh : nodehost St) (g : N -> St) b l s,
  (forall s', sub_batch s' l = sub_batch s' b) ->
  run_seq nh (winit g) l s = run_shard nh (g s) (sub_batch s b).
Proof. exact @interleaving_irrelevant. Qed.
Print Assumptions C18_commute.

Theorem C18_shards_independent : forall St (nh : nodehost St) (g g' : N -> St) b b' s,
  g s = g' s -> sub_batch s b = sub_batch s b' ->
  run_shard nh (g s) (sub_batch s b) = run_shard nh (g' s) (sub_batch s b').
Proof. exact @shards_independent. Qed.
Print Assumptions C18_shards_independent.

(** * With the intended effect: the decision table *)

(* launch: refused (fail-stop) when node info exists; otherwise StartReplica(members, join=false) with
   ordered config changes, members = the address list zipped with the replica id list *)
Theorem C18_effect_launch : forall hi rq,
  q_type rq = TCreate -> q_join rq = false -> q_restore rq = false ->
  decide hi rq =
  if hi then DPanic
  else match build_peers (q_ids rq) (q_addrs rq) [], plugin (q_app rq) with
       | Some peers, Some k => DStart (mkStart k peers false (q_shard rq) (q_inst rq) (q_cfg rq) true true)
       | _, _ => DPanic
       end.
Proof. exact effect_launch. Qed.
Print Assumptions C18_effect_launch.

Theorem C18_effect_launch_peers : forall addrs ids acc,
  (build_peers ids addrs acc = None <-> (length ids < length addrs)%nat) /\
  (forall peers k, build_peers ids addrs acc = Some peers ->
     lookup k peers = last_binding k ids addrs (lookup k acc)).
Proof. intros addrs ids acc. split; [apply build_peers_none_iff|intros peers k; apply build_peers_lookup]. Qed.
Print Assumptions C18_effect_launch_peers.

(* join (repair): StartReplica(no members, join=true), whether or not node info exists *)
Theorem C18_effect_join : forall hi rq,
  q_type rq = TCreate -> q_join rq = true -> q_restore rq = false ->
  decide hi rq =
  match plugin (q_app rq) with
  | Some k => DStart (mkStart k [] true (q_shard rq) (q_inst rq) (q_cfg rq) true true)
  | None => DPanic
  end.
Proof. exact effect_join. Qed.
Print Assumptions C18_effect_join.

(* restore: only where node info exists: StartReplica(no members, join=false); else nothing at all *)
Theorem C18_effect_restore : forall hi rq,
  q_type rq = TCreate -> q_join rq = false -> q_restore rq = true ->
  decide hi rq =
  if hi then match plugin (q_app rq) with
             | Some k => DStart (mkStart k [] false (q_shard rq) (q_inst rq) (q_cfg rq) true true)
             | None => DPanic
             end
  else DIgnore.
Proof. exact effect_restore. Qed.
Print Assumptions C18_effect_restore.

(* join and restore requests carry the shard's CURRENT member list (Drummer composes every CREATE request alike); the agent's
   decision does not depend on it - nor on Change.Members: the replica is started from its own bootstrap record *)
Theorem C18_effect_join_restore_lists_irrelevant : forall hi s m c i j r app ids addrs cfg m' ids' addrs',
  j = true \/ r = true ->
  decide hi (mkReq TCreate s m c i j r app ids addrs cfg) = decide hi (mkReq TCreate s m' c i j r app ids' addrs' cfg).
Proof. exact create_lists_irrelevant. Qed.
Print Assumptions C18_effect_join_restore_lists_irrelevant.

Theorem C18_effect_join_restore : forall hi rq,
  q_type rq = TCreate -> q_join rq = true -> q_restore rq = true -> decide hi rq = DPanic.
Proof. exact effect_join_restore. Qed.
Print Assumptions C18_effect_join_restore.

(* add / delete: one ordered config change for the first listed member, fenced by the request's
   ConfChangeId, handed over unchanged *)
Theorem C18_effect_add : forall hi rq r ms url us,
  q_type rq = TAdd -> q_members rq = r :: ms -> q_addrs rq = url :: us ->
  decide hi rq = DChange (mkChange true (q_shard rq) r url (q_ccid rq)).
Proof. exact effect_add. Qed.
Print Assumptions C18_effect_add.

Theorem C18_effect_delete : forall hi rq r ms,
  q_type rq = TDelete -> q_members rq = r :: ms ->
  decide hi rq = DChange (mkChange false (q_shard rq) r 0 (q_ccid rq)).
Proof. exact effect_delete. Qed.
Print Assumptions C18_effect_delete.

Theorem C18_effect_kill : forall hi rq r ms,
  q_type rq = TKill -> q_members rq = r :: ms -> decide hi rq = DKill (q_shard rq) r.
Proof. exact effect_kill. Qed.
Print Assumptions C18_effect_kill.

(* what the decisions do: exactly one StartReplica; exactly one config change request, followed by
   RemoveData iff it was a delete that completed; StopReplica, followed by RemoveData iff it worked;
   nothing for an ignored or refused request *)
Theorem C18_effect_start : forall St (nh : nodehost St) st a,
  exists st' r, nh_start nh st a = (st', r) /\
  perform nh st (DStart a) = (st', [EStart a r], match r with SPanic => Panicked | _ => Done end).
Proof. exact @perform_start. Qed.
Print Assumptions C18_effect_start.

Theorem C18_effect_change : forall St (nh : nodehost St) st a,
  exists st1 r, nh_change nh st a = (st1, r) /\
  let '(st', ev, o) := perform nh st (DChange a) in
  match r with
  | ChCompleted =>
    if ca_add a then st' = st1 /\ ev = [EChange a r] /\ o = Done
    else exists ok, nh_remove nh st1 (ca_shard a) (ca_replica a) = (st', ok) /\
                    ev = [EChange a r; ERemove (ca_shard a) (ca_replica a) ok] /\
                    o = (if ok then Done else Panicked)
  | ChFatal | ChUnknownCode => st' = st1 /\ ev = [EChange a r] /\ o = Panicked
  | _ => st' = st1 /\ ev = [EChange a r] /\ o = Done
  end.
Proof. exact @perform_change. Qed.
Print Assumptions C18_effect_change.

Theorem C18_effect_kill_calls : forall St (nh : nodehost St) st s r,
  exists st1 ok, nh_stop nh st s r = (st1, ok) /\
  let '(st', ev, o) := perform nh st (DKill s r) in
  if ok then exists ok', nh_remove nh st1 s r = (st', ok') /\
                         ev = [EStop s r true; ERemove s r ok'] /\ o = (if ok' then Done else Panicked)
  else st' = st1 /\ ev = [EStop s r false] /\ o = Done.
Proof. exact @perform_kill. Qed.
Print Assumptions C18_effect_kill_calls.

Theorem C18_effect_nothing : forall St (nh : nodehost St) st,
  perform nh st DIgnore = (st, [], Done) /\ perform nh st DPanic = (st, [], Panicked).
Proof. exact @perform_nothing. Qed.
Print Assumptions C18_effect_nothing.

(** * Non-vacuity: concrete instances (closed by computation) *)

Definition ex_cfg := mkCfg 10 1 false 0 0 0.
(* a host with replica 1 of shard 1 (leader, version 3, two members), a pending replica of shard 2 and
   a lagging replica of shard 3; Drummer advertises shard 1 at 3, shard 2 at 9, shard 3 at 1, not shard 4 *)
Definition ex_local := mkNHI 100 200
  [mkSI 1 1 1 [(1, 100); (2, 101)] 3 false; mkSI 2 5 0 [] 0 true; mkSI 3 7 8 [(7, 100); (8, 101)] 2 false;
   mkSI 4 9 9 [(9, 100)] 1 false]
  [(1, 1); (2, 5); (3, 7); (4, 9); (6, 6)].
Definition ex_vers := [(1, 3); (2, 9); (3, 1)].

Example ex_report_announced :
  build_report ex_local ex_vers true =
  Some (mkRep 100 200 [1; 2; 3; 4]
          [mkRS 1 1 true [] 3 true false;                       (* Drummer is up to date: omitted *)
           mkRS 2 5 false [] 0 false true;                      (* pending: never marked incomplete *)
           mkRS 3 7 false [(7, 100); (8, 101)] 2 false false;   (* Drummer is behind: included *)
           mkRS 4 9 true [(9, 100)] 1 false false]              (* unknown to Drummer: included *)
          true [(1, 1); (2, 5); (3, 7); (4, 9); (6, 6)] default_region).
Proof. vm_compute. reflexivity. Qed.

Example ex_report_not_announced :
  option_map rp_plog (build_report ex_local ex_vers false) = Some [] /\
  send_report ex_local ex_vers false = None.
Proof. vm_compute. split; reflexivity. Qed.

(* a batch mixing three shards and all kinds, run on the reference NodeHost of AgentRun.v:
   shard 1 is a running single member group (version 1), nothing else exists *)
Definition ex_req t s m c i j r ids addrs := mkReq t s m c i j r 0 ids addrs ex_cfg.
Definition ex_host : host :=
  [(1, fst (ref_start sh_empty (mkStart Regular [(1, 100)] false 1 1 ex_cfg true true)))].
Definition ex_batch :=
  [ex_req TAdd 1 [2] 1 0 false false [] [101];          (* fence = version: applied *)
   ex_req TCreate 2 [] 0 5 false false [5] [100];       (* launch shard 2 *)
   ex_req TAdd 1 [3] 1 0 false false [] [102];          (* stale fence, and no quorum any more *)
   ex_req TKill 2 [5] 0 0 false false [] [];            (* kill what was just launched *)
   ex_req TCreate 3 [] 0 4 false true [] []].           (* restore without node info: ignored *)

Example ex_execute :
  exec_calls ex_host ex_batch =
  [(1, [EChange (mkChange true 1 2 101 1) ChCompleted; EChange (mkChange true 1 3 102 1) ChCtxDone], Done);
   (2, [EStart (mkStart Regular [(5, 100)] false 2 5 ex_cfg true true) SOk; EStop 2 5 true; ERemove 2 5 true], Done);
   (3, [], Done)].
Proof. vm_compute. reflexivity. Qed.

(* the hypotheses of C18_commute are met by a genuinely different pick-up order *)
Example ex_commute_hyp :
  let l := [nth 1 ex_batch (ex_req TUnknown 0 [] 0 0 false false [] []);
            nth 4 ex_batch (ex_req TUnknown 0 [] 0 0 false false [] []);
            nth 0 ex_batch (ex_req TUnknown 0 [] 0 0 false false [] []);
            nth 3 ex_batch (ex_req TUnknown 0 [] 0 0 false false [] []);
            nth 2 ex_batch (ex_req TUnknown 0 [] 0 0 false false [] [])] in
  l <> ex_batch /\ forall s', sub_batch s' l = sub_batch s' ex_batch.
Proof.
  cbn zeta. split; [intros H; inversion H|].
  intros s'. cbv [sub_batch ex_batch nth filter q_shard ex_req].
  destruct (N.eqb_spec 1 s') as [E1|E1]; destruct (N.eqb_spec 2 s') as [E2|E2];
    destruct (N.eqb_spec 3 s') as [E3|E3]; try reflexivity; exfalso; congruence.
Qed.

(* launch on top of existing node info is refused, and stops that shard's worker *)
Example ex_launch_with_info :
  exec_calls ex_host [ex_req TCreate 1 [] 0 1 false false [1] [100]; ex_req TKill 1 [1] 0 0 false false [] []] =
  [(1, [], Panicked)].
Proof. vm_compute. reflexivity. Qed.

(* deliveries and executions: two deliveries, one execution, a delivery, two executions *)
Example ex_once :
  let r1 := ex_req TKill 1 [1] 0 0 false false [] [] in
  let r2 := ex_req TKill 2 [1] 0 0 false false [] [] in
  let r3 := ex_req TKill 3 [1] 0 0 false false [] [] in
  snd (run_evs (mkAgent []) [Recv [r1]; Recv [r2]; Exec; Recv [r3]; Exec; Exec]) = [[r1; r2]; [r3]; []].
Proof. vm_compute. reflexivity. Qed.

(* a delivery while a batch is being worked on (Exec = the batch is handed out; the Recv after it arrives while the workers
   still read it): the slice handed out keeps its content ... *)
Example ex_overlap_fresh :
  let r1 := ex_req TAdd 1 [3] 1 0 false false [] [102] in
  let r2 := ex_req TKill 1 [1] 0 0 false false [] [] in
  let r3 := ex_req TCreate 2 [] 0 5 false false [5] [100] in
  let r4 := ex_req TCreate 3 [] 0 5 false false [5] [100] in
  let '(ha, sls) := h_run h_take (fun _ => 0%nat) h_init [Recv [r1; r2]; Exec; Recv [r3; r4]] in
  map (view (ha_heap ha)) sls = [[r1; r2]] /\ view (ha_heap ha) (ha_queue ha) = [r3; r4].
Proof. vm_compute. split; reflexivity. Qed.

(* ... whereas with a queue that recycles its buffer (queue = queue[:0]) the same history overwrites the batch in progress:
   the kill r2, received first and not yet executed, is gone.  [C18_once_no_aliasing] does not hold for [h_take_reuse]. *)
Example ex_overlap_reuse :
  let r1 := ex_req TAdd 1 [3] 1 0 false false [] [102] in
  let r2 := ex_req TKill 1 [1] 0 0 false false [] [] in
  let r3 := ex_req TCreate 2 [] 0 5 false false [5] [100] in
  let r4 := ex_req TCreate 3 [] 0 5 false false [5] [100] in
  let '(ha, sls) := h_run h_take_reuse (fun _ => 0%nat) h_init [Recv [r1; r2]; Exec; Recv [r3; r4]] in
  map (view (ha_heap ha)) sls = [[r3; r4]].
Proof. vm_compute. reflexivity. Qed.

(* a restore request with the member list Drummer knows now (a member was added since the launch) is decided like one
   without: start from the bootstrap record; on the reference NodeHost the replica launched alone runs again *)
Example ex_restore_current_members :
  let h := [(1, fst (ref_stop (fst (ref_start sh_empty (mkStart Regular [(1, 100)] false 1 1 ex_cfg true true))) 1 1))] in
  exec_calls h [mkReq TCreate 1 [1; 2] 0 1 false true 0 [1; 2] [100; 101] ex_cfg] =
  [(1, [EStart (mkStart Regular [] false 1 1 ex_cfg true true) SOk], Done)].
Proof. vm_compute. reflexivity. Qed.

(* fail-over: the first server knows shard 1 at the local version and fails the report call, the second one does not know the
   shard: it gets the full membership *)
Example ex_failover :
  map (option_map (fun rp => map (fun r => (rs_incomplete r, rs_members r)) (rp_shards rp)))
      (report_round (mkNHI 100 200 [mkSI 1 1 1 [(1, 100); (2, 101)] 3 false] []) false
                    [([(1, 3)], MFailReport); ([], MAccept); ([(1, 9)], MAccept)]) =
  [Some [(true, [])]; Some [(false, [(1, 100); (2, 101)])]].
Proof. vm_compute. reflexivity. Qed.
