(** C02 — Membership changes are justified by the view and fenced by its version
    (the per-round part; the closed-loop consequences are stated on top of these).
    Also: the scheduler half of C11 (KILL requests = the replicated kill list).
    Property theorems only; model coq/theories/Sched.v, proofs coq/proofs/SchedProofs.v.

    Every theorem is about EVERY scheduler context [C], EVERY parameter record [P] and
    EVERY batch [b] that [Drummer.maintainShards] may return in that context for some Go
    map iteration order and some random source ([allowed P C (OBatch b) = true]).
    [ctx_wf C]: map keys agree with the id fields stored in the values (DB invariant). *)
From stdpp Require Import gmap list numbers.
From Drummer.Model Require Import DB Sched SchedRun.
From Drummer.Proofs Require Import SchedProofs SchedTotal SchedExamples DBHostsProofs.
Local Open Scope N_scope.

(** 1. A DELETE removes exactly one replica, a member of the view classified failed (not
       reported by its NodeHost for longer than the timeout, or never reported and never
       announced), of a shard with a healthy majority. *)
Theorem C02_delete_justified : ∀ P C b q,
  ctx_wf C → allowed P C (OBatch b) = true → q ∈ b → is_delete q = true →
  ∃ c id n, c_view C !! q_shard q = Some c ∧ q_members q = [id] ∧ s_reps c !! id = Some n ∧
            replica_failed P n (c_tick C) = true ∧ shard_available P c (c_tick C) = true.
Proof. exact sched_delete_justified. Qed.
Print Assumptions C02_delete_justified.

(** 2. An ADD is issued only for a shard with a healthy majority, no member waiting to
       start and a failed member; it names exactly one new replica id, which is non-zero
       and - under the explicit hypothesis [fresh_id] on the random source - not a
       member; the target is a known NodeHost that reported less than the timeout ago and
       is not known to host a replica of the shard. *)
Theorem C02_add_justified : ∀ P C b q,
  ctx_wf C → allowed P C (OBatch b) = true → q ∈ b → is_add q = true →
  ∃ c h id, c_view C !! q_shard q = Some c ∧
            shard_available P c (c_tick C) = true ∧
            waiting_replicas P c (c_tick C) = [] ∧
            failed_replicas P c (c_tick C) ≠ [] ∧
            q_members q = [id] ∧ id ≠ 0 ∧ (fresh_id C q → s_reps c !! id = None) ∧
            q_addrs q = [h_addr h] ∧ c_hosts C !! h_addr h = Some h ∧
            c_tick C - h_tick h < p_ttl P ∧ q_shard q ∉ h_shards h.
Proof. exact sched_add_justified. Qed.
Print Assumptions C02_add_justified.

(** 2'. With the DB's syncShardInfo invariant ([hosts_synced]: the record of a NodeHost
        that runs a member of the view lists that shard) the target of an ADD is not
        the NodeHost of any current member: two members never share a NodeHost. *)
Theorem C02_add_no_colocation : ∀ P C b q c n,
  ctx_wf C → hosts_synced C → allowed P C (OBatch b) = true → q ∈ b → is_add q = true →
  c_view C !! q_shard q = Some c → n ∈ mvals (s_reps c) → q_addrs q ≠ [r_addr n].
Proof. exact sched_add_no_colocation. Qed.
Print Assumptions C02_add_no_colocation.

(** 2''. The two hypotheses are invariants of the replicated DB: in EVERY DB state reachable by ANY
         command sequence the scheduler context is well formed and [hosts_synced] holds (syncShardInfo
         runs after the NodeHost record was overwritten with the report's own shard list, on every report).
         Hence, closed over the DB: whatever batch the scheduler may compute from a reachable DB state, the
         target of an ADD is not the NodeHost of any member of that shard's view. *)
Theorem C02_db_context_wf : ∀ P cs d, run P cs = Live d → ctx_wf (ctx_of_db d).
Proof. exact run_ctx_wf. Qed.
Print Assumptions C02_db_context_wf.

Theorem C02_db_hosts_synced : ∀ P cs d, run P cs = Live d → hosts_synced (ctx_of_db d).
Proof. exact run_hosts_synced. Qed.
Print Assumptions C02_db_hosts_synced.

Theorem C02_no_colocation_reachable : ∀ P cs d b q c n,
  run P cs = Live d → allowed P (ctx_of_db d) (OBatch b) = true → q ∈ b → is_add q = true →
  d_view d !! q_shard q = Some c → n ∈ mvals (s_reps c) → q_addrs q ≠ [r_addr n].
Proof. exact reachable_add_no_colocation. Qed.
Print Assumptions C02_no_colocation_reachable.

(** 3. Every ADD / DELETE carries the membership version of the view it was computed
       from and is addressed to the NodeHost of a healthy member. *)
Theorem C02_fenced : ∀ P C b q,
  ctx_wf C → allowed P C (OBatch b) = true → q ∈ b → is_change q = true →
  ∃ c id m, c_view C !! q_shard q = Some c ∧ q_ccid q = s_cci c ∧
            s_reps c !! id = Some m ∧ replica_ok P m (c_tick C) = true ∧ q_raft q = r_addr m.
Proof. exact sched_fenced. Qed.
Print Assumptions C02_fenced.

(** 4. At most one membership change per shard per round, none for a restored shard. *)
Theorem C02_one_change_per_round : ∀ P C b s,
  allowed P C (OBatch b) = true → (changes_for s b ≤ 1)%nat.
Proof. exact sched_one_change. Qed.
Print Assumptions C02_one_change_per_round.

Theorem C02_no_change_for_restored : ∀ P C b q,
  allowed P C (OBatch b) = true → q ∈ b → is_restore q = true → changes_for (q_shard q) b = 0%nat.
Proof. exact sched_no_change_restored. Qed.
Print Assumptions C02_no_change_for_restored.

(** 5. DELETE is tested before ADD: an ADD is issued only when failed + healthy members do
       not exceed the defined shard size, so (no member is waiting) the view has at most
       the defined size before the ADD and at most one surplus member after it; a DELETE
       only when they exceed it. *)
Theorem C02_add_size : ∀ P C b q,
  ctx_wf C → allowed P C (OBatch b) = true → q ∈ b → is_add q = true →
  ∃ c sd, c_view C !! q_shard q = Some c ∧ c_defs C !! q_shard q = Some sd ∧
          (length (failed_replicas P c (c_tick C)) + length (ok_replicas P c (c_tick C)) ≤ length (sd_members sd))%nat ∧
          (size (s_reps c) ≤ length (sd_members sd))%nat.
Proof. exact sched_add_size. Qed.
Print Assumptions C02_add_size.

Theorem C02_delete_size : ∀ P C b q,
  ctx_wf C → allowed P C (OBatch b) = true → q ∈ b → is_delete q = true →
  ∃ c sd, c_view C !! q_shard q = Some c ∧ c_defs C !! q_shard q = Some sd ∧
          (length (sd_members sd) < length (failed_replicas P c (c_tick C)) + length (ok_replicas P c (c_tick C)))%nat.
Proof. exact sched_delete_size. Qed.
Print Assumptions C02_delete_size.

(** C11, scheduler half: in every allowed batch the KILL requests are exactly - one per
    entry, same order, address = the entry's address - the context's kill list, they come
    last, and there is no other KILL. *)
Theorem C11_sched_kills_exact : ∀ P C b,
  allowed P C (OBatch b) = true →
  ∃ pre, b = pre ++ (kill_req <$> c_kill C) ∧ Forall (λ q, is_kill q = false) pre.
Proof. exact sched_kills_exact. Qed.
Print Assumptions C11_sched_kills_exact.

Theorem C11_sched_kills_filter : ∀ P C b,
  allowed P C (OBatch b) = true → filter (λ q, is_kill q = true) b = kill_req <$> c_kill C.
Proof. exact sched_kills_filter. Qed.
Print Assumptions C11_sched_kills_filter.

(** The set of allowed outcomes is never empty: in every well-formed context the canonical
    outcome [canon] (first candidates in map order, new id for shard s = idf s) is allowed,
    so "every allowed batch" is not a vacuous quantification in any context. *)
Theorem C02_allowed_set_nonempty : ∀ P C idf, ctx_wf C → allowed P C (canon P C idf) = true.
Proof. exact allowed_canon. Qed.
Print Assumptions C02_allowed_set_nonempty.

(** Non-vacuity. *)
Example C02_nonvacuous_add :
  ctx_wf Actx ∧ hosts_synced Actx ∧ allowed P0 Actx (OBatch Ab) = true ∧ Aq ∈ Ab ∧ is_add Aq = true ∧
  is_change Aq = true ∧ fresh_id Actx Aq.
Proof. exact A_nonvacuous. Qed.
Example C02_nonvacuous_delete :
  ctx_wf Dctx ∧ allowed P0 Dctx (OBatch Db) = true ∧ Dq ∈ Db ∧ is_delete Dq = true ∧ is_change Dq = true.
Proof. exact D_nonvacuous. Qed.

(** Reading note: "whose NodeHost has been silent longer than the timeout" is the replica
    class (the NodeHost has not reported THAT replica), not the host record: here the only
    failed member lives on a NodeHost that reported at the current tick, and the ADD that
    replaces it is allowed (and is what the real scheduler issues). *)
Example C02_reading_note_failed_replica_on_reporting_host :
  allowed P0 Actx (OBatch Ab) = true ∧ Aq ∈ Ab ∧ is_add Aq = true ∧
  ∃ n h, s_reps Ac !! 3 = Some n ∧ replica_failed P0 n (c_tick Actx) = true ∧
         failed_replicas P0 Ac (c_tick Actx) = [n] ∧
         c_hosts Actx !! r_addr n = Some h ∧ h_tick h = c_tick Actx.
Proof. exact A_reading_note. Qed.

(** What the hypotheses exclude / what the decision procedure rejects. *)
Example C02_id_collision_is_not_excluded_by_the_code :
  allowed P0 Actx (OBatch (REQ 2 1 [2] 5 [] [15] 0 12 false false 0 :: tail Ab)) = true.
Proof. exact A_collision_allowed. Qed.
Example C02_zero_id_panics :
  allowed P0 Actx (OBatch (REQ 2 1 [0] 5 [] [15] 0 12 false false 0 :: tail Ab)) = false ∧
  allowed P0 Actx OCrash = true.
Proof. exact A_zero_id_crashes. Qed.
Example C02_rejects_wrong_fence_recipient_target_and_kill_list :
  allowed P0 Actx (OBatch (REQ 2 1 [77] 4 [] [15] 0 12 false false 0 :: tail Ab)) = false ∧
  allowed P0 Actx (OBatch (REQ 2 1 [77] 5 [] [15] 0 13 false false 0 :: tail Ab)) = false ∧
  allowed P0 Actx (OBatch (REQ 2 1 [77] 5 [] [17] 0 12 false false 0 :: tail Ab)) = false ∧
  allowed P0 Actx (OBatch (REQ 2 1 [77] 5 [] [14] 0 12 false false 0 :: tail Ab)) = false ∧
  allowed P0 Actx (OBatch (REQ 2 1 [77] 5 [] [16] 0 12 false false 0 :: tail Ab)) = false ∧
  allowed P0 Actx (OBatch (tail Ab)) = false ∧
  allowed P0 Actx (OBatch [Aq]) = false.
Proof. exact A_rejects. Qed.

(** Round 4 notes.  (a) [C02_fenced] is about EVERY context, whatever leader flags its view carries: a change is
    addressed to the NodeHost of a HEALTHY member.  A leader flag left on a failed member whose NodeHost keeps
    reporting (nobody else claimed leadership since) does not make that NodeHost a recipient. *)
Definition Lctx : sctx := CTX 100 [mkSD 1 [1;2;3] 7]
  [SH 1 5 [REP 1 1 11 100 10; REP 1 2 12 40 10; mkReplica 1 3 13 true 10 10]]
  [HOST 11 1 100 [] [1]; HOST 12 1 100 [] [1]; HOST 13 1 100 [(1,4)] [1]; HOST 15 1 100 [] []] [].
Example C02_stale_leader_flag_is_no_recipient :
  bool_decide (ctx_wf Lctx) = true ∧
  allowed P0 Lctx (OBatch [REQ 2 1 [77] 5 [] [15] 0 13 false false 0]) = false ∧
  allowed P0 Lctx (OBatch [REQ 2 1 [77] 5 [] [15] 0 11 false false 0]) = true ∧
  allowed P0 Lctx (OBatch [REQ 2 1 [77] 5 [] [15] 0 12 false false 0]) = true.
Proof. vm_compute. repeat split; reflexivity. Qed.
(** (b) [C02_db_hosts_synced] holds whatever a NodeHost's ShardIdList names: NodeHost 3 runs member 12 of shard 1
    (view) and then reports a list of three shard ids the view does not know, without shard 1 - as long as the
    number of managed shards and longer: its record still lists shard 1. *)
Definition Fmem : gmap N N := list_to_map [(10,1);(11,2);(12,3)].
Definition Frep (a rid : N) (ids : list N) : cmd := CReport (mkReport a [mkSI 1 rid false Fmem 1 false false] ids 0 false [] 0 0).
Definition Fidle (a : N) (ids : list N) : cmd := CReport (mkReport a [] ids 0 false [] 0 0).
Definition Ftr : list cmd := [CTick; Frep 1 10 [1]; Frep 2 11 [1]; Frep 3 12 [1]; CTick; Fidle 3 [900; 901; 902]].
Example C02_foreign_shard_ids_do_not_hide_a_member :
  ((λ h, bool_decide (1 ∈ h_shards h ∧ 900 ∈ h_shards h ∧ size (h_shards h) = 4%nat)) <$>
     (match run P0 Ftr with Live d => d_hosts d !! 3 | Dead => None end)) = Some true.
Proof. vm_compute. reflexivity. Qed.
