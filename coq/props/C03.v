(** C03 — Drummer DB replicas are deterministic and snapshot-equivalent.     (strength: PARTIAL)

    What is a theorem here and what is not (DESIGN.md section 7/C03):
    * In the model a replica is the pure function [ostep] (DBSnap.v) over the state record [db]; all
      Go maps are std++ [gmap]s whose operations do not depend on an iteration order.  "Two replicas
      that apply the same commands agree" is therefore true of the model by construction; it is stated
      below as [C03_replicas_agree] only to make the full property visible.  That the GO code is such a
      function (no map-order, aliasing, time or randomness dependence, and a JSON snapshot that loses
      nothing) is decided by the correspondence check of this property: every trace runs on two fresh
      replicas and on replicas restored from a snapshot at generated prefixes, every result, hash and
      answer is compared between replicas and with the model.
    * Proved below, for ALL command/query sequences: a replica restored from a snapshot into ANY live
      receiver is observationally identical to its source from then on ([C03_snapshot_equivalent]):
      [recover] copies every field; queries are pure; both kinds of fail-stop are absorbing and occur at
      a position determined by the command list alone. *)
From stdpp Require Import gmap list numbers.
From Drummer.Model Require Import DB DBRun DBSnap.
From Drummer.Proofs Require Import DBProofs DBSnapProofs.
Local Open Scope N_scope.

(** the full determinism statement (holds by construction, see above) *)
Theorem C03_replicas_agree : forall P os s1 s2, s1 = s2 ->
  observe P s1 os = observe P s2 os /\ final P s1 os = final P s2 os.
Proof. intros P os s1 s2 ->. split; reflexivity. Qed.
Print Assumptions C03_replicas_agree.

(** snapshot taken by one replica after ANY prefix, installed into ANY live replica: same results,
    same answers, same final state for every continuation *)
Theorem C03_snapshot_equivalent : forall P d0 os1 os2 d s d1,
  final P (Live db_init) os1 = Live d -> snapshot d = Some s -> recover d0 s = Some d1 ->
  observe P (Live d1) os2 = observe P (final P (Live db_init) os1) os2 /\
  final P (Live d1) os2 = final P (Live db_init) (os1 ++ os2).
Proof. exact snapshot_bisim. Qed.
Print Assumptions C03_snapshot_equivalent.

Theorem C03_recover_snapshot : forall d0 d s, d_failed d0 = false -> snapshot d = Some s -> recover d0 s = Some d.
Proof. exact recover_snapshot. Qed.
Print Assumptions C03_recover_snapshot.

Theorem C03_recover_ignores_receiver : forall d0 d0' s,
  d_failed d0 = false -> d_failed d0' = false -> recover d0 s = recover d0' s.
Proof. exact recover_independent. Qed.
Print Assumptions C03_recover_ignores_receiver.

(** snapshots (and hashes) of a failed DB panic, on every replica alike *)
Theorem C03_snapshot_panics_iff_failed : forall d, snapshot d = None <-> d_failed d = true.
Proof. exact snapshot_failed. Qed.
Print Assumptions C03_snapshot_panics_iff_failed.

(** queries do not change the state (the only query that kills a replica is the KV lookup with an empty key) *)
Theorem C03_query_pure : forall P d q,
  (ostep P (Live d) (OpQuery q)).1 = Live d \/ (ostep P (Live d) (OpQuery q)).1 = Dead.
Proof. exact query_pure. Qed.
Print Assumptions C03_query_pure.

Theorem C03_query_kills_iff : forall P d q,
  (ostep P (Live d) (OpQuery q)).1 = Dead <-> d_failed d = false /\ q = QKV 0.
Proof. exact query_dead_iff. Qed.
Print Assumptions C03_query_kills_iff.

(** fail-stop: a dead process stays dead, a failed DB answers everything with a panic, for ever *)
Theorem C03_dead_absorbing : forall P os, final P Dead os = Dead /\ Forall (λ b, b = OPanic) (observe P Dead os).
Proof. exact dead_absorbing. Qed.
Print Assumptions C03_dead_absorbing.

Theorem C03_failed_absorbing : forall P d os, d_failed d = true ->
  final P (Live d) os = Live d /\ Forall (λ b, b = OPanic) (observe P (Live d) os).
Proof. exact failed_absorbing. Qed.
Print Assumptions C03_failed_absorbing.

(** identical state hashes: the hash is md5 of the canonical encoding [canon] (scalars, kill list in order, every map
    as a function of its content - encoding/json sorts map keys).  The pre-image determines the state, so replicas whose
    pre-images agree take identical snapshots and answer identically for ever; conversely equal states have equal
    pre-images by construction.  (md5 itself is not modelled; what the model cannot exhibit - a Go map iterated in
    random order leaking into a slice - is what the correspondence compares hashes and answers for, run after run.) *)
Theorem C03_hash_preimage_determines_state : forall d1 d2, canon d1 = canon d2 <-> d1 = d2.
Proof. intros d1 d2. split; [exact (canon_inj d1 d2) | by intros ->]. Qed.
Print Assumptions C03_hash_preimage_determines_state.

Theorem C03_equal_hash_preimage_equal_future : forall P d1 d2 os, canon d1 = canon d2 ->
  observe P (Live d1) os = observe P (Live d2) os /\ final P (Live d1) os = final P (Live d2) os.
Proof. exact canon_behaviour. Qed.
Print Assumptions C03_equal_hash_preimage_equal_future.

(** Non-vacuity: a state with a definition, a KV record, a view, a mailbox; snapshot, recover into a
    replica that already holds other data; continue. *)
Definition P0 := mkParams 60 5 24.
Definition rq (a s : N) : request := mkReq RAdd s [7] 3 [] [9] 0 a false false 0.
Definition rpt1 : report := mkReport 1 [SI 1 11 true [(11, 1); (12, 2)] 3 false false] [1] 0 false [] 7 8.
Definition pre : list op := [OpCmd (CShard 0 (mkSD 1 [11; 12] 5)); OpCmd CTick; OpCmd (CKV (mkKVR 4 9 1 1 0 false));
                             OpCmd (CReport rpt1); OpCmd (CRequests [rq 1 1; rq 2 1])].
Definition post : list op := [OpQuery QContext; OpCmd (CReport rpt1); OpQuery (QRequests 1); OpQuery QShards; OpCmd CTick; OpQuery (QStates [1])].
Definition other : db := set_tick (set_shards db_init {[ 9 := mkSD 9 [1] 1 ]}) 400.
Example C03_ex :
  match final P0 (Live db_init) pre with
  | Live d => match snapshot d with
              | Some s => match recover other s with
                          | Some d1 => d1 = d /\ observe P0 (Live d1) post = observe P0 (Live d) post /\
                                       Forall (λ b, b <> OPanic) (observe P0 (Live d) post)
                          | None => False end
              | None => False end
  | Dead => False end.
Proof. vm_compute. split; [reflexivity|]. split; [reflexivity|]. repeat constructor; discriminate. Qed.
