(** C07 — placeholder while the proofs are being written. *)
From Drummer.Model Require Import Base Jepsen.
Theorem C07_tmp : format_log [] = [].
Proof. reflexivity. Qed.
Print Assumptions C07_tmp.
