(** C07 — recorded client histories are faithful and survive the Jepsen log round trip.
    Property theorems only (interim: C07_accepts_linearizable is being added). *)
From Coq Require Import Sorted.
From Drummer.Model Require Import Base Register Jepsen Recorder.
From Drummer.Proofs Require Import JepsenProofs RecorderProofs.

Theorem C07_wellformed : forall n ls s, run (init n) ls = Some s ->
  obs_ok (observations s) = true /\ wf_events (events s) = true /\ events_of (observations s) = events s.
Proof. exact wellformed. Qed.
Print Assumptions C07_wellformed.

Theorem C07_roundtrip : forall es, Forall (fun e => printable e = true) es ->
  parse_log (format_log es) = expected_log es /\
  (forall h, parse_allowed (format_log es) h <-> history_allowed es h).
Proof. intros es H. split; [exact (roundtrip_log es H)|exact (roundtrip_allowed es H)]. Qed.
Print Assumptions C07_roundtrip.
