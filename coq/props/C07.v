(** C07 — recorded client histories are faithful and survive the Jepsen log round trip.
    Property theorems only.

    Models (theories/): [Recorder] — small-step system of the scheduling goroutine of
    lcm.Coordinator and one client goroutine per process (lcm/manager.go, lcm/process.go), any
    number of processes, arbitrary interleaving; [Jepsen] — toJepsenLogEntry / SaveAsJepsenLog as
    a function to bytes and parseJepsenLog (lcm/porcupine/etcd.go) as a function from bytes;
    [RecorderAtomic] — the recorder composed with an atomic register service whose error replies
    say nothing (the operation may have taken effect, and a failed write may land at any later
    time); [Register]/[WGL] — the checker of C06.  Tied to the Go code by harness/py/c07.py.

    Not modelled (testing only): goroutine preemption inside the atomic steps listed in
    Recorder.v, Go's memory model for the two flags (taken to be sequentially consistent), gRPC,
    timers (mainLoop), bufio's 4096 byte line limit.  The stage at which an operation fails
    (connection / session / data rpc, error or deadline) is abstracted: whatever makes p.read /
    p.write return an error is one [LRpcReturn p RErr]; the harness injects failures at every stage. *)
From Coq Require Import String ZArith Sorted Permutation.
From Drummer.Model Require Import Base Register WGL Jepsen JepsenText Recorder RecorderAtomic.
From Drummer.Proofs Require Import JepsenProofs RecorderProofs AtomicProofs JepsenTextProofs.

(** ** 1. The recorded history is a well-formed, faithful account (every interleaving, every
    number of processes)

    [obs_ok]: the sequence of observations (history appends, rpc starts, rpc returns) is accepted
    by the monitor of Recorder.v: per process  (invoke; rpc start; rpc return ok; completed)*
    optionally followed by (invoke; rpc start; rpc return error; failed) and then nothing; the
    completion carries the invoked value (writes) / the value the rpc returned (reads); the values
    of write invocations strictly increase.  [wf_events]: the same for the history alone. *)
Theorem C07_wellformed : forall n ls s, run (init n) ls = Some s ->
  obs_ok (observations s) = true /\ wf_events (events s) = true /\ events_of (observations s) = events s.
Proof. exact wellformed. Qed.
Print Assumptions C07_wellformed.

(** what [wf_events] says, declaratively: at most one outstanding operation per process ... *)
Theorem C07_one_outstanding : forall es es1 es2 p, wf_events es = true -> es = es1 ++ es2 ->
  (n_done p es1 <= n_invoked p es1 <= n_done p es1 + 1)%nat.
Proof. exact wf_one_outstanding. Qed.
Print Assumptions C07_one_outstanding.

(** ... written values strictly increase, hence are unique ... *)
Theorem C07_written_increasing : forall es, wf_events es = true -> StronglySorted N.lt (written es).
Proof. exact wf_written_sorted. Qed.
Print Assumptions C07_written_increasing.

Theorem C07_written_unique : forall es, wf_events es = true -> NoDup (written es).
Proof. exact wf_written_unique. Qed.
Print Assumptions C07_written_unique.

(** ... and a process whose operation failed records nothing any more *)
Theorem C07_nothing_after_failure : forall es es1 e es2, wf_events es = true ->
  es = es1 ++ e :: es2 -> e_res e = RFailed -> Forall (fun e' => e_id e' <> e_id e) es2.
Proof. exact wf_nothing_after_failure. Qed.
Print Assumptions C07_nothing_after_failure.

(** ** 2. The log round trip, for EVERY event list whose numbers fit Go's int — in particular
    every process id up to MaxInt64 — well formed or not.

    [expected_log es]: an invocation opens operation number 0, 1, 2, ...; a completion closes the
    pending operation of its process; a failed read closes it with unknown outcome; a failed
    write closes nothing; what is open at the end is closed there with unknown outcome
    ([parse_log]/[expected_log]: in ascending order; [parse_allowed]/[history_allowed]: in any
    order, as Go's map iteration may produce). *)
Theorem C07_roundtrip : forall es, Forall (fun e => printable e = true) es ->
  parse_log (format_log es) = expected_log es /\
  (forall h, parse_allowed (format_log es) h <-> history_allowed es h).
Proof. exact roundtrip. Qed.
Print Assumptions C07_roundtrip.

(** for a well-formed event list that result is a complete history — every operation has exactly
    one call and exactly one later return, the failed writes and whatever was in flight closed at
    the end — i.e. exactly what the checker (C06) is specified for *)
Theorem C07_roundtrip_complete : forall es, wf_events es = true ->
  forall h, history_allowed es h -> wf h.
Proof. exact wf_events_complete. Qed.
Print Assumptions C07_roundtrip_complete.

(** ** 3. A run against a linearizable (atomic) register is always accepted by the checker:
    any number of processes up to 2^63, fewer than 2^63 writes, every interleaving, failures and
    late effects included; whatever order Go's map iteration closes the open operations in. *)
Theorem C07_accepts_linearizable : forall n ls a, arun (ainit n) ls = Some a ->
  n <= max_int + 1 -> value (a_s a) <= max_int + 1 ->
  forall h, parse_allowed (format_log (events (a_s a))) h -> wf h /\ linearizable h /\ check h = true.
Proof. exact atomic_run_accepted. Qed.
Print Assumptions C07_accepts_linearizable.

(** the same without the text: the recorded events themselves describe a linearizable history *)
Theorem C07_recorded_linearizable : forall n ls a, arun (ainit n) ls = Some a -> value (a_s a) <= nilv ->
  forall h, history_allowed (events (a_s a)) h -> wf h /\ linearizable h /\ check h = true.
Proof. exact atomic_linearizable. Qed.
Print Assumptions C07_recorded_linearizable.

(** the recorder part of such a run is a run of the recorder (so part 1 applies to it) *)
Theorem C07_atomic_refines : forall n ls a, arun (ainit n) ls = Some a -> reachable n (a_s a).
Proof. exact arun_reachable. Qed.
Print Assumptions C07_atomic_refines.

(** ** 4. The TEXT form of the log does not matter (JepsenText.v): lines terminated by "\n" or by
    "\r\n" in any mixture, the last line with or without a terminator, blank lines anywhere.

    [render ls]: the bytes of the file with lines + terminators [ls]; [text_ok ls]: no line contains
    "\n" or "\r", only the last line may lack its terminator; [payload ls]: the non-blank lines.
    The ReadLine loop of the parser gets exactly the lines out of every such text ... *)
Theorem C07_text_lines : forall ls, text_ok ls = true -> read_lines (render ls) = map fst ls.
Proof. exact read_lines_render. Qed.
Print Assumptions C07_text_lines.

(** ... two texts with the same non-blank lines parse to the same history (for ANY lines, the
    recorder's or not - cas operations, lines the parser ignores) ... *)
Theorem C07_text_form_irrelevant : forall ls ls', text_ok ls = true -> text_ok ls' = true ->
  payload ls = payload ls' ->
  parse_log (render ls) = parse_log (render ls') /\
  (forall h, parse_allowed (render ls) h <-> parse_allowed (render ls') h).
Proof. exact text_form_irrelevant. Qed.
Print Assumptions C07_text_form_irrelevant.

(** ... hence the round trip of part 2 holds for every text form of the saved log, not only for the
    bytes SaveAsJepsenLog writes ([saved_text], which always end in a newline) ... *)
Theorem C07_roundtrip_text : forall es ls, Forall (fun e => printable e = true) es ->
  text_ok ls = true -> payload ls = map format_line es ->
  parse_log (render ls) = expected_log es /\
  (forall h, parse_allowed (render ls) h <-> history_allowed es h).
Proof. exact roundtrip_text. Qed.
Print Assumptions C07_roundtrip_text.

(** ... and so does the acceptance of a run against an atomic register *)
Theorem C07_accepts_linearizable_text : forall n lbls a tl, arun (ainit n) lbls = Some a ->
  n <= max_int + 1 -> value (a_s a) <= max_int + 1 ->
  text_ok tl = true -> payload tl = map format_line (events (a_s a)) ->
  forall h, parse_allowed (render tl) h -> wf h /\ linearizable h /\ check h = true.
Proof. exact atomic_run_accepted_text. Qed.
Print Assumptions C07_accepts_linearizable_text.

(** ---- non-vacuity ---- *)

Definition opw (p : N) (r : rpcres) : list label :=
  [LPick p true; LRecInvoke; LSetBusy; LSpawn; LRpcStart p; LRpcReturn p r].
Definition opr (p : N) (r : rpcres) : list label :=
  [LPick p false; LRecInvoke; LSetBusy; LSpawn; LRpcStart p; LRpcReturn p r].
Definition fin_ok (p : N) : list label := [LRecDone p; LSetIdle p].
Definition fin_err (p : N) : list label := [LSetStopped p; LRecDone p; LSetIdle p].

(* two processes, interleaved; process 1500 fails *)
Definition ex_labels : list label :=
  [LPick 0 true; LRecInvoke; LSetBusy; LSpawn; LPick 1500 false; LRecInvoke; LRpcStart 0; LSetBusy; LSpawn;
   LRpcStart 1500; LRpcReturn 1500 RErr; LRpcReturn 0 (ROk 0); LSetStopped 1500; LRecDone 0; LRecDone 1500;
   LSetIdle 0; LSetIdle 1500] ++ opr 0 (ROk 1) ++ fin_ok 0.

Definition ex_events : list Jepsen.event :=
  [mkEvent TWrite RInvoked 0 1; mkEvent TRead RInvoked 1500 0; mkEvent TWrite RCompleted 0 1;
   mkEvent TRead RFailed 1500 0; mkEvent TRead RInvoked 0 0; mkEvent TRead RCompleted 0 1].

Example ex_run : option_map events (run (init 2000) ex_labels) = Some ex_events.
Proof. vm_compute. reflexivity. Qed.

(* a stopped process cannot be picked again; a busy one neither *)
Example ex_no_pick_after_failure :
  run (init 2000) (ex_labels ++ [LPick 1500 false]) = None /\
  run (init 2000) [LPick 0 true; LRecInvoke; LSetBusy; LSpawn; LPick 0 false] = None.
Proof. vm_compute. split; reflexivity. Qed.

Example ex_wf : wf_events ex_events = true /\ written ex_events = [1].
Proof. vm_compute. split; reflexivity. Qed.

(* not well formed: two outstanding operations of one process; a value written twice *)
Example ex_not_wf :
  wf_events [mkEvent TRead RInvoked 3 0; mkEvent TRead RInvoked 3 0] = false /\
  wf_events [mkEvent TWrite RInvoked 3 5; mkEvent TWrite RInvoked 4 5] = false.
Proof. vm_compute. split; reflexivity. Qed.

(* round trip with 4-digit and 19-digit process ids *)
Definition ex_wide : list Jepsen.event :=
  [mkEvent TRead RInvoked 0 0; mkEvent TWrite RInvoked 1500 7; mkEvent TRead RCompleted 0 nilv;
   mkEvent TWrite RFailed 1500 0; mkEvent TWrite RInvoked max_int 8; mkEvent TWrite RCompleted max_int 8].

Example ex_wide_printable : Forall (fun e => printable e = true) ex_wide.
Proof. repeat constructor. Qed.

Example ex_wide_roundtrip :
  parse_log (format_log ex_wide) =
  [Call 0 Read; Call 1 (Write 7); Ret 0 (mkOut false false 0 false); Call 2 (Write 8);
   Ret 2 (mkOut false false 0 false); Ret 1 (mkOut false false 0 true)].
Proof. vm_compute. reflexivity. Qed.

(* the line format of the tree as found (%-4d directly followed by the keyword) loses every event
   of a process with an id >= 1000; the repaired format does not *)
Example ex_old_format_refuted :
  parse_log (format_log_old [mkEvent TWrite RInvoked 1000 1; mkEvent TWrite RCompleted 1000 1]) = [] /\
  parse_log (format_log [mkEvent TWrite RInvoked 1000 1; mkEvent TWrite RCompleted 1000 1]) =
    [Call 0 (Write 1); Ret 0 (mkOut false false 0 false)].
Proof. vm_compute. split; reflexivity. Qed.

(* a run against the atomic register: the write of process 1000 times out before it took effect,
   process 0 reads nil, the write lands late, process 0 reads 1 *)
Definition al (ls : list label) : list alabel := map AL ls.
Definition ex_alabels : list alabel :=
  al (opw 1000 RErr) ++ al (fin_err 1000) ++
  al [LPick 0 false; LRecInvoke; LSetBusy; LSpawn; LRpcStart 0] ++ [AEffect 0] ++ al [LRpcReturn 0 (ROk nilv)] ++ al (fin_ok 0) ++
  [ALate 1000] ++
  al [LPick 0 false; LRecInvoke; LSetBusy; LSpawn; LRpcStart 0] ++ [AEffect 0] ++ al [LRpcReturn 0 (ROk 1)] ++ al (fin_ok 0).

Definition ex_aevents : list Jepsen.event :=
  [mkEvent TWrite RInvoked 1000 1; mkEvent TWrite RFailed 1000 0; mkEvent TRead RInvoked 0 0;
   mkEvent TRead RCompleted 0 nilv; mkEvent TRead RInvoked 0 0; mkEvent TRead RCompleted 0 1].

Example ex_arun : option_map (fun a => events (a_s a)) (arun (ainit 2000) ex_alabels) = Some ex_aevents.
Proof. vm_compute. reflexivity. Qed.

Example ex_arun_accepted : check (parse_log (format_log ex_aevents)) = true.
Proof. vm_compute. reflexivity. Qed.

(* the atomic service cannot answer a read with a value the register did not hold ... *)
Example ex_atomic_no_stale :
  arun (ainit 2) (al [LPick 0 false; LRecInvoke; LSetBusy; LSpawn; LRpcStart 0] ++ [AEffect 0] ++ al [LRpcReturn 0 (ROk 5)]) = None.
Proof. vm_compute. reflexivity. Qed.

(* ... and the hypothesis matters: the recorder alone (any reply allowed) can record a history the
   checker rejects: write 1 completed, then a read returning nil *)
Definition ex_stale_labels : list label := opw 0 (ROk 0) ++ fin_ok 0 ++ opr 1 (ROk nilv) ++ fin_ok 1.
Example ex_stale_rejected :
  match run (init 2) ex_stale_labels with
  | Some s => wf_events (events s) = true /\ check (parse_log (format_log (events s))) = false
  | None => False
  end.
Proof. vm_compute. split; reflexivity. Qed.

(* text forms: "write 1 ok; read -> 2" (NOT linearizable) with CRLF line ends, a blank line, a line of
   blanks and no terminator after the last line; the text SaveAsJepsenLog writes for it is a text form too *)
Definition ex_text_events : list Jepsen.event :=
  [mkEvent TWrite RInvoked 0 1; mkEvent TWrite RCompleted 0 1; mkEvent TRead RInvoked 1 0; mkEvent TRead RCompleted 1 2].
Definition ex_text : list tline :=
  [(bs "INFO  jepsen.util - 0   :invoke :write  1", ECrlf); ([], ELf);
   (bs "INFO  jepsen.util - 0   :ok     :write  1", ELf); (bs "   ", ECrlf);
   (bs "INFO  jepsen.util - 1   :invoke :read   nil", ECrlf);
   (bs "INFO  jepsen.util - 1   :ok     :read   2", ENone)].

Example ex_text_ok : text_ok ex_text = true /\ payload ex_text = map format_line ex_text_events /\
  render (saved_text ex_text_events) = format_log ex_text_events /\ text_ok (saved_text ex_text_events) = true.
Proof. vm_compute. repeat split; reflexivity. Qed.

Example ex_text_parse :
  parse_log (render ex_text) =
    [Call 0 (Write 1); Ret 0 (mkOut false false 0 false); Call 1 Read; Ret 1 (mkOut false true 2 false)] /\
  check (parse_log (render ex_text)) = false.
Proof. vm_compute. split; reflexivity. Qed.

(* the unterminated last line matters: a reader that drops it leaves the read open-ended, i.e.
   unconstrained, and the non-linearizable run is accepted *)
Example ex_text_last_line_matters :
  parse_log (render (removelast ex_text)) =
    [Call 0 (Write 1); Ret 0 (mkOut false false 0 false); Call 1 Read; Ret 1 (mkOut false false 0 true)] /\
  check (parse_log (render (removelast ex_text))) = true.
Proof. vm_compute. split; reflexivity. Qed.

(* outside [text_ok]: a final "\r" without "\n" is no line terminator; the line then ends in white
   space and is ignored (by the model and by the code alike) *)
Example ex_text_lone_cr :
  text_ok [(bs "INFO  jepsen.util - 1   :invoke :read   nil" ++ [13], ENone)] = false /\
  parse_log (bs "INFO  jepsen.util - 1   :invoke :read   nil" ++ [13]) = [] /\
  parse_log (bs "INFO  jepsen.util - 1   :invoke :read   nil" ++ [13; 10]) = [Call 0 Read; Ret 0 (mkOut false false 0 true)].
Proof. vm_compute. repeat split; reflexivity. Qed.
