(** C04 — Drummer's membership view only moves forward and mirrors the newest report.
    Property theorems only (proofs in proofs/DBViewProofs.v).  All statements are about
    [db_step] / [run_from] / [view_update] of theories/DB.v.

    Vocabulary (defined in DBViewProofs.v, all plain definitions):
      [history]            shard -> version -> option (replica id -> address)
      [complete ci]        entry neither pending nor incomplete (it carries a membership)
      [entry_ok H ci]      complete ci = true -> H (shard ci) (version ci) = Some (members ci)
                           -- nothing else about the entry is constrained: reporting replica,
                           leader flag, flags, version of partial entries, host, order, repeats
      [cmds_ok H cs]       every report in cs has only [entry_ok] entries; ticks, KV writes,
                           shard submissions, request batches, unknown commands are unconstrained
      [hist_ok H]          addresses injective within a version; a replica id keeps its address
      [hist_no_return H]   a replica id that was removed is not a member of later versions
      [seen_versions s cs] versions of the complete entries for shard s in cs, processing order
      [is_max v l]         v ∈ l ∧ every element of l is ≤ v
    [next P d c = Some d'] means: the replica is still alive after applying c to d.
    [run P cs = Live d] : the replica is alive after the whole list, started from the empty DB. *)
From stdpp Require Import gmap.
From Drummer.Model Require Import DB.
From Drummer.Proofs Require Import DBProofs DBViewProofs.
Local Open Scope N_scope.

(** the view of s is absent iff no complete entry for s was processed; otherwise its version is
    the maximum version among the complete entries processed so far and its member table (ids AND
    addresses) is the history's membership at that version.  [d_failed d = false]: the
    launch-deadline fail-stop (C09) has not happened; see the next theorem for the other case. *)
Theorem C04_view_is_max : forall (H : history) P cs d s,
  cmds_ok H cs -> run P cs = Live d -> d_failed d = false ->
  match d_view d !! s with
  | None => seen_versions s cs = []
  | Some c => is_max (s_cci c) (seen_versions s cs) /\ s_id c = s /\
              H s (s_cci c) = Some (r_addr <$> s_reps c) /\
              (forall rid n, s_reps c !! rid = Some n -> r_id n = rid /\ r_shard n = s)
  end.
Proof. exact run_view_is_max. Qed.
Print Assumptions C04_view_is_max.

(** without the no-fail-stop assumption: the same holds for the prefix cs1 processed before the fail-stop *)
Theorem C04_view_is_max_failstop : forall (H : history) P cs d,
  cmds_ok H cs -> run P cs = Live d ->
  exists cs1 cs2, cs = cs1 ++ cs2 /\ (d_failed d = false -> cs2 = []) /\
    forall s, match d_view d !! s with
              | None => seen_versions s cs1 = []
              | Some c => is_max (s_cci c) (seen_versions s cs1) /\ s_id c = s /\
                          H s (s_cci c) = Some (r_addr <$> s_reps c) /\
                          (forall rid n, s_reps c !! rid = Some n -> r_id n = rid /\ r_shard n = s)
              end.
Proof. exact run_view_is_max_gen. Qed.
Print Assumptions C04_view_is_max_failstop.

(** ALL command lists from ALL states (no consistency assumption): a shard once in the view
    stays, and its version never decreases *)
Theorem C04_version_monotone : forall P cs d d' s c,
  run_from P (Live d) cs = Live d' -> d_view d !! s = Some c ->
  exists c', d_view d' !! s = Some c' /\ s_cci c <= s_cci c'.
Proof. exact run_version_monotone. Qed.
Print Assumptions C04_version_monotone.

(** ALL states, ALL reports: if every complete entry for shard s in the report carries a version
    below the view's (the other entries for s, and all entries for other shards, are arbitrary),
    then shard id, version and the member table with addresses and FirstObserved are unchanged *)
Theorem C04_stale_inert : forall P d r d' s,
  next P d (CReport r) = Some d' ->
  (forall ci, ci ∈ rp_infos r -> si_shard ci = s -> complete ci = true ->
     exists c, d_view d !! s = Some c /\ si_cci ci < s_cci c) ->
  (λ c, (s_id c, s_cci c, (λ n, (r_shard n, r_id n, r_addr n, r_first n)) <$> s_reps c)) <$> d_view d' !! s =
  (λ c, (s_id c, s_cci c, (λ n, (r_shard n, r_id n, r_addr n, r_first n)) <$> s_reps c)) <$> d_view d !! s.
Proof. exact step_inert_core. Qed.
Print Assumptions C04_stale_inert.

(** the same at the granularity of ONE entry of the report loop: the shard record is untouched *)
Theorem C04_stale_entry_inert : forall t view tk ci view' tk' s,
  update_entry t (view, tk) ci = Some (view', tk') ->
  (si_shard ci = s -> complete ci = true -> exists c, view !! s = Some c /\ si_cci ci < s_cci c) ->
  view' !! s = view !! s.
Proof. exact update_entry_inert. Qed.
Print Assumptions C04_stale_entry_inert.

(** pending / incomplete entries never change membership or version (also: never create a view) *)
Theorem C04_pending_incomplete_inert : forall P d r d' s,
  next P d (CReport r) = Some d' ->
  (forall ci, ci ∈ rp_infos r -> si_shard ci = s -> complete ci = false) ->
  (λ c, (s_id c, s_cci c, (λ n, (r_shard n, r_id n, r_addr n, r_first n)) <$> s_reps c)) <$> d_view d' !! s =
  (λ c, (s_id c, s_cci c, (λ n, (r_shard n, r_id n, r_addr n, r_first n)) <$> s_reps c)) <$> d_view d !! s.
Proof. exact step_inert_partial. Qed.
Print Assumptions C04_pending_incomplete_inert.

(** FirstObserved survives for as long as the replica stays a member: along any run consistent with
    a history in which removed ids do not return, a replica that is a member at both ends has the
    same FirstObserved (started from any state whose view mirrors the history, e.g. the empty DB) *)
Theorem C04_first_observed_stable : forall (H : history), hist_no_return H ->
  forall P cs d d' s c c' rid n n',
  view_inv H (d_view d) -> cmds_ok H cs -> run_from P (Live d) cs = Live d' ->
  d_view d !! s = Some c -> d_view d' !! s = Some c' -> s_reps c !! rid = Some n -> s_reps c' !! rid = Some n' ->
  r_first n' = r_first n.
Proof. exact run_first_stable. Qed.
Print Assumptions C04_first_observed_stable.

(** ALL inputs, one entry: a member after the entry either has exactly the record it had before the
    entry (so also the same FirstObserved), or it was not a member before and is stamped with the tick *)
Theorem C04_first_observed_entry : forall t view tk ci view' tk' s c' rid n',
  update_entry t (view, tk) ci = Some (view', tk') -> view' !! s = Some c' -> s_reps c' !! rid = Some n' ->
  (exists c, view !! s = Some c /\ s_reps c !! rid = Some n') \/
  ((forall c, view !! s = Some c -> s_reps c !! rid = None) /\ r_first n' = t /\ r_tick n' = 0).
Proof. exact update_entry_members. Qed.
Print Assumptions C04_first_observed_entry.

(** ALL inputs, one command: a member that was not a member before the command gets the DB tick *)
Theorem C04_first_observed_new : forall P d c d' s c' rid n',
  next P d c = Some d' -> d_view d' !! s = Some c' -> s_reps c' !! rid = Some n' ->
  (forall c0, d_view d !! s = Some c0 -> s_reps c0 !! rid = None) ->
  r_first n' = d_tick d.
Proof. exact step_first_new. Qed.
Print Assumptions C04_first_observed_new.

(** ALL command lists (no consistency assumption): at most one replica per shard is flagged leader *)
Theorem C04_one_leader : forall P cs d s c r1 r2 n1 n2,
  run P cs = Live d -> d_view d !! s = Some c ->
  s_reps c !! r1 = Some n1 -> s_reps c !! r2 = Some n2 -> r_leader n1 = true -> r_leader n2 = true -> r1 = r2.
Proof. intros P cs d s c r1 r2 n1 n2 Hrun Hc. exact (run_one_leader P cs d Hrun s c Hc r1 r2 n1 n2). Qed.
Print Assumptions C04_one_leader.

(** it is an invariant of every step from every state *)
Theorem C04_one_leader_step : forall P d c d',
  next P d c = Some d' -> view_one_leader (d_view d) -> view_one_leader (d_view d').
Proof. exact step_one_leader. Qed.
Print Assumptions C04_one_leader_step.

(** ALL states, ALL reports: if every entry for s (whatever its flags) carries a version below the
    view's, nothing but report times changes in the shard record - in particular no leader flag *)
Theorem C04_stale_leader_inert : forall P d r d' s,
  next P d (CReport r) = Some d' ->
  (forall ci, ci ∈ rp_infos r -> si_shard ci = s -> exists c, d_view d !! s = Some c /\ si_cci ci < s_cci c) ->
  (λ c, (s_id c, s_cci c, (λ n, (r_shard n, r_id n, r_addr n, r_first n, r_leader n)) <$> s_reps c)) <$> d_view d' !! s =
  (λ c, (s_id c, s_cci c, (λ n, (r_shard n, r_id n, r_addr n, r_first n, r_leader n)) <$> s_reps c)) <$> d_view d !! s.
Proof. exact step_inert_notick. Qed.
Print Assumptions C04_stale_leader_inert.

(** the guard of syncLeaderInfo itself: one stale entry is the identity of the leader pass *)
Theorem C04_stale_leader_entry : forall view ci c,
  view !! si_shard ci = Some c -> si_cci ci < s_cci c -> leader_entry view ci = view.
Proof. exact leader_entry_stale. Qed.
Print Assumptions C04_stale_leader_entry.

(** ALL inputs, any mix of entries: the whole leader pass (syncLeaderInfo) gives the same result as on
    the report from which every entry with a version below the view's has been removed *)
Theorem C04_leader_pass_ignores_stale : forall cis view,
  sync_leader_info view cis =
  sync_leader_info view
    (filter (λ ci, match view !! si_shard ci with Some c => si_cci ci <? s_cci c | None => false end = false) cis).
Proof. exact sync_leader_info_drop_stale. Qed.
Print Assumptions C04_leader_pass_ignores_stale.

(** reports consistent with a history never trip the consistency panics of syncShard, so the
    theorems above are not true "because the model stopped" *)
Theorem C04_no_panic : forall (H : history), hist_ok H ->
  forall P cs d r, cmds_ok H cs -> run P cs = Live d -> report_ok H r -> db_step P d (CReport r) <> SDead.
Proof. exact run_no_panic. Qed.
Print Assumptions C04_no_panic.

Theorem C04_no_panic_step : forall (H : history), hist_ok H ->
  forall P d r, view_inv H (d_view d) -> report_ok H r -> db_step P d (CReport r) <> SDead.
Proof. exact report_no_panic_inv. Qed.
Print Assumptions C04_no_panic_step.

(** report times (ALL inputs, one command): updateNodeTick touches only the record of the replica
    that reports.  If no entry of the command names replica rid of shard s, the report time of that
    member is what it was before (or 0 when the record was created by this very command) *)
Theorem C04_tick_only_reporter : forall P d c d' s rid c1 n1,
  next P d c = Some d' ->
  (forall r ci, c = CReport r -> ci ∈ rp_infos r -> ~ (si_shard ci = s /\ si_replica ci = rid)) ->
  d_view d' !! s = Some c1 -> s_reps c1 !! rid = Some n1 ->
  r_tick n1 = 0 \/ exists c0 n0, d_view d !! s = Some c0 /\ s_reps c0 !! rid = Some n0 /\ r_tick n0 = r_tick n1.
Proof. exact step_tick_only_reporter. Qed.
Print Assumptions C04_tick_only_reporter.

(** * Non-vacuity: a history satisfying the side conditions, a consistent trace with stale,
    duplicated, pending and incomplete entries, and what the model does on it *)
Definition P0 := mkParams 60 5 24.
Definition m1 : gmap N N := list_to_map [(10,1);(11,2);(12,3)].
Definition m3 : gmap N N := list_to_map [(10,1);(11,2)].            (* replica 12 removed *)
Definition m4 : gmap N N := list_to_map [(10,1);(11,2);(13,3)].     (* replica 13 added on host 3 *)
Definition m20 : gmap N N := list_to_map [(20,1)].
Definition H0 : history := hist_of (list_to_map [((1,1),m1);((1,3),m3);((1,4),m4);((2,1),m20)]).

Example ex_history : hist_ok H0 /\ hist_no_return H0.
Proof. split; [apply hist_of_ok|apply hist_of_no_return]; apply (bool_decide_unpack _); vm_compute; exact I. Qed.

Definition rep (a : N) (infos : list shard_info) : cmd := CReport (mkReport a infos (si_shard <$> infos) 0 false [] 1 (100 + a)).
Definition full s r l m v := mkSI s r l m v false false.
Definition cs0 : list cmd :=
  [ CTick;
    rep 1 [full 1 10 true m1 1; full 2 20 false m20 1];
    CTick;
    rep 2 [full 1 11 false m4 4];                                   (* jumps over version 3 *)
    rep 3 [full 1 12 true m1 1];                                    (* stale, from a removed replica claiming leadership *)
    rep 1 [mkSI 1 10 false ∅ 0 false true; mkSI 1 10 true ∅ 4 true false];   (* pending, incomplete *)
    CTick;
    rep 2 [full 1 11 true m3 3; full 1 11 false m4 4] ].            (* stale + duplicate of the newest *)

Example ex_trace_ok : cmds_ok H0 cs0.
Proof.
  repeat (apply Forall_cons_2 || apply Forall_nil_2); cbn; try exact I;
    repeat (apply Forall_cons_2 || apply Forall_nil_2); intros Hc; try discriminate Hc; vm_compute; reflexivity.
Qed.

(* what the examples look at: fail-stop flag, tick, and for shard s its version and per member
   (id, address, FirstObserved, leader flag) *)
Definition summary (x : rstate) (s : N) : option (bool * N * option (N * list (N * N * N * bool))) :=
  match x with
  | Live d => Some (d_failed d, d_tick d,
                    (λ c, (s_cci c, (λ kv : N * replica, (kv.1, r_addr kv.2, r_first kv.2, r_leader kv.2)) <$> map_to_list (s_reps c)))
                      <$> d_view d !! s)
  | Dead => None
  end.

(* view = newest version 4 with the members of H0 1 4; replicas 10, 11 keep FirstObserved 5 from the
   first report, 13 has the tick of the report that introduced it; only 10 is leader *)
Example ex_run :
  summary (run P0 cs0) 1 = Some (false, 15, Some (4, [(11, 2, 5, false); (13, 3, 10, false); (10, 1, 5, true)])) /\
  seen_versions 1 cs0 = [1; 4; 1; 3; 4] /\ map_to_list m4 = [(11, 2); (13, 3); (10, 1)].
Proof. vm_compute. repeat split; reflexivity. Qed.

(* the fifth command is a stale report (version 1 < 4, leader claim of removed replica 12): the
   hypotheses of C04_stale_inert / C04_stale_leader_inert are met and nothing but nothing changes *)
Example ex_stale :
  summary (run P0 (take 4 cs0)) 1 = Some (false, 10, Some (4, [(11, 2, 5, false); (13, 3, 10, false); (10, 1, 5, true)])) /\
  summary (run P0 (take 5 cs0)) 1 = Some (false, 10, Some (4, [(11, 2, 5, false); (13, 3, 10, false); (10, 1, 5, true)])).
Proof. vm_compute. split; reflexivity. Qed.

(* a report that contradicts the history (version 4 with the members of version 3) is a fail-stop:
   [report_ok] in C04_no_panic cannot be dropped *)
Example ex_inconsistent : run P0 (cs0 ++ [rep 3 [full 1 12 false m3 4]]) = Dead.
Proof. vm_compute. reflexivity. Qed.
