(** C17 — The Drummer service API is a faithful, crash-proof front-end of the DB.

    Property theorems only (proofs in proofs/ServiceProofs.v).  [svc_call P d c] (theories/Service.v)
    is the model of one RPC method of server.go executed on DB state [d]: it returns the state
    afterwards ([Live d'], or [Dead] when a Go panic inside the replicated state machine killed
    the replica) and the response.  [call_cmds c] are the commands the call proposes to the Raft
    log (a function of the arguments only), [hist_cmds h] the log written by a history [h] of
    client calls interleaved with the Drummer's own commands (ticks, request batches, election
    votes).  All statements hold for ALL DB states (reachable or not), all arguments, all
    histories, except where a hypothesis says otherwise. *)
From stdpp Require Import gmap list numbers.
From Drummer.Model Require Import DB DBRun Service ServiceRun ServiceFault.
From Drummer.Proofs Require Import DBProofs ServiceProofs ServiceFaultProofs.
Local Open Scope N_scope.

(** ** The state behind the API is exactly the replicated log applied to the DB:
       after any history the service sits on [run_from] of the commands proposed so far
       (replaying the log on restart rebuilds the same state). *)
Theorem C17_state_is_log : forall P s h, svc_run P s h = run_from P s (hist_cmds h).
Proof. exact svc_run_log. Qed.
Print Assumptions C17_state_is_log.

(** ** Reports: the report is applied FIRST ([db_step] of NODEHOST_INFO), the reply is read from
       the state AFTER it and is exactly the addressee's pending requests (Requests[addr] of the
       state before, moved to Outgoing[addr]); they are handed out once (Requests[addr] is empty
       afterwards) and nobody else's mailbox is touched.  An inconsistent report trips a
       consistency assertion of the DB (C03/C04's subject): the replica dies. *)
Theorem C17_report : forall P d r,
  d_failed d = false ->
  match view_update (d_view d) (d_kill d) (stamp d r) (d_tick d) with
  | None => svc_call P d (Report r) = (Dead, RDied)
  | Some (view', kill') =>
    let d' := report_result d (stamp d r) view' kill' in
    let reply := default [] (d_requests d !! rp_addr r) in
    svc_call P d (Report r) = (Live d', RRequests reply) /\
    db_step P d (CReport r) = SOk d' (N.of_nat (length reply)) /\
    reply = lookup_requests d' (rp_addr r) /\
    d_requests d' !! rp_addr r = None /\
    (forall a, a <> rp_addr r -> d_requests d' !! a = d_requests d !! a /\ d_outgoing d' !! a = d_outgoing d !! a)
  end.
Proof. exact report_call. Qed.
Print Assumptions C17_report.

(** ** Queries: after ANY history, each query answers with the stated function of the DB state
       obtained by applying every command proposed by the earlier calls (so every previously
       acknowledged update is reflected), and leaves the state alone. *)
Theorem C17_queries : forall P d0 h d,
  run_from P (Live d0) (hist_cmds h) = Live d -> d_failed d = false ->
  let s := svc_run P (Live d0) h in
  svc_step P s GetShards = (Live d, RShards (lookup_shards d)) /\
  svc_step P s GetNodeHostCollection = (Live d, RHosts (d_tick d) (mvals (d_info d))) /\
  (forall ids, svc_step P s (GetShardStates ids) =
     (Live d, match lookup_states P d ids with Some (x :: l) => RStates (x :: l) | _ => RNotFound end)) /\
  svc_step P s GetCCIList = (Live d, RCCI (map_to_list (s_cci <$> d_view d))) /\
  svc_step P s GetDeploymentInfo =
    (Live d, match d_kv d !! key_deployment with
             | Some r => if kv_val r <? 2 then RParseErr else RDid (kv_val r - 2)
             | None => RParseErr
             end).
Proof. exact queries_after_history. Qed.
Print Assumptions C17_queries.

Theorem C17_queries_read_only : forall P s c, is_query c = true -> (svc_step P s c).1 = s.
Proof. exact query_no_effect. Qed.
Print Assumptions C17_queries_read_only.

(** acknowledged updates stay visible, whatever happens later *)
Theorem C17_ack_shard_visible : forall P d t sd d1 h d2,
  svc_call P d (SubmitChange t sd) = (Live d1, ROk) ->
  svc_run P (Live d1) h = Live d2 -> d_shards d2 !! sd_id sd = Some sd.
Proof. exact shard_ack_visible. Qed.
Print Assumptions C17_ack_shard_visible.

Theorem C17_ack_bootstrap_gate : forall P d d1 h d2 t sd,
  svc_call P d SetBootstrapped = (Live d1, ROk) ->
  svc_run P (Live d1) h = Live d2 -> d_failed d2 = false -> valid_change t sd = true ->
  svc_call P d2 (SubmitChange t sd) = (Live d2, RBootstrapped) /\ d_shards d2 = d_shards d1.
Proof. exact bootstrap_ack_gate. Qed.
Print Assumptions C17_ack_bootstrap_gate.

(** ** Configuration calls report the outcome the DB decided, with the exact successor state.
       [fin_write d k v] is the finalized write of instance 0: (new state, DB code 0 Updated /
       1 Finalized / 2 Rejected); code 2 makes setFinalizedKV panic in the service goroutine. *)
Theorem C17_config_codes : forall P d,
  d_failed d = false ->
  (forall t sd, valid_change t sd = true ->
     svc_call P d (SubmitChange t sd) =
       if is_bootstrapped d then (Live d, RBootstrapped)
       else match d_shards d !! sd_id sd with
            | Some _ => (Live d, RShardExist)
            | None => (Live (set_shards d (<[sd_id sd := sd]> (d_shards d))), ROk)
            end) /\
  (svc_call P d SetBootstrapped =
     (Live (fin_write d key_bootstrapped val_true).1,
      if (fin_write d key_bootstrapped val_true).2 <? 2 then ROk else RHandlerPanic)) /\
  (forall rs cs, valid_regions rs cs = true ->
     svc_call P d (SetRegions rs cs) =
       (Live (fin_write d key_regions (enc_regions rs cs)).1,
        if (fin_write d key_regions (enc_regions rs cs)).2 <? 2 then ROk else RHandlerPanic)) /\
  (forall did,
     let w := fin_write d key_deployment (did_val did) in
     svc_call P d (SetDeploymentID did) = (Live w.1, if w.2 =? 0 then RDid did else deployment_of w.1) /\
     (w.2 = 0 -> deployment_of w.1 = RDid did)).
Proof. exact config_codes. Qed.
Print Assumptions C17_config_codes.

(* the stored regions value determines the submitted specification *)
Theorem C17_regions_code_injective : forall rs1 cs1 rs2 cs2,
  enc_regions rs1 cs1 = enc_regions rs2 cs2 -> rs1 = rs2 /\ cs1 = cs2.
Proof. exact enc_regions_inj. Qed.
Print Assumptions C17_regions_code_injective.

(** on every state reachable from the empty DB by client calls and the Drummer's own commands the
    service goroutine never panics ("unknown code" / "unknown update response") *)
Theorem C17_no_handler_panic : forall P h c,
  Forall drummer_item h -> (svc_step P (svc_run P (Live db_init) h) c).2 <> RHandlerPanic.
Proof. exact no_handler_panic_reachable. Qed.
Print Assumptions C17_no_handler_panic.

Theorem C17_deployment_id_final : forall P d did n d1 h d2,
  kv_final_inv d ->
  svc_call P d (SetDeploymentID did) = (Live d1, RDid n) ->
  svc_run P (Live d1) h = Live d2 -> deployment_of d2 = RDid n.
Proof. exact did_ack_forever. Qed.
Print Assumptions C17_deployment_id_final.

(** ** Malformed requests are refused with an error, propose nothing, leave the DB untouched
       (in EVERY state, failed or not); and only malformed requests are refused. *)
Theorem C17_malformed_refused : forall P d,
  (forall t sd, malformed_change t sd ->
     svc_call P d (SubmitChange t sd) = (Live d, RInvalid) /\ call_cmds (SubmitChange t sd) = []) /\
  (forall rs cs, malformed_regions rs cs ->
     svc_call P d (SetRegions rs cs) = (Live d, RInvalid) /\ call_cmds (SetRegions rs cs) = []).
Proof. exact malformed_refused. Qed.
Print Assumptions C17_malformed_refused.

Theorem C17_only_malformed_refused : forall P d,
  (forall t sd, ~ malformed_change t sd -> (svc_call P d (SubmitChange t sd)).2 <> RInvalid) /\
  (forall rs cs, ~ malformed_regions rs cs -> (svc_call P d (SetRegions rs cs)).2 <> RInvalid).
Proof. exact wellformed_not_refused. Qed.
Print Assumptions C17_only_malformed_refused.

(** ** No configuration request can make the replicated DB fail-stop.
       What is true exactly: for EVERY DB state and EVERY configuration call with ANY arguments
       (a) every command the call proposes is accepted by a non-failed DB ([SOk]: neither the
           assertion panic [SDead] nor the fail-stop latch) and leaves [d_failed] false;
       (b) the replica is alive after the call and [d_failed] is what it was (on an already
           failed DB - only a tick past the launch deadline sets the latch - the call is
           answered with [RDied] and changes nothing);
       (c) a whole history of configuration calls keeps a non-failed DB alive and non-failed,
           and so does replaying its log after a restart. *)
Theorem C17_no_failstop : forall P d c,
  is_config c = true ->
  (forall cmd, cmd ∈ call_cmds c -> d_failed d = false ->
     exists d' v, db_step P d cmd = SOk d' v /\ d_failed d' = false) /\
  (exists d', (svc_call P d c).1 = Live d' /\ d_failed d' = d_failed d).
Proof. intros P d c Hc. split; [intros cmd; apply config_cmd_ok; exact Hc|apply config_call_alive; exact Hc]. Qed.
Print Assumptions C17_no_failstop.

Theorem C17_no_failstop_history : forall P d (cs : list call),
  d_failed d = false -> Forall (fun c => is_config c = true) cs ->
  exists d', svc_run P (Live d) (HCall <$> cs) = Live d' /\ d_failed d' = false /\
             run_from P (Live d) (hist_cmds (HCall <$> cs)) = Live d'.
Proof. exact config_history_alive. Qed.
Print Assumptions C17_no_failstop_history.

(** ** Calls that FAIL in the middle of a sequence (timeout of the proposal inside the call, client
       context cancelled / expired; theories/ServiceFault.v).  A call answered with an error because it
       was cut short contributes to the replicated log either ALL the commands of the call or NONE
       ([failed_cmds]); the state later calls see is the log applied to the DB, as always.  A failed
       query and a failed refused call leave nothing behind whichever way they are resolved. *)
Theorem C17_failed_call_all_or_nothing : forall P s c applied,
  resolve_step P s c applied = run_from P s (failed_cmds c applied) /\
  (resolve_step P s c applied = s \/ resolve_step P s c applied = (svc_step P s c).1) /\
  (is_query c = true \/ call_cmds c = [] -> resolve_step P s c applied = s).
Proof.
  intros P s c a. split; [apply resolve_step_log|]. split; [apply resolve_step_cases|].
  intros [H|H]; [apply failed_query_invisible|apply failed_refused_invisible]; exact H.
Qed.
Print Assumptions C17_failed_call_all_or_nothing.

(** histories of calls, each completed or failed (resolved either way): the state is the log, and
    configuration calls - completed, failed-and-lost, failed-but-applied, any arguments - keep a
    non-failed DB alive and non-failed *)
Theorem C17_failed_history_is_log : forall P xs s,
  foldl (fcall_step P) s xs = run_from P s (concat (fcall_cmds <$> xs)).
Proof. intros P xs s. apply fcall_run_log. Qed.
Print Assumptions C17_failed_history_is_log.

Theorem C17_no_failstop_with_failures : forall P xs d,
  d_failed d = false -> Forall (fun x => is_config (fcall_call x) = true) xs ->
  exists d', foldl (fcall_step P) (Live d) xs = Live d' /\ d_failed d' = false.
Proof. intros P xs d. apply failed_history_alive. Qed.
Print Assumptions C17_no_failstop_with_failures.

(** the trace checker the correspondence evaluates on observed call sequences with failed calls keeps
    the SET of states the history allows; it accepts a trace iff SOME resolution (one "applied or not"
    per failed call, fixed once and for all) explains every later observation *)
Theorem C17_failed_trace_checker_exact : forall P its,
  all_true (check_ftrace P its) = true <-> exists res, check_resolved P (Live db_init) its res = true.
Proof. exact nd_exact. Qed.
Print Assumptions C17_failed_trace_checker_exact.

(** ** Non-vacuity (closed by computation) *)
Definition P0 : params := mkParams 60 5 24.
Definition q0 : request := mkReq RCreate 1 [11; 12] 0 [11; 12] [3; 4] 11 3 false false 7.
Definition q1 : request := mkReq RCreate 1 [11; 12] 0 [11; 12] [3; 4] 12 4 false false 7.
Definition r3 : report := mkReport 3 [] [] 0 false [] 1 103.
Definition h0 : list hitem :=
  [HCall (SetDeploymentID 40); HCall (SubmitChange 0 (mkSD 1 [11; 12] 7)); HCall (SetRegions [1; 2] [1; 1]);
   HCall (SubmitChange 0 (mkSD 2 [] 7)); HCall SetBootstrapped; HCmd CTick; HCmd (CRequests [q0; q1]); HCall (Report r3)].

(* the hypotheses of C17_queries are met by a non-trivial history; the answers are not empty *)
Example C17_queries_nonvacuous :
  exists d, run_from P0 (Live db_init) (hist_cmds h0) = Live d /\ d_failed d = false /\
            dump_resp (svc_step P0 (svc_run P0 (Live db_init) h0) GetShards).2 = [4; 1; 1; 7; 2; 11; 12] /\
            dump_resp (svc_step P0 (svc_run P0 (Live db_init) h0) GetDeploymentInfo).2 = [2; 40] /\
            (svc_step P0 (svc_run P0 (Live db_init) h0) (SubmitChange 0 (mkSD 3 [5] 7))).2 = RBootstrapped.
Proof. eexists. split; [vm_compute; reflexivity|]. vm_compute. repeat split; reflexivity. Qed.

(* a report whose reply is not empty: the addressee gets its own request, the other one stays *)
Example C17_report_nonvacuous :
  match svc_run P0 (Live db_init) (removelast h0) with
  | Live d => d_failed d = false /\
              (svc_call P0 d (Report r3)).2 = RRequests [q0] /\
              (exists d', (svc_call P0 d (Report r3)).1 = Live d' /\
                          d_requests d' !! 3 = None /\ d_requests d' !! 4 = Some [q1])
  | Dead => False
  end.
Proof. vm_compute. split; [reflexivity|]. split; [reflexivity|]. eexists. split; [reflexivity|]. split; reflexivity. Qed.

(* every malformed kind exists *)
Example C17_malformed_kinds :
  malformed_change 1 (mkSD 1 [5] 7) /\ malformed_change 0 (mkSD 1 [] 7) /\ malformed_change 0 (mkSD 1 [5] 0) /\
  malformed_change 0 (mkSD 1 [5; 0] 7) /\ malformed_change 0 (mkSD 1 [5; 6; 5] 7) /\ ~ malformed_change 0 (mkSD 1 [5; 6] 7) /\
  malformed_regions [] [] /\ malformed_regions [1; 2] [3] /\ malformed_regions [1; 0] [1; 1] /\
  malformed_regions [1; 1] [1; 1] /\ ~ malformed_regions [1; 2] [3; 0].
Proof.
  repeat split; try (apply valid_change_spec; vm_compute; reflexivity); try (apply valid_regions_spec; vm_compute; reflexivity).
  - intros H. apply valid_change_spec in H. vm_compute in H. discriminate.
  - intros H. apply valid_regions_spec in H. vm_compute in H. discriminate.
Qed.

(* why the validation matters: the commands the unrepaired service proposed for malformed requests
   kill the replica, in every non-failed state reached above and on the empty DB *)
Example C17_unvalidated_commands_kill :
  db_step P0 db_init (CShard 0 (mkSD 1 [] 7)) = SDead /\
  db_step P0 db_init (CShard 0 (mkSD 1 [5] 0)) = SDead /\
  db_step P0 db_init (CShard 1 (mkSD 1 [5] 7)) = SDead /\
  db_step P0 db_init (CKV (fin_kv key_regions 0)) = SDead.
Proof. vm_compute. repeat split; reflexivity. Qed.

(* the fail-stop latch exists and is set by the Drummer's ticks only: launch, then 25 ticks *)
Example C17_failstop_by_deadline_exists :
  match run_from P0 (Live db_init) (hist_cmds h0 ++ replicate 25 CTick) with
  | Live d => d_failed d = true /\ (svc_call P0 d SetBootstrapped).2 = RDied /\ (svc_call P0 d GetShards).2 = RDied /\
              (svc_call P0 d (SubmitChange 0 (mkSD 9 [] 7))) = (Live d, RInvalid)
  | Dead => False
  end.
Proof. vm_compute. repeat split; reflexivity. Qed.

(* the hypothesis of C17_no_handler_panic is needed: on an (unreachable) state whose bootstrapped
   record is an unfinalized record of instance 7 the service goroutine panics *)
Example C17_handler_panic_unreachable_state :
  (svc_call P0 (set_kv db_init {[key_bootstrapped := mkKVR key_bootstrapped 1 7 0 0 false]}) SetBootstrapped).2 = RHandlerPanic.
Proof. vm_compute. reflexivity. Qed.

(* failed calls: (1) a SetBootstrapped that failed, the flag read back as false, a shard accepted: explained (not applied);
   (2) the same failure, flag read back false, but the next SubmitChange answered BOOTSTRAPPED (a front-end that
   remembers the attempt): NO resolution explains it - the checker flags the SubmitChange;
   (3) the failure followed by BOOTSTRAPPED and a flag read back true: explained (applied);
   (4) a failed report answered with an error: its requests are still pending (not applied) or gone (applied), but a
   report that was answered and is not in the collection afterwards is never explained *)
Example C17_failed_calls_nonvacuous :
  let sc := SubmitChange 0 (mkSD 3 [5] 7) in
  check_ftrace P0 [FFailed SetBootstrapped; FItem (SBoot [10; 0]); FItem (SCall sc [0; 0]); FItem (SCall GetShards [4; 1; 3; 7; 1; 5])]
    = [true; true; true; true] /\
  check_ftrace P0 [FFailed SetBootstrapped; FItem (SBoot [10; 0]); FItem (SCall sc [0; 2])] = [true; true; false] /\
  check_ftrace P0 [FFailed SetBootstrapped; FItem (SCall sc [0; 2]); FItem (SBoot [10; 1])] = [true; true; true] /\
  check_ftrace P0 [FFailed SetBootstrapped; FItem (SCall sc [0; 2]); FItem (SBoot [10; 0])] = [true; true; false] /\
  check_ftrace P0 [FItem (SCmd (CRequests [q0]) (Some 1)); FFailed (Report r3); FItem (SCall (Report r3) (3 :: 1 :: dump_req q0))]
    = [true; true; true] /\
  check_ftrace P0 [FItem (SCmd (CRequests [q0]) (Some 1)); FFailed (Report r3); FItem (SCall (Report r3) [3; 0])]
    = [true; true; true] /\
  check_ftrace P0 [FItem (SCall (Report r3) [3; 0]); FItem (SCall GetNodeHostCollection [5; 0; 0])] = [true; false].
Proof. vm_compute. repeat split; reflexivity. Qed.
