(** C01 — Self-healing: the control loop restores every shard after faults stop; with the closed-loop
    consequences of C02 (never more than one surplus member, never two members of a shard on one
    NodeHost) and C11 (a current member is never killed).
    Property theorems only (model: theories/Fleet.v on top of DB.v and Sched.v; proofs:
    proofs/FleetProofs.v).

    Strength: partial.
    PROVED, for ALL executions of the closed-loop model - every interleaving of tick / report built /
    report delivered (reply lost or not) / scheduling round with ANY outcome the scheduler model
    allows / execution (config change timing out or not) / crash / restart / arbitrary Raft lag, of
    any length, for any fleet and any shards: the inductive invariant [LoopInv]
      - view_in_hist: Drummer's view of a shard is an entry of the shard's real membership history,
      - size_bounds: every membership ever reached has between n and n+1 members on pairwise
        distinct NodeHosts (n = defined size),
      - requests_justified: every request in Requests / Outgoing / a host queue is justified against
        the history entry of its fence by a predicate that later events cannot falsify (stale
        mailboxes are harmless), an ADD id is never used twice, no launch request after the launch,
      - born_in_view: every replica on a host was a member of an entry not newer than the view,
      - every KILL request and every entry of the kill list names a replica id that was used and is
        not a current member (and can never become one again),
    holds initially ([init_ok]: the initial launch has completed) and is preserved by every event
    (C01_inv_init, C01_inv_step, C01_inv); no event makes the Drummer DB state machine or the
    NodeHost agent panic (C01_no_panic).  Hypothesis on the random source, explicit in every
    statement ([fresh_ok] / [fresh_run]): the replica ids drawn in a round are pairwise distinct and
    were never seen before.
    Liveness: PROVED - every entry of the view that needs work gets its request in every allowed batch
    (C01_round_acts); the healed and clean state [Steady] is a fixpoint of the healthy round in which
    the only possible scheduler outcome is the empty batch (C01_steady_round, C11_quiescent_round).
    NOT PROVED (stated below as [C01_progress_full], [C01_heal_full] : Prop, checked on every run by
    the closed-loop correspondence, harness/py/c01.py): that every LoopInv state REACHES such a state -
    rank decrease per healthy round and healing within a bound. *)
From stdpp Require Import gmap.
From Drummer.Model Require Import DB Sched Fleet FleetRun FleetExample.
From Drummer.Proofs Require Import DBTimeProofs FleetProofs FleetLiveProofs.
Local Open Scope N_scope.

(** * (i) the invariant of all executions *)

(* the state in which the initial launch has completed satisfies the invariant *)
Theorem C01_inv_init : forall st, init_ok st -> LoopInv st.
Proof. exact init_inv. Qed.
Print Assumptions C01_inv_init.

(* every event, fault events included, preserves it *)
Theorem C01_inv_step : forall (P : params) (st : fstate) (ev : event) (st' : fstate),
  LoopInv st -> fresh_ok st ev -> fstep P st ev = FOk st' -> LoopInv st'.
Proof. exact step_inv. Qed.
Print Assumptions C01_inv_step.

(* no event makes the DB state machine (sync_shard's consistency panics, the launch batch checks, the
   launch deadline) or the NodeHost agent (launch on existing data, malformed request) panic *)
Theorem C01_no_panic : forall (P : params) (st : fstate) (ev : event),
  LoopInv st -> fresh_ok st ev -> fstep P st ev <> FPanic.
Proof. exact step_no_panic. Qed.
Print Assumptions C01_no_panic.

(* all executions, of any length: induction over the event list, no bounds *)
Theorem C01_inv : forall (P : params) (st0 : fstate) (evs : list event),
  init_ok st0 -> fresh_run P st0 evs -> exists st, steps P st0 evs = Some st /\ LoopInv st.
Proof. intros P st0 evs H0 Hf. apply run_inv; [by apply init_inv|done]. Qed.
Print Assumptions C01_inv.

(* ticks_ordered: along every execution every stored report time (of a replica, of a NodeHost, of a
   stored report) stays at or below the DB's logical time, so the unsigned subtractions of the
   failure detector (C05) never wrap *)
Theorem C01_ticks_ordered : forall (P : params) (evs : list event) (st0 st : fstate),
  time_ok (f_db st0) -> steps P st0 evs = Some st -> time_ok (f_db st).
Proof. exact run_time_ok. Qed.
Print Assumptions C01_ticks_ordered.

(** * closed-loop consequences *)

(* C02: at every point of every execution, every membership a shard ever had has at least the defined
   number of members and at most one more *)
Theorem C02_surplus_le_1 : forall (P : params) (st0 st : fstate) (evs : list event) (s : N) (h : list hentry) (e : hentry),
  init_ok st0 -> fresh_run P st0 evs -> steps P st0 evs = Some st ->
  f_hist st !! s = Some h -> e ∈ h ->
  (shard_size (f_db st) s <= size e.2 /\ size e.2 <= shard_size (f_db st) s + 1)%nat.
Proof.
  intros P st0 st evs s h e H0 Hf Hs. destruct (run_inv P evs st0 (init_inv _ H0) Hf) as (st' & Hs' & HI).
  assert (st' = st) as -> by congruence. by apply inv_surplus.
Qed.
Print Assumptions C02_surplus_le_1.

(* C02: ... and no two of its members share a NodeHost *)
Theorem C02_no_colocation : forall (P : params) (st0 st : fstate) (evs : list event) (s : N) (h : list hentry) (e : hentry) (r1 r2 a : N),
  init_ok st0 -> fresh_run P st0 evs -> steps P st0 evs = Some st ->
  f_hist st !! s = Some h -> e ∈ h -> e.2 !! r1 = Some a -> e.2 !! r2 = Some a -> r1 = r2.
Proof.
  intros P st0 st evs s h e r1 r2 a H0 Hf Hs. destruct (run_inv P evs st0 (init_inv _ H0) Hf) as (st' & Hs' & HI).
  assert (st' = st) as -> by congruence. by apply inv_no_colocation.
Qed.
Print Assumptions C02_no_colocation.

(* C02: executing an ADD / DELETE against a membership newer than the one it was computed from has no effect *)
Theorem C02_fence_effect : forall (h : N) (ccok : bool) (hosts : gmap N fhost) (hist : gmap N (list hentry)) (q : request),
  (is_add q = true \/ is_delete q = true) -> q_ccid q <> cur_version (Fleet.hist_of hist (q_shard q)) ->
  exec_req h ccok (hosts, hist) q = Some (hosts, hist) \/ exec_req h ccok (hosts, hist) q = None.
Proof. exact fence_effect. Qed.
Print Assumptions C02_fence_effect.

(* C11: no KILL request - scheduled, handed out, or waiting in a host's queue - and no entry of the
   replicated kill list ever names a current member of its shard *)
Theorem C11_never_member : forall (P : params) (st0 st : fstate) (evs : list event),
  init_ok st0 -> fresh_run P st0 evs -> steps P st0 evs = Some st ->
  (forall q y, boxed st q -> is_kill q = true -> y ∈ q_members q ->
     is_member (cur_members (Fleet.hist_of (f_hist st) (q_shard q))) y = false) /\
  (forall k, k ∈ d_kill (f_db st) ->
     is_member (cur_members (Fleet.hist_of (f_hist st) (k_shard k))) (k_replica k) = false).
Proof.
  intros P st0 st evs H0 Hf Hs. destruct (run_inv P evs st0 (init_inv _ H0) Hf) as (st' & Hs' & HI).
  assert (st' = st) as -> by congruence. split.
  - intros q y. by apply inv_never_member.
  - intros k. by apply inv_kill_list.
Qed.
Print Assumptions C11_never_member.

(** * what a scheduling round does (any scheduler context) *)

(* level-triggered retries: every view entry that needs work - members to restore, or a DELETE / join-CREATE /
   ADD branch of the repair chain - gets its request in EVERY batch the scheduler may issue, every round *)
Theorem C01_round_acts : forall (P : params) (C : sctx) (b : list request) (c : shard),
  allowed P C (OBatch b) = true -> c ∈ entries C ->
  (has_restore P C c = true \/ repair_action P C c <> ANone) ->
  exists q, q ∈ b /\ q_shard q = s_id c /\ is_kill q = false.
Proof. exact round_acts. Qed.
Print Assumptions C01_round_acts.

(* C11 quiescence, decision level: when Drummer's view shows every member of every shard healthy and the
   kill list is empty, the ONLY outcome the scheduler can produce is the empty batch (no error, no panic),
   and the closed-loop state is left unchanged *)
Theorem C11_quiescent_round : forall (P : params) (st : fstate) (o : outcome) (st' : fstate),
  d_kill (f_db st) = [] ->
  (forall c, c ∈ entries (ctx_of_db (f_db st)) ->
     n_failed P (ctx_of_db (f_db st)) c = 0%nat /\ n_wait P (ctx_of_db (f_db st)) c = 0%nat) ->
  fstep P st (ESchedule o) = FOk st' -> o = OBatch [] /\ st' = st.
Proof. intros P st o st' Hk Hall. apply quiescent_step. split; [exact Hk|exact Hall]. Qed.
Print Assumptions C11_quiescent_round.

(* the hypothesis [init_ok] is what the correspondence evaluates (as the boolean [init_okb]) on the
   model state of every replayed run at the end of the launch phase *)
Theorem C01_init_checked : forall st, init_okb st = true -> init_ok st.
Proof. exact init_okb_sound. Qed.
Print Assumptions C01_init_checked.

(** * the healed, clean state is a fixpoint of the healthy round (proved part of the liveness side) *)

(* [Steady]: the invariant holds; every defined shard is launched; every host is up with an empty queue
   and no report in flight; Requests, Outgoing and the kill list are empty; for every shard Drummer's view
   is at the current membership version and every current member runs on its host and knows that version;
   every running replica is such a member (no stray); time has started.
   From such a state ONE healthy round (all hosts report - persisted logs or not -, all hosts execute,
   Raft catches up, nticks ticks with nticks * step <= ttl, then the scheduler with ANY outcome it is
   allowed to produce): the scheduler's outcome is necessarily the EMPTY batch (C11: no request at all, no
   error, no panic), the state is Steady again, and it is healed: every defined shard available in
   Drummer's view, every current member running on a live host, at least the defined number of members.
   By induction the fleet stays healed and receives no request in all later healthy rounds. *)
Theorem C01_steady_round : forall (P : params) (st st' : fstate) (plogs : N -> bool) (nticks : nat) (o : outcome),
  Steady st -> (0 < nticks)%nat -> N.of_nat nticks * p_step P <= p_ttl P ->
  healthy_round P plogs nticks o st = Some st' ->
  o = OBatch [] /\ Steady st' /\ healed P st' = true.
Proof. exact steady_round. Qed.
Print Assumptions C01_steady_round.

(* its decidable conjuncts are what the correspondence evaluates (with [healed]) on the final model state of
   every replayed run *)
Theorem C01_steady_checked : forall st, LoopInv st -> steady_restb st = true -> Steady st.
Proof. exact steady_restb_sound. Qed.
Print Assumptions C01_steady_checked.

(** * (ii), (iii): the liveness half - NOT proved; statements kept visible.
    What is missing: a rank function on LoopInv states (per shard, lexicographic: members whose
    persisted log is not yet reported / failed restorable members / waiting-to-start members /
    surplus failed members) together with the proof that [healthy_round] decreases it for every
    allowed scheduler outcome, which needs (a) the classification of Sched.v related to the REAL
    state (a member running on a live, reporting host is classified ok after one round: uses the
    time bounds of C05), (b) that under [fleet > shard size] the outcome OError is not allowed in a
    healthy round, and the lift from one shard to all shards.  The closed-loop correspondence checks
    [C01_heal_full] with B = 16 on every generated run (observed maximum over 20200 runs: 6 rounds). *)
Definition unhealed_rank_exists : Prop :=
  exists rank : params -> fstate -> nat,
    forall (P : params) (st st' : fstate) plogs nticks o,
      LoopInv st -> healed P st = false -> fresh_ok st (ESchedule o) ->
      healthy_round P plogs nticks o st = Some st' -> (rank P st' < rank P st)%nat.
Definition C01_progress_full : Prop := unhealed_rank_exists.

Definition fleet_larger (st : fstate) : Prop :=
  forall s sd, d_shards (f_db st) !! s = Some sd -> (length (sd_members sd) < size (f_hosts st))%nat.
(* B consecutive healthy rounds (any allowed scheduler outcomes [os], persisted logs reported in every
   round, [nticks] ticks per round with nticks * step <= ttl) from a LoopInv state in which every host is up *)
Fixpoint healthy_rounds (P : params) (nticks : nat) (os : list outcome) (st : fstate) : option fstate :=
  match os with
  | [] => Some st
  | o :: os' => match healthy_round P (fun _ => true) nticks o st with
                | Some st' => healthy_rounds P nticks os' st'
                | None => None
                end
  end.
Definition C01_heal_full : Prop :=
  exists B : params -> nat -> nat,
    forall (P : params) (nticks : nat) (os : list outcome) (st st' : fstate),
      LoopInv st -> fleet_larger st -> (forall a fh, f_hosts st !! a = Some fh -> fh_up fh = true) ->
      (0 < nticks)%nat -> N.of_nat nticks * p_step P <= p_ttl P ->
      length os = B P nticks -> healthy_rounds P nticks os st = Some st' -> healed P st' = true.

(** * Non-vacuity (closed by computation on a logged run of the implementation, FleetExample.v) *)

(* the hypothesis of the theorems is satisfiable: the state after the launch phase of a real run *)
Example C01_init_ok_computed :
  match ex_launched with Some st => init_okb st | None => false end = true.
Proof. vm_compute. reflexivity. Qed.

Example C01_init_ok_inhabited : exists st, ex_launched = Some st /\ init_ok st.
Proof.
  pose proof C01_init_ok_computed as H. destruct ex_launched as [st|]; [|done].
  exists st. split; [done|]. by apply init_okb_sound.
Qed.

(* the run continues through a crash, the failure timeout, an ADD scheduled by the real scheduler and
   executed: the shard's history has a second entry with 4 members (one surplus), the boolean safety
   conjuncts hold, the fleet is not healed: the invariant and its consequences are not vacuous there *)
Example C01_repair_reached :
  match ex_final with
  | Some st =>
    match f_hist st !! 1 with
    | Some h => (length h =? 2)%nat && (size (cur_members h) =? 4)%nat && safe_b st && negb (healed ex_params st)
    | None => false
    end
  | None => false
  end = true.
Proof. vm_compute. reflexivity. Qed.

(* the launched state of that run is Steady: C01_steady_round is not vacuous *)
Example C01_steady_computed :
  match ex_launched with Some st => init_okb st && steady_restb st | None => false end = true.
Proof. vm_compute. reflexivity. Qed.

Example C01_steady_inhabited : exists st, ex_launched = Some st /\ Steady st.
Proof.
  pose proof C01_steady_computed as H. destruct ex_launched as [st|]; [|done].
  apply andb_true_iff in H as [H1 H2]. exists st. split; [done|].
  apply steady_restb_sound; [|done]. by apply init_inv, init_okb_sound.
Qed.

(* the hypothesis on the random source is satisfiable for every batch with distinct new ids *)
Example C01_fresh_ok_satisfiable : forall st b,
  NoDup (add_ids b) -> (forall x, x ∈ add_ids b -> x ∉ f_seen st) -> fresh_ok st (ESchedule (OBatch b)).
Proof. intros st b H1 H2. split; assumption. Qed.
