(** C01 — Self-healing: the control loop restores every shard after faults stop; with the closed-loop
    consequences of C02 (never more than one surplus member, never two members of a shard on one
    NodeHost) and C11 (a current member is never killed).
    Property theorems only (model: theories/Fleet.v on top of DB.v and Sched.v; proofs:
    proofs/FleetProofs.v).

    Strength: partial.
    PROVED, for ALL executions of the closed-loop model - every interleaving of tick / report built /
    report delivered (reply lost or not) / scheduling round with ANY outcome the scheduler model
    allows / execution (config change timing out or not) / crash / restart / arbitrary Raft lag, of
    any length, for any fleet and any shards: the inductive invariant [LoopInv]
      - view_in_hist: Drummer's view of a shard is an entry of the shard's real membership history,
      - size_bounds: every membership ever reached has between n and n+1 members on pairwise
        distinct NodeHosts (n = defined size),
      - requests_justified: every request in Requests / Outgoing / a host queue is justified against
        the history entry of its fence by a predicate that later events cannot falsify (stale
        mailboxes are harmless), an ADD id is never used twice, no launch request after the launch,
      - born_in_view: every replica on a host was a member of an entry not newer than the view,
      - every KILL request and every entry of the kill list names a replica id that was used and is
        not a current member (and can never become one again),
    holds initially ([init_ok]: the initial launch has completed) and is preserved by every event
    (C01_inv_init, C01_inv_step, C01_inv); no event makes the Drummer DB state machine or the
    NodeHost agent panic (C01_no_panic).  Hypothesis on the random source, explicit in every
    statement ([fresh_ok] / [fresh_run]): the replica ids drawn in a round are pairwise distinct and
    were never seen before.
    Liveness: PROVED - every entry of the view that needs work gets its request in every allowed batch
    (C01_round_acts); the healed and clean state [Steady] is a fixpoint of the healthy round in which
    the only possible scheduler outcome is the empty batch (C01_steady_round, C11_quiescent_round);
    healing after NodeHost crashes and restarts ([Calm] states: no membership change in progress), all
    shards at once, every allowed scheduler outcome: rank decrease per healthy round
    (C01_progress_partial) and healing within ttl / (nticks * step) + 3 healthy rounds
    (C01_heal_partial), proofs/FleetHealProofs.v; and healing through the membership-change pipeline
    ([Mend] / [MendA] states: change applied and Drummer's view behind, joiner not yet created, joiner
    not yet reported, surplus member, removed member's stray replica running / in the kill list, stale
    ADD / DELETE / KILL / restore requests in the mailboxes), all shards at once, every allowed
    scheduler outcome: closure, rank decrease, healing within detect_rounds + 4 resp. + 5 healthy rounds
    (C01_mend_round, C01_mend_progress, C01_heal_mend, C01_heal_stage_view_behind, C01_heal_menda),
    proofs/FleetMendProofs.v, FleetMendAProofs.v; and through the round in which an ADD / DELETE with a
    current fence is applied ([MendB] states; C01_heal_stage_change_applied,
    C01_heal_stage_change_settled, C01_heal_mendb: detect_rounds + 6), proofs/FleetMendBProofs.v.
    NOT PROVED (stated below as [C01_progress_full], [C01_heal_full] : Prop, checked on every run by
    the closed-loop correspondence, harness/py/c01.py): the same from EVERY LoopInv state with all
    hosts up - members whose data is gone (the leader then schedules ADD / DELETE itself; every ADD
    allows the outcome "round dropped", see the note at C01_heal_full), live change requests next to
    pending CREATE requests or a waiting joiner of the same shard. *)
From stdpp Require Import gmap.
From Drummer.Model Require Import DB Sched Fleet FleetRun FleetExample FleetRounds.
From Drummer.Proofs Require Import DBTimeProofs FleetProofs FleetLiveProofs FleetHealProofs FleetMendProofs FleetMendAProofs FleetMendBProofs.
Local Open Scope N_scope.

(** * (i) the invariant of all executions *)

(* the state in which the initial launch has completed satisfies the invariant *)
Theorem C01_inv_init : forall st, init_ok st -> LoopInv st.
Proof. exact init_inv. Qed.
Print Assumptions C01_inv_init.

(* every event, fault events included, preserves it *)
Theorem C01_inv_step : forall (P : params) (st : fstate) (ev : event) (st' : fstate),
  LoopInv st -> fresh_ok st ev -> fstep P st ev = FOk st' -> LoopInv st'.
Proof. exact step_inv. Qed.
Print Assumptions C01_inv_step.

(* no event makes the DB state machine (sync_shard's consistency panics, the launch batch checks, the
   launch deadline) or the NodeHost agent (launch on existing data, malformed request) panic *)
Theorem C01_no_panic : forall (P : params) (st : fstate) (ev : event),
  LoopInv st -> fresh_ok st ev -> fstep P st ev <> FPanic.
Proof. exact step_no_panic. Qed.
Print Assumptions C01_no_panic.

(* all executions, of any length: induction over the event list, no bounds *)
Theorem C01_inv : forall (P : params) (st0 : fstate) (evs : list event),
  init_ok st0 -> fresh_run P st0 evs -> exists st, steps P st0 evs = Some st /\ LoopInv st.
Proof. intros P st0 evs H0 Hf. apply run_inv; [by apply init_inv|done]. Qed.
Print Assumptions C01_inv.

(* ticks_ordered: along every execution every stored report time (of a replica, of a NodeHost, of a
   stored report) stays at or below the DB's logical time, so the unsigned subtractions of the
   failure detector (C05) never wrap *)
Theorem C01_ticks_ordered : forall (P : params) (evs : list event) (st0 st : fstate),
  time_ok (f_db st0) -> steps P st0 evs = Some st -> time_ok (f_db st).
Proof. exact run_time_ok. Qed.
Print Assumptions C01_ticks_ordered.

(** * closed-loop consequences *)

(* C02: at every point of every execution, every membership a shard ever had has at least the defined
   number of members and at most one more *)
Theorem C02_surplus_le_1 : forall (P : params) (st0 st : fstate) (evs : list event) (s : N) (h : list hentry) (e : hentry),
  init_ok st0 -> fresh_run P st0 evs -> steps P st0 evs = Some st ->
  f_hist st !! s = Some h -> e ∈ h ->
  (shard_size (f_db st) s <= size e.2 /\ size e.2 <= shard_size (f_db st) s + 1)%nat.
Proof.
  intros P st0 st evs s h e H0 Hf Hs. destruct (run_inv P evs st0 (init_inv _ H0) Hf) as (st' & Hs' & HI).
  assert (st' = st) as -> by congruence. by apply inv_surplus.
Qed.
Print Assumptions C02_surplus_le_1.

(* C02: ... and no two of its members share a NodeHost *)
Theorem C02_no_colocation : forall (P : params) (st0 st : fstate) (evs : list event) (s : N) (h : list hentry) (e : hentry) (r1 r2 a : N),
  init_ok st0 -> fresh_run P st0 evs -> steps P st0 evs = Some st ->
  f_hist st !! s = Some h -> e ∈ h -> e.2 !! r1 = Some a -> e.2 !! r2 = Some a -> r1 = r2.
Proof.
  intros P st0 st evs s h e r1 r2 a H0 Hf Hs. destruct (run_inv P evs st0 (init_inv _ H0) Hf) as (st' & Hs' & HI).
  assert (st' = st) as -> by congruence. by apply inv_no_colocation.
Qed.
Print Assumptions C02_no_colocation.

(* C02: executing an ADD / DELETE against a membership newer than the one it was computed from has no effect *)
Theorem C02_fence_effect : forall (h : N) (ccok : bool) (hosts : gmap N fhost) (hist : gmap N (list hentry)) (q : request),
  (is_add q = true \/ is_delete q = true) -> q_ccid q <> cur_version (Fleet.hist_of hist (q_shard q)) ->
  exec_req h ccok (hosts, hist) q = Some (hosts, hist) \/ exec_req h ccok (hosts, hist) q = None.
Proof. exact fence_effect. Qed.
Print Assumptions C02_fence_effect.

(* C11: no KILL request - scheduled, handed out, or waiting in a host's queue - and no entry of the
   replicated kill list ever names a current member of its shard *)
Theorem C11_never_member : forall (P : params) (st0 st : fstate) (evs : list event),
  init_ok st0 -> fresh_run P st0 evs -> steps P st0 evs = Some st ->
  (forall q y, boxed st q -> is_kill q = true -> y ∈ q_members q ->
     is_member (cur_members (Fleet.hist_of (f_hist st) (q_shard q))) y = false) /\
  (forall k, k ∈ d_kill (f_db st) ->
     is_member (cur_members (Fleet.hist_of (f_hist st) (k_shard k))) (k_replica k) = false).
Proof.
  intros P st0 st evs H0 Hf Hs. destruct (run_inv P evs st0 (init_inv _ H0) Hf) as (st' & Hs' & HI).
  assert (st' = st) as -> by congruence. split.
  - intros q y. by apply inv_never_member.
  - intros k. by apply inv_kill_list.
Qed.
Print Assumptions C11_never_member.

(** * what a scheduling round does (any scheduler context) *)

(* level-triggered retries: every view entry that needs work - members to restore, or a DELETE / join-CREATE /
   ADD branch of the repair chain - gets its request in EVERY batch the scheduler may issue, every round *)
Theorem C01_round_acts : forall (P : params) (C : sctx) (b : list request) (c : shard),
  allowed P C (OBatch b) = true -> c ∈ entries C ->
  (has_restore P C c = true \/ repair_action P C c <> ANone) ->
  exists q, q ∈ b /\ q_shard q = s_id c /\ is_kill q = false.
Proof. exact round_acts. Qed.
Print Assumptions C01_round_acts.

(* C11 quiescence, decision level: when Drummer's view shows every member of every shard healthy and the
   kill list is empty, the ONLY outcome the scheduler can produce is the empty batch (no error, no panic),
   and the closed-loop state is left unchanged *)
Theorem C11_quiescent_round : forall (P : params) (st : fstate) (o : outcome) (st' : fstate),
  d_kill (f_db st) = [] ->
  (forall c, c ∈ entries (ctx_of_db (f_db st)) ->
     n_failed P (ctx_of_db (f_db st)) c = 0%nat /\ n_wait P (ctx_of_db (f_db st)) c = 0%nat) ->
  fstep P st (ESchedule o) = FOk st' -> o = OBatch [] /\ st' = st.
Proof. intros P st o st' Hk Hall. apply quiescent_step. split; [exact Hk|exact Hall]. Qed.
Print Assumptions C11_quiescent_round.

(* the hypothesis [init_ok] is what the correspondence evaluates (as the boolean [init_okb]) on the
   model state of every replayed run at the end of the launch phase *)
Theorem C01_init_checked : forall st, init_okb st = true -> init_ok st.
Proof. exact init_okb_sound. Qed.
Print Assumptions C01_init_checked.

(** * the healed, clean state is a fixpoint of the healthy round (proved part of the liveness side) *)

(* [Steady]: the invariant holds; every defined shard is launched; every host is up with an empty queue
   and no report in flight; Requests, Outgoing and the kill list are empty; for every shard Drummer's view
   is at the current membership version and every current member runs on its host and knows that version;
   every running replica is such a member (no stray); time has started.
   From such a state ONE healthy round (all hosts report - persisted logs or not -, all hosts execute,
   Raft catches up, nticks ticks with nticks * step <= ttl, then the scheduler with ANY outcome it is
   allowed to produce): the scheduler's outcome is necessarily the EMPTY batch (C11: no request at all, no
   error, no panic), the state is Steady again, and it is healed: every defined shard available in
   Drummer's view, every current member running on a live host, at least the defined number of members.
   By induction the fleet stays healed and receives no request in all later healthy rounds. *)
Theorem C01_steady_round : forall (P : params) (st st' : fstate) (plogs : N -> bool) (nticks : nat) (o : outcome),
  Steady st -> (0 < nticks)%nat -> N.of_nat nticks * p_step P <= p_ttl P ->
  healthy_round P plogs nticks o st = Some st' ->
  o = OBatch [] /\ Steady st' /\ healed P st' = true.
Proof. exact steady_round. Qed.
Print Assumptions C01_steady_round.

(* its decidable conjuncts are what the correspondence evaluates (with [healed]) on the final model state of
   every replayed run *)
Theorem C01_steady_checked : forall st, LoopInv st -> steady_restb st = true -> Steady st.
Proof. exact steady_restb_sound. Qed.
Print Assumptions C01_steady_checked.

(** * (ii), (iii): the liveness half.
    PROVED for the fleet after crashes and restarts ([Calm], FleetHealProofs.v): the invariant holds; all
    NodeHosts are up; for every shard Drummer's view shows the current membership (no membership change
    is in progress); every current member has its data on its NodeHost - running or NOT: the replicas of a
    restarted NodeHost stay stopped until Drummer asks for a restore, and they may lag behind -; nothing but
    current members runs; Requests / Outgoing / the host queues hold nothing but restore requests for
    current members (of any age), ADD / DELETE requests whose fence is not the current membership version
    (leftovers of completed repairs) and KILL requests for replicas that are not current members; the kill
    list is empty.  A healed, clean fleet is Calm and stays Calm
    when any NodeHost crashes and restarts, any number of times ([C01_calm_bounce]).
    From a Calm state, for ALL shards at once, for EVERY outcome the scheduler model allows in each round:
      - a healthy round never gets stuck, the scheduler cannot answer with errNotEnoughNodeHost or panic,
        every batch consists of restore requests for stopped members, the state is Calm again
        ([C01_calm_round], [C01_calm_round_total]);
      - a rank strictly decreases in every healthy round while the fleet is not healed ([C01_progress_partial]);
      - after  ttl / (nticks * step) + 3  healthy rounds the fleet is healed ([C01_heal_partial]).
    No fleet-size premise is needed here: a restarted NodeHost is restored in place, nothing is added.
    NOT PROVED ([C01_progress_full], [C01_heal_full] below): the same from EVERY state of the invariant in
    which all hosts are up - with a membership change in progress (ADD applied and the new member not yet
    created, surplus member not yet deleted), Drummer's view behind the real membership, stray replicas and
    a non-empty kill list, arbitrary stale ADD / DELETE / KILL requests in the mailboxes.  That is where the
    fleet-size premise is needed (errNotEnoughNodeHost drops the whole round, KILLs included).  The
    closed-loop correspondence checks healing within 16 healthy rounds on every generated run (observed
    maximum 6), and [C01_heal_full_instance] below runs the model on such a state. *)

(* what "healthy round" assumes (Fleet.healthy_round P plogs nticks o): no fault event; every NodeHost, in
   address order, builds a report (persisted-log list included when [plogs a]) and the report is delivered
   and answered with the requests picked up for it; every NodeHost executes its queue (config changes do
   not time out); every running current member of a shard whose majority runs learns the current
   membership; [nticks] ticks pass; the leader schedules with outcome [o], which must be one the scheduler
   model allows ([Sched.allowed]) in that context - otherwise there is no such round. *)

Theorem C01_calm_round : forall (P : params) (st st' : fstate) (plogs : N -> bool) (nticks : nat) (o : outcome),
  Calm st -> (forall a, plogs a = true) -> N.of_nat nticks * p_step P <= p_ttl P ->
  healthy_round P plogs nticks o st = Some st' ->
  exists b, o = OBatch b /\ Calm st' /\ f_hist st' = f_hist st /\
    (forall a fh, f_hosts st' !! a = Some fh -> fh_queue fh = []) /\
    (forall a s rid, member_running (f_hosts st) s rid a = true -> member_running (f_hosts st') s rid a = true).
Proof. exact calm_round_short. Qed.
Print Assumptions C01_calm_round.

(* the round exists: the scheduler has an allowed outcome and the round goes through with it *)
Theorem C01_calm_round_total : forall (P : params) (st : fstate) (plogs : N -> bool) (nticks : nat),
  Calm st -> (forall a, plogs a = true) -> N.of_nat nticks * p_step P <= p_ttl P ->
  exists o st', healthy_round P plogs nticks o st = Some st'.
Proof. exact calm_round_total. Qed.
Print Assumptions C01_calm_round_total.

(* (ii) the rank [heal_rank P st] = sum over all current members of all shards of
     0                          the member runs and Drummer's record of it is at most ttl old,
     1                          it runs, the record is older (it has just been restarted),
     2                          it is stopped and its restore request waits in Requests,
     3 + (ttl + 1 - age)        it is stopped, age = now - last report: the failure detector has not fired yet,
   strictly decreases in every healthy round from a Calm state that is not healed, whatever the scheduler does *)
Theorem C01_progress_partial : forall (P : params) (st st' : fstate) (plogs : N -> bool) (nticks : nat) (o : outcome),
  Calm st -> (forall a, plogs a = true) -> (0 < nticks)%nat -> 0 < p_step P -> N.of_nat nticks * p_step P <= p_ttl P ->
  healed P st = false -> healthy_round P plogs nticks o st = Some st' ->
  (heal_rank P st' < heal_rank P st)%nat.
Proof. exact calm_progress. Qed.
Print Assumptions C01_progress_partial.

(* (iii) B = detect_rounds P nticks + 2 = ttl / (nticks * step) + 3 healthy rounds heal every shard, and it
   stays healed in all later healthy rounds (any number of rounds >= B):
   the failure detector fires for every stopped member and its restore request is scheduled (detect_rounds),
   the NodeHosts restart them (1), they report (1) *)
Theorem C01_heal_partial : forall (P : params) (plogs : N -> bool) (nticks : nat) (os : list outcome) (st st' : fstate),
  Calm st -> (forall a, plogs a = true) -> (0 < nticks)%nat -> 0 < p_step P -> N.of_nat nticks * p_step P <= p_ttl P ->
  (detect_rounds P nticks + 2 <= length os)%nat ->
  healthy_rounds P plogs nticks os st = Some st' ->
  Calm st' /\ healed P st' = true.
Proof. intros P plogs nticks os st st' HC Hpl Hnt Hst Httl. by apply calm_heal_ge. Qed.
Print Assumptions C01_heal_partial.

(* a NodeHost crash followed by its restart keeps the fleet Calm; a Steady fleet whose members have all reported is Calm *)
Theorem C01_calm_bounce : forall (P : params) (st : fstate) (a : N) (st1 st2 : fstate),
  Calm st -> fstep P st (ECrash a) = FOk st1 -> fstep P st1 (ERestart a) = FOk st2 -> Calm st2.
Proof. exact calm_bounce. Qed.
Print Assumptions C01_calm_bounce.

(* the decidable conjuncts of Calm are what the examples below evaluate *)
Theorem C01_calm_checked : forall st, LoopInv st -> calm_restb st = true -> Calm st.
Proof. exact calm_restb_sound. Qed.
Print Assumptions C01_calm_checked.

(** ** the membership-change pipeline (FleetMendProofs.v, FleetMendAProofs.v)
    A strictly larger class than Calm.
    [Mend]: as Calm (invariant, all NodeHosts up, Drummer's view at the current membership version, every member that
    has reported has its data), except that
      - a shard may have a JOINER - a current member, added by a completed ADD, that Drummer's view shows as "waiting
        to be started": it has never reported.  It may not exist on its NodeHost yet (stage "view current, joiner not
        yet created") or exist, run and not have reported (stage "joiner created, not yet reported"); at most one
        joiner per shard; the shard may carry one surplus member (stage "surplus member not yet deleted": nothing is
        deleted while every member's NodeHost is up and has the member's data - the failed member is restored);
      - STRAY replicas may run - replicas of removed members that have not learned of their removal (the replica knows
        less than the current membership version, no current member of the shard lives on its NodeHost) - and the
        kill list may be non-empty (stage "stray replica of the removed member still running / in the kill list");
      - the mailboxes (Requests, Outgoing, NodeHost queues) may hold, in any number: restores for current members,
        join-CREATEs for current members on their NodeHost, ADD / DELETE with a stale fence, KILLs of non-members, and
        restores for REMOVED members (executed, they restart the removed replica: a stray).
    [MendA]: as Mend, except that in some shards a membership change has only just been applied (stages "ADD applied,
    Drummer's view behind" and "DELETE applied, Drummer's view behind"): the membership is (v+1, M + x) resp.
    (v+1, M - x), the view still shows (v, M), every member of M has reported, an added replica x runs nowhere (a
    removed one may still run), and some running replica - the proposer of the change - knows v+1.
    Calm ⊆ Mend ⊆ MendA.  From these states, for ALL shards at once and EVERY outcome the scheduler model allows:
      - one healthy round keeps the fleet in Mend, resp. takes it from MendA to Mend: the report phase brings the
        view up to date (an added x becomes a waiting joiner, a removed x leaves the view); the scheduler can only
        answer with a batch of restore, join-CREATE and KILL requests (no ADD, no DELETE, no errNotEnoughNodeHost,
        no panic); running members keep running ([C01_mend_round], [C01_heal_stage_view_behind]);
      - a rank strictly decreases in every healthy round while the fleet is not healed ([C01_mend_progress] from Mend,
        [C01_menda_progress] from MendA);
      - after detect_rounds + 4 healthy rounds from Mend, resp. detect_rounds + 5 from MendA, the fleet is healed and
        stays healed ([C01_heal_mend], [C01_heal_menda]); detect_rounds = ttl / (nticks * step) + 1.
    No fleet-size premise is needed: nothing is added from these states (no errNotEnoughNodeHost is possible).
    Which theorem covers which stage of the pipeline:
      ADD applied, view behind / DELETE applied, view behind ........ C01_heal_stage_view_behind, C01_heal_menda
      view current, joiner not yet created / created, not reported .. C01_mend_round, C01_mend_progress, C01_heal_mend
      surplus member; stray replica running / in the kill list;
      stale ADD / DELETE / KILL / restore leftovers ................. the same three (they are part of Mend)
    The stage "ADD / DELETE request with a CURRENT fence pending" - the round in which the change is applied: the
    membership history changes in the middle of the round and the leader schedules from a view that is behind - is
    covered by [MendB] below.  Stages that remain OPEN (part of [C01_heal_full]): members without data (a really lost
    replica: the leader schedules ADD / DELETE itself - this is where [C01_no_error_round] and its [spare] premise
    are needed), a live change request next to a pending CREATE request or a waiting joiner of its shard. *)

Theorem C01_calm_mend : forall st, Calm st -> Mend st.
Proof. exact calm_mend. Qed.
Print Assumptions C01_calm_mend.

Theorem C01_mend_menda : forall st, Mend st -> MendA st.
Proof. exact mend_menda. Qed.
Print Assumptions C01_mend_menda.

Theorem C01_mend_round : forall (P : params) (st st' : fstate) (plogs : N -> bool) (nticks : nat) (o : outcome),
  Mend st -> (forall a, plogs a = true) -> N.of_nat nticks * p_step P <= p_ttl P ->
  healthy_round P plogs nticks o st = Some st' ->
  exists b, o = OBatch b /\ add_ids b = [] /\ Mend st' /\ f_hist st' = f_hist st /\
    (forall a s rid, member st s rid a -> member_running (f_hosts st) s rid a = true -> member_running (f_hosts st') s rid a = true).
Proof. exact mend_round_short. Qed.
Print Assumptions C01_mend_round.

Theorem C01_mend_progress : forall (P : params) (st st' : fstate) (plogs : N -> bool) (nticks : nat) (o : outcome),
  Mend st -> (forall a, plogs a = true) -> (0 < nticks)%nat -> 0 < p_step P -> N.of_nat nticks * p_step P <= p_ttl P ->
  healed P st = false -> healthy_round P plogs nticks o st = Some st' ->
  (mend_rank P st' < mend_rank P st)%nat.
Proof. exact mend_progress. Qed.
Print Assumptions C01_mend_progress.

Theorem C01_heal_mend : forall (P : params) (plogs : N -> bool) (nticks : nat) (os : list outcome) (st st' : fstate),
  (forall a, plogs a = true) -> N.of_nat nticks * p_step P <= p_ttl P ->
  Mend st -> (0 < nticks)%nat -> 0 < p_step P ->
  (detect_rounds P nticks + 4 <= length os)%nat ->
  healthy_rounds P plogs nticks os st = Some st' ->
  Mend st' /\ healed P st' = true.
Proof. intros P plogs nticks os st st' Hpl Httl. by apply mend_heal_ge. Qed.
Print Assumptions C01_heal_mend.

(* stages "ADD applied / DELETE applied, Drummer's view behind": one healthy round ends in Mend *)
Theorem C01_heal_stage_view_behind : forall (P : params) (st st' : fstate) (plogs : N -> bool) (nticks : nat) (o : outcome),
  MendA st -> (forall a, plogs a = true) -> N.of_nat nticks * p_step P <= p_ttl P ->
  healthy_round P plogs nticks o st = Some st' ->
  exists b, o = OBatch b /\ add_ids b = [] /\ Mend st' /\ f_hist st' = f_hist st.
Proof. exact menda_round. Qed.
Print Assumptions C01_heal_stage_view_behind.

Theorem C01_heal_menda : forall (P : params) (os : list outcome) (st st' : fstate) (plogs : N -> bool) (nticks : nat),
  MendA st -> (forall a, plogs a = true) -> N.of_nat nticks * p_step P <= p_ttl P -> (0 < nticks)%nat -> 0 < p_step P ->
  (detect_rounds P nticks + 5 <= length os)%nat ->
  healthy_rounds P plogs nticks os st = Some st' ->
  Mend st' /\ healed P st' = true.
Proof. exact menda_heal. Qed.
Print Assumptions C01_heal_menda.

(* the rank over the whole class: a shard whose view is behind outranks everything Mend's rank can reach *)
Theorem C01_menda_progress : forall (P : params) (st st' : fstate) (plogs : N -> bool) (nticks : nat) (o : outcome),
  MendA st -> (forall a, plogs a = true) -> (0 < nticks)%nat -> 0 < p_step P -> N.of_nat nticks * p_step P <= p_ttl P ->
  healed P st = false -> healthy_round P plogs nticks o st = Some st' ->
  (menda_rank P st' < menda_rank P st)%nat.
Proof. exact menda_progress. Qed.
Print Assumptions C01_menda_progress.

Theorem C01_mend_checked : forall st, LoopInv st -> mend_restb st = true -> Mend st.
Proof. exact mend_restb_sound. Qed.
Print Assumptions C01_mend_checked.

Theorem C01_menda_checked : forall st, LoopInv st -> menda_restb st = true -> MendA st.
Proof. exact menda_restb_sound. Qed.
Print Assumptions C01_menda_checked.

(** ** the round in which a membership change is applied (FleetMendBProofs.v)
    [MendB]: as MendA, except that ADD / DELETE requests with a CURRENT fence may be pending (in Requests or in a
    NodeHost queue; the copies Drummer keeps in Outgoing are unconstrained - they are replaced at the NodeHost's next
    report and nothing is delivered from them in a healthy round).  Such a LIVE request q, pending for NodeHost a:
      - its fence is the current membership version of its shard, which is also the version of Drummer's view, and every
        member the view shows has reported; a is a NodeHost; the shard id is not 0;
      - no CREATE (restore / join) request for the shard is pending anywhere;
      - an ADD names a NodeHost that exists, carries no data of the shard and is not the address of a member of the
        shard, and a replica id that has no data anywhere;
      - a DELETE is not proposed on the NodeHost of the member it removes.
    Any number of live requests per shard is allowed (the first one applied makes the others stale).  This is the
    state right after the leader scheduled a membership change (e.g. the DELETE of a dead member, [C01_mendb_inhabited]).
    For EVERY outcome the scheduler model allows, all shards at once, no premise on spare NodeHosts or on the random
    source (no ADD can be scheduled from these states, so there is no errNotEnoughNodeHost and no id is drawn):
      - [C01_heal_stage_change_applied]: a healthy round from MendB - the NodeHosts execute the live requests: each is
        applied (the membership history grows by one entry IN THE MIDDLE of the execution phase, the proposer knows
        the new version) or dropped (config change not ready); the leader then schedules from a view that may be behind
        - ends in MendB with every pending request a harmless leftover or a request for a current member (the live
        requests that remain are inert copies in Outgoing), the scheduler having answered with a batch of restore,
        join-CREATE and KILL requests only;
      - [C01_heal_stage_change_settled]: the next healthy round ends in Mend;
      - [C01_heal_mendb]: after detect_rounds + 6 healthy rounds the fleet is healed, and stays healed;
      - [C01_mendb_progress]: the pair (stage of the change, rank of Mend) decreases lexicographically per round.
    The execution-level generalisation ("the history changes only by appending one entry for the shard of the
    executed request; the host-side class holds relative to the NEW history; the pending requests keep a
    classification relative to it") is FleetMendBProofs.bexec_one / mp_exec_req.
    MendA ⊆ MendB for states in which only NodeHosts have an Outgoing mailbox ([C01_menda_mendb]; true on every run -
    Outgoing[a] is written when a reports - but not part of LoopInv). *)
Theorem C01_menda_mendb : forall st, MendA st -> out_hosts st -> MendB st.
Proof. exact menda_mendb. Qed.
Print Assumptions C01_menda_mendb.

Theorem C01_heal_stage_change_applied : forall (P : params) (st st' : fstate) (plogs : N -> bool) (nticks : nat) (o : outcome),
  MendB st -> (forall a, plogs a = true) -> N.of_nat nticks * p_step P <= p_ttl P ->
  healthy_round P plogs nticks o st = Some st' ->
  exists b, o = OBatch b /\ add_ids b = [] /\ MendB st' /\ (forall a q, nonout st' a q -> mharmless (f_hist st') a q).
Proof. exact mendb_round. Qed.
Print Assumptions C01_heal_stage_change_applied.

Theorem C01_heal_stage_change_settled : forall (P : params) (st st' : fstate) (plogs : N -> bool) (nticks : nat) (o : outcome),
  MendB st -> (forall a q, nonout st a q -> mharmless (f_hist st) a q) ->
  (forall a, plogs a = true) -> N.of_nat nticks * p_step P <= p_ttl P ->
  healthy_round P plogs nticks o st = Some st' ->
  exists b, o = OBatch b /\ add_ids b = [] /\ Mend st'.
Proof. exact mendb_inert_round. Qed.
Print Assumptions C01_heal_stage_change_settled.

(* the rank over the new stage: the pair (stage of the change, rank of Mend) decreases lexicographically in every healthy
   round while the fleet is not healed - stage 2: a change request with a current fence is pending (scheduled /
   delivered); 1: it has been applied or dropped, Drummer's view is behind or stale copies are left in Outgoing;
   0: settled, the state is in Mend and [mend_rank] takes over *)
Theorem C01_mendb_progress : forall (P : params) (st st' : fstate) (plogs : N -> bool) (nticks : nat) (o : outcome),
  MendB st -> (forall a, plogs a = true) -> (0 < nticks)%nat -> 0 < p_step P -> N.of_nat nticks * p_step P <= p_ttl P ->
  healed P st = false -> healthy_round P plogs nticks o st = Some st' ->
  (mendb_stage st' < mendb_stage st)%nat \/
  (mendb_stage st = 0%nat /\ mendb_stage st' = 0%nat /\ (mend_rank P st' < mend_rank P st)%nat).
Proof. exact mendb_progress. Qed.
Print Assumptions C01_mendb_progress.

Theorem C01_heal_mendb : forall (P : params) (os : list outcome) (st st' : fstate) (plogs : N -> bool) (nticks : nat),
  MendB st -> (forall a, plogs a = true) -> N.of_nat nticks * p_step P <= p_ttl P -> (0 < nticks)%nat -> 0 < p_step P ->
  (detect_rounds P nticks + 6 <= length os)%nat ->
  healthy_rounds P plogs nticks os st = Some st' ->
  Mend st' /\ healed P st' = true.
Proof. exact mendb_heal. Qed.
Print Assumptions C01_heal_mendb.

(** ** errNotEnoughNodeHost: cause and exclusion, from ANY state of the invariant *)
(* the cause (decision level, any context): a view entry in the ADD branch of the repair chain has a failed member
   for which NO live NodeHost (reported less than ttl ago) is free of the shard; Drummer then drops the WHOLE
   round - restores, join-CREATEs and KILLs of all other shards included *)
Theorem C01_error_cause : forall (P : params) (C : sctx),
  allowed P C OError = true ->
  exists c n, c ∈ entries C /\ repair_action P C c = AAdd /\ n ∈ sr_failed P C c /\
              forall h, h ∈ host_list C -> host_live P C h = true -> r_shard n ∈ h_shards h.
Proof. exact error_cause. Qed.
Print Assumptions C01_error_cause.

(* the exclusion: in a healthy round (shorter than ttl) from ANY state of the invariant with all NodeHosts up, if
   every launched shard has a spare NodeHost - up, running no replica of the shard, not the address of a member
   of the shard in any membership from the one Drummer's view shows onwards - the scheduler cannot answer
   errNotEnoughNodeHost, whatever happened before.  (A fleet with more NodeHosts than the shard has ever had
   member addresses since that version, and no stray replica on the extra one, has such a host.) *)
Theorem C01_no_error_round : forall (P : params) (st st' : fstate) (plogs : N -> bool) (nticks : nat) (o : outcome),
  LoopInv st -> (forall a fh, f_hosts st !! a = Some fh -> fh_up fh = true) ->
  (forall s, is_Some (f_hist st !! s) -> exists a, spare st a s) ->
  N.of_nat nticks * p_step P < p_ttl P ->
  healthy_round P plogs nticks o st = Some st' -> o <> OError.
Proof. exact round_no_error. Qed.
Print Assumptions C01_no_error_round.

(** ** the statements that remain open *)
(* every current member has its data on its NodeHost, or has never been started (Drummer's record of it, if any,
   carries no report).  Without it the statement is false: LoopInv alone admits states in which a majority of
   a shard has lost its data. *)
Definition members_have_data (st : fstate) : Prop :=
  forall s h rid a, f_hist st !! s = Some h -> cur_members h !! rid = Some a ->
    (exists fh lr, f_hosts st !! a = Some fh /\ fh_reps fh !! (s, rid) = Some lr) \/
    (forall c n, d_view (f_db st) !! s = Some c -> s_reps c !! rid = Some n -> r_tick n = 0).
Definition fleet_larger (st : fstate) : Prop :=
  forall s sd, d_shards (f_db st) !! s = Some sd -> (length (sd_members sd) < size (f_hosts st))%nat.
Definition all_up (st : fstate) : Prop := forall a fh, f_hosts st !! a = Some fh -> fh_up fh = true.
(* further premises the open statements need (each one is necessary in the model): time has started (a member
   recorded at logical time 0 counts as failed for ever); 0 < step (otherwise the failure detector never fires);
   nticks * step < ttl STRICTLY (with equality no NodeHost is "live" when the leader schedules and every ADD ends in
   errNotEnoughNodeHost); fleet_larger is the property's premise - what the proved C01_no_error_round uses is the
   more precise [spare] *)
(* the random source: the new replica ids of every round are fresh *)
Fixpoint fresh_rounds (P : params) (nticks : nat) (os : list outcome) (st : fstate) : Prop :=
  match os with
  | [] => True
  | o :: os' =>
    match pre_schedule P (fun _ => true) nticks st with Some st4 => fresh_ok st4 (ESchedule o) | None => True end /\
    match healthy_round P (fun _ => true) nticks o st with Some st' => fresh_rounds P nticks os' st' | None => True end
  end.

Definition C01_progress_full : Prop :=
  exists rank : params -> fstate -> nat,
    forall (P : params) (st st' : fstate) nticks o,
      LoopInv st -> members_have_data st -> fleet_larger st -> all_up st -> 0 < d_tick (f_db st) ->
      (0 < nticks)%nat -> 0 < p_step P -> N.of_nat nticks * p_step P < p_ttl P ->
      healed P st = false -> fresh_rounds P nticks [o] st ->
      healthy_round P (fun _ => true) nticks o st = Some st' -> (rank P st' < rank P st)%nat.

(* B consecutive healthy rounds (any allowed scheduler outcomes [os], persisted logs reported in every
   round, [nticks] ticks per round with nticks * step < ttl) from ANY state of the invariant in which every
   host is up *)
(* NOTE (found while proving the stages): in every round in which the scheduler's decision for some shard is ADD,
   Sched.allowed also admits the outcome OCrash (the random source may return replica id 0, validateNodeHostRequest
   panics, the round is dropped - Sched.may_invalid, entry_may_invalid AAdd), and Fleet.fstep answers it with
   "FOk st": a healthy round whose scheduling step changes nothing, as often as the adversary likes.  A proof of the
   statement below "for EVERY allowed outcome" must therefore show that under its premises (members_have_data) an ADD
   decision cannot persist, or assume that the random source never returns 0.  The proved stage theorems do not meet
   the problem: no ADD can be scheduled from Calm / Mend / MendA / MendB states. *)
Definition C01_heal_full : Prop :=
  exists B : params -> nat -> nat,
    forall (P : params) (nticks : nat) (os : list outcome) (st st' : fstate),
      LoopInv st -> members_have_data st -> fleet_larger st -> all_up st -> 0 < d_tick (f_db st) ->
      (0 < nticks)%nat -> 0 < p_step P -> N.of_nat nticks * p_step P < p_ttl P ->
      fresh_rounds P nticks os st ->
      length os = B P nticks -> healthy_rounds P (fun _ => true) nticks os st = Some st' -> healed P st' = true.

(** * Non-vacuity (closed by computation on a logged run of the implementation, FleetExample.v) *)

(* the hypothesis of the theorems is satisfiable: the state after the launch phase of a real run *)
Example C01_init_ok_computed :
  match ex_launched with Some st => init_okb st | None => false end = true.
Proof. vm_compute. reflexivity. Qed.

Example C01_init_ok_inhabited : exists st, ex_launched = Some st /\ init_ok st.
Proof.
  pose proof C01_init_ok_computed as H. destruct ex_launched as [st|]; [|done].
  exists st. split; [done|]. by apply init_okb_sound.
Qed.

(* the run continues through a crash, the failure timeout, an ADD scheduled by the real scheduler and
   executed: the shard's history has a second entry with 4 members (one surplus), the boolean safety
   conjuncts hold, the fleet is not healed: the invariant and its consequences are not vacuous there *)
Example C01_repair_reached :
  match ex_final with
  | Some st =>
    match f_hist st !! 1 with
    | Some h => (length h =? 2)%nat && (size (cur_members h) =? 4)%nat && safe_b st && negb (healed ex_params st)
    | None => false
    end
  | None => false
  end = true.
Proof. vm_compute. reflexivity. Qed.

(* the launched state of that run is Steady: C01_steady_round is not vacuous *)
Example C01_steady_computed :
  match ex_launched with Some st => init_okb st && steady_restb st | None => false end = true.
Proof. vm_compute. reflexivity. Qed.

Example C01_steady_inhabited : exists st, ex_launched = Some st /\ Steady st.
Proof.
  pose proof C01_steady_computed as H. destruct ex_launched as [st|]; [|done].
  apply andb_true_iff in H as [H1 H2]. exists st. split; [done|].
  apply steady_restb_sound; [|done]. by apply init_inv, init_okb_sound.
Qed.

(* the hypothesis on the random source is satisfiable for every batch with distinct new ids *)
Example C01_fresh_ok_satisfiable : forall st b,
  NoDup (add_ids b) -> (forall x, x ∈ add_ids b -> x ∉ f_seen st) -> fresh_ok st (ESchedule (OBatch b)).
Proof. intros st b H1 H2. split; assumption. Qed.

(** ** non-vacuity of the liveness theorems *)
(* the launched state of the logged run, then NodeHosts 1 and 2 crash and restart: 2 of the 3 members of
   shard 1 are stopped *)
Definition ex_bounced : option fstate :=
  match ex_launched with Some st => steps ex_params st [ECrash 1; ERestart 1; ECrash 2; ERestart 2] | None => None end.

(* the launched state is Calm, the bounced state is Calm and NOT healed *)
Example C01_calm_computed :
  match ex_launched, ex_bounced with
  | Some st0, Some st => init_okb st0 && calm_restb st0 && calm_restb st && negb (healed ex_params st)
  | _, _ => false
  end = true.
Proof. vm_compute. reflexivity. Qed.

Example C01_calm_inhabited : exists st, ex_bounced = Some st /\ Calm st /\ healed ex_params st = false.
Proof.
  pose proof C01_calm_computed as H. unfold ex_bounced in *. destruct ex_launched as [st0|]; [|done].
  destruct (steps ex_params st0 [ECrash 1; ERestart 1; ECrash 2; ERestart 2]) as [st|] eqn:E; [|done].
  apply andb_true_iff in H as [H H4]. apply andb_true_iff in H as [H H3]. apply andb_true_iff in H as [H1 H2].
  exists st. split; [done|]. split; [|by apply negb_true_iff].
  apply calm_restb_sound; [|done].
  destruct (run_inv ex_params [ECrash 1; ERestart 1; ECrash 2; ERestart 2] st0 (init_inv _ (init_okb_sound _ H1))) as (st' & E' & HI).
  { by apply fresh_run_faults. }
  congruence.
Qed.

(* with ttl = 60, step = 5 and 2 ticks per round: detect_rounds = 7, B = 9; nine healthy rounds with the
   scheduler's canonical outcomes exist from the bounced state (the hypotheses of C01_heal_partial are
   satisfiable), five of them empty, then the restore requests; the fleet is healed and Steady again *)
Example C01_heal_computed :
  match ex_bounced with
  | Some st =>
    match canon_run ex_params (fun _ => true) 2 (fun i _ => 1000 + N.of_nat i) 9 st with
    | Some (os, st') =>
      bool_decide (healthy_rounds ex_params (fun _ => true) 2 os st = Some st')
      && bool_decide (length os = (detect_rounds ex_params 2 + 2)%nat)
      && existsb (fun o => match o with OBatch (_ :: _) => true | _ => false end) os
      && healed ex_params st' && steady_restb st'
    | None => false
    end
  | None => false
  end = true.
Proof. vm_compute. reflexivity. Qed.

(* an instance of the OPEN statement, by computation: the final state of the logged run (NodeHost 1 down, its
   replacement ADDed on NodeHost 4 but not yet created: 4 members, a membership change in progress - not
   Calm), NodeHost 1 restarts; healthy rounds with the scheduler's canonical outcomes: restore of replica 1,
   join-CREATE of the new replica 105; healed and Steady after 12 rounds (4 suffice) *)
Example C01_heal_full_instance :
  match ex_final with
  | Some st0 =>
    match steps ex_params st0 [ERestart 1] with
    | Some st =>
      negb (calm_restb st) &&
      match canon_run ex_params (fun _ => true) 2 (fun i _ => 1000 + N.of_nat i) 12 st with
      | Some (os, st') =>
        bool_decide (healthy_rounds ex_params (fun _ => true) 2 os st = Some st') && healed ex_params st' && steady_restb st'
      | None => false
      end
    | None => false
    end
  | None => false
  end = true.
Proof. vm_compute. reflexivity. Qed.

(* the premise of C01_no_error_round is satisfiable: in the bounced state NodeHost 4 is spare for shard 1 (the
   only launched shard) and NodeHost 1 is not; in the final state of the logged run (after NodeHost 1 has
   restarted) there is NO spare host for shard 1: all four NodeHosts hold a member *)
Example C01_spare_computed :
  match ex_bounced with
  | Some st => spareb st 4 1 && negb (spareb st 1 1) && bool_decide (dom (f_hist st) = ({[1]} : gset N))
  | None => false
  end = true.
Proof. vm_compute. reflexivity. Qed.

Example C01_no_spare_computed :
  match ex_final with
  | Some st0 =>
    match steps ex_params st0 [ERestart 1] with
    | Some st1 => forallb (fun a => negb (spareb st1 a 1)) [1; 2; 3; 4]
    | None => false
    end
  | None => false
  end = true.
Proof. vm_compute. reflexivity. Qed.

Example C01_spare_inhabited :
  exists st, ex_bounced = Some st /\ (forall s, is_Some (f_hist st !! s) -> exists a, spare st a s).
Proof.
  pose proof C01_spare_computed as H. destruct ex_bounced as [st|]; [|done]. exists st. split; [done|].
  apply andb_true_iff in H as [H Hdom]. apply andb_true_iff in H as [H _]. apply bool_decide_eq_true in Hdom.
  intros s Hs. apply elem_of_dom in Hs. rewrite Hdom in Hs. apply elem_of_singleton in Hs as ->.
  exists 4. by apply spareb_sound.
Qed.

(** ** non-vacuity of the pipeline theorems: the state right after an ADD was applied for a really failed member *)
(* the final state of the logged run (NodeHost 1 crashed, stayed down beyond the failure timeout, Drummer ADDed a
   replacement on NodeHost 4, the ADD was applied: membership version 2, Drummer's view at version 1), then NodeHost 1
   restarts: the state is in MendA (decidable part) and not in Mend; after ONE healthy round with the scheduler's
   canonical outcome it is in Mend - the replacement is a waiting joiner - and not Calm, not healed *)
Definition ex_added : option fstate :=
  match ex_final with Some st0 => steps ex_params st0 [ERestart 1] | None => None end.

Example C01_menda_computed :
  match ex_added with
  | Some st =>
    menda_restb st && negb (mend_restb st) &&
    match canon_run ex_params (fun _ => true) 2 (fun i _ => 1000 + N.of_nat i) 1 st with
    | Some (os, st') => mend_restb st' && negb (calm_restb st') && negb (healed ex_params st')
    | None => false
    end
  | None => false
  end = true.
Proof. vm_compute. reflexivity. Qed.

(* ... and the bound of C01_heal_menda: detect_rounds + 5 rounds (with the scheduler's canonical outcomes) end healed *)
Example C01_menda_heal_computed :
  match ex_added with
  | Some st =>
    match canon_run ex_params (fun _ => true) 2 (fun i _ => 1000 + N.of_nat i) (detect_rounds ex_params 2 + 5) st with
    | Some (os, st') =>
      bool_decide (healthy_rounds ex_params (fun _ => true) 2 os st = Some st')
      && healed ex_params st' && mend_restb st'
    | None => false
    end
  | None => false
  end = true.
Proof. vm_compute. reflexivity. Qed.

(* the DELETE half of the pipeline, with a stray replica.  The logged run continues with healthy rounds (the
   scheduler's canonical outcomes, NodeHost 1 still down): the joiner 105 is created and reports, the dead member 1 is
   DELETEd (current fence).  While the DELETE request waits in the mailbox NodeHost 1 restarts (that state is in the
   OPEN stage); in the next round the DELETE is applied and the leader, whose view is behind, sends a restore request
   for the removed replica 1 to NodeHost 1.  That is [ex_deleted]: in MendA (DELETE applied, view behind, restore
   request for a removed member in the mailbox), not in Mend.  One healthy round later the view is current and the
   removed replica RUNS - a stray (Mend, not Calm); in the next round it is in the kill list and a KILL request is
   out; in the next the replica is gone. *)
Definition ex_deleted : option fstate :=
  match ex_final with
  | Some st0 =>
    match canon_run ex_params (fun _ => true) 2 (fun i _ => 1000 + N.of_nat i) 3 st0 with
    | Some (_, st1) =>
      match steps ex_params st1 [ERestart 1] with
      | Some st2 =>
        match canon_run ex_params (fun _ => true) 2 (fun i _ => 2000 + N.of_nat i) 1 st2 with
        | Some (_, st) => Some st
        | None => None
        end
      | None => None
      end
    | None => None
    end
  | None => None
  end.

(* some running replica is not a current member *)
Definition stray_runs (st : fstate) : bool :=
  existsb (fun ah : N * fhost =>
             existsb (fun kl : N * N * lrep => lr_running kl.2 && negb (is_member (cur_members (hist_of (f_hist st) kl.1.1)) kl.1.2))
                     (map_to_list (fh_reps ah.2)))
          (map_to_list (f_hosts st)).
Definition one_round (st : fstate) : option fstate :=
  match canon_run ex_params (fun _ => true) 2 (fun i _ => 3000 + N.of_nat i) 1 st with Some (_, st') => Some st' | None => None end.

Example C01_stray_computed :
  match ex_deleted with
  | Some st =>
    menda_restb st && negb (mend_restb st) && negb (stray_runs st) &&
    match one_round st with
    | Some st1 =>
      mend_restb st1 && negb (calm_restb st1) && stray_runs st1 && bool_decide (d_kill (f_db st1) = []) &&
      match one_round st1 with
      | Some st2 =>
        mend_restb st2 && stray_runs st2 && negb (bool_decide (d_kill (f_db st2) = [])) &&
        match one_round st2 with
        | Some st3 => mend_restb st3 && negb (stray_runs st3) && healed ex_params st3
        | None => false
        end
      | None => false
      end
    | None => false
    end
  | None => false
  end = true.
Proof. vm_compute. reflexivity. Qed.

(* ... and the bound of C01_heal_menda from that state *)
Example C01_stray_heal_computed :
  match ex_deleted with
  | Some st =>
    match canon_run ex_params (fun _ => true) 2 (fun i _ => 3000 + N.of_nat i) (detect_rounds ex_params 2 + 5) st with
    | Some (os, st') =>
      bool_decide (healthy_rounds ex_params (fun _ => true) 2 os st = Some st')
      && healed ex_params st' && mend_restb st' && calm_restb st' && negb (stray_runs st')
    | None => false
    end
  | None => false
  end = true.
Proof. vm_compute. reflexivity. Qed.

(* the FULL premises of the pipeline theorems - the invariant included - hold in [ex_added] and [ex_deleted]: the events
   of the logged run after the launch, and the canonical rounds after it, satisfy the hypothesis on the random source
   (fresh ids), so C01_inv applies *)
Definition ex_events : list event := omap ev_of (drop ex_launch_len ex_trace).

Example C01_pipeline_inv_computed :
  match ex_launched, ex_final with
  | Some st0, Some st1 =>
    init_okb st0 && fresh_runb ex_params st0 ex_events && bool_decide (steps ex_params st0 ex_events = Some st1)
    && canon_freshb ex_params (fun _ => true) 2 (fun i _ => 1000 + N.of_nat i) 3 st1
    && match canon_run ex_params (fun _ => true) 2 (fun i _ => 1000 + N.of_nat i) 3 st1 with
       | Some (_, st2) =>
         match steps ex_params st2 [ERestart 1] with
         | Some st3 => canon_freshb ex_params (fun _ => true) 2 (fun i _ => 2000 + N.of_nat i) 1 st3
         | None => false
         end
       | None => false
       end
  | _, _ => false
  end = true.
Proof. vm_compute. reflexivity. Qed.

Example C01_final_inv : exists st, ex_final = Some st /\ LoopInv st.
Proof.
  pose proof C01_pipeline_inv_computed as H. destruct ex_launched as [st0|]; [|discriminate H]. destruct ex_final as [st1|]; [|discriminate H].
  apply andb_true_iff in H as [H _]. apply andb_true_iff in H as [H _]. apply andb_true_iff in H as [H H3].
  apply andb_true_iff in H as [H1 H2]. apply bool_decide_eq_true in H3.
  exists st1. split; [reflexivity|].
  destruct (run_inv ex_params ex_events st0 (init_inv _ (init_okb_sound _ H1)) (fresh_runb_sound _ _ _ H2)) as (st' & E' & HI).
  congruence.
Qed.

(* in both states Drummer's view is behind the membership *)
Example C01_behind_computed :
  match ex_added, ex_deleted with
  | Some st, Some st' => negb (view_current st) && negb (view_current st')
  | _, _ => false
  end = true.
Proof. vm_compute. reflexivity. Qed.

Example C01_menda_inhabited : exists st, ex_added = Some st /\ MendA st /\ ~ Mend st.
Proof.
  destruct C01_final_inv as (st1 & Ef & HI1). pose proof C01_menda_computed as H. pose proof C01_behind_computed as Hb.
  unfold ex_added in H, Hb |- *. rewrite Ef in H, Hb |- *.
  destruct (steps ex_params st1 [ERestart 1]) as [st|] eqn:E; [|discriminate H].
  apply andb_true_iff in H as [H _]. apply andb_true_iff in H as [H1 _].
  assert (HI : LoopInv st) by exact (steps_inv ex_params [ERestart 1] st1 st HI1 eq_refl E).
  exists st. split; [reflexivity|]. split; [exact (menda_restb_sound st HI H1)|].
  intros HM. apply mend_view_current in HM. destruct ex_deleted; [|discriminate Hb]. rewrite HM in Hb. discriminate Hb.
Qed.

Example C01_deleted_inhabited : exists st, ex_deleted = Some st /\ MendA st /\ ~ Mend st.
Proof.
  destruct C01_final_inv as (st1 & Ef & HI1).
  pose proof C01_pipeline_inv_computed as H. rewrite Ef in H. destruct ex_launched as [st0|]; [|discriminate H].
  apply andb_true_iff in H as [H H5]. apply andb_true_iff in H as [_ H4].
  pose proof C01_stray_computed as Hs. pose proof C01_behind_computed as Hb. unfold ex_deleted in Hs, Hb |- *.
  rewrite Ef in Hs, Hb |- *.
  destruct (canon_run ex_params (fun _ => true) 2 (fun i _ => 1000 + N.of_nat i) 3 st1) as [[os2 st2]|] eqn:E2; [|discriminate H5].
  assert (HI2 : LoopInv st2) by (eapply canon_run_inv; [exact HI1|exact H4|exact E2]).
  destruct (steps ex_params st2 [ERestart 1]) as [st3|] eqn:E3; [|discriminate H5].
  assert (HI3 : LoopInv st3) by exact (steps_inv ex_params [ERestart 1] st2 st3 HI2 eq_refl E3).
  destruct (canon_run ex_params (fun _ => true) 2 (fun i _ => 2000 + N.of_nat i) 1 st3) as [[os4 st]|] eqn:E4; [|discriminate Hs].
  assert (HI4 : LoopInv st) by (eapply canon_run_inv; [exact HI3|exact H5|exact E4]).
  exists st. split; [reflexivity|].
  apply andb_true_iff in Hs as [Hs _]. apply andb_true_iff in Hs as [Hs _]. apply andb_true_iff in Hs as [Hs1 _].
  split; [exact (menda_restb_sound st HI4 Hs1)|].
  intros HM. apply mend_view_current in HM. destruct ex_added; [|discriminate Hb]. rewrite HM in Hb.
  rewrite andb_false_r in Hb. discriminate Hb.
Qed.

(** ** non-vacuity of the change-applied stage (MendB) *)
Theorem C01_mendb_checked : forall st, LoopInv st -> mendb_restb st = true -> MendB st.
Proof. exact mendb_restb_sound. Qed.
Print Assumptions C01_mendb_checked.

(* two states of the logged run, each followed by the restart of NodeHost 1 (so that every NodeHost is up):
   [ex_add_pending]: right before the ADD of the replacement is executed - two ADD requests with the current fence are
   pending (the one that will be applied and one of the round before);
   [ex_del_pending]: after three more rounds (canonical outcomes): the DELETE of the dead member, current fence, pending *)
Definition ex_add_pending : option fstate :=
  match ex_launched with Some st0 => steps ex_params st0 (take 50 ex_events ++ [ERestart 1]) | None => None end.
Definition ex_del_pending : option fstate :=
  match ex_final with
  | Some st1 =>
    match canon_run ex_params (fun _ => true) 2 (fun i _ => 1000 + N.of_nat i) 3 st1 with
    | Some (_, st2) => steps ex_params st2 [ERestart 1]
    | None => None
    end
  | None => None
  end.

Example C01_mendb_computed :
  match ex_launched, ex_add_pending, ex_del_pending with
  | Some st0, Some sta, Some std =>
    fresh_runb ex_params st0 (take 50 ex_events ++ [ERestart 1])
    && mendb_restb sta && negb (menda_restb sta) && (2 <=? length (filter (fun aq => lchangeb sta aq.1 aq.2) (pendingl sta)))%nat
    && mendb_restb std && negb (menda_restb std) && (1 <=? length (filter (fun aq => lchangeb std aq.1 aq.2) (pendingl std)))%nat
  | _, _, _ => false
  end = true.
Proof. vm_compute. reflexivity. Qed.

(* the bound of C01_heal_mendb from both states, with the scheduler's canonical outcomes *)
Example C01_mendb_heal_computed :
  match ex_add_pending, ex_del_pending with
  | Some sta, Some std =>
    match canon_run ex_params (fun _ => true) 2 (fun i _ => 4000 + N.of_nat i) (detect_rounds ex_params 2 + 6) sta,
          canon_run ex_params (fun _ => true) 2 (fun i _ => 5000 + N.of_nat i) (detect_rounds ex_params 2 + 6) std with
    | Some (osa, sta'), Some (osd, std') =>
      bool_decide (healthy_rounds ex_params (fun _ => true) 2 osa sta = Some sta') && healed ex_params sta' && mend_restb sta'
      && bool_decide (healthy_rounds ex_params (fun _ => true) 2 osd std = Some std') && healed ex_params std' && mend_restb std'
    | _, _ => false
    end
  | _, _ => false
  end = true.
Proof. vm_compute. reflexivity. Qed.

Example C01_mendb_inhabited :
  (exists st, ex_add_pending = Some st /\ MendB st) /\ (exists st, ex_del_pending = Some st /\ MendB st).
Proof.
  destruct C01_final_inv as (st1 & Ef & HI1).
  pose proof C01_pipeline_inv_computed as Hp. rewrite Ef in Hp.
  pose proof C01_mendb_computed as H. unfold ex_add_pending, ex_del_pending in H |- *. rewrite Ef in H |- *.
  pose proof C01_init_ok_computed as Hinit.
  destruct ex_launched as [st0|]; [|discriminate H].
  apply andb_true_iff in Hp as [Hp _]. apply andb_true_iff in Hp as [_ H4].
  destruct (steps ex_params st0 (take 50 ex_events ++ [ERestart 1])) as [sta|] eqn:Ea; [|discriminate H].
  destruct (canon_run ex_params (fun _ => true) 2 (fun i _ => 1000 + N.of_nat i) 3 st1) as [[os2 st2]|] eqn:E2; [|discriminate H].
  destruct (steps ex_params st2 [ERestart 1]) as [std|] eqn:Ed; [|discriminate H].
  cbv beta iota in H.
  apply andb_true_iff in H as [H _]. apply andb_true_iff in H as [H _]. apply andb_true_iff in H as [H Hd].
  apply andb_true_iff in H as [H _]. apply andb_true_iff in H as [H _]. apply andb_true_iff in H as [Hfr Ha].
  split.
  - exists sta. split; [reflexivity|]. apply mendb_restb_sound; [|exact Ha].
    destruct (run_inv ex_params _ st0 (init_inv _ (init_okb_sound _ Hinit)) (fresh_runb_sound _ _ _ Hfr)) as (st' & E' & HI).
    rewrite Ea in E'. injection E' as <-. exact HI.
  - exists std. split; [reflexivity|]. apply mendb_restb_sound; [|exact Hd].
    apply (steps_inv ex_params [ERestart 1] st2 std); [|reflexivity|exact Ed].
    eapply canon_run_inv; [exact HI1|exact H4|exact E2].
Qed.

(** ** a LOST member: failure detected, replacement scheduled (FleetLostProofs.v)
    [Lost L st]: nothing is wrong with the fleet except that the members [L] (shard, replica id) are lost - current
    members whose NodeHost is up but holds no data of them: they never run and never report again, and cannot be
    restored.  In detail: the invariant; every NodeHost up; Drummer's view of every shard at the current membership
    version and every member it shows has reported at least once (no joiner); every member that is not lost runs; at
    most one lost member per shard, and its shard has exactly the defined number of members, at least 3 (so that the
    quorum is intact and the leader's decision is repair, not restore); replica data exists for current members only
    (no strays); every NodeHost Drummer knows is in the fleet; the pending requests are leftovers or restores, CREATE
    requests are pending for NodeHosts only.  (Such a state is not reachable in the closed-loop model, which has no
    "disk replaced" event; it satisfies the invariant, [C01_lost_inhabited].)
    The class machinery is that of MendB with the clause "a member that has reported has its data" weakened to "... or
    is lost" ([MendL]): closure under report(s), exec(s), catch-up, ticks is re-proved for it (FleetLostProofs.v Part 1).
    Hypotheses on the environment, explicit in every statement: [spare] NodeHost per shard (C01_no_error_round);
    the replica ids drawn in the round are fresh ([fresh_ok] at the state in which the leader schedules) and not 0 -
    i.e. the outcome is not OCrash (the scheduler model admits OCrash whenever it decides ADD: the random source may
    return id 0 and validateNodeHostRequest then panics); nticks * step < ttl.
    PROVED, for every allowed outcome other than OCrash:
      - [C01_lost_round_wait] (1): while no lost member has been silent for longer than ttl, a healthy round keeps the
        fleet in Lost, moves the clock by nticks * step and leaves the lost members' last report times alone: the
        rank ttl - (now - last report) decreases;
      - [C01_lost_round] (2): in any healthy round from Lost the batch consists of KILLs and, for EVERY lost member
        that has been silent for longer than ttl at the time of scheduling, the ADD of a replacement: its fence is the
        current version, it is addressed to the NodeHost of a healthy member, its target is a fleet NodeHost that is
        not the address of a member and carries no data of the shard, its replica id has no data anywhere - a LIVE
        change request in the sense of MendB ([lchange], [vready]); the state after the round is in the lost-member
        variant of MendB ([LostB]: LoopInv, MendL with the ADD among the pending requests);
      - [C01_lost_detected]: for the lost member that has been silent longest, this happens within detect_rounds
        healthy rounds.
    PROVED LATER IN THIS FILE (stages (a)-(d) and the end-to-end [C01_heal_single_failure], FleetLostBProofs.v); at the time
    this block was written the following was still missing: the rounds after that, with the lost member still a
    (failed) member.  The event closures exist for them ([LostB] is closed under reports / execs / catch-up / ticks,
    FleetLostProofs lostb_reports, lostx_execs, lostx_learns, lostx_ticks: the ADD is applied or dropped); what is
    missing is the leader's decision, round by round, for a view entry with a failed member that cannot be restored:
    (a) the round in which the ADD is applied - the leader schedules from a view that is behind and decides ADD again
    (stale fence: a leftover; a fresh id is drawn again); (b) view current, replacement waiting, lost member failed:
    the decision is the join-CREATE (FleetMendProofs.mready_entry proves this only when NO member is failed);
    (c) replacement reported: the decision is DELETE of the lost member (live DELETE: MendB's analysis applies once
    the data clause is weakened there too); (d) DELETE applied, view behind; then the state is in Mend (no lost
    member left) and C01_heal_mend applies.  Mend / MendP require every member that has reported to have its data
    (md_members), so "surplus member allowed" does NOT cover the lost member; the clause is weakened in MendL for the
    event closures, the scheduling analyses (mready_entry, mend_allowed, mendx_schedule) are not yet redone for it.
    [C01_lost_instance] runs the model through all of it on the example. *)
From Drummer.Proofs Require Import FleetLostProofs.

Theorem C01_lost_round_wait :
  forall (L : N -> N -> Prop) (P : params), (forall s rid, L s rid \/ ~ L s rid) ->
  forall (st st' : fstate) (plogs : N -> bool) (nticks : nat) (o : outcome),
  Lost L st -> (forall a, plogs a = true) -> N.of_nat nticks * p_step P < p_ttl P ->
  (forall s, is_Some (f_hist st !! s) -> exists a, spare st a s) -> o <> OCrash ->
  (forall st4, pre_schedule P plogs nticks st = Some st4 -> fresh_ok st4 (ESchedule o)) ->
  healthy_round P plogs nticks o st = Some st' ->
  (forall s f, L s f -> d_tick (f_db st) + N.of_nat nticks * p_step P - mem_tick st s f <= p_ttl P) ->
  Lost L st' /\ f_hist st' = f_hist st /\ d_tick (f_db st') = d_tick (f_db st) + N.of_nat nticks * p_step P /\
  (forall s f, L s f -> mem_tick st' s f = mem_tick st s f).
Proof. exact lost_round_wait. Qed.
Print Assumptions C01_lost_round_wait.

Theorem C01_lost_round :
  forall (L : N -> N -> Prop) (P : params), (forall s rid, L s rid \/ ~ L s rid) ->
  forall (st st' : fstate) (plogs : N -> bool) (nticks : nat) (o : outcome),
  Lost L st -> (forall a, plogs a = true) -> N.of_nat nticks * p_step P < p_ttl P ->
  (forall s, is_Some (f_hist st !! s) -> exists a, spare st a s) -> o <> OCrash ->
  (forall st4, pre_schedule P plogs nticks st = Some st4 -> fresh_ok st4 (ESchedule o)) ->
  healthy_round P plogs nticks o st = Some st' ->
  exists b, o = OBatch b /\ LostK L st' /\ f_hist st' = f_hist st /\
    d_tick (f_db st') = d_tick (f_db st) + N.of_nat nticks * p_step P /\
    (forall s f, L s f -> mem_tick st' s f = mem_tick st s f) /\
    (forall a q, nonout st' a q -> lost_pending L P st st' a q) /\
    (forall s f, L s f -> p_ttl P < d_tick (f_db st') - mem_tick st s f ->
       exists a q, nonout st' a q /\ is_add q = true /\ q_shard q = s /\
         lchange (nonout st') (f_hosts st') (f_hist st') a q /\ vready (f_db st') q).
Proof. exact lost_round. Qed.
Print Assumptions C01_lost_round.

Theorem C01_lost_detected :
  forall (L : N -> N -> Prop) (P : params), (forall s rid, L s rid \/ ~ L s rid) ->
  forall (plogs : N -> bool) (nticks : nat) (s0 f0 : N),
  (forall a, plogs a = true) -> N.of_nat nticks * p_step P < p_ttl P -> 0 < N.of_nat nticks * p_step P ->
  forall (os : list outcome) (st st' : fstate),
  Lost L st -> L s0 f0 -> (forall s f, L s f -> mem_tick st s0 f0 <= mem_tick st s f) ->
  lost_hyps P plogs nticks os st -> (detect_rounds P nticks <= length os)%nat ->
  healthy_rounds P plogs nticks os st = Some st' ->
  exists os1 o os2 st1 st2, os = os1 ++ o :: os2 /\ healthy_rounds P plogs nticks os1 st = Some st1 /\ Lost L st1 /\
    healthy_round P plogs nticks o st1 = Some st2 /\ LostK L st2 /\ f_hist st2 = f_hist st /\
    (forall a q, nonout st2 a q -> lost_pending L P st1 st2 a q) /\
    exists a q, nonout st2 a q /\ is_add q = true /\ q_shard q = s0 /\
      lchange (nonout st2) (f_hosts st2) (f_hist st2) a q /\ vready (f_db st2) q.
Proof. exact lost_detected_within. Qed.
Print Assumptions C01_lost_detected.

(** ** non-vacuity of the lost-member theorems *)
(* the launched fleet of the logged run (Steady), with the disk of replica 1 of shard 1 replaced: the replica is gone,
   NodeHost 1 is up.  The state is in Lost (invariant included); NodeHost 4 is spare; with the scheduler's canonical
   outcomes (ids 7000 + round) the hypotheses on the environment hold in each of detect_rounds = 7 rounds; the ADD of the
   replacement is scheduled in round 6 *)
Definition ex_ll : list (N * N) := [(1, 1)].
Definition ex_lost : option fstate := match ex_launched with Some st => Some (lose ex_ll st) | None => None end.
Definition ex_lost_run (n : nat) : option (list outcome * fstate) :=
  match ex_lost with Some st => canon_run ex_params (fun _ => true) 2 (fun i _ => 7000 + N.of_nat i) n st | None => None end.

Example C01_lost_computed :
  match ex_launched, ex_lost, ex_lost_run (detect_rounds ex_params 2), ex_lost_run 6 with
  | Some st0, Some st, Some (os, st'), Some (_, st6) =>
    init_okb st0 && mendb_restb st0 && view_current st0 && lostk_restb ex_ll st
    && lost_hypsb ex_params (fun _ => true) 2 os st
    && bool_decide (healthy_rounds ex_params (fun _ => true) 2 os st = Some st')
    && existsb (fun aq : N * request => is_add aq.2 && (q_shard aq.2 =? 1) && lchangeb st6 aq.1 aq.2) (pendingl st6)
  | _, _, _, _ => false
  end = true.
Proof. vm_compute. reflexivity. Qed.

Example C01_lost_inhabited :
  exists st os st', ex_lost = Some st /\ Lost (lostl ex_ll) st /\ length os = detect_rounds ex_params 2 /\
    lost_hyps ex_params (fun _ => true) 2 os st /\ healthy_rounds ex_params (fun _ => true) 2 os st = Some st'.
Proof.
  pose proof C01_lost_computed as H. unfold ex_lost_run, ex_lost in *. destruct ex_launched as [st0|]; [|discriminate H].
  destruct (canon_run ex_params (fun _ => true) 2 (fun i _ => 7000 + N.of_nat i) (detect_rounds ex_params 2) (lose ex_ll st0)) as [[os st']|] eqn:Er; [|discriminate H].
  destruct (canon_run ex_params (fun _ => true) 2 (fun i _ => 7000 + N.of_nat i) 6 (lose ex_ll st0)) as [[os6 st6]|] eqn:Er6; [|discriminate H].
  apply andb_true_iff in H as [H _]. apply andb_true_iff in H as [H Hr]. apply andb_true_iff in H as [H Hhyp].
  apply andb_true_iff in H as [H Hk]. apply andb_true_iff in H as [H Hv]. apply andb_true_iff in H as [Hinit Hb].
  apply bool_decide_eq_true in Hr.
  exists (lose ex_ll st0), os, st'. split; [reflexivity|]. split.
  - apply lost_restb_sound; [|exact Hk]. apply lose_lostb; [|exact Hv]. apply mendb_restb_sound; [|exact Hb]. exact (init_inv _ (init_okb_sound _ Hinit)).
  - split; [|split; [exact (lost_hypsb_sound _ _ _ _ _ Hhyp)|exact Hr]].
    clear -Er. revert Er. generalize (lose ex_ll st0). generalize (detect_rounds ex_params 2). intros n. revert os st'.
    induction n as [|n IH]; intros os st' st Er; cbn [canon_run] in Er; [injection Er as <- _; reflexivity|].
    destruct (canon_round ex_params (fun _ => true) 2 (fun _ => 7000 + N.of_nat n) st) as [[o st1]|]; [|discriminate Er].
    destruct (canon_run ex_params (fun _ => true) 2 (fun i _ => 7000 + N.of_nat i) n st1) as [[os1 st2]|] eqn:E1; [|discriminate Er].
    injection Er as <- _. cbn [length]. f_equal. exact (IH os1 st2 st1 E1).
Qed.

(* the whole pipeline on the example, by computation: 5 quiet rounds, the ADD (twice: the second one from the view that
   is behind), the join-CREATE, the DELETE of the lost member; healed and Calm after 16 rounds *)
Example C01_lost_instance :
  match ex_lost, ex_lost_run 16 with
  | Some st, Some (os, st') =>
    bool_decide (healthy_rounds ex_params (fun _ => true) 2 os st = Some st') && healed ex_params st' && calm_restb st'
    && negb (existsb (fun o => match o with OBatch _ => false | _ => true end) os)
  | _, _ => false
  end = true.
Proof. vm_compute. reflexivity. Qed.

(** ** the rounds after the replacement ADD has been scheduled (coq/proofs/FleetLostBProofs.v) *)
From Drummer.Proofs Require Import FleetLostBProofs.

(* stage (a): the round in which the ADD is applied. StageA L s0 f0 st: st is of class LostK, (s0, f0) is the one lost
   member, every pending request is a leftover / restore or a live ADD for s0 (current fence, FleetMendBProofs.lchange),
   and one live ADD waits for the NodeHost of a healthy member of s0. After the round (for EVERY allowed outcome but
   OCrash - the random source never returns replica id 0 -, with a spare NodeHost and fresh ids) the membership of s0 has
   got one more entry (the new member x at the spare NodeHost), and the state is of class StageB: Drummer's view of s0
   is exactly one version behind, every record is stamped, x has no data yet, every pending request is a leftover (the
   ADD that Drummer schedules again from the old view is stale), healthy members still run. *)
Theorem C01_lost_stage_add_applied :
  forall (L : N -> N -> Prop) (P : params), (forall s rid, L s rid \/ ~ L s rid) ->
  forall (s0 f0 : N) (st st' : fstate) (plogs : N -> bool) (nticks : nat) (o : outcome),
  StageA L s0 f0 st -> (forall a, plogs a = true) -> N.of_nat nticks * p_step P < p_ttl P ->
  (forall s, is_Some (f_hist st !! s) -> exists a, spare st a s) -> o <> OCrash ->
  (forall st4, pre_schedule P plogs nticks st = Some st4 -> fresh_ok st4 (ESchedule o)) ->
  healthy_round P plogs nticks o st = Some st' ->
  exists b, o = OBatch b /\ StageB L s0 f0 st' /\
    d_tick (f_db st') = d_tick (f_db st) + N.of_nat nticks * p_step P /\
    (length (hist_of (f_hist st) s0) < length (hist_of (f_hist st') s0))%nat /\
    mem_tick st' s0 f0 = mem_tick st s0 f0.
Proof. exact lost_stage_add_applied. Qed.
Print Assumptions C01_lost_stage_add_applied.

(* stage (b), first round: the view catches up. No spare NodeHost is needed from here on (no ADD is due in these
   rounds, so errNotEnoughNodeHost cannot be answered: FleetHealProofs.error_cause). From StageB the round ends - for every allowed outcome
   but OCrash - in StageC L s0 f0 x t: every view entry is current, the new member x of s0 (NodeHost t) is shown as
   waiting (never reported, first seen this round), the join-CREATE for x is pending for t (sc_join), x has no data
   yet, every other pending request is a leftover; the memberships are unchanged. *)
Theorem C01_lost_stage_join :
  forall (L : N -> N -> Prop) (P : params), (forall s rid, L s rid \/ ~ L s rid) ->
  forall (s0 f0 : N) (st st' : fstate) (plogs : N -> bool) (nticks : nat) (o : outcome),
  StageB L s0 f0 st -> (forall a, plogs a = true) -> N.of_nat nticks * p_step P < p_ttl P ->
  o <> OCrash ->
  (forall st4, pre_schedule P plogs nticks st = Some st4 -> fresh_ok st4 (ESchedule o)) ->
  healthy_round P plogs nticks o st = Some st' ->
  exists b x t, o = OBatch b /\ StageC L s0 f0 x t st' /\ f_hist st' = f_hist st /\
    d_tick (f_db st') = d_tick (f_db st) + N.of_nat nticks * p_step P /\ mem_tick st' s0 f0 = mem_tick st s0 f0.
Proof. exact lost_stage_join. Qed.
Print Assumptions C01_lost_stage_join.

(* stage (b), second round: the join-CREATE is executed. From StageC the round ends in StageD L s0 f0 x t: as StageC,
   but the new member x RUNS on NodeHost t (sd_xrun); it has not reported yet (it was started after this round's
   reports), so the view still shows it as waiting and Drummer schedules its join-CREATE once more - harmless for a
   running replica. *)
Theorem C01_lost_stage_join_started :
  forall (L : N -> N -> Prop) (P : params), (forall s rid, L s rid \/ ~ L s rid) ->
  forall (s0 f0 x t : N) (st st' : fstate) (plogs : N -> bool) (nticks : nat) (o : outcome),
  StageC L s0 f0 x t st -> (forall a, plogs a = true) -> N.of_nat nticks * p_step P < p_ttl P ->
  o <> OCrash ->
  (forall st4, pre_schedule P plogs nticks st = Some st4 -> fresh_ok st4 (ESchedule o)) ->
  healthy_round P plogs nticks o st = Some st' ->
  exists b, o = OBatch b /\ StageD L s0 f0 x t st' /\ f_hist st' = f_hist st /\
    d_tick (f_db st') = d_tick (f_db st) + N.of_nat nticks * p_step P /\ mem_tick st' s0 f0 = mem_tick st s0 f0.
Proof. exact lost_stage_join_started. Qed.
Print Assumptions C01_lost_stage_join_started.

(* stage (c): the new member reports, the DELETE of the lost member is scheduled. Additional premise: the lost member is
   overdue at the start of the round (it has been since the ADD was scheduled: its record is not touched and the clock
   only advances). From StageD the round ends in StageE L s0 f0 x t: every record is stamped, every member but the
   lost one runs, and a live DELETE for f0 (current fence, FleetMendBProofs.lchange) is pending for the NodeHost of a
   healthy member (se_live); every other pending request is a leftover or such a DELETE. *)
Theorem C01_lost_stage_delete :
  forall (L : N -> N -> Prop) (P : params), (forall s rid, L s rid \/ ~ L s rid) ->
  forall (s0 f0 x t : N) (st st' : fstate) (plogs : N -> bool) (nticks : nat) (o : outcome),
  StageD L s0 f0 x t st -> (forall a, plogs a = true) -> N.of_nat nticks * p_step P < p_ttl P ->
  o <> OCrash ->
  (forall st4, pre_schedule P plogs nticks st = Some st4 -> fresh_ok st4 (ESchedule o)) ->
  p_ttl P < d_tick (f_db st) - mem_tick st s0 f0 ->
  healthy_round P plogs nticks o st = Some st' ->
  exists b, o = OBatch b /\ StageE L s0 f0 x t st' /\ f_hist st' = f_hist st /\
    d_tick (f_db st') = d_tick (f_db st) + N.of_nat nticks * p_step P.
Proof. exact lost_stage_delete. Qed.
Print Assumptions C01_lost_stage_delete.

(* stage (d): the DELETE of the lost member is applied. From StageE the round ends - for every allowed outcome but
   OCrash - in a state of class MendB (no lost member is left among the current members: the class of
   FleetMendBProofs, without L) in which every pending request is a harmless leftover (the DELETE that Drummer
   schedules again from the old view is stale): the membership history of s0 has got exactly one more entry, the removal
   of f0; the other shards are untouched. From here the theorems of the MendB / Mend classes take over:
   C01_heal_stage_change_settled (the next healthy round ends in Mend), C01_heal_mendb (healed after
   detect_rounds + 6 more healthy rounds, and stays healed). *)
Theorem C01_lost_stage_delete_applied :
  forall (L : N -> N -> Prop) (P : params), (forall s rid, L s rid \/ ~ L s rid) ->
  forall (s0 f0 x t : N) (st st' : fstate) (plogs : N -> bool) (nticks : nat) (o : outcome),
  StageE L s0 f0 x t st -> (forall a, plogs a = true) -> N.of_nat nticks * p_step P < p_ttl P ->
  o <> OCrash ->
  (forall st4, pre_schedule P plogs nticks st = Some st4 -> fresh_ok st4 (ESchedule o)) ->
  healthy_round P plogs nticks o st = Some st' ->
  exists b, o = OBatch b /\ MendB st' /\ (forall a q, nonout st' a q -> mharmless (f_hist st') a q) /\
    (forall s h rid a, f_hist st' !! s = Some h -> cur_members h !! rid = Some a -> ~ L s rid) /\
    (exists (e0 : hentry) (hs1 : list hentry), f_hist st !! s0 = Some (e0 :: hs1) /\
       f_hist st' !! s0 = Some (((e0.1 + 1, delete f0 e0.2) : hentry) :: e0 :: hs1) /\ is_Some (e0.2 !! f0)) /\
    (forall s, s <> s0 -> f_hist st' !! s = f_hist st !! s) /\
    d_tick (f_db st') = d_tick (f_db st) + N.of_nat nticks * p_step P.
Proof. exact lost_stage_delete_applied. Qed.
Print Assumptions C01_lost_stage_delete_applied.

(* the bridge from C01_lost_round to stage (a): when the lost member (s0, f0) is the only one and is overdue at the
   leader's tick of this round, the round ends in StageA - in particular the replacement ADD is pending for the NodeHost
   of a HEALTHY member of s0 (the scheduler picks the proposer among the replicas it considers ok; the failed one is
   the lost one). The record of the lost member is not touched (mem_tick). *)
Theorem C01_lost_round_stagea :
  forall (L : N -> N -> Prop) (P : params), (forall s rid, L s rid \/ ~ L s rid) ->
  forall (s0 f0 : N) (st st' : fstate) (plogs : N -> bool) (nticks : nat) (o : outcome),
  Lost L st -> (forall s f, L s f -> s = s0 /\ f = f0) -> L s0 f0 ->
  (forall a, plogs a = true) -> N.of_nat nticks * p_step P < p_ttl P ->
  (forall s, is_Some (f_hist st !! s) -> exists a, spare st a s) -> o <> OCrash ->
  (forall st4, pre_schedule P plogs nticks st = Some st4 -> fresh_ok st4 (ESchedule o)) ->
  p_ttl P < d_tick (f_db st) + N.of_nat nticks * p_step P - mem_tick st s0 f0 ->
  healthy_round P plogs nticks o st = Some st' ->
  StageA L s0 f0 st' /\ f_hist st' = f_hist st /\
  d_tick (f_db st') = d_tick (f_db st) + N.of_nat nticks * p_step P /\ mem_tick st' s0 f0 = mem_tick st s0 f0.
Proof. exact lost_round_stagea. Qed.
Print Assumptions C01_lost_round_stagea.

(** ** C01_heal_single_failure: a single lost member is replaced, end to end.
    st is of class Lost with exactly one lost member (s0, f0): a current member whose NodeHost is up but has none of its
    data (disk replaced), every other member runs, the fleet is otherwise calm. Hypotheses, all explicit: every round
    of the run is healthy (every NodeHost reports with its persisted log, delivers, executes; Raft catches up; the
    leader ticks), nticks * step < ttl, and - the bundle lost_hyps2 (implied by lost_hyps: lost_hyps_hyps2), for each
    of the first detect_rounds + 5 rounds (until the DELETE is applied; afterwards no ADD is scheduled any more) - the
    ids drawn are fresh, the outcome is not OCrash, and - only until the replacement ADD is applied, i.e. while the
    membership history of s0 still has its initial length - a spare NodeHost exists for every shard (the random source never returns replica id 0; the
    scheduler model allows OCrash whenever an ADD is due). Then, for EVERY sequence of allowed outcomes, after
    B = 2 * detect_rounds + 10 healthy rounds the fleet is in Mend and healed (every shard has its full set of running,
    reporting members; it stays healed by C01_heal_mend): at most detect_rounds rounds until the ADD is scheduled
    (C01_lost_round_wait, C01_lost_round_stagea), then the five rounds C01_lost_stage_add_applied,
    C01_lost_stage_join, C01_lost_stage_join_started, C01_lost_stage_delete, C01_lost_stage_delete_applied, then one
    round to Mend (C01_heal_stage_change_settled) and detect_rounds + 4 rounds of the Mend class (rank argument). *)
Theorem C01_heal_single_failure :
  forall (L : N -> N -> Prop) (P : params), (forall s rid, L s rid \/ ~ L s rid) ->
  forall (plogs : N -> bool) (nticks : nat) (s0 f0 : N) (os : list outcome) (st st' : fstate),
  Lost L st -> (forall s f, L s f -> s = s0 /\ f = f0) -> L s0 f0 ->
  (forall a, plogs a = true) -> N.of_nat nticks * p_step P < p_ttl P -> (0 < nticks)%nat -> 0 < p_step P ->
  lost_hyps2 P plogs nticks s0 (length (hist_of (f_hist st) s0)) (take (detect_rounds P nticks + 5) os) st ->
  (2 * detect_rounds P nticks + 10 <= length os)%nat ->
  healthy_rounds P plogs nticks os st = Some st' ->
  Mend st' /\ healed P st' = true.
Proof. exact lost_heal_single_failure. Qed.
Print Assumptions C01_heal_single_failure.

(* the hypotheses of C01_heal_single_failure are satisfiable: checked by computation on the example fleet (canonical
   outcomes, ids 7000 + round), 2 * detect_rounds + 10 = 24 rounds *)
Example C01_heal_single_failure_computed :
  match ex_lost, ex_lost_run (2 * detect_rounds ex_params 2 + 10) with
  | Some st, Some (os, st') =>
    lost_hyps2b ex_params (fun _ => true) 2 1 (length (hist_of (f_hist st) 1)) (take (detect_rounds ex_params 2 + 5) os) st
    && bool_decide (healthy_rounds ex_params (fun _ => true) 2 os st = Some st')
    && Nat.leb (2 * detect_rounds ex_params 2 + 10) (length os) && healed ex_params st'
  | _, _ => false
  end = true.
Proof. vm_compute. reflexivity. Qed.

(* the hypotheses of C01_heal_single_failure hold on the example (a 3-replica shard on 4 NodeHosts, the disk of member 1
   replaced), so does its conclusion *)
Example C01_heal_single_failure_inhabited :
  exists st os st', ex_lost = Some st /\ Lost (lostl ex_ll) st /\
    (forall s f, lostl ex_ll s f -> s = 1 /\ f = 1) /\ lostl ex_ll 1 1 /\
    lost_hyps2 ex_params (fun _ => true) 2 1 (length (hist_of (f_hist st) 1)) (take (detect_rounds ex_params 2 + 5) os) st /\
    (2 * detect_rounds ex_params 2 + 10 <= length os)%nat /\
    healthy_rounds ex_params (fun _ => true) 2 os st = Some st' /\ Mend st' /\ healed ex_params st' = true.
Proof.
  destruct C01_lost_inhabited as (st & os0 & st0' & Hst & HL & _).
  pose proof C01_heal_single_failure_computed as H. unfold ex_lost_run in H. rewrite Hst in H.
  destruct (canon_run ex_params (fun _ => true) 2 (fun i _ => 7000 + N.of_nat i) (2 * detect_rounds ex_params 2 + 10) st) as [[os st']|] eqn:Er; [|discriminate H].
  apply andb_true_iff in H as [H Hheal]. apply andb_true_iff in H as [H Hlen]. apply andb_true_iff in H as [Hhyp Hr].
  apply bool_decide_eq_true in Hr. apply Nat.leb_le in Hlen. apply lost_hyps2b_sound in Hhyp.
  assert (Hsingle : forall s f, lostl ex_ll s f -> s = 1 /\ f = 1).
  { intros s f Hl. unfold lostl, ex_ll in Hl. apply elem_of_list_singleton in Hl. injection Hl as -> ->. split; reflexivity. }
  assert (Hl0 : lostl ex_ll 1 1) by (unfold lostl, ex_ll; apply elem_of_list_here).
  exists st, os, st'. split; [exact Hst|]. split; [exact HL|]. split; [exact Hsingle|]. split; [exact Hl0|]. split; [exact Hhyp|]. split; [exact Hlen|]. split; [exact Hr|].
  apply (C01_heal_single_failure (lostl ex_ll) ex_params (lostl_dec ex_ll) (fun _ => true) 2 1 1 os st st' HL Hsingle Hl0); try assumption.
  - intros a. reflexivity.
  - vm_compute. reflexivity.
  - apply Nat.lt_0_2.
  - vm_compute. reflexivity.
Qed.
