(** C10 — Requests reach only their addressee, after a report, at most once.
    Model: DB.v ([Requests]/[Outgoing] part of [db_step]); abstract spec: MailboxSpec.v.
    [mevs P db_init cs] is the list of mailbox-relevant events of the run of [cs]
    (a stored batch, a report of some address, anything else); [quiet a] = neither a
    report of [a] nor a stored batch with a request for [a].  Ignored launch batches
    (launch after launch) are not "stored"; a mixed batch kills the replica. *)
From stdpp Require Import gmap list numbers.
From Drummer.Model Require Import DB MailboxSpec.
From Drummer.Proofs Require Import DBProofs MailboxProofs.
Local Open Scope N_scope.

(** Refinement: along every run the two mailboxes of every address are exactly the
    abstract (pending, handed) pair computed from the event history. *)
Theorem C10_refines : forall P cs d a,
  run P cs = Live d ->
  (d_requests d !! a, d_outgoing d !! a) = mspec a (mevs P db_init cs).
Proof. exact run_mb. Qed.
Print Assumptions C10_refines.

(** The reply to a report of [a] (count returned by the update and the REQUESTS answer read
    right after it) is exactly the sub-list for [a], scheduling order preserved, of the batch
    most recently stored for [a] since [a]'s previous report ... *)
Theorem C10_reply_latest : forall P cs d r d' v pre qs post,
  run P cs = Live d -> mevs P db_init cs = pre ++ MBatch qs :: post ->
  mentions (rp_addr r) qs -> Forall (quiet (rp_addr r)) post ->
  db_step P d (CReport r) = SOk d' v ->
  lookup_requests d' (rp_addr r) = filter (λ q, q_raft q = rp_addr r) qs /\
  v = N.of_nat (length (filter (λ q, q_raft q = rp_addr r) qs)).
Proof. exact reply_latest_batch. Qed.
Print Assumptions C10_reply_latest.

(** ... and empty when nothing was stored for [a] since its previous report (a batch picked up
    once is not delivered again, a batch superseded before pickup never is) ... *)
Theorem C10_reply_empty_after_report : forall P cs d r d' v pre post,
  run P cs = Live d -> mevs P db_init cs = pre ++ MReport (rp_addr r) :: post ->
  Forall (quiet (rp_addr r)) post ->
  db_step P d (CReport r) = SOk d' v ->
  lookup_requests d' (rp_addr r) = [] /\ v = 0.
Proof. exact reply_empty_after_report. Qed.
Print Assumptions C10_reply_empty_after_report.

(** ... or never. *)
Theorem C10_reply_empty_initially : forall P cs d r d' v,
  run P cs = Live d -> Forall (quiet (rp_addr r)) (mevs P db_init cs) ->
  db_step P d (CReport r) = SOk d' v ->
  lookup_requests d' (rp_addr r) = [] /\ v = 0.
Proof. exact reply_empty_initially. Qed.
Print Assumptions C10_reply_empty_initially.

(** Every request ever returned for address [a] is addressed to [a]. *)
Theorem C10_addressee : forall P cs d a q,
  run P cs = Live d -> q ∈ lookup_requests d a -> q_raft q = a.
Proof. exact reply_addressee. Qed.
Print Assumptions C10_addressee.

(** The REQUESTS answer between reports (re-read after a lost reply) is the handed-over batch:
    it does not change until [a] reports again, whatever is scheduled meanwhile ... *)
Theorem C10_lookup_is_handed : forall P cs d a,
  run P cs = Live d -> lookup_requests d a = default [] (mspec a (mevs P db_init cs)).2.
Proof. exact lookup_is_handed. Qed.
Print Assumptions C10_lookup_is_handed.

Theorem C10_handed_stable : forall a m evs,
  Forall (λ e, e <> MReport a) evs -> (mspec_from a m evs).2 = m.2.
Proof. exact handed_stable. Qed.
Print Assumptions C10_handed_stable.

(** ... and after [a]'s next report the earlier batch is gone for good. *)
Theorem C10_at_most_once : forall a m pre post1 post2,
  Forall (quiet a) post1 -> Forall (quiet a) post2 ->
  (mspec_from a m (pre ++ MReport a :: post1 ++ MReport a :: post2)).2 = None.
Proof. exact handed_once. Qed.
Print Assumptions C10_at_most_once.

(** Non-vacuity: a batch for addresses 1 and 2, superseded for address 1, two reports of 1. *)
Definition P0 := mkParams 60 5 24.
Definition rq (a s : N) : request := mkReq RAdd s [7] 3 [] [9] 0 a false false 0.
Definition rpt (a : N) : report := mkReport a [] [] 0 false [] 0 0.
Definition hist0 : list cmd := [CRequests [rq 1 10; rq 2 10; rq 1 11]; CTick; CRequests [rq 1 12]].
Example C10_ex_events : mevs P0 db_init hist0 = [MBatch [rq 1 10; rq 2 10; rq 1 11]; MOther; MBatch [rq 1 12]].
Proof. vm_compute. reflexivity. Qed.
Example C10_ex_reply :
  match run P0 hist0 with
  | Live d => match db_step P0 d (CReport (rpt 1)) with
              | SOk d' v => lookup_requests d' 1 = [rq 1 12] /\ v = 1 /\ lookup_requests d' 2 = [] /\
                            match db_step P0 d' (CReport (rpt 2)) with
                            | SOk d'' v' => lookup_requests d'' 2 = [rq 2 10] /\ lookup_requests d'' 1 = [rq 1 12] /\
                                            match db_step P0 d'' (CReport (rpt 1)) with
                                            | SOk d3 v3 => lookup_requests d3 1 = [] /\ v3 = 0
                                            | _ => False end
                            | _ => False end
              | _ => False end
  | Dead => False end.
Proof. vm_compute. repeat split; reflexivity. Qed.
