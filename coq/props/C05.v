(** C05 — Failure detection: replica classes and shard availability follow report history.
    Property theorems only (proofs in proofs/DBTimeProofs.v).  Model: theories/DB.v
    ([replica_ok]/[replica_failed]/[replica_waiting] = shardimage.go failed/waitingToBeStarted/getOkReplicas,
    [shard_available] = shard.available, [host_available] = nodeHostSpec.available, [to_shard_state] =
    server.go toShardState, [apply_tick]/[apply_report] = db.go applyTickUpdate/applyNodeHostInfoUpdate).
    All statements hold for ALL parameters P (ttl, step, launch deadline), ALL command lists and states;
    logical time is an unbounded N (assumption A-wrap) and every subtraction is shown never to truncate.
    [next P d c = Some d'] : the replica is alive after applying c to d.  [run P cs] : the state after cs
    from the initial DB ([Dead] after a consistency panic, after which nothing is observed).

    Vocabulary defined in DBTimeProofs.v:
      [stamped P st cs]            the commands of cs applied to a live, not fail-stopped state, each paired
                                   with the DB time at which it was applied (= the stamp a report receives)
      [entry_names s n ci]         the ShardInfo entry ci carries (ShardId s, ReplicaId n) - whatever its flags
      [report_names s n r]         some entry of report r does;  [names_cmd s n c] : c is such a report
      [last_report_time P st cs s n]  DB time of the LAST effective report of cs listing (s,n); 0 if none
      [last_host_time P st cs a]   DB time of the last effective report of cs sent by address a; 0 if none
      [rec_of view s n]            the record of member n of shard s in a view, if any; [rec_at] same on run states
      [complete_for s ci]          ci is for shard s, not pending, not incomplete (only such entries change membership)
      [multi_entry r s]            report r holds at least two entries [complete_for s]
    and in theories/DBClassesRun.v:
      [host_live P h now]          filter.go liveFilter: now - h_tick h < ttl (placement) *)
From stdpp Require Import gmap.
From Drummer.Model Require Import DB DBClassesRun.
From Drummer.Proofs Require Import DBProofs DBTimeProofs.
Local Open Scope N_scope.

(** ** Logical time *)
(* one step: only an applied TICK changes the time, and by exactly p_step *)
Theorem C05_time : forall P d c d',
  next P d c = Some d' ->
  (c = CTick /\ d_failed d = false /\ d_tick d' = d_tick d + p_step P) \/
  ((c <> CTick \/ d_failed d = true) /\ d_tick d' = d_tick d).
Proof. exact step_time_cases. Qed.
Print Assumptions C05_time.

(* it never decreases along a run ... *)
Theorem C05_time_monotone : forall P cs d d',
  run_from P (Live d) cs = Live d' -> d_tick d <= d_tick d'.
Proof. exact run_time_mono. Qed.
Print Assumptions C05_time_monotone.

(* ... and is step * (number of TICK commands) unless the deadline fail-stop froze it earlier *)
Theorem C05_time_closed_form : forall P cs d,
  run P cs = Live d ->
  d_tick d <= p_step P * N.of_nat (count_ticks cs) /\
  (d_failed d = false -> d_tick d = p_step P * N.of_nat (count_ticks cs)).
Proof. exact run_time_closed. Qed.
Print Assumptions C05_time_closed_form.

(** ** No underflow: [now - last] never wraps in the Go code *)
Theorem C05_no_underflow : forall P cs d,
  run P cs = Live d ->
  (forall s c n r, d_view d !! s = Some c -> s_reps c !! n = Some r -> r_tick r <= d_tick d /\ r_first r <= d_tick d) /\
  (forall a h, d_hosts d !! a = Some h -> h_tick h <= d_tick d) /\
  (forall a r, d_info d !! a = Some r -> rp_last_tick r <= d_tick d).
Proof. exact run_time_ok. Qed.
Print Assumptions C05_no_underflow.

(* the invariant is inductive: it survives any command from any state that has it (e.g. a restored snapshot) *)
Theorem C05_no_underflow_inductive : forall P cs d d',
  run_from P (Live d) cs = Live d' -> time_ok d -> time_ok d'.
Proof. exact run_from_time_ok. Qed.
Print Assumptions C05_no_underflow_inductive.

(* hence the model's truncated subtraction is the exact one wherever the classes use it *)
Theorem C05_no_truncation : forall P cs d,
  run P cs = Live d ->
  (forall s c n r, d_view d !! s = Some c -> s_reps c !! n = Some r ->
     r_tick r + (d_tick d - r_tick r) = d_tick d /\ r_first r + (d_tick d - r_first r) = d_tick d) /\
  (forall a h, d_hosts d !! a = Some h -> h_tick h + (d_tick d - h_tick h) = d_tick d).
Proof. exact no_truncation. Qed.
Print Assumptions C05_no_truncation.

(** ** Exactly one class *)
Theorem C05_partition : forall P n now,
  (replica_ok P n now = true /\ replica_failed P n now = false /\ replica_waiting P n now = false) \/
  (replica_ok P n now = false /\ replica_failed P n now = true /\ replica_waiting P n now = false) \/
  (replica_ok P n now = false /\ replica_failed P n now = false /\ replica_waiting P n now = true).
Proof. exact class_partition. Qed.
Print Assumptions C05_partition.

(* so the three lists handed to the scheduler partition the members *)
Theorem C05_partition_lists : forall P c now,
  mvals (s_reps c) ≡ₚ ok_replicas P c now ++ failed_replicas P c now ++ waiting_replicas P c now.
Proof. exact classes_perm. Qed.
Print Assumptions C05_partition_lists.

Theorem C05_partition_sizes : forall P c now,
  (length (ok_replicas P c now) + length (failed_replicas P c now) + length (waiting_replicas P c now))%nat = size (s_reps c).
Proof. exact classes_length. Qed.
Print Assumptions C05_partition_sizes.

(** ** The classes as a function of the report history *)
(* One step, one member id.  Either the record was there and keeps its first-seen time, its report time being
   refreshed to the DB time exactly when the command is an effective report with an entry naming (s,n) -
   ANY entry (pending, incomplete, stale), sent by ANY address; or the member is announced by this very report:
   first-seen = DB time, report time = DB time if the report also names it, else 0. *)
Theorem C05_class_step : forall P d c d' s n r',
  next P d c = Some d' -> rec_of (d_view d') s n = Some r' ->
  (exists r, rec_of (d_view d) s n = Some r /\ r_first r' = r_first r /\
             r_tick r' = if negb (d_failed d) && names_cmd s n c then d_tick d else r_tick r) \/
  (exists r0, c = CReport r0 /\ d_failed d = false /\ (rec_of (d_view d) s n = None \/ multi_entry r0 s) /\
              r_first r' = d_tick d /\ r_tick r' = if names_cmd s n c then d_tick d else 0).
Proof. exact step_times. Qed.
Print Assumptions C05_class_step.

(* Closed form.  For a member n of shard s after ANY history cs: cs splits at the report rb that announced the
   member (n was not a member before rb - or rb re-announced it, which takes two membership-changing entries for
   the shard inside rb), n has been a member after every command since, and with
      f = DB time of rb,   t = DB time of the last report since (rb included) that lists (s,n), 0 if none,
   the record holds exactly f and t, neither is in the future, and at now = current DB time the member is
      healthy  iff  t > 0 and now - t <= ttl
      failed   iff  t > 0 and now - t > ttl,  or  t = 0 and f = 0
      waiting  iff  t = 0 and f > 0. *)
Theorem C05_class_spec : forall P cs d s c n r,
  run P cs = Live d -> d_view d !! s = Some c -> s_reps c !! n = Some r ->
  exists cs0 rb cs1 db,
    cs = cs0 ++ CReport rb :: cs1 /\ run P cs0 = Live db /\ d_failed db = false /\
    (rec_of (d_view db) s n = None \/ multi_entry rb s) /\
    (forall a b, cs1 = a ++ b -> is_Some (rec_at (run P (cs0 ++ CReport rb :: a)) s n)) /\
    let f := d_tick db in
    let t := last_report_time P (Live db) (CReport rb :: cs1) s n in
    let now := d_tick d in
    r_first r = f /\ r_tick r = t /\ f <= now /\ t <= now /\
    (replica_ok P r now = true <-> 0 < t /\ now - t <= p_ttl P) /\
    (replica_failed P r now = true <-> (0 < t /\ p_ttl P < now - t) \/ (t = 0 /\ f = 0)) /\
    (replica_waiting P r now = true <-> t = 0 /\ 0 < f).
Proof. exact class_spec. Qed.
Print Assumptions C05_class_spec.

(* the same three equivalences for any record and any time (what the scheduler evaluates) *)
Theorem C05_class_of_times : forall P n now,
  (replica_ok P n now = true <-> 0 < r_tick n /\ now - r_tick n <= p_ttl P) /\
  (replica_failed P n now = true <-> (0 < r_tick n /\ p_ttl P < now - r_tick n) \/ (r_tick n = 0 /\ r_first n = 0)) /\
  (replica_waiting P n now = true <-> r_tick n = 0 /\ 0 < r_first n).
Proof. exact class_of_times. Qed.
Print Assumptions C05_class_of_times.

(* Remark (reading of "reported by its own NodeHost"): the view part of a report - hence every stored time -
   does not depend on who sent it.  An entry for (s,n) sent by another address refreshes n all the same;
   see [ex_other_sender] below. *)
Theorem C05_sender_irrelevant : forall v kill kill2 r r2 t,
  rp_infos r = rp_infos r2 ->
  fst <$> view_update v kill r t = fst <$> view_update v kill2 r2 t.
Proof. exact view_update_sender_irrelevant. Qed.
Print Assumptions C05_sender_irrelevant.

(** ** Available = strict majority healthy *)
Theorem C05_available_iff_majority : forall P d sid c,
  d_view d !! sid = Some c ->
  exists st, to_shard_state P d sid = Some st /\ ss_id st = s_id c /\
    (ss_unavailable st = false <-> (size (s_reps c) < 2 * length (ok_replicas P c (d_tick d)))%nat) /\
    ss_unavailable st = negb (shard_available P c (d_tick d)).
Proof. exact to_shard_state_available. Qed.
Print Assumptions C05_available_iff_majority.

Theorem C05_quorum : forall n k : nat, (quorum_of n ≤ k ↔ n < 2 * k)%nat.
Proof. exact quorum_majority. Qed.
Print Assumptions C05_quorum.

(* who counts as healthy *)
Theorem C05_healthy_members : forall P c now n,
  n ∈ ok_replicas P c now <-> n ∈ mvals (s_reps c) /\ 0 < r_tick n /\ now - r_tick n <= p_ttl P.
Proof. exact ok_replicas_spec. Qed.
Print Assumptions C05_healthy_members.

(** ** NodeHost eligibility *)
(* restore uses [host_available] (<=), placement uses [host_live] (<): silent for longer than the timeout fails both,
   reported more recently than the timeout passes both, the point now - last = ttl is left free *)
Theorem C05_host_eligibility : forall P h now,
  (host_available P h now = true <-> now - h_tick h <= p_ttl P) /\
  (host_live P h now = true <-> now - h_tick h < p_ttl P) /\
  (p_ttl P < now - h_tick h -> host_live P h now = false /\ host_available P h now = false) /\
  (now - h_tick h < p_ttl P -> host_live P h now = true /\ host_available P h now = true) /\
  (host_live P h now = true -> host_available P h now = true).
Proof. exact host_eligibility. Qed.
Print Assumptions C05_host_eligibility.

(* and the time it is judged by is the DB time of the last report that address sent *)
Theorem C05_host_last_report : forall P cs d a,
  run P cs = Live d ->
  (is_Some (d_hosts d !! a) <-> exists tc, tc ∈ stamped P (Live db_init) cs /\ from_cmd a tc.2 = true) /\
  (forall h, d_hosts d !! a = Some h -> h_tick h = last_host_time P (Live db_init) cs a).
Proof. exact run_host_spec. Qed.
Print Assumptions C05_host_last_report.

(** ** Non-vacuity: concrete timelines (ttl 60, step 5).
    [class_table] lists per member (id, first-seen, last report, (healthy, failed, waiting)) and [shard_available];
    [host_table] lists per host (address, last report, host_available, host_live). *)
Definition P0 := mkParams 60 5 24.
Definition mem3 : gmap N N := list_to_map [(10,1);(11,2);(12,3)].
Definition mem4 : gmap N N := list_to_map [(10,1);(11,2);(12,3);(13,4)].
(* address a reports one complete entry for replica rid of shard 1 with membership m at version 1 *)
Definition rep (m : gmap N N) (a rid : N) : cmd := CReport (mkReport a [mkSI 1 rid false m 1 false false] [1] 0 false [] 0 0).
Definition ticks (k : nat) : list cmd := replicate k CTick.
Definition tr1 := [CTick; rep mem3 1 10; rep mem3 2 11] ++ ticks 12.

(* gap = ttl exactly: still healthy, 2 of 3 -> OK; hosts sit on the free point (restorable, not placeable) *)
Example ex_gap_eq_ttl :
  class_table P0 (run P0 tr1) 1 =
    Some (65, [(11, 5, 5, (true, false, false)); (12, 5, 0, (false, false, true)); (10, 5, 5, (true, false, false))], true) /\
  unavailable_of P0 (run P0 tr1) 1 = Some false /\
  host_table P0 (run P0 tr1) = [(1, 5, true, false); (2, 5, true, false)].
Proof. vm_compute. repeat split; reflexivity. Qed.

(* one step later: failed, UNAVAILABLE, hosts not eligible for anything; the never-reporting member keeps waiting *)
Example ex_gap_gt_ttl :
  class_table P0 (run P0 (tr1 ++ [CTick])) 1 =
    Some (70, [(11, 5, 5, (false, true, false)); (12, 5, 0, (false, false, true)); (10, 5, 5, (false, true, false))], false) /\
  unavailable_of P0 (run P0 (tr1 ++ [CTick])) 1 = Some true /\
  host_table P0 (run P0 (tr1 ++ [CTick])) = [(1, 5, false, false); (2, 5, false, false)].
Proof. vm_compute. repeat split; reflexivity. Qed.

(* a report at logical time 0 counts as "never reported", and members announced at time 0 are failed, not waiting *)
Example ex_time_zero :
  class_table P0 (run P0 [rep mem3 1 10; CTick]) 1 =
    Some (5, [(11, 0, 0, (false, true, false)); (12, 0, 0, (false, true, false)); (10, 0, 0, (false, true, false))], false).
Proof. vm_compute. reflexivity. Qed.

(* the gap between the two readings of "reported by its own NodeHost": host 1 (which runs replica 10) has been
   silent for 65 > ttl, yet an entry for (1,10) sent by host 3 makes replica 10 healthy again *)
Definition tr4 := [CTick; rep mem3 1 10] ++ ticks 13 ++ [rep mem3 3 10].
Example ex_other_sender :
  class_table P0 (run P0 tr4) 1 =
    Some (70, [(11, 5, 0, (false, false, true)); (12, 5, 0, (false, false, true)); (10, 5, 70, (true, false, false))], false) /\
  host_table P0 (run P0 tr4) = [(1, 5, false, false); (3, 70, true, true)] /\
  last_report_time P0 (Live db_init) tr4 1 10 = 70 /\ last_host_time P0 (Live db_init) tr4 1 = 5.
Proof. vm_compute. repeat split; reflexivity. Qed.

(* even member count, exactly half healthy: not a strict majority *)
Example ex_half_is_unavailable :
  class_table P0 (run P0 [CTick; rep mem4 1 10; rep mem4 2 11]) 1 =
    Some (5, [(11, 5, 5, (true, false, false)); (13, 5, 0, (false, false, true)); (12, 5, 0, (false, false, true));
              (10, 5, 5, (true, false, false))], false) /\
  unavailable_of P0 (run P0 [CTick; rep mem4 1 10; rep mem4 2 11]) 1 = Some true.
Proof. vm_compute. repeat split; reflexivity. Qed.

(* the [multi_entry] disjunct of C05_class_spec is real: one report whose first entry (version 2) drops member 10
   and whose second entry (version 3) brings it back re-announces it - first-seen 10, never reported, waiting -
   although it was a healthy member before and after that command *)
Definition mem2 : gmap N N := list_to_map [(11,2);(12,3)].
Definition rep2 : cmd := CReport (mkReport 2 [mkSI 1 11 false mem2 2 false false; mkSI 1 11 false mem3 3 false false] [1] 0 false [] 0 0).
Example ex_reannounced_within_one_report :
  class_table P0 (run P0 [CTick; rep mem3 1 10; CTick]) 1 =
    Some (10, [(11, 5, 0, (false, false, true)); (12, 5, 0, (false, false, true)); (10, 5, 5, (true, false, false))], false) /\
  class_table P0 (run P0 [CTick; rep mem3 1 10; CTick; rep2]) 1 =
    Some (10, [(11, 5, 10, (true, false, false)); (12, 5, 0, (false, false, true)); (10, 10, 0, (false, false, true))], false).
Proof. vm_compute. repeat split; reflexivity. Qed.

(** ** Placement: "a NodeHost silent for longer than the timeout is never used for placement or restore while one
       that reported more recently than the timeout is eligible", on the scheduler model (theories/Sched.v,
       proofs/SchedEligibleProofs.v).  [Sched.allowed P C o]: o is an outcome [Drummer.maintainShards] may have
       in context C for some map order and random source; it is a function of the CURRENT context only - what an
       earlier round showed to the (long-lived) scheduler object must not matter.  [repair_action P C c = AAdd]:
       shard c has a healthy majority, a failed member, nobody waiting, nothing to restore and no surplus
       member: a replacement has to be placed this round.  (The names of Sched are used qualified: Sched and
       DBClassesRun both define a [host_live].) *)
From Drummer.Model Require Sched SchedRun.
From Drummer.Proofs Require SchedProofs SchedEligibleProofs.

(* a round fails with errNotEnoughNodeHost only when some shard that needs a replacement has NO NodeHost that
   reported more recently than the timeout and hosts no replica of it ... *)
Theorem C05_error_means_no_recent_host : forall P C,
  Sched.ctx_wf C -> Sched.allowed P C Sched.OError = true ->
  exists c, c ∈ Sched.entries C /\ Sched.repair_action P C c = Sched.AAdd /\
    forall h, h ∈ Sched.host_list C -> Sched.c_tick C - h_tick h < p_ttl P -> s_id c ∈ h_shards h.
Proof. exact SchedEligibleProofs.error_names_starved_shard_hosts. Qed.
Print Assumptions C05_error_means_no_recent_host.

(* ... so with such a NodeHost for every shard in need the round does not fail *)
Theorem C05_recent_host_no_error : forall P C,
  Sched.ctx_wf C ->
  (forall c, c ∈ Sched.entries C -> Sched.repair_action P C c = Sched.AAdd ->
     exists h, h ∈ Sched.host_list C /\ Sched.c_tick C - h_tick h < p_ttl P /\ s_id c ∉ h_shards h) ->
  Sched.allowed P C Sched.OError = false.
Proof. exact SchedEligibleProofs.no_error_when_eligible. Qed.
Print Assumptions C05_recent_host_no_error.

(* and in a round that returns a batch every shard in need gets its ADD, onto a NodeHost that reported more
   recently than the timeout (never onto one silent for longer) and hosts no replica of the shard *)
Theorem C05_replacement_placed_on_recent_host : forall P C b c,
  Sched.ctx_wf C -> Sched.allowed P C (Sched.OBatch b) = true ->
  c ∈ Sched.entries C -> Sched.repair_action P C c = Sched.AAdd ->
  exists q h, q ∈ b /\ Sched.is_add q = true /\ q_shard q = s_id c /\ q_addrs q = [h_addr h] /\
    h ∈ Sched.host_list C /\ Sched.c_tick C - h_tick h < p_ttl P /\ s_id c ∉ h_shards h.
Proof. exact SchedEligibleProofs.due_is_placed. Qed.
Print Assumptions C05_replacement_placed_on_recent_host.

(* the same against the report HISTORY: in the context of a reachable DB state, "reported more recently than the
   timeout" is about the DB time of the last report that address sent, however long ago it was first seen *)
Theorem C05_recent_reporter_no_error : forall P cs d,
  run P cs = Live d ->
  (forall c, c ∈ Sched.entries (Sched.ctx_of_db d) -> Sched.repair_action P (Sched.ctx_of_db d) c = Sched.AAdd ->
     exists a h, d_hosts d !! a = Some h /\ d_tick d - last_host_time P (Live db_init) cs a < p_ttl P /\
                 s_id c ∉ h_shards h) ->
  Sched.allowed P (Sched.ctx_of_db d) Sched.OError = false.
Proof. exact SchedEligibleProofs.reachable_no_error_when_recent. Qed.
Print Assumptions C05_recent_reporter_no_error.

(* Non-vacuity: members 1,2 healthy, member 3 failed (65 ago, its NodeHost 13 silent as long), one spare NodeHost 14
   that last reported at t4.  t4 = now - 55: the ADD onto 14 is allowed and the error is not; t4 = now - 65: the
   other way round. *)
Definition Ectx (t4 : N) : Sched.sctx :=
  SchedRun.CTX 1000 [mkSD 1 [1;2;3] 7]
    [SchedRun.SH 1 5 [SchedRun.REP 1 1 11 1000 10; SchedRun.REP 1 2 12 1000 10; SchedRun.REP 1 3 13 935 10]]
    [SchedRun.HOST 11 1 1000 [] [1]; SchedRun.HOST 12 1 1000 [] [1]; SchedRun.HOST 13 1 935 [] [1]; SchedRun.HOST 14 1 t4 [] []] [].
Definition Eadd : request := SchedRun.REQ 2 1 [77] 5 [] [14] 0 11 false false 0.
Example ex_recent_spare_is_used :
  bool_decide (Sched.ctx_wf (Ectx 945)) = true /\
  (Sched.repair_action P0 (Ectx 945) <$> Sched.entries (Ectx 945)) = [Sched.AAdd] /\
  Sched.allowed P0 (Ectx 945) Sched.OError = false /\ Sched.allowed P0 (Ectx 945) (Sched.OBatch [Eadd]) = true /\
  Sched.allowed P0 (Ectx 945) (Sched.OBatch []) = false.
Proof. vm_compute. repeat split; reflexivity. Qed.
Example ex_silent_spare_is_not_used :
  (Sched.repair_action P0 (Ectx 935) <$> Sched.entries (Ectx 935)) = [Sched.AAdd] /\
  Sched.allowed P0 (Ectx 935) Sched.OError = true /\ Sched.allowed P0 (Ectx 935) (Sched.OBatch [Eadd]) = false.
Proof. vm_compute. repeat split; reflexivity. Qed.
