(** C14 — Drummer leadership: holder-only, stable under renewal, bounded takeover.
    Property theorems only; the model is theories/Election.v, the predicates used
    below are in theories/ElectionSpec.v, the proofs in proofs/Election*Proofs.v.

    Two granularities.
    - Safety (holder-only, step-down, CAS exclusivity) is stated for ARBITRARY
      interleavings and faults: a turn is a program that asks for one DB
      operation at a time ([prog]); [feed p rs] runs it against an arbitrary
      list of answers [rs] (whatever other servers and faults did in between),
      and [otrace] is the event trace of an arbitrary scheduler interleaving the
      single operations of any number of servers.
    - Stability and takeover are stated at turn granularity for round-fair,
      fault-free schedules over any number of servers, from any consistent state
      (every state reachable with arbitrary faults is consistent).
    [thr] is deadLeaderMinRound (read from the code by the check, 3 today). *)
From Drummer.Model Require Import Base Election ElectionSpec ElectionRun.
From Drummer.Proofs Require Import ElectionProofs ElectionLiveProofs.

(* ------------------------------------------------------------------ *)
(** ** 1. Holder-only *)

(** A server that is leader at the end of a turn has, in that turn, read the
    election record and found its own instance id in it — whatever the answers
    to its operations were (any interleaving, any fault). *)
Theorem C14_holder_only : forall thr s tick rs s' pn,
  feed (turn_prog thr s tick) rs = Some (s', pn) -> s_role s' = Leader ->
  read_own (s_id s) rs /\ s_id s' = s_id s.
Proof. exact holder_only. Qed.
Print Assumptions C14_holder_only.

(** The same on the turn function that the correspondence check compares with
    the implementation (any record, any fault plan). *)
Theorem C14_holder_only_turn : forall thr who fl r s tick r' s' pn evs,
  turn thr who fl r s tick = (r', s', pn, evs) -> s_role s' = Leader ->
  exists t, In (ERead who (Some (s_id s, t))) evs.
Proof. exact holder_only_turn. Qed.
Print Assumptions C14_holder_only_turn.

(** The same inside an arbitrary execution at the granularity of single DB
    operations (any number of servers [ids], any scheduler choices [cs], any
    faults): whenever an operation [c] completes a turn of server [i] and leaves
    it leader, that turn was fed answers [rs] containing a lookup answer that
    names [i]'s own instance id. *)
Theorem C14_holder_only_interleaved : forall thr ids cs c i s p s',
  let y := oexec thr cs (new_ocfg ids) in
  nth_error (oc_pool y) i = Some (mkO s (Some p)) ->
  nth_error (oc_pool (fst (ostep thr c y))) i = Some (mkO s' None) ->
  s_role s' = Leader ->
  exists tick rs pn, feed (turn_prog thr s tick) rs = Some (s', pn) /\ read_own (s_id s) rs /\ s_id s' = s_id s.
Proof. exact o_holder_only. Qed.
Print Assumptions C14_holder_only_interleaved.

(* ------------------------------------------------------------------ *)
(** ** 2. Step-down *)

(** A leader whose next turn cannot read the record, or reads another instance
    id, ends that turn as follower — immediately: the lookup is the turn's only
    operation (nothing is written). *)
Theorem C14_step_down : forall thr s tick a rs s' pn,
  s_role s = Leader ->
  feed (turn_prog thr s tick) (RRead a :: rs) = Some (s', pn) ->
  (a = None \/ exists h t, a = Some (h, t) /\ h <> s_id s) ->
  s_role s' = Follower /\ rs = [] /\ pn = false /\ s_id s' = s_id s.
Proof. exact step_down. Qed.
Print Assumptions C14_step_down.

Theorem C14_step_down_turn : forall thr who fl r s tick r' s' pn evs,
  s_role s = Leader ->
  turn thr who fl r s tick = (r', s', pn, evs) ->
  (f_r1 fl <> FOk \/ fst (lookup r) <> s_id s) ->
  s_role s' = Follower /\ r' = r /\ evs = [ERead who (read_resp (f_r1 fl) r)].
Proof. exact step_down_turn. Qed.
Print Assumptions C14_step_down_turn.

(** At operation granularity: a leader that has started its turn and whose
    lookup - whenever it is scheduled - fails or names somebody else is a
    follower and between turns right after that lookup; the record is untouched. *)
Theorem C14_step_down_interleaved : forall thr y i s tick f,
  nth_error (oc_pool y) i = Some (mkO s (Some (turn_prog thr s tick))) ->
  s_role s = Leader ->
  (f <> FOk \/ fst (lookup (oc_rec y)) <> s_id s) ->
  exists s', nth_error (oc_pool (fst (ostep thr (COp i f) y))) i = Some (mkO s' None) /\
             s_role s' = Follower /\ s_id s' = s_id s /\ oc_rec (fst (ostep thr (COp i f) y)) = oc_rec y.
Proof. exact o_step_down. Qed.
Print Assumptions C14_step_down_interleaved.

(* ------------------------------------------------------------------ *)
(** ** 3. Two campaigns against the same holder never both succeed *)

(** In the trace of ANY execution (any number of servers, arbitrary scheduling
    of single DB operations, arbitrary faults): between two successful campaign
    CASes that both displace holder [h] there is a stored write that made [h]
    the holder again.  Two campaigns against one tenure never both succeed. *)
Theorem C14_cas_exclusive : forall thr cs y h l1 e1 l2 e2 l3,
  otrace thr cs y = l1 ++ e1 :: l2 ++ e2 :: l3 ->
  displaces h e1 -> displaces h e2 ->
  exists e, In e l2 /\ stored_by e = Some h.
Proof. exact cas_exclusive. Qed.
Print Assumptions C14_cas_exclusive.

(** Sharper: once [self1] has taken the record, an applied CAS by somebody else
    that names [h] is rejected unless [h] or the proposer got the record back. *)
Theorem C14_cas_second_rejected : forall thr cs y l1 e1 l2 l3 self1 w2 self2 h tick2 before2 res2 rep2,
  otrace thr cs y = l1 ++ e1 :: l2 ++ ECas w2 self2 h tick2 before2 true res2 rep2 :: l3 ->
  stored_by e1 = Some self1 ->
  self2 <> self1 -> h <> self1 ->
  (forall e, In e l2 -> stored_by e <> Some h /\ stored_by e <> Some self2) ->
  res2 = Rejected.
Proof. exact cas_second_rejected. Qed.
Print Assumptions C14_cas_second_rejected.

(** The holder changes only through a stored write, and becomes its author. *)
Theorem C14_holder_changes_by_stored_write : forall thr cs y x,
  holder (oc_rec (oexec thr cs y)) = Some x ->
  holder (oc_rec y) = Some x \/ exists e, In e (otrace thr cs y) /\ stored_by e = Some x.
Proof. exact holder_changes_by_stored_write. Qed.
Print Assumptions C14_holder_changes_by_stored_write.

(** What a turn proposes: always its own id and the turn's tick; a renewal names
    no old holder; a campaign names exactly the holder it has just read (or,
    when the lookup said "no record", the last holder it knew). *)
Theorem C14_campaign_names_read_holder : forall thr s tick a rs self old tk,
  In (self, old, tk) (cas_requests (turn_prog thr s tick) (RRead a :: rs)) ->
  self = s_id s /\ tk = tick /\
  exists h t, a = Some (h, t) /\
    ((h = s_id s /\ old = 0) \/
     (h <> s_id s /\ h <> 0 /\ s_role s = Follower /\ old = h) \/
     (h = 0 /\ s_role s = Follower /\ old = match s_cur s with Some c => l_id c | None => 0 end)).
Proof. exact cas_names_read_holder. Qed.
Print Assumptions C14_campaign_names_read_holder.

(* ------------------------------------------------------------------ *)
(** ** 4. Reachable states are consistent (precondition of the liveness part) *)

(** From fresh managers with pairwise distinct non-zero instance ids, any
    schedule of turns with any faults leads to a [consistent] state. *)
Theorem C14_consistent_reachable : forall thr ids sched,
  NoDup ids -> ~ In 0 ids -> consistent (run_faulty thr sched (new_sys ids)).
Proof. exact consistent_reachable. Qed.
Print Assumptions C14_consistent_reachable.

(** The first server to take a fault-free turn wins the first election, and
    the resulting state satisfies the precondition of [C14_stable]. *)
Theorem C14_first_election : forall thr ids m,
  NoDup ids -> ~ In 0 ids -> (m < length ids)%nat ->
  stable_start (sys_turn thr nofault (new_sys ids) m) m.
Proof. exact first_election. Qed.
Print Assumptions C14_first_election.

(* ------------------------------------------------------------------ *)
(** ** 5. Stability *)

(** Round-fair ([fair_round L]: nobody moves twice in a round, the leader moves
    in every round), fault-free, the leader renewing with workerMain's tick, and
    1 <= deadLeaderMinRound.  At EVERY point [p] of such a schedule (complete
    rounds [rs] plus a prefix [r1] of a round): the record still names L, L is
    leader, every other server that has moved is a follower whose static count
    is at most 1 (<= thr, so it never considers the leader dead), and no server
    other than L has issued a proposal (no campaign). *)
Theorem C14_stable : forall thr y L rs r1 r2,
  1 <= thr -> stable_start y L ->
  Forall (fair_round L) rs -> fair_round L (r1 ++ r2) ->
  let p := concat rs ++ r1 in
  let y' := run_sched thr p y in
  holder (y_rec y') = Some (id_at y L) /\
  is_leader_at y' L = true /\
  (forall f, In f p -> f <> L -> is_leader_at y' f = false /\ static_at y' f <= 1) /\
  (forall e, In e (sched_events thr p y) -> ev_who e <> L -> is_proposal e = false).
Proof. exact stable. Qed.
Print Assumptions C14_stable.

(* ------------------------------------------------------------------ *)
(** ** 6. Bounded takeover *)

(** The record names [h]; no server of the active set [A] has instance id [h]
    (the holder stopped, or its process is gone); the servers of A take turns
    round-fair ([full_round A]: each exactly once per round) and fault-free.
    Then after deadLeaderMinRound + 2 rounds there is a server W of A such that
    at every later point of any such schedule the record names W, W is leader and
    every other server of A is a follower: exactly one of them is leader, for good. *)
Theorem C14_takeover : forall thr y A h t0 rs1,
  1 <= thr -> consistent y ->
  A <> [] -> NoDup A -> (forall f, In f A -> (f < length (y_ws y))%nat) ->
  y_rec y = Some (h, t0) -> (forall f, In f A -> id_at y f <> h) ->
  Forall (full_round A) rs1 -> N.of_nat (length rs1) = thr + 2 ->
  exists W, In W A /\
    forall rs2 r1 r2, Forall (full_round A) rs2 -> full_round A (r1 ++ r2) ->
      let y' := run_sched thr r1 (run_rounds thr rs2 (run_rounds thr rs1 y)) in
      holder (y_rec y') = Some (id_at y W) /\
      forall f, In f A -> is_leader_at y' f = Nat.eqb f W.
Proof. exact takeover. Qed.
Print Assumptions C14_takeover.

(** ... in particular from every state reachable with arbitrary faults. *)
Theorem C14_takeover_reachable : forall thr ids sched A h t0 rs1,
  NoDup ids -> ~ In 0 ids ->
  let y := run_faulty thr sched (new_sys ids) in
  1 <= thr ->
  A <> [] -> NoDup A -> (forall f, In f A -> (f < length (y_ws y))%nat) ->
  y_rec y = Some (h, t0) -> (forall f, In f A -> id_at y f <> h) ->
  Forall (full_round A) rs1 -> N.of_nat (length rs1) = thr + 2 ->
  exists W, In W A /\
    forall rs2 r1 r2, Forall (full_round A) rs2 -> full_round A (r1 ++ r2) ->
      let y' := run_sched thr r1 (run_rounds thr rs2 (run_rounds thr rs1 y)) in
      holder (y_rec y') = Some (id_at y W) /\
      forall f, In f A -> is_leader_at y' f = Nat.eqb f W.
Proof. exact takeover_reachable. Qed.
Print Assumptions C14_takeover_reachable.

(* ------------------------------------------------------------------ *)
(** ** Non-vacuity (closed by computation) *)

(** holder-only / step-down: a follower that wins an election, and a leader that
    is displaced and steps down. *)
Example C14_ex_holder_only :
  feed (turn_prog 3 (new_server 7) 1)
       [RRead (Some (0, 0)); RSess true; RCas (Some Updated); RRead (Some (7, 1))]
  = Some (mkS 7 Leader None true, false).
Proof. vm_compute. reflexivity. Qed.

Example C14_ex_step_down :
  feed (turn_prog 3 (mkS 7 Leader None true) 5) [RRead (Some (9, 2))]
  = Some (mkS 7 Follower (Some (mkL 9 2 0)) true, false) /\
  feed (turn_prog 3 (mkS 7 Leader None true) 5) [RRead None]
  = Some (mkS 7 Follower None true, false).
Proof. vm_compute. split; reflexivity. Qed.

(** CAS exclusivity: servers 1 and 2 (ids 9, 4) both see holder 7 unchanged and
    campaign against it, their operations interleaved one by one (thr = 0 to keep
    the trace short); exactly the first CAS displaces 7, the second is rejected. *)
Definition ex_cs : list choice :=
  [CStart 0 1; COp 0 FOk; COp 0 FOk; COp 0 FOk; COp 0 FOk;
   CStart 1 1; COp 1 FOk; CStart 2 1; COp 2 FOk;
   CStart 1 2; CStart 2 2; COp 1 FOk; COp 2 FOk; COp 1 FOk; COp 2 FOk;
   COp 2 FOk; COp 1 FOk; COp 2 FOk; COp 1 FOk]%nat.

Example C14_ex_cas_exclusive :
  otrace 0 ex_cs (new_ocfg [7; 9; 4]) =
  [ERead 0 (Some (0, 0)); ESess 0 true; ECas 0 7 0 1 None true Updated true; ERead 0 (Some (7, 1));
   ERead 1 (Some (7, 1)); ERead 2 (Some (7, 1)); ERead 1 (Some (7, 1)); ERead 2 (Some (7, 1));
   ESess 1 true; ESess 2 true;
   ECas 2 4 7 2 (Some (7, 1)) true Updated true;
   ECas 1 9 7 2 (Some (4, 2)) true Rejected true;
   ERead 2 (Some (4, 2)); EClose 1]
  /\ displaces 7 (ECas 2 4 7 2 (Some (7, 1)) true Updated true).
Proof. split; [vm_compute; reflexivity|]. cbn. repeat split; discriminate. Qed.

(** stability: three servers, server 1 wins the first election, then rounds in
    changing orders; the hypotheses of [C14_stable] hold ... *)
Definition ex_y1 : sys := sys_turn 3 nofault (new_sys [7; 9; 4]) 1.

Example C14_ex_stable_hyps :
  stable_start ex_y1 1 /\
  Forall (fair_round 1) [[0; 1; 2]; [2; 1; 0]; [1; 2]]%nat /\ fair_round 1 ([2; 0] ++ [1])%nat.
Proof.
  split.
  - apply C14_first_election; [repeat constructor; cbn; intuition discriminate|cbn; intuition discriminate|cbn; lia].
  - unfold fair_round. repeat constructor; cbn; intuition discriminate.
Qed.

(** ... and the computed run shows what the theorem says *)
Example C14_ex_stable_run :
  let y' := run_sched 3 (concat [[0; 1; 2]; [2; 1; 0]; [1; 2]] ++ [2; 0])%nat ex_y1 in
  y_rec y' = Some (9, 4) /\ leaders_of y' = [false; true; false] /\
  map (static_at y') [0; 1; 2]%nat = [0; 0; 1].
Proof. vm_compute. repeat split; reflexivity. Qed.

(** takeover: a history with a failed campaign (lost proposal), then server 1
    (id 9) wins and renews once and stops; A = {0, 2}; thr = 3. *)
Definition ex_hist : list (nat * faults) :=
  [(0, F 0 0 2 0); (1, nofault); (1, nofault)]%nat.
Definition ex_y0 : sys := run_faulty 3 ex_hist (new_sys [7; 9; 4]).

Example C14_ex_takeover_hyps :
  NoDup [7; 9; 4] /\ ~ In 0 [7; 9; 4] /\
  [0; 2]%nat <> [] /\ NoDup [0; 2]%nat /\ (forall f, In f [0; 2]%nat -> (f < length (y_ws ex_y0))%nat) /\
  y_rec ex_y0 = Some (9, 2) /\ (forall f, In f [0; 2]%nat -> id_at ex_y0 f <> 9) /\
  Forall (full_round [0; 2]%nat) [[0; 2]; [2; 0]; [0; 2]; [2; 0]; [2; 0]]%nat /\
  N.of_nat (length [[0; 2]; [2; 0]; [0; 2]; [2; 0]; [2; 0]]%nat) = 3 + 2.
Proof.
  assert (P : Permutation.Permutation [2; 0]%nat [0; 2]%nat) by apply Permutation.perm_swap.
  repeat split.
  - repeat constructor; cbn; intuition discriminate.
  - cbn; intuition discriminate.
  - discriminate.
  - repeat constructor; cbn; intuition discriminate.
  - intros f [<-|[<-|[]]]; vm_compute; lia.
  - intros f [<-|[<-|[]]]; vm_compute; discriminate.
  - unfold full_round. repeat constructor; try exact P; apply Permutation.Permutation_refl.
Qed.

(** the bound is attained: after thr + 1 = 4 rounds nobody of A leads (server 1
    is the stopped holder, still believing), after thr + 2 = 5 rounds exactly one does *)
Example C14_ex_takeover_run :
  let y4 := run_rounds 3 [[0; 2]; [2; 0]; [0; 2]; [2; 0]]%nat ex_y0 in
  let y5 := run_rounds 3 [[0; 2]; [2; 0]; [0; 2]; [2; 0]; [2; 0]]%nat ex_y0 in
  let y9 := run_rounds 3 [[0; 2]; [2; 0]; [2; 0]; [0; 2]]%nat y5 in
  (y_rec y4 = Some (9, 2) /\ leaders_of y4 = [false; true; false]) /\
  (y_rec y5 = Some (4, 5) /\ leaders_of y5 = [false; true; true]) /\
  (y_rec y9 = Some (4, 9) /\ leaders_of y9 = [false; true; true]).
Proof. vm_compute. repeat split; reflexivity. Qed.

(* ------------------------------------------------------------------ *)
(** ** 6'. The function evaluated by the correspondence check *)

(** The check replays schedules with [sys_turn_at_x] (ElectionRun.v), which can
    additionally let a competitor's write land between two operations of a turn
    (operation-granularity interleaving on the real code).  Without such a write
    it is the turn function [sys_turn_at] the theorems above talk about. *)
Theorem C14_checked_function_is_turn : forall thr i tick fl y,
  sys_turn_at_x thr i tick fl None None y = sys_turn_at thr i tick fl y.
Proof. exact sys_turn_at_x_none. Qed.
Print Assumptions C14_checked_function_is_turn.

(* ------------------------------------------------------------------ *)
(** ** 7. The model's CAS is the DB model's applyKVUpdate *)

From Drummer.Model Require DB.
From Drummer.Proofs Require ElectionDBProofs.

(** [cas] / [lookup] of the election model are [DB.kv_update] / [DB.lookup_kv]
    (the model of db.go used for C13) on the non-finalized election-key record. *)
Theorem C14_cas_is_db_cas : forall d v self old tick,
  v <> 0 -> ElectionDBProofs.rec_open d ->
  exists d' code,
    DB.kv_update d (ElectionDBProofs.vote v self old tick) = Some (d', code) /\
    ElectionDBProofs.rec_of d' = fst (cas (ElectionDBProofs.rec_of d) self old tick) /\
    (code = 0 <-> snd (cas (ElectionDBProofs.rec_of d) self old tick) = Updated) /\
    (code = 0 \/ code = 2) /\
    ElectionDBProofs.rec_open d'.
Proof. exact ElectionDBProofs.cas_is_kv_update. Qed.
Print Assumptions C14_cas_is_db_cas.

(** why [1 <= thr] is a hypothesis of [C14_stable]: with deadLeaderMinRound = 0 a
    follower that moves after the leader in one round and before it in the next
    sees the record unchanged once and already campaigns (and wins). *)
Example C14_ex_thr0_unstable :
  let y1 := sys_turn 0 nofault (new_sys [7; 9; 4]) 1 in
  let y' := run_sched 0 (concat [[1; 0]; [0; 1]])%nat y1 in
  holder (y_rec y1) = Some 9 /\ holder (y_rec y') = Some 7.
Proof. vm_compute. split; reflexivity. Qed.
