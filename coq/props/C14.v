(* placeholder while the proofs are being written *)
From Drummer.Model Require Import Base Election.
Theorem C14_placeholder : True. Proof. exact I. Qed.
Print Assumptions C14_placeholder.
