(** C15 — the three test state machines are the same deterministic key-value map.  Property theorems only.

    Model: theories/KVSM.v ([kvtest_m], [ckv_m], [disk_m]: KVTest, ConcurrentKVTest, DiskKVTest; a script is a
    list of [op] over replicas 0,1,2..; [run] = the real operation sets; [hist] = the update history of a replica,
    a recovery replacing it by the history of the recovered snapshot; [replay] = that history applied to a fresh
    machine; [None] = Go panic).  Strength: partial.  The two JSON-snapshot machines coerce invalid UTF-8
    (open finding C15-json-utf8): for them the statements carry the precondition [utf8_script] (no recovery in the
    script, or all written keys and values valid UTF-8) resp. [utf8_history]; the unrestricted statements are
    refuted below with a witness.  DiskKVTest needs no such precondition; its lookups are specified for user
    keys, i.e. keys different from its internal applied-index key. *)
From Drummer.Model Require Import Base KVCodec KVSM.
From Drummer.Proofs Require Import KVSMProofs KVSMConcProofs KVSMSlotProofs.

(** the full statements *)
Definition C15_lookup_full : Prop := forall sm,
  lookup_spec (kvtest_m sm) sm any_script any_key /\ lookup_spec (ckv_m sm) sm any_script any_key /\
  lookup_spec (disk_m sm) sm any_script user_key.
Definition C15_snapshot_exact_full : Prop := forall sm,
  snapshot_exact (kvtest_m sm) any_history /\ snapshot_exact (ckv_m sm) any_history /\
  snapshot_exact (disk_m sm) any_history.

(** every lookup, on every replica of every machine, returns the last value written to the key in the
    replica's update history (the empty string if none) — the same specification function for the three machines *)
Theorem C15_lookup : forall sm,
  lookup_spec (kvtest_m sm) sm (utf8_script sm) any_key /\
  lookup_spec (ckv_m sm) sm (utf8_script sm) any_key /\
  lookup_spec (disk_m sm) sm any_script user_key.
Proof. intros sm. split; [apply json_lookup|split; [apply json_lookup|apply disk_lookup]]. Qed.
Print Assumptions C15_lookup.

(** the state and hash pre-image after any script = the state and pre-image of a fresh machine after the update
    history alone: lookups, Sync, PrepareSnapshot/SaveSnapshot, GetHash, Close+Open are erased, a recovery is
    replaced by the history of the snapshot *)
Theorem C15_hash_updates_only : forall sm,
  updates_only_spec (kvtest_m sm) (utf8_script sm) /\
  updates_only_spec (ckv_m sm) (utf8_script sm) /\
  updates_only_spec (disk_m sm) any_script.
Proof. intros sm. split; [apply json_updates_only|split; [apply json_updates_only|apply disk_updates_only]]. Qed.
Print Assumptions C15_hash_updates_only.

(** replicas with equal update histories have equal hash pre-images, within a run and across runs *)
Theorem C15_hash_same_history : forall sm,
  same_history_spec (kvtest_m sm) (utf8_script sm) /\
  same_history_spec (ckv_m sm) (utf8_script sm) /\
  same_history_spec (disk_m sm) any_script.
Proof. intros sm. split; [apply json_same_history|split; [apply json_same_history|apply disk_same_history]]. Qed.
Print Assumptions C15_hash_same_history.

(** recover (save (prepare s)) = s, into the same or another replica, whatever happened between prepare and save *)
Theorem C15_snapshot_exact_partial : forall sm,
  snapshot_exact (kvtest_m sm) (utf8_history sm) /\
  snapshot_exact (ckv_m sm) (utf8_history sm) /\
  snapshot_exact (disk_m sm) any_history.
Proof. intros sm. split; [apply json_snapshot_exact|split; [apply json_snapshot_exact|apply disk_snapshot_exact]]. Qed.
Print Assumptions C15_snapshot_exact_partial.

(** the open finding: key "\xff" := "a" does not survive the JSON snapshot of KVTest / ConcurrentKVTest *)
Theorem C15_snapshot_exact_refuted :
  ~ snapshot_exact (kvtest_m 16777216) any_history /\ ~ snapshot_exact (ckv_m 16777216) any_history /\
  ~ C15_snapshot_exact_full /\ ~ C15_lookup_full.
Proof.
  split; [apply json_snapshot_refuted|]. split; [apply json_snapshot_refuted|]. split.
  - intros H. destruct (H 16777216) as [H1 _]. exact (json_snapshot_refuted kvtest_cfg H1).
  - intros H. destruct (H 16777216) as [H1 _]. exact (kvtest_lookup_refuted H1).
Qed.
Print Assumptions C15_snapshot_exact_refuted.

(** the carve-out is exact: the coercion of encoding/json is the identity precisely on valid UTF-8 *)
Theorem C15_coerce_identity_iff_valid : forall s, coerce s = s <-> utf8_valid s = true.
Proof. exact coerce_id_iff. Qed.
Print Assumptions C15_coerce_identity_iff_valid.

(** a recovery never fails on a JSON machine; on DiskKVTest it succeeds whenever the snapshot is not older than
    the recovering replica; a restart (Close, Open) is possible in every reachable state and Open returns the
    index of the last applied entry *)
Theorem C15_recover_reopen_defined : forall sm,
  (forall c t d, exists s', m_recover (json_machine c sm) t d = Some s') /\
  (forall h s cur t, replay (disk_m sm) h = Some s -> dk_last t <= dk_last s ->
     m_recover (disk_m sm) t (m_save (disk_m sm) cur (m_prepare (disk_m sm) s)) = Some s) /\
  (forall ops s r, run (disk_m sm) ops = Some s ->
     d_reopen (r_st (disk_m sm) (s r)) = Some (r_st (disk_m sm) (s r), last_index (hist true ops r))).
Proof.
  intros sm. split; [intros c t d; apply json_recover_total|]. split; [apply disk_recover_defined|].
  intros ops s r HR. destruct (disk_reopen_defined sm ops s r HR) as [i Hi].
  destruct (disk_reopen_index sm ops s r _ i HR Hi) as [_ ->]. exact Hi.
Qed.
Print Assumptions C15_recover_reopen_defined.

(** lookups concurrent with an Update (allowed by the contracts of ConcurrentKVTest and DiskKVTest): a lookup that
    observes the replica after a prefix of the batch returns the last value written in the update history extended by
    that prefix; with the views "before the call" and "after the call" / "after the restore" (instances of
    [C15_lookup]) this is the oracle of the monitor conc-lookup.  For the in-memory machines every prefix of an
    accepted batch is itself accepted, i.e. these intermediate views exist.  Not covered by any theorem (runtime
    behaviour, decided by monitors on the real machines): that a concurrent lookup observes no other state and
    never takes the process down. *)
Theorem C15_concurrent_lookup_justified : forall sm,
  conc_update_spec (kvtest_m sm) sm (utf8_script sm) any_key /\
  conc_update_spec (ckv_m sm) sm (utf8_script sm) any_key /\
  conc_update_spec (disk_m sm) sm any_script user_key /\
  update_prefix_defined (kvtest_m sm) /\ update_prefix_defined (ckv_m sm).
Proof.
  intros sm. split; [apply json_conc_update|]. split; [apply json_conc_update|]. split; [apply disk_conc_update|].
  split; apply json_update_prefix_defined.
Qed.
Print Assumptions C15_concurrent_lookup_justified.

(** several outstanding snapshot contexts and images per machine ([sop], [srun]: PrepareSnapshot / SaveSnapshot /
    RecoverFromSnapshot carry a slot number; contexts of one replica prepared at the same or at different points, saved
    in any order with updates in between, images installed in any order): (1) every lookup still returns the last value
    written in the replica's update history; (2) every image stands for the state at ITS prepare point - that state is
    the replay of the history captured by its context, and whoever recovers from the image gets exactly that state.
    JSON machines: for scripts writing valid UTF-8 only (finding C15-json-utf8). *)
Theorem C15_snapshot_slots : forall sm,
  slots_spec (kvtest_m sm) sm (utf8_sscript sm) any_key /\
  slots_spec (ckv_m sm) sm (utf8_sscript sm) any_key /\
  slots_spec (disk_m sm) sm any_sscript user_key.
Proof. intros sm. split; [apply json_slots|split; [apply json_slots|apply disk_slots]]. Qed.
Print Assumptions C15_snapshot_slots.

(** non-vacuity: concrete scripts with updates (empty value, empty key, same key rewritten), snapshot hand-over
    0 -> 1, restart; they run without panic, satisfy the preconditions, and give the expected answers *)
Definition ea_b : bytes := [0; 1; 97; 1; 1; 98; 127].      (* "a" := "b" *)
Definition ec_  : bytes := [0; 1; 99; 127].                (* "c" := ""  *)
Definition e_e  : bytes := [1; 1; 101; 127].               (* ""  := "e" *)
Definition ea_z : bytes := [0; 1; 97; 1; 1; 122; 127].     (* "a" := "z" *)
Definition ex_kv : list op :=
  [OUpdate 0 [(1, ea_b)]; OUpdate 0 [(2, ec_)]; OLookup 0 [99]; OHash 0; OSave 0; OUpdate 0 [(3, ea_z)];
   ORecover 1 0; OHash 1; OUpdate 1 [(3, e_e)]; OLookup 1 []].
Definition ex_c : list op :=
  [OUpdate 0 [(1, ea_b); (2, ec_)]; OPrepare 0; OUpdate 0 [(3, ea_z)]; OSave 0; ORecover 1 0; OSync 1; OReopen 1;
   OUpdate 1 [(3, e_e); (4, ea_z)]; OHash 1].
Definition ex_ck : list op := filter (fun o => match o with OSync _ | OReopen _ => false | _ => true end) ex_c.

Definition ran (M : machine) (ops : list op) (r : N) (k : bytes) : option bytes :=
  match run M ops with Some s => Some (m_lookup M (r_st M (s r)) k) | None => None end.

Example C15_ex_kvtest :
  utf8_script 16777216 ex_kv /\ has_recover ex_kv = true /\
  ran (kvtest_m 16777216) ex_kv 1 [99] = Some [] /\ ran (kvtest_m 16777216) ex_kv 1 [] = Some [101] /\
  ran (kvtest_m 16777216) ex_kv 1 [97] = Some [98] /\ ran (kvtest_m 16777216) ex_kv 0 [97] = Some [122] /\
  last_written 16777216 (hist false ex_kv 1) [97] = [98].
Proof. vm_compute. repeat split. Qed.

Example C15_ex_ckv :
  utf8_script 16777216 ex_ck /\ has_recover ex_ck = true /\
  ran (ckv_m 16777216) ex_ck 1 [97] = Some [122] /\ ran (ckv_m 16777216) ex_ck 1 [99] = Some [] /\
  ran (ckv_m 16777216) ex_ck 0 [] = Some [] /\ length (hist true ex_ck 1) = 4%nat.
Proof. vm_compute. repeat split. Qed.

Example C15_ex_disk :
  has_recover ex_c = true /\
  ran (disk_m 16777216) ex_c 1 [97] = Some [122] /\ ran (disk_m 16777216) ex_c 1 [] = Some [101] /\
  ran (disk_m 16777216) ex_c 1 idx_key = Some (le64 4) /\ ran (disk_m 16777216) ex_c 0 idx_key = Some (le64 3) /\
  last_index (hist true ex_c 1) = 4 /\ user_key [97].
Proof. vm_compute. repeat split. intros H; discriminate. Qed.

(* strings far outside the small alphabets: "a" := 5000 x "x" (a record longer than 4096 bytes, two-byte length
   varint 0x88 0x27) and a 300-byte key, through update, snapshot hand-over and restart on the three machines *)
Definition long_v : bytes := repeat 120 (N.to_nat 5000).
Definition long_k : bytes := repeat 107 (N.to_nat 300).
Definition e_long : bytes := [0; 1; 97; 1; 136; 39] ++ long_v ++ [127].
Definition e_longk : bytes := [0; 172; 2] ++ long_k ++ [1; 1; 98; 127].
Definition ex_long : list op :=
  [OUpdate 0 [(1, ea_b); (2, e_long)]; OUpdate 0 [(5, e_longk)]; OPrepare 0; OUpdate 0 [(6, ea_z)]; OSave 0;
   ORecover 1 0; OReopen 1; OLookup 1 [97]].
Definition ex_long_j : list op := filter (fun o => match o with OReopen _ => false | _ => true end) ex_long.
Definition ex_long_kv : list op := filter (fun o => match o with OPrepare _ => false | _ => true end)
  [OUpdate 0 [(1, ea_b)]; OUpdate 0 [(2, e_long)]; OUpdate 0 [(5, e_longk)]; OSave 0; OUpdate 0 [(6, ea_z)]; ORecover 1 0].
Example C15_ex_long_strings :
  nlen e_long = 5007 /\
  ran (disk_m 16777216) ex_long 1 [97] = Some long_v /\ ran (disk_m 16777216) ex_long 1 long_k = Some [98] /\
  ran (disk_m 16777216) ex_long 0 [97] = Some [122] /\
  ran (ckv_m 16777216) ex_long_j 1 [97] = Some long_v /\ ran (ckv_m 16777216) ex_long_j 1 long_k = Some [98] /\
  ran (kvtest_m 16777216) ex_long_kv 1 [97] = Some long_v /\ ran (kvtest_m 16777216) ex_long_kv 1 long_k = Some [98] /\
  utf8_script 16777216 ex_long_j /\ utf8_script 16777216 ex_long_kv.
Proof. vm_compute. repeat split. Qed.

(* a batch that rewrites a key: the views of a concurrent lookup of "a" are b (before), z (after 1 entry), b (after 2) *)
Example C15_ex_prefix_views :
  let M := ckv_m 16777216 in
  let pre := [OUpdate 0 [(1, ea_b)]] in
  let batch := [(2, ea_z); (3, ea_b); (4, ec_)] in
  match run M pre with
  | Some s => map (fun i => match m_update M (r_st M (s 0)) (firstn i batch) with
                            | Some st => Some (m_lookup M st [97]) | None => None end) [0; 1; 2; 3]%nat
              = [Some [98]; Some [122]; Some [98]; Some [98]]
  | None => False
  end /\ utf8_script 16777216 (pre ++ [OUpdate 0 (firstn 1 batch)]).
Proof. vm_compute. repeat split. Qed.

(* two contexts prepared at the same point, the first saved, an update, the second saved: both images are the state at
   the prepare point ("a" = b), the source has moved on ("a" = z); a third context prepared later holds z *)
Definition ex_slots : list sop :=
  [SUpdate 0 [(1, ea_b)]; SPrepare 0 1; SPrepare 0 2; SSave 0 1; SUpdate 0 [(2, ea_z)]; SPrepare 0 3; SSave 0 2;
   SUpdate 0 [(3, ec_)]; SSave 0 3; SRecover 1 0 2; SRecover 2 0 1; SRecover 3 0 3].
Definition sran (M : machine) (ops : list sop) (r : N) (k : bytes) : option bytes :=
  match srun M ops with Some x => Some (m_lookup M (s_st M x r) k) | None => None end.
Example C15_ex_slots :
  utf8_sscript 16777216 ex_slots /\
  sran (ckv_m 16777216) ex_slots 1 [97] = Some [98] /\ sran (ckv_m 16777216) ex_slots 2 [97] = Some [98] /\
  sran (ckv_m 16777216) ex_slots 3 [97] = Some [122] /\ sran (ckv_m 16777216) ex_slots 0 [97] = Some [122] /\
  sran (disk_m 16777216) ex_slots 1 [97] = Some [98] /\ sran (disk_m 16777216) ex_slots 2 [97] = Some [98] /\
  sran (disk_m 16777216) ex_slots 3 [97] = Some [122] /\
  h_sn (shist_sys true ex_slots) 0 2 = Some [(1, ea_b)] /\ h_sn (shist_sys true ex_slots) 0 3 = Some [(1, ea_b); (2, ea_z)].
Proof. vm_compute. repeat split. Qed.

(* the witness of the finding is a valid input of the model: it runs, and it is outside the carve-out *)
Example C15_ex_witness :
  ran (kvtest_m 16777216) wit_ops 0 [255] = Some [97] /\ ran (kvtest_m 16777216) wit_ops 1 [255] = Some [] /\
  forallb (entry_utf8 16777216) wit_hist = false.
Proof. vm_compute. repeat split. Qed.
