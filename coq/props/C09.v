(** C09 — Launch is accepted once; a missed launch deadline fail-stops every replica.
    Property theorems only (proofs in proofs/DBLaunchProofs.v).  All statements are about
    [db_step] / [rstep] / [run_from] of theories/DB.v and [db_query] of theories/DBRun.v,
    for ALL parameters [P], states, commands and command lists (no bound).

    Reading aid (definitions are in proofs/DBProofs.v and proofs/DBLaunchProofs.v):
      [launch_count qs]     number of launch requests (CREATE, not join, not restore) in qs
      [is_launch_batch qs]  0 < launch_count qs             (what isLaunchRequests returns)
      [mixed_batch qs]      0 < launch_count qs <> length qs
      [pure_launch qs]      is_launch_batch qs /\ ~ mixed_batch qs
      [accepted P s qs]     CRequests qs applied in run state s returns a NON-ZERO count
      [launch_result P d qs] d with the batch stored, the finalized launched flag written and
                             d_deadline := d_tick d + p_ldt P * p_step P
      [next P d c = Some d'] the replica is alive after applying c to d (result or deadline panic)
      [results_from P s cs] result values of the commands cs started in s (None = panic / gone)
      [launch_inv d]        d_deadline d <> 0 -> the launched flag is present
      [deadline_respected d] not failed -> deadline pending -> d_tick d <= d_deadline d *)
From stdpp Require Import gmap list.
From Drummer.Model Require Import DB DBRun.
From Drummer.Proofs Require Import DBProofs DBLaunchProofs.
Local Open Scope N_scope.

(** ** accepted at most once *)
(* If a launch batch qs is accepted after the prefix cs1 of ANY run from ANY state d0
   (in particular db_init), then (1) it was applied to a live, not fail-stopped state whose
   launched flag was absent, it consists of launch requests only, and its effect is exactly
   launch_result (flag written); (2) no earlier REQUESTS command contained a launch request;
   (3) every later launch batch is not accepted: its result is 0 (or a panic if the replica has
   fail-stopped / died meanwhile), and unless it is a mixed batch the state is unchanged. *)
Theorem C09_once : forall P d0 cs1 qs cs2,
  is_launch_batch qs -> accepted P (run_from P (Live d0) cs1) qs ->
  (exists d, run_from P (Live d0) cs1 = Live d /\ d_failed d = false /\ d_kv d !! key_launched = None /\
             pure_launch qs /\
             rstep P (Live d) (CRequests qs) = (Live (launch_result P d qs), Some (N.of_nat (length qs))) /\
             d_kv (launch_result P d qs) !! key_launched = Some launched_rec) /\
  (forall pre qs' post, cs1 = pre ++ CRequests qs' :: post -> ~ is_launch_batch qs') /\
  (forall mid qs' post, cs2 = mid ++ CRequests qs' :: post -> is_launch_batch qs' ->
     let s := run_from P (Live d0) (cs1 ++ CRequests qs :: mid) in
     ~ accepted P s qs' /\
     ((rstep P s (CRequests qs')).2 = Some 0 \/ (rstep P s (CRequests qs')).2 = None) /\
     (~ mixed_batch qs' -> (rstep P s (CRequests qs')).1 = s) /\
     (forall d, s = Live d -> d_failed d = false -> ~ mixed_batch qs' -> rstep P s (CRequests qs') = (s, Some 0))).
Proof. exact once. Qed.
Print Assumptions C09_once.

(* the counting form: two launch batches of one run are never both accepted *)
Theorem C09_at_most_one : forall P d0 cs1 q1 cs2 q2,
  is_launch_batch q1 -> is_launch_batch q2 ->
  accepted P (run_from P (Live d0) cs1) q1 ->
  ~ accepted P (run_from P (Live d0) (cs1 ++ CRequests q1 :: cs2)) q2.
Proof. exact at_most_one. Qed.
Print Assumptions C09_at_most_one.

(** ** never mixed *)
(* a mixed batch fail-stops the replica (SDead: the Go panic in isLaunchRequests), as a function
   of the batch alone — hence identically on every replica; a replica that has already
   fail-stopped on the deadline answers with its usual panic and keeps its state *)
Theorem C09_no_mix : forall P d qs,
  mixed_batch qs -> db_step P d (CRequests qs) = if d_failed d then SPanic d else SDead.
Proof. exact no_mix_step. Qed.
Print Assumptions C09_no_mix.

(* no live state lies behind a mixed batch, except the frozen state of a fail-stopped replica *)
Theorem C09_no_mix_run : forall P d0 cs1 qs cs2 d',
  mixed_batch qs -> run_from P (Live d0) (cs1 ++ CRequests qs :: cs2) = Live d' ->
  run_from P (Live d0) cs1 = Live d' /\ d_failed d' = true.
Proof. exact no_mix_run. Qed.
Print Assumptions C09_no_mix_run.

(* and nothing mixed is ever stored: in every reachable state every mailbox (Requests and
   Outgoing, per address) holds launch requests only or no launch request at all *)
Theorem C09_no_mix_stored : forall P cs d,
  run P cs = Live d ->
  (forall a l, d_requests d !! a = Some l ->
     Forall (λ q, is_launch_req q = true) l \/ Forall (λ q, is_launch_req q = false) l) /\
  (forall a l, d_outgoing d !! a = Some l ->
     Forall (λ q, is_launch_req q = true) l \/ Forall (λ q, is_launch_req q = false) l).
Proof. exact reachable_unmixed. Qed.
Print Assumptions C09_no_mix_stored.

(** ** acceptance sets the deadline and writes the finalized flag *)
Theorem C09_deadline_set : forall P d qs d' v,
  db_step P d (CRequests qs) = SOk d' v -> is_launch_batch qs -> v <> 0 ->
  d_failed d = false /\ ~ mixed_batch qs /\ d_kv d !! key_launched = None /\
  v = N.of_nat (length qs) /\ d' = launch_result P d qs /\
  d_deadline d' = d_tick d + p_ldt P * p_step P /\ d_tick d' = d_tick d /\
  d_kv d' = <[key_launched := launched_rec]> (d_kv d) /\
  d_kv d' !! key_launched = Some launched_rec /\ kv_fin launched_rec = true /\ kv_val launched_rec = val_true.
Proof. exact deadline_set. Qed.
Print Assumptions C09_deadline_set.

(* and acceptance does happen: pure launch batch, flag absent, replica not fail-stopped *)
Theorem C09_accept : forall P d qs,
  d_failed d = false -> pure_launch qs -> d_kv d !! key_launched = None ->
  db_step P d (CRequests qs) = SOk (launch_result P d qs) (N.of_nat (length qs)) /\ (0 < length qs)%nat.
Proof. exact accept_launch. Qed.
Print Assumptions C09_accept.

(** ** when the deadline is cleared *)
(* after a report: the deadline is 0 iff it was 0 or every defined shard is fully reporting in
   the state after the report; otherwise it is unchanged *)
Theorem C09_cleared_iff : forall P d r d',
  d_failed d = false -> next P d (CReport r) = Some d' ->
  (d_deadline d' = 0 <-> d_deadline d = 0 \/ all_launched d' = true) /\
  (d_deadline d' <> 0 -> d_deadline d' = d_deadline d) /\
  d_shards d' = d_shards d /\ d_tick d' = d_tick d /\ d_failed d' = false.
Proof. exact cleared_iff. Qed.
Print Assumptions C09_cleared_iff.

(* meaning of all_launched: every DEFINED shard id has a view entry all of whose members
   have reported at a positive logical time (ids that were never defined do not count) *)
Theorem C09_all_launched_meaning : forall d,
  all_launched d = true <->
  forall sid sd, d_shards d !! sid = Some sd ->
    exists c, d_view d !! sid = Some c /\ forall rid n, s_reps c !! rid = Some n -> 0 < r_tick n.
Proof. exact all_launched_spec. Qed.
Print Assumptions C09_all_launched_meaning.

(* the only ways the deadline field changes in one step of ANY state: a report that finds all
   defined shards launched (-> 0), or an accepted launch batch (flag absent before) *)
Theorem C09_deadline_changes_only_by : forall P d c d',
  next P d c = Some d' ->
  d_deadline d' = d_deadline d \/
  (exists r, c = CReport r /\ d_failed d = false /\ d_deadline d <> 0 /\ all_launched d' = true /\ d_deadline d' = 0) \/
  (exists qs, c = CRequests qs /\ d_failed d = false /\ pure_launch qs /\ d_kv d !! key_launched = None /\
              d' = launch_result P d qs).
Proof. exact deadline_changes. Qed.
Print Assumptions C09_deadline_changes_only_by.

(* in reachable states (launch_inv) a pending deadline is never touched by ticks, KV updates,
   shard definitions or request batches *)
Theorem C09_only_reports_clear : forall P d c d',
  next P d c = Some d' -> launch_inv d -> (forall r, c <> CReport r) ->
  d_deadline d <> 0 -> d_deadline d' = d_deadline d.
Proof. exact only_reports_clear. Qed.
Print Assumptions C09_only_reports_clear.

(* a deadline is only ever pending together with the launched flag *)
Theorem C09_deadline_implies_flag : forall P cs d, run P cs = Live d -> launch_inv d.
Proof. exact reachable_launch_inv. Qed.
Print Assumptions C09_deadline_implies_flag.

Theorem C09_deadline_implies_flag_step : forall P d c d', next P d c = Some d' -> launch_inv d -> launch_inv d'.
Proof. exact step_launch_inv. Qed.
Print Assumptions C09_deadline_implies_flag_step.

(** ** cancelled for good *)
Theorem C09_cancel_for_good : forall P cs d d',
  is_Some (d_kv d !! key_launched) -> d_deadline d = 0 -> run_from P (Live d) cs = Live d' ->
  is_Some (d_kv d' !! key_launched) /\ d_deadline d' = 0 /\ d_failed d' = d_failed d /\
  (d_failed d = false -> forall c d'', db_step P d' c <> SPanic d'').
Proof. exact cancel_for_good. Qed.
Print Assumptions C09_cancel_for_good.

(* run form, without mentioning the flag: after an accepted launch batch, once some state shows
   deadline 0, every later state shows 0, the latch never changes and no update panics on it *)
Theorem C09_cancel_for_good_run : forall P d0 cs1 qs cs2 cs3 d d',
  is_launch_batch qs -> accepted P (run_from P (Live d0) cs1) qs ->
  run_from P (Live d0) (cs1 ++ CRequests qs :: cs2) = Live d -> d_deadline d = 0 ->
  run_from P (Live d) cs3 = Live d' ->
  d_deadline d' = 0 /\ d_failed d' = d_failed d /\ (d_failed d = false -> forall c d'', db_step P d' c <> SPanic d'').
Proof. exact cancel_for_good_run. Qed.
Print Assumptions C09_cancel_for_good_run.

(** ** fail-stop *)
(* in one statement: a replica reached from the initial state whose deadline is still pending when
   the next tick takes logical time past it (and which therefore was never past it before) panics
   on that tick with the latch set, and from then on every update returns a panic without changing
   anything and every query answers QPanic *)
Theorem C09_failstop : forall P cs d,
  run P cs = Live d -> d_failed d = false -> d_deadline d <> 0 -> d_deadline d < d_tick d + p_step P ->
  d_tick d <= d_deadline d /\
  exists d', db_step P d CTick = SPanic d' /\ d_failed d' = true /\
    (forall c, rstep P (Live d') c = (Live d', None)) /\
    (forall cs', run_from P (Live d') cs' = Live d' /\ results_from P (Live d') cs' = replicate (length cs') None) /\
    (forall q, db_query P d' q = QPanic).
Proof. exact failstop. Qed.
Print Assumptions C09_failstop.

(* the tick rule, exactly: panic iff a deadline is pending and the NEW tick is > deadline *)
Theorem C09_failstop_tick : forall P d,
  d_failed d = false ->
  (0 < d_deadline d -> d_deadline d < d_tick d + p_step P ->
     exists d', db_step P d CTick = SPanic d' /\ d_failed d' = true /\ d_tick d' = d_tick d + p_step P /\
                d_deadline d' = d_deadline d) /\
  (d_deadline d = 0 \/ d_tick d + p_step P <= d_deadline d ->
     db_step P d CTick = SOk (set_tick d (d_tick d + p_step P)) (d_tick d + p_step P)).
Proof. exact tick_failstop. Qed.
Print Assumptions C09_failstop_tick.

(* it is the FIRST such tick: no reachable replica that has not fail-stopped is past a pending deadline *)
Theorem C09_failstop_no_survivor : forall P cs d,
  run P cs = Live d -> d_failed d = true \/ d_deadline d = 0 \/ d_tick d <= d_deadline d.
Proof. exact no_survivor. Qed.
Print Assumptions C09_failstop_no_survivor.

(* from then on: every update panics and changes nothing, every run stays put, every query
   (all lookups, hash, snapshot) answers QPanic *)
Theorem C09_failstop_forever : forall P d,
  d_failed d = true ->
  (forall c, db_step P d c = SPanic d) /\
  (forall c, rstep P (Live d) c = (Live d, None)) /\
  (forall cs, run_from P (Live d) cs = Live d) /\
  (forall cs, results_from P (Live d) cs = replicate (length cs) None) /\
  (forall q, db_query P d q = QPanic).
Proof. exact failed_forever. Qed.
Print Assumptions C09_failstop_forever.

(* the latch has no other cause *)
Theorem C09_failstop_only_by_tick : forall P d c d',
  next P d c = Some d' -> d_failed d = false -> d_failed d' = true ->
  c = CTick /\ 0 < d_deadline d /\ d_deadline d < d_tick d + p_step P /\ db_step P d c = SPanic d'.
Proof. exact failed_only_by_tick. Qed.
Print Assumptions C09_failstop_only_by_tick.

(** ** snapshots *)
(* In the model a snapshot IS the db record (d_deadline, d_failed and the launched flag in d_kv
   are fields of it).  What this theorem says, and all it says: states and results after any
   prefix are a function of the record reached by the prefix, so a replica restored from the
   record continues exactly like the one that produced it.  That the implementation's
   SaveSnapshot/RecoverFromSnapshot carries these fields is checked by the correspondence
   (snapshot forks across the deadline), not proved here.  The Examples below show that each of
   the three fields is observable, i.e. a restore that dropped one would be noticed. *)
Theorem C09_snapshot : forall P d0 cs1 cs2,
  run_from P (Live d0) (cs1 ++ cs2) = run_from P (run_from P (Live d0) cs1) cs2 /\
  results_from P (Live d0) (cs1 ++ cs2) =
    results_from P (Live d0) cs1 ++ results_from P (run_from P (Live d0) cs1) cs2.
Proof. exact snapshot_suffix. Qed.
Print Assumptions C09_snapshot.

(** * Non-vacuity: concrete runs, closed by computation *)
Definition P0 := mkParams 60 5 24.            (* ttl 60, tick step 5, launch deadline 24 ticks = 120 *)
Definition lreq (s inst addr : N) : request := mkReq RCreate s [inst] 0 [inst] [addr] inst addr false false 1.
Definition kreq (s addr : N) : request := mkReq RKill s [900] 0 [] [] 0 addr false false 0.
Definition rep (addr s rid : N) : report :=      (* host addr runs replica rid of the one-member shard s *)
  mkReport addr [SI s rid false [(rid, addr)] 1 false false] [s] 0 false [] 1 0.
Definition defs := [CShard 0 (mkSD 1 [11] 1); CShard 0 (mkSD 2 [21] 1); CTick].
Definition lbatch := [lreq 1 11 1; lreq 2 21 2].

Definition live_fields (s : rstate) : option (N * N * bool * bool) :=
  match s with Live d => Some (d_tick d, d_deadline d, d_failed d, is_launched d) | Dead => None end.

(* accepted once: first batch returns 2 and sets the deadline 5 + 24*5; the second returns 0 and changes nothing *)
Example ex_once :
  results_from P0 (Live db_init) (defs ++ [CRequests lbatch; CRequests lbatch; CRequests [lreq 1 11 1]])
    = [Some 0; Some 0; Some 5; Some 2; Some 0; Some 0] /\
  live_fields (run P0 (defs ++ [CRequests lbatch])) = Some (5, 125, false, true) /\
  run P0 (defs ++ [CRequests lbatch; CRequests lbatch]) = run P0 (defs ++ [CRequests lbatch]) /\
  accepted P0 (run P0 defs) lbatch /\ is_launch_batch lbatch /\ pure_launch lbatch.
Proof.
  split; [vm_compute; reflexivity|]. split; [vm_compute; reflexivity|]. split; [vm_compute; reflexivity|].
  split; [exists 2; split; [vm_compute; reflexivity|discriminate]|].
  split; [vm_compute; lia|]. split; [vm_compute; lia|]. vm_compute. intros [_ H]. by apply H.
Qed.

(* a mixed batch kills the replica; before and after an accepted launch alike *)
Example ex_mixed :
  mixed_batch [lreq 1 11 1; kreq 1 1] /\
  run P0 (defs ++ [CRequests [lreq 1 11 1; kreq 1 1]]) = Dead /\
  run P0 (defs ++ [CRequests lbatch; CRequests [lreq 1 11 1; kreq 1 1]]) = Dead.
Proof. split; [vm_compute; split; [lia|discriminate]|]. split; vm_compute; reflexivity. Qed.

(* completing reports before the deadline cancel it for good: 40 more ticks, no fail-stop *)
Example ex_cancel :
  live_fields (run P0 (defs ++ [CRequests lbatch; CReport (rep 1 1 11)])) = Some (5, 125, false, true) /\
  live_fields (run P0 (defs ++ [CRequests lbatch; CReport (rep 1 1 11); CReport (rep 2 2 21)])) = Some (5, 0, false, true) /\
  live_fields (run P0 (defs ++ [CRequests lbatch; CReport (rep 1 1 11); CReport (rep 2 2 21)] ++ replicate 40 CTick))
    = Some (205, 0, false, true).
Proof. repeat split; vm_compute; reflexivity. Qed.

(* the repaired defect: shards 1 and 2 defined, shard 1 and an UNDEFINED shard 9 fully reporting:
   the deadline is NOT cleared; the tick landing on the deadline (125) passes, the next one
   fail-stops, and afterwards every update and every query panics *)
Definition is_qpanic (r : qres) : bool := match r with QPanic => true | _ => false end.
Definition all_queries_panic (s : rstate) : bool :=
  match s with
  | Live d => forallb (λ q, is_qpanic (db_query P0 d q)) [QShards; QKV 2; QContext; QRequests 1; QStates [1]; QHash; QSnap]
  | Dead => false
  end.
Definition stuck := defs ++ [CRequests lbatch; CReport (rep 1 1 11); CReport (rep 2 9 91)].
Example ex_failstop :
  live_fields (run P0 stuck) = Some (5, 125, false, true) /\
  live_fields (run P0 (stuck ++ replicate 24 CTick)) = Some (125, 125, false, true) /\
  results_from P0 (run P0 (stuck ++ replicate 23 CTick)) [CTick; CTick; CTick; CReport (rep 2 2 21); CRequests []; CKV (mkKVR 9 1 0 0 0 false)]
    = [Some 125; None; None; None; None; None] /\
  live_fields (run P0 (stuck ++ replicate 25 CTick)) = Some (130, 125, true, true) /\
  all_queries_panic (run P0 (stuck ++ replicate 25 CTick)) = true /\
  all_queries_panic (run P0 (stuck ++ replicate 24 CTick)) = false.
Proof.
  split; [vm_compute; reflexivity|]. split; [vm_compute; reflexivity|]. split; [vm_compute; reflexivity|].
  split; [vm_compute; reflexivity|]. split; vm_compute; reflexivity.
Qed.

(* the converse witness: both defined shards launched plus an undefined shard 9 in the view: cleared *)
Example ex_extra_shard_cleared :
  live_fields (run P0 (defs ++ [CRequests lbatch; CReport (rep 3 9 91); CReport (rep 1 1 11); CReport (rep 2 2 21)]))
    = Some (5, 0, false, true).
Proof. vm_compute; reflexivity. Qed.

(* a report at logical time 0 does not count as launched (Tick > 0 is required) *)
Example ex_report_at_time_zero :
  live_fields (run P0 [CShard 0 (mkSD 1 [11] 1); CRequests [lreq 1 11 1]; CReport (rep 1 1 11)]) = Some (0, 120, false, true) /\
  live_fields (run P0 [CShard 0 (mkSD 1 [11] 1); CRequests [lreq 1 11 1]; CReport (rep 1 1 11); CTick; CReport (rep 1 1 11)])
    = Some (5, 0, false, true).
Proof. split; vm_compute; reflexivity. Qed.

(* each of the three snapshot-relevant fields is observable: dropping it on restore changes later answers *)
Definition with_state (s : rstate) (f : db -> db) : rstate := match s with Live d => Live (f d) | Dead => Dead end.
Definition at_deadline := run P0 (stuck ++ replicate 24 CTick).       (* tick = deadline = 125, not failed *)
Definition past_deadline := run P0 (stuck ++ replicate 25 CTick).     (* fail-stopped *)
Example ex_fields_matter :
  results_from P0 at_deadline [CTick] = [None] /\
  results_from P0 (with_state at_deadline (λ d, set_deadline d 0)) [CTick] = [Some 130] /\
  results_from P0 at_deadline [CRequests lbatch] = [Some 0] /\
  results_from P0 (with_state at_deadline (λ d, set_kv d ∅)) [CRequests lbatch] = [Some 2] /\
  results_from P0 past_deadline [CKV (mkKVR 9 1 0 0 0 false)] = [None] /\
  results_from P0 (with_state past_deadline (λ d, set_failed d false)) [CKV (mkKVR 9 1 0 0 0 false)] = [Some 0].
Proof. repeat split; vm_compute; reflexivity. Qed.
