(** C13 — Finalized keys are write-once; election record is CAS; bootstrap gate holds.
    Property theorems only (proofs in proofs/DBProofs.v).  All statements are about
    [db_step]/[run_from] of theories/DB.v, for ALL states, commands and command lists.
    [next P d c = Some d'] means: the replica is still alive after applying c to d. *)
From stdpp Require Import gmap.
From Drummer.Model Require Import DB.
From Drummer.Proofs Require Import DBProofs DBKVTickProofs.
Local Open Scope N_scope.

(* a finalized record never changes, whatever is applied later *)
Theorem C13_finalized_forever : forall P cs d d' k r,
  run_from P (Live d) cs = Live d' -> d_kv d !! k = Some r -> kv_fin r = true -> d_kv d' !! k = Some r.
Proof. exact run_finalized. Qed.
Print Assumptions C13_finalized_forever.

(* a non-finalized record changes in one step only by a KV command on that key whose
   instance id or old-instance id equals the stored instance id *)
Theorem C13_cas_exact : forall P d c d' k old,
  next P d c = Some d' -> d_kv d !! k = Some old -> kv_fin old = false ->
  d_kv d' !! k = Some old \/
  (exists kv, c = CKV kv /\ kv_key kv = k /\ (kv_inst old = kv_inst kv \/ kv_inst old = kv_old kv) /\ d_kv d' !! k = Some kv).
Proof. exact step_cas_exact. Qed.
Print Assumptions C13_cas_exact.

(* result codes Updated(0) / Finalized(1) / Rejected(2) and the exact successor state *)
Theorem C13_kv_codes : forall P d kv,
  d_failed d = false -> kv_key kv <> 0 -> kv_val kv <> 0 ->
  match d_kv d !! kv_key kv with
  | None => db_step P d (CKV kv) = SOk (set_kv d (<[kv_key kv := kv]> (d_kv d))) 0
  | Some old =>
    if kv_fin old then db_step P d (CKV kv) = SOk d 1
    else if (kv_inst old =? kv_inst kv) || (kv_inst old =? kv_old kv)
         then db_step P d (CKV kv) = SOk (set_kv d (<[kv_key kv := kv]> (d_kv d))) 0
         else db_step P d (CKV kv) = SOk d 2
  end.
Proof. exact kv_codes. Qed.
Print Assumptions C13_kv_codes.

(* nothing else changes the KV map except the launched flag written by an accepted launch batch *)
Theorem C13_kv_changes_only_by : forall P d c d',
  next P d c = Some d' ->
  d_kv d' = d_kv d \/
  (exists kv, c = CKV kv /\ d_kv d' = <[kv_key kv := kv]> (d_kv d) /\ kv_key kv <> 0 /\ kv_val kv <> 0 /\
     (d_kv d !! kv_key kv = None \/
      exists old, d_kv d !! kv_key kv = Some old /\ kv_fin old = false /\
                  (kv_inst old = kv_inst kv \/ kv_inst old = kv_old kv))) \/
  (exists qs, c = CRequests qs /\ d_kv d !! key_launched = None /\
     d_kv d' = <[key_launched := launched_rec]> (d_kv d)).
Proof. exact step_kv. Qed.
Print Assumptions C13_kv_changes_only_by.

(* shard definitions: added only before bootstrap, only under a fresh id *)
Theorem C13_shard_step : forall P d c d',
  next P d c = Some d' ->
  d_shards d' = d_shards d \/
  (exists sd, c = CShard 0 sd /\ is_bootstrapped d = false /\ d_shards d !! sd_id sd = None /\
              sd_members sd <> [] /\ sd_app sd <> 0 /\ d_shards d' = <[sd_id sd := sd]> (d_shards d)).
Proof. exact step_shards. Qed.
Print Assumptions C13_shard_step.

Theorem C13_shard_gate : forall P cs d d',
  run_from P (Live d) cs = Live d' -> is_bootstrapped d = true ->
  d_shards d' = d_shards d /\ is_bootstrapped d' = true.
Proof. exact run_bootstrapped_frozen. Qed.
Print Assumptions C13_shard_gate.

Theorem C13_existing_definition_kept : forall P cs d d' s sd,
  run_from P (Live d) cs = Live d' -> d_shards d !! s = Some sd -> d_shards d' !! s = Some sd.
Proof. exact run_shard_kept. Qed.
Print Assumptions C13_existing_definition_kept.

(* codes Updated(0) / Exists(1) / Bootstrapped(2) *)
Theorem C13_shard_codes : forall d t sd d' v,
  try_create_shard d t sd = Some (d', v) ->
  t = 0 /\ sd_members sd <> [] /\ sd_app sd <> 0 /\
  ((is_bootstrapped d = true /\ v = 2 /\ d' = d) \/
   (is_bootstrapped d = false /\ is_Some (d_shards d !! sd_id sd) /\ v = 1 /\ d' = d) \/
   (is_bootstrapped d = false /\ d_shards d !! sd_id sd = None /\ v = 0 /\
      d' = set_shards d (<[sd_id sd := sd]> (d_shards d)))).
Proof. exact try_create_shard_spec. Qed.
Print Assumptions C13_shard_codes.

(* bootstrapped, launched, regions, deployment id are written finalized by the service:
   the first such write to an absent key wins for good *)
Theorem C13_first_writer_wins : forall P d kv cs d'',
  d_failed d = false -> kv_key kv <> 0 -> kv_val kv <> 0 -> kv_fin kv = true ->
  d_kv d !! kv_key kv = None ->
  run_from P (Live d) (CKV kv :: cs) = Live d'' -> d_kv d'' !! kv_key kv = Some kv.
Proof. exact first_writer_wins. Qed.
Print Assumptions C13_first_writer_wins.

(** non-vacuity: concrete runs exercising the hypotheses *)
Definition P0 := mkParams 60 5 24.
Definition boot := mkKVR key_bootstrapped val_true 0 0 0 true.
Definition el1 := mkKVR key_election 7 11 1 0 false.
Definition el2 := mkKVR key_election 7 22 2 11 false.   (* campaigner 22 naming holder 11 *)
Definition el3 := mkKVR key_election 7 33 3 11 false.   (* second campaign against the same holder *)

Example ex_run : exists d, run P0 [CShard 0 (mkSD 1 [11;12;13] 3); CKV el1; CKV el2; CKV el3; CKV boot; CShard 0 (mkSD 2 [21] 3);
                                    CKV (mkKVR key_bootstrapped 9 0 0 0 true)] = Live d /\
  d_kv d !! key_election = Some el2 /\ d_kv d !! key_bootstrapped = Some boot /\
  d_shards d !! 2 = None /\ d_shards d !! 1 = Some (mkSD 1 [11;12;13] 3).
Proof. eexists. split; [vm_compute; reflexivity|]. vm_compute. repeat split; reflexivity. Qed.

(** The record Tick is inert for acceptance: the result code of a KV write is the same whatever Tick the
    writer presents and whatever Ticks the stored records carry (only key, value-emptiness, instance ids and
    the finalized flag decide); an accepted write stores exactly the presented record. *)
Theorem C13_code_ignores_ticks : forall P g d1 d2 kv t,
  reticked g d1 d2 ->
  res_code (db_step P d2 (CKV (with_tick kv t))) = res_code (db_step P d1 (CKV kv)).
Proof. exact kv_code_ignores_ticks. Qed.
Print Assumptions C13_code_ignores_ticks.

Theorem C13_accepted_stores_presented : forall P d kv d',
  db_step P d (CKV kv) = SOk d' 0 -> d_kv d' !! kv_key kv = Some kv.
Proof. exact kv_accepted_stores_presented. Qed.
Print Assumptions C13_accepted_stores_presented.

(* non-vacuity: a rejected campaign stays rejected when its Tick is 2^40 ahead of the holder's *)
Example ex_ticks : exists d, (run P0 [CKV el1] = Live d) /\
  reticked (λ _, 0) d (set_kv d ((λ r, with_tick r 0) <$> d_kv d)) /\
  res_code (db_step P0 d (CKV (with_tick (mkKVR key_election 7 33 3 22 false) 1099511627776))) = Some (Some 2).
Proof. eexists. split; [vm_compute; reflexivity|]. split; [split; reflexivity|]. vm_compute. reflexivity. Qed.
