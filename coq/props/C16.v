(** C16 — On-disk test state machine (tests/diskkv.go) is crash-consistent at every crash point.
    Property theorems only; model: theories/CrashFS.v + DiskKVModel.v, proofs: proofs/DiskKVProofs.v.

    Reading guide.  [run ck evs sys0] is the system after the history [evs]: a list of API calls that
    returned ([EvOp o]) and API calls during which the machine crashed after the first k file-system /
    store steps of the call ([EvCrash o k], k arbitrary; the process and everything not synced is lost).
    A crashed [OOpen] is a crash during recovery, so histories contain double, triple, ... crashes.
    [hist_reach evs h]: h = (last installed snapshot, update batches that took effect since, open?) is
    explained by the history: every returned call took effect, every crashed call took effect entirely
    or not at all.  [hist_state h] = the updates applied on top of the snapshot; its first component is
    the snapshot index plus the entries and index gaps of the updates = the raft index of the last
    entry applied ([OUpdate gap b]: the indexes handed to Update are strictly increasing but need not be
    contiguous and may be of any magnitude; a snapshot's index is lastApplied + dlt, dlt arbitrary).  [ck]
    is the checksum function of the pointer file (arbitrary).  pebble is an abstract store (see the header of DiskKVProofs.v). *)
From Drummer.Model Require Import Base CrashFS DiskKVModel DiskKVRun.
From Drummer.Proofs Require Import DiskKVProofs.

(** 1. Recovery invariant: after every history and after EVERY prefix of the steps of the next call
    (o, k arbitrary) the durable view is well formed - the durable pointer file, if there is one, is
    intact and names a durable store directory -, it stays so across the crash, and it denotes a state
    explained by the history.  Holds in particular for every prefix of recovery itself. *)
Theorem C16_recovery_inv : forall ck evs o k,
  let m := mid_state ck o k (run ck evs sys0) in
  dur_wf ck m /\ dur_wf ck (fs_crash m) /\
  exists h, hist_reach (evs ++ [EvCrash o k]) h /\ h_up h = false /\
            dur_state ck m = hist_state h /\ dur_state ck (fs_crash m) = hist_state h.
Proof. exact recovery_inv. Qed.
Print Assumptions C16_recovery_inv.

(** 2. Reopen after a crash at any point of any call after any history: Open succeeds (no error, no
    panic), reports index i = index of a state explained by the history, and Lookup sees exactly the
    last installed snapshot plus the updates up to i. *)
Theorem C16_reopen : forall ck evs o k,
  exists h y', hist_reach (evs ++ [EvCrash o k]) h /\
    do_event ck (EvOp OOpen) (run ck (evs ++ [EvCrash o k]) sys0) = (y', ROk (fst (hist_state h))) /\
    open_state y' = Some (hist_state h).
Proof. exact reopen_after_crash. Qed.
Print Assumptions C16_reopen.

(** 2b. The same for every Open of a machine that is down (after Close as well). *)
Theorem C16_open_any : forall ck evs,
  p_db (s_proc (run ck evs sys0)) = None ->
  exists h y', hist_reach evs h /\
    do_event ck (EvOp OOpen) (run ck evs sys0) = (y', ROk (fst (hist_state h))) /\
    open_state y' = Some (hist_state h).
Proof. exact open_any. Qed.
Print Assumptions C16_open_any.

(** 2d. Atomicity of a call relative to the state the running machine showed when the call started
    ([open_state]: index and contents as Lookup sees them): after a crash at ANY point of the call the reopened
    machine reports and shows exactly that state, or exactly what the completed call makes of it.  For
    Update: all entries of the call in their order (a key written several times keeps the last value)
    together with the new index lastApplied + gap + |b| - or nothing of the call. *)
Theorem C16_call_atomic : forall ck evs o k L0,
  open_state (run ck evs sys0) = Some L0 ->
  exists L y', (L = L0 \/ L = fst (spec_op o (L0, true))) /\
    do_event ck (EvOp OOpen) (run ck (evs ++ [EvCrash o k]) sys0) = (y', ROk (fst L)) /\
    open_state y' = Some L.
Proof. exact call_atomic. Qed.
Print Assumptions C16_call_atomic.

Theorem C16_update_atomic : forall ck evs gap b k i m,
  open_state (run ck evs sys0) = Some (i, m) ->
  exists L y', (L = (i, m) \/ L = (i + gap + nlen b, apply_batch b m)) /\
    do_event ck (EvOp OOpen) (run ck (evs ++ [EvCrash (OUpdate gap b) k]) sys0) = (y', ROk (fst L)) /\
    open_state y' = Some L.
Proof. intros ck evs gap b k i m H. exact (call_atomic ck evs (OUpdate gap b) k (i, m) H). Qed.
Print Assumptions C16_update_atomic.

(** 2c. No call panics, after any history ("db dir unexpectedly deleted", "corrupted content"). *)
Theorem C16_no_panic : forall ck evs o, snd (do_event ck (EvOp o) (run ck evs sys0)) <> RPanic.
Proof. exact no_panic. Qed.
Print Assumptions C16_no_panic.

(** 3. Acknowledged indexes are never lost: if at some time the machine was open and the last returned
    call left lastApplied = a, then after any continuation and a crash at any point the reopened machine
    reports i >= a. *)
Theorem C16_acked : forall ck evs1 evs2 a o k,
  acked_index (run ck evs1 sys0) = Some a ->
  exists i y', do_event ck (EvOp OOpen) (run ck (evs1 ++ evs2 ++ [EvCrash o k]) sys0) = (y', ROk i) /\ a <= i.
Proof. exact acked. Qed.
Print Assumptions C16_acked.

(** 3b. [acked_index] is the index the last returned call reported to its caller. *)
Theorem C16_ack_is_result : forall ck evs o i,
  o <> OClose -> in_contract o (s_proc (run ck evs sys0)) = true ->
  snd (do_event ck (EvOp o) (run ck evs sys0)) = ROk i ->
  acked_index (run ck (evs ++ [EvOp o]) sys0) = Some i.
Proof. exact ack_is_result. Qed.
Print Assumptions C16_ack_is_result.

(** ---- non-vacuity: concrete workloads with a crash in the middle (closed by computation) *)
Definition w_pre : list event :=
  [EvOp OOpen; EvOp (OUpdate 0 [(1, 10)]); EvOp (OUpdate 0 [(2, 20); (1, 11)])].
Definition snap5 : kvmap := [(3, 30); (2, 20); (1, 11)].

Definition probe (evs : list event) : res * option (option N) * option (option N) :=
  let '(y', r) := do_event ckr (EvOp OOpen) (run ckr evs sys0) in
  (r, option_map (fun L => kv_get 1 (snd L)) (open_state y'), option_map (fun L => kv_get 3 (snd L)) (open_state y')).

(* RecoverFromSnapshot has 14 steps; the pointer switch becomes durable with step 11 *)
Example C16_ex_recover_len : length (steps_of ckr (ORecover 2 snap5) (run ckr w_pre sys0)) = 14%nat.
Proof. vm_compute. reflexivity. Qed.
(* crash after 10 steps (new store built and synced, pointer renamed but directory not synced): old state, index 3 *)
Example C16_ex_crash_before_switch :
  probe (w_pre ++ [EvCrash (ORecover 2 snap5) 10]) = (ROk 3, Some (Some 11), Some None).
Proof. vm_compute. reflexivity. Qed.
(* crash after 11 steps: the snapshot is installed, index 5 *)
Example C16_ex_crash_after_switch :
  probe (w_pre ++ [EvCrash (ORecover 2 snap5) 11]) = (ROk 5, Some (Some 11), Some (Some 30)).
Proof. vm_compute. reflexivity. Qed.
(* the acknowledged update (index 3) survives a crash in the middle of the first step of the next update *)
Example C16_ex_acked :
  acked_index (run ckr w_pre sys0) = Some 3 /\
  probe (w_pre ++ [EvCrash (OUpdate 0 [(3, 33)]) 0]) = (ROk 3, Some (Some 11), Some None) /\
  probe (w_pre ++ [EvCrash (OUpdate 0 [(3, 33)]) 1]) = (ROk 4, Some (Some 11), Some (Some 33)).
Proof. vm_compute. repeat split; reflexivity. Qed.
(* one Update call is one atomic batch, entries in order: a call that writes key 1 twice (10 then 12) and key 3
   leaves the later value; a crash before its only store step leaves nothing of it, not even the first write *)
Example C16_ex_same_key_in_one_call :
  probe (w_pre ++ [EvCrash (OUpdate 0 [(1, 10); (3, 33); (1, 12)]) 0]) = (ROk 3, Some (Some 11), Some None) /\
  probe (w_pre ++ [EvCrash (OUpdate 0 [(1, 10); (3, 33); (1, 12)]) 1]) = (ROk 6, Some (Some 12), Some (Some 33)) /\
  probe (w_pre ++ [EvOp (OUpdate 0 [(1, 10); (3, 33); (1, 12)]); EvCrash OSync 0]) = (ROk 6, Some (Some 12), Some (Some 33)).
Proof. vm_compute. repeat split; reflexivity. Qed.
(* indexes of any magnitude, reached by an update after an index gap or by a snapshot's index, are reported
   exactly by the reopened machine (127/128, 2^32, 2^63 + 1, 2^64 - 1) *)
Example C16_ex_big_indexes :
  probe (w_pre ++ [EvOp (OUpdate 123 [(3, 33)]); EvCrash (OUpdate 0 [(3, 34)]) 0]) = (ROk 127, Some (Some 11), Some (Some 33)) /\
  probe (w_pre ++ [EvOp (OUpdate 123 [(3, 33)]); EvCrash (OUpdate 0 [(3, 34)]) 1]) = (ROk 128, Some (Some 11), Some (Some 34)) /\
  probe (w_pre ++ [EvOp (ORecover 4294967293 snap5); EvOp OClose; EvCrash OOpen 2]) = (ROk 4294967296, Some (Some 11), Some (Some 30)) /\
  probe (w_pre ++ [EvOp (OUpdate 9223372036854775805 [(3, 33)]); EvOp (OUpdate 9223372036854775805 [(1, 12)]); EvCrash OClose 0]) =
    (ROk 18446744073709551615, Some (Some 12), Some (Some 33)).
Proof. vm_compute. repeat split; reflexivity. Qed.
(* double crash: crash in the first Open after 12 steps (pointer file written, not yet renamed), crash
   again 3 steps into the recovery Open, then reopen: empty store at index 0, usable *)
Example C16_ex_double_crash :
  probe [EvCrash OOpen 12; EvCrash OOpen 3] = (ROk 0, Some None, Some None) /\
  probe [EvCrash OOpen 12; EvCrash OOpen 3; EvOp OOpen; EvOp (OUpdate 0 [(1, 7)]); EvCrash OSync 0] = (ROk 1, Some (Some 7), Some None).
Proof. vm_compute. repeat split; reflexivity. Qed.

(* the invariant is not trivially true: with the step order the code had before commit ade95d9 (pointer
   published before the store directory is created) the durable view after "publish" is ill formed and
   the reopened machine panics *)
Definition old_first_open : list step :=
  plan_node_dir fs0 ++ save_ptr ckr 1 ++ replace_ptr ++ [SMkdirDb 1; SSyncN; SStOpen 1].
Example C16_ex_old_order_refuted :
  ~ dur_wf ckr (exec (firstn 12 old_first_open) fs0) /\
  snd (do_event ckr (EvOp OOpen) (mkSys (fs_crash (exec (firstn 12 old_first_open) fs0)) proc0 2)) = RPanic.
Proof.
  split.
  - intros H. destruct (H eq_refl 0 eq_refl) as (d & _ & Hin). exact Hin.
  - vm_compute. reflexivity.
Qed.

(* the executable trace projection used by the correspondence: first Open *)
Example C16_ex_trace_first_open :
  map fst (groups (steps_of ckr OOpen sys0)) =
  [(1,0); (2,0); (3,0); (4,0); (4,0); (5,1); (6,0); (7,1); (8,1); (8,1); (9,1); (6,0); (10,2); (6,0); (13,1)].
Proof. vm_compute. reflexivity. Qed.
