(** C06 — the linearizability checker's verdict is exact.  Property theorems only.

    [check h] is the Gallina model of [CheckEvents(GetEtcdModel(), h)] (theories/WGL.v,
    tied to the Go code by the differential check harness/py/c06.py);
    [linearizable h] is the declarative specification of theories/Register.v:
    some total order of the operations, a permutation of the operation ids, respects
    real-time precedence and is accepted step by step by the register model, where an
    operation with unknown outcome is accepted whatever its result.
    [wf h]: complete history — every id has exactly one call and one later return.
    No bound on the length of [h] or on the values.

    Not modelled (testing only, see c06.py): goroutine scheduling of the single
    checker goroutine and the kill flag / timeout path. *)
From Drummer.Model Require Import Base Register WGL.
From Drummer.Proofs Require Import RegisterProofs WGLProofs.
From Coq Require Import ZArith.

(** the verdict is exact: 'linearizable' iff a linearization exists *)
Theorem C06_exact : forall h, wf h -> (check h = true <-> linearizable h).
Proof. exact check_exact. Qed.
Print Assumptions C06_exact.

(** the two directions separately *)
Theorem C06_sound : forall h, wf h -> check h = true -> linearizable h.
Proof. exact check_sound. Qed.
Print Assumptions C06_sound.

Theorem C06_complete : forall h, wf h -> linearizable h -> check h = true.
Proof. exact check_complete. Qed.
Print Assumptions C06_complete.

(** the verdict does not depend on operation numbering: any renaming of the ids
    that is injective on the ids of the history leaves it unchanged (no [wf] needed) *)
Theorem C06_renumber : forall f h, inj_on f h -> check (rename f h) = check h.
Proof. exact check_rename. Qed.
Print Assumptions C06_renumber.

(** ... and neither does the specification, nor well-formedness *)
Theorem C06_spec_renumber : forall f h, inj_on f h -> (linearizable (rename f h) <-> linearizable h).
Proof. intros f h H. exact (lin_rename f h nil_state H). Qed.
Print Assumptions C06_spec_renumber.

Theorem C06_wf_renumber : forall f h, inj_on f h -> wf h -> wf (rename f h).
Proof. exact wf_rename. Qed.
Print Assumptions C06_wf_renumber.

(** default (single) partition: the verdict is that of the one search *)
Theorem C06_partition : forall h, check h = checkSingle (convertEntries (renumber h)).
Proof. reflexivity. Qed.
Print Assumptions C06_partition.

(** well-formedness is decidable by [wfb] (used by the examples and by the harness) *)
Theorem C06_wfb : forall h, wfb h = true <-> wf h.
Proof. exact wfb_wf. Qed.
Print Assumptions C06_wfb.

(** ---- non-vacuity ---- *)
Definition out_ack : output := mkOut false false 0 false.          (* write acknowledged *)
Definition out_val (v : Z) : output := mkOut false true v false.   (* read returned v *)
Definition out_cas (b : bool) : output := mkOut b false 0 false.   (* cas succeeded / failed *)
Definition out_unknown : output := mkOut false false 0 true.       (* timed out *)

(* write 1 || read -> 1, overlapping with cas(1,2) -> ok: linearizable as write, read, cas *)
Definition ex_lin : history :=
  [Call 7 (Write 1); Call 3 Read; Ret 7 out_ack; Call 9 (Cas 1 2); Ret 3 (out_val 1); Ret 9 (out_cas true)].

Example ex_lin_wf : wf ex_lin.
Proof. apply wfb_wf. vm_compute. reflexivity. Qed.
Example ex_lin_check : check ex_lin = true.
Proof. vm_compute. reflexivity. Qed.
Example ex_lin_spec : linearizable ex_lin.
Proof. apply (C06_exact ex_lin ex_lin_wf). exact ex_lin_check. Qed.

(* sequential: write 1; cas(1,2) -> ok; read -> 1: not linearizable *)
Definition ex_nonlin : history :=
  [Call 0 (Write 1); Ret 0 out_ack; Call 1 (Cas 1 2); Ret 1 (out_cas true); Call 2 Read; Ret 2 (out_val 1)].

Example ex_nonlin_wf : wf ex_nonlin.
Proof. apply wfb_wf. vm_compute. reflexivity. Qed.
Example ex_nonlin_check : check ex_nonlin = false.
Proof. vm_compute. reflexivity. Qed.
Example ex_nonlin_spec : ~ linearizable ex_nonlin.
Proof. intro H. apply (C06_exact ex_nonlin ex_nonlin_wf) in H. rewrite ex_nonlin_check in H. discriminate H. Qed.

(* the same with the cas outcome unknown and the read concurrent with it: linearizable (read before cas) *)
Definition ex_unknown : history :=
  [Call 0 (Write 1); Ret 0 out_ack; Call 1 (Cas 1 2); Call 2 Read; Ret 2 (out_val 1); Ret 1 out_unknown].

Example ex_unknown_wf : wf ex_unknown.
Proof. apply wfb_wf. vm_compute. reflexivity. Qed.
Example ex_unknown_check : check ex_unknown = true.
Proof. vm_compute. reflexivity. Qed.

(* the first candidate (read -> nil first) fails deeper in the search, the search backtracks and the
   persistent cache is consulted: 4 operations, two of them concurrent *)
Definition ex_backtrack : history :=
  [Call 0 Read; Call 1 (Write 1); Call 2 (Write 2); Ret 1 out_ack; Ret 2 out_ack; Ret 0 (out_val 1);
   Call 3 Read; Ret 3 (out_val 2)].
Example ex_backtrack_check : wfb ex_backtrack = true /\ check ex_backtrack = true.
Proof. vm_compute. split; reflexivity. Qed.

(* an injective renaming, hypothesis of C06_renumber *)
Example ex_inj : inj_on (fun x => 2 * x + 5) ex_lin.
Proof. intros a b _ _ H. lia. Qed.
Example ex_renumber : check (rename (fun x => 2 * x + 5) ex_lin) = true.
Proof. rewrite (C06_renumber _ _ ex_inj). exact ex_lin_check. Qed.
