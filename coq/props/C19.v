(** C19 — "The NodeHost API facade is transparent and hands out the right session kind".
    Property theorems only; model in theories/Facade.v, proofs in proofs/FacadeProofs.v.

    Strength: full in the model. The model describes the REPAIRED code: no session-kind cache,
    every GetSession reads the NodeHost's shard list (repairs 6bfc28f, corpus/C19/fix-session-kind.diff,
    and 6156851, corpus/C19/stale-after-rehost-witnesses.txt); on an unrepaired tree the correspondence
    check reports the violation with a concrete replay.
    Modelled: hosting configuration incl. shards that are stopped and hosted again with another type,
    the lookup loop over ShardInfoList (in any order), session conversions (all four fields), the
    error->code table, Propose/Read/GetSession/CloseSession as wrappers around the local dragonboat call
    (a parameter of the theorems).
    Not modelled (exercised by the harness only = testing): Raft and the state machines behind the
    local call, the gRPC transport, context deadlines, a NodeHost closed under the facade,
    Result.Data of a proposal (the wire type carries only Result.Value). *)
From stdpp Require Import gmap.
From Drummer.Model Require Import Base Facade.
From Drummer.Proofs Require Import FacadeProofs.

(** ** Right session kind.
    [reachable st]: any number of shards of any types started in any order on the NodeHost, stopped
    and started again (as a new replica of ANY type) any number of times, interleaved in any way
    with any sequence of GetSession calls for hosted and non-hosted shard ids, each call seeing the
    hosted shards in an arbitrary order [il] (dragonboat's map iteration order). The next call for
    shard [s] then returns a tracked session iff [s] is hosted NOW with a type other than on-disk,
    a no-op session iff [s] is hosted now on-disk, and an error iff [s] is not hosted now -
    whatever [s] ran as before and whatever was asked before. *)
Theorem C19_kind : forall st, reachable st ->
  forall il s, Permutation il (hosted st) ->
    match hosted_type (hosted st) s with
    | Some t => (fst (query st il s) = QKind Tracked <-> t <> OnDisk) /\
                (fst (query st il s) = QKind NoOp <-> t = OnDisk)
    | None => fst (query st il s) = QErr
    end.
Proof. exact kind_full. Qed.
Print Assumptions C19_kind.

(** readiness of a hosted shard is irrelevant: [il] is the ShardInfoList with ANY assignment of
    Pending flags (a shard started a moment ago, a joining replica that has applied nothing yet):
    every listed shard gets the kind of its type, only a shard id that is not listed the error *)
Theorem C19_kind_readiness : forall st, reachable st ->
  forall (il : list shard_info) s, Permutation (map fst il) (hosted st) ->
    qres_of (support_regular_info il s) = spec_answer (hosted st) s.
Proof. exact kind_readiness. Qed.
Print Assumptions C19_kind_readiness.

(** the executable run of the model (used by the correspondence check) answers every query of
    every event sequence - starts, stops, re-hosts, queries - as the specification does *)
Theorem C19_kind_run : forall evs, run evs = spec_run [] evs.
Proof. exact run_spec. Qed.
Print Assumptions C19_kind_run.

(** stop and re-host spelled out (corollaries of [C19_kind]; the scenario class of the repaired
    defect C19-stale-kind-after-rehost): in any reachable state, after StopShard(s) the next
    GetSession(s) is an error, and after a re-host of [s] with type [t] it is the kind [t] needs *)
Theorem C19_kind_rehost : forall st, reachable st ->
  (forall s il, Permutation il (hosted (stop_shard st s)) ->
     fst (query (stop_shard st s) il s) = QErr) /\
  (forall s t il, Permutation il (hosted (start_shard (stop_shard st s) s t)) ->
     fst (query (start_shard (stop_shard st s) s t) il s) = QKind (kind_of_type t)).
Proof. intros st R. exact (conj (kind_after_stop st R) (kind_after_rehost st R)). Qed.
Print Assumptions C19_kind_rehost.

(** "whatever else the NodeHost runs and in whatever order shards were started": two facade
    objects in arbitrary reachable states, on NodeHosts that agree on shard [s] (same type, or both
    do not host it), give the same answer for [s]; in particular two start orders of one set of shards *)
Theorem C19_kind_order_independent : forall st1 st2, reachable st1 -> reachable st2 ->
  forall il1 il2 s, Permutation il1 (hosted st1) -> Permutation il2 (hosted st2) ->
    (hosted_type (hosted st1) s = hosted_type (hosted st2) s \/ Permutation (hosted st1) (hosted st2)) ->
    fst (query st1 il1 s) = fst (query st2 il2 s).
Proof. exact kind_order_full. Qed.
Print Assumptions C19_kind_order_independent.

(** ** Sessions survive conversion to and from their wire form: both directions, all field values *)
Theorem C19_session_roundtrip :
  (forall p : pb_session, to_pb (to_nh p) = p) /\
  (forall s : nh_session, to_nh (to_pb s) = s) /\
  (forall p, ns_fields (to_nh p) = ps_fields p) /\
  (forall s, ps_fields (to_pb s) = ns_fields s) /\
  (forall dst src, update_pb dst src = to_pb src) /\
  (forall s, is_noop (to_nh (to_pb s)) = is_noop s).
Proof.
  exact (conj roundtrip_pb (conj roundtrip_nh (conj conv_fields_nh (conj conv_fields_pb
        (conj update_pb_is_to_pb noop_preserved))))).
Qed.
Print Assumptions C19_session_roundtrip.

(** ** Every error is mapped to a defined status code: one of the six codes of the table, never
    OK, a valid gRPC code number; no error stays no error; the table itself *)
Theorem C19_codes_total :
  (forall e : err, In (grpc_code e) [InvalidArgument; Unavailable; NotFound; Canceled; DeadlineExceeded; Unknown]
                   /\ grpc_code e <> OK /\ 0 < code_num (grpc_code e) <= 16) /\
  (forall oe, grpc_error oe = None <-> oe = None) /\
  (grpc_code EInvalidSession = InvalidArgument /\
   grpc_code EPayloadTooBig = InvalidArgument /\
   grpc_code ETimeoutTooSmall = InvalidArgument /\
   grpc_code ESystemBusy = Unavailable /\
   grpc_code EClosed = Unavailable /\
   grpc_code EShardClosed = Unavailable /\
   grpc_code EShardNotFound = NotFound /\
   grpc_code ECtxCanceled = Canceled /\
   grpc_code ECanceled = Canceled /\
   grpc_code ECtxDeadlineExceeded = DeadlineExceeded /\
   grpc_code ETimeout = DeadlineExceeded /\
   (forall n, grpc_code (EOther n) = Unknown)).
Proof. exact (conj codes_total (conj grpc_error_nil codes_table)). Qed.
Print Assumptions C19_codes_total.

(** ** Transparency. MODELLED: the facade methods as wrappers around the local dragonboat calls,
    which are arbitrary functions [local_*] of an arbitrary world [W] (everything the local call
    can read or change). For every such local call: the facade changes the world exactly as the
    local call made with the converted (field-for-field equal) session and the same data does,
    returns exactly its value (and the session as the local call left it) on success and the
    table's status code of its error on failure. That the local call itself behaves like Raft is
    not part of the model. *)
Theorem C19_transparent : forall (W : Type)
    (local_propose : W -> nh_session -> list N -> lres (N * nh_session) * W)
    (local_read : W -> N -> list N -> lres (list N) * W),
  (forall w req,
     let l := local_propose w (to_nh (pr_session req)) (pr_data req) in
     let f := facade_propose local_propose w req in
     ns_fields (to_nh (pr_session req)) = ps_fields (pr_session req) /\
     snd f = snd l /\
     (forall v cs', fst l = LOk (v, cs') ->
        fst (fst f) = FOk (mkResp v []) /\ snd (fst f) = to_pb cs') /\
     (forall e, fst l = LErr e ->
        fst (fst f) = FErr (grpc_code e) /\ snd (fst f) = pr_session req)) /\
  (forall w req,
     let l := local_read w (rd_shard req) (rd_data req) in
     let f := facade_read local_read w req in
     snd f = snd l /\
     (forall d, fst l = LOk d -> fst f = FOk (mkResp 0 d)) /\
     (forall e, fst l = LErr e -> fst f = FErr (grpc_code e))).
Proof. exact transparent_full. Qed.
Print Assumptions C19_transparent.

(** GetSession / CloseSession through the facade: the session handed out is the one the local
    call of the right kind returned (tracked: SyncGetSession, called exactly when the shard is
    hosted and not on-disk; no-op: GetNoOPSession, nothing proposed), in wire form; errors get the
    table's code; closing a no-op session touches nothing. *)
Theorem C19_transparent_sessions : forall (W : Type)
    (local_get_session : W -> N -> lres nh_session * W)
    (local_noop_session : N -> nh_session)
    (local_close_session : W -> nh_session -> option err * W),
  (forall st il w s, reachable st -> Permutation il (hosted st) ->
     let f := facade_get_session local_get_session local_noop_session st il w s in
     match hosted_type (hosted st) s with
     | None => fst (fst f) = FErr Unknown /\ snd f = w
     | Some OnDisk => fst (fst f) = FOk (to_pb (local_noop_session s)) /\ snd f = w
     | Some _ =>
         snd f = snd (local_get_session w s) /\
         match fst (local_get_session w s) with
         | LOk cs => fst (fst f) = FOk (to_pb cs)
         | LErr e => fst (fst f) = FErr (grpc_code e)
         end
     end) /\
  (forall w p,
     let f := facade_close_session local_close_session w p in
     if is_noop (to_nh p) then f = (FOk true, w)
     else snd f = snd (local_close_session w (to_nh p)) /\
          match fst (local_close_session w (to_nh p)) with
          | None => fst f = FOk true
          | Some e => fst f = FErr (grpc_code e)
          end).
Proof. exact transparent_sessions_full. Qed.
Print Assumptions C19_transparent_sessions.

(** ** Non-vacuity: concrete reachable states, closed by computation *)

(** a NodeHost running a regular (1), an on-disk (2) and a concurrent (3) shard, started in the
    order 2,1,3, with queries in between (for 9, not hosted; for 3 before it is started) *)
Definition ex_events : list event :=
  [EStart 2 OnDisk; EQuery 9; EQuery 3; EStart 1 Regular; EQuery 2; EStart 3 Concurrent;
   EQuery 3; EQuery 1; EQuery 2; EQuery 9; EQuery 1].

Example C19_ex_run :
  run ex_events = [QErr; QErr; QKind NoOp; QKind Tracked; QKind Tracked; QKind NoOp; QErr; QKind Tracked].
Proof. vm_compute. reflexivity. Qed.

Example C19_ex_reachable : reachable (snd (run_from finit ex_events)).
Proof. apply run_from_reachable. apply R_init. Qed.

(** in that state all three types are hosted, and an info list in another order gives the same
    answers *)
Example C19_ex_state :
  let st := snd (run_from finit ex_events) in
  hosted st = [(2, OnDisk); (1, Regular); (3, Concurrent)] /\
  map (fun s => fst (query st [(3, Concurrent); (2, OnDisk); (1, Regular)] s)) [1; 2; 3; 9]
    = [QKind Tracked; QKind NoOp; QKind Tracked; QErr].
Proof. vm_compute. repeat split; reflexivity. Qed.

(** stop and re-host, regression Examples for the repaired defect C19-stale-kind-after-rehost
    (witnesses a, b, c of corpus/C19/stale-after-rehost-witnesses.txt; with the never-invalidated
    cache of the old code the last answers were tracked (then a panic), no-op, no-op):
    a: asked for as a regular shard, stopped, hosted again on-disk, asked for again -> no-op;
    b: asked for as an on-disk shard, stopped, hosted again as a regular shard, asked again -> tracked;
    c: asked for as an on-disk shard, stopped, asked for again while not hosted -> error *)
Definition ex_rehost_a : list event := [EStart 1 Regular; EQuery 1; EStop 1; EStart 1 OnDisk; EQuery 1].
Definition ex_rehost_b : list event := [EStart 1 OnDisk; EQuery 1; EStop 1; EStart 1 Regular; EQuery 1].
Definition ex_rehost_c : list event := [EStart 1 OnDisk; EQuery 1; EStop 1; EQuery 1].

Example C19_ex_stale_after_rehost :
  run ex_rehost_a = [QKind Tracked; QKind NoOp] /\
  run ex_rehost_b = [QKind NoOp; QKind Tracked] /\
  run ex_rehost_c = [QKind NoOp; QErr].
Proof. vm_compute. repeat split; reflexivity. Qed.

(** a NodeHost with two shards, queries about the other shard in between (the seeded change
    C19-r2-m1: a cache filled for every listed shard would answer no-op for shard 2 at the end) *)
Example C19_ex_rehost_never_asked :
  run [EStart 1 Regular; EStart 2 OnDisk; EQuery 1; EStop 2; EStart 2 Regular; EQuery 2; EQuery 1]
  = [QKind Tracked; QKind Tracked; QKind Tracked].
Proof. vm_compute. reflexivity. Qed.

Example C19_ex_rehost_reachable : reachable (snd (run_from finit (ex_rehost_a ++ ex_rehost_b))).
Proof. apply run_from_reachable. apply R_init. Qed.

(** the two unrepaired lookups are NOT this model: assigning from every listed shard (last one
    wins) answers no-op for shard 1 and for the non-hosted shard 9 *)
Example C19_ex_defect_witness :
  let buggy (s : N) (il : hosting) : option bool :=
      fold_left (fun _ ci => Some (negb (is_ondisk (snd ci)))) il None in
  buggy 1 [(1, Regular); (2, OnDisk)] = Some false /\
  buggy 9 [(1, Regular); (2, OnDisk)] = Some false /\
  support_regular [(1, Regular); (2, OnDisk)] 1 = Some true /\
  support_regular [(1, Regular); (2, OnDisk)] 9 = None.
Proof. vm_compute. repeat split; reflexivity. Qed.

(** readiness: an on-disk joining replica (pending) next to a ready regular shard and a pending
    regular one; the seeded change C19-r3-m1 (skip pending entries) would answer None for 2 and 3 *)
Example C19_ex_readiness :
  map (support_regular_info [(1, Regular, false); (2, OnDisk, true); (3, Regular, true)]) [1; 2; 3; 9]
  = [Some true; Some false; Some true; None].
Proof. vm_compute. reflexivity. Qed.

(** sessions: all-distinct field values survive, and the no-op test looks at the series id *)
Example C19_ex_session :
  to_nh (mkPS 11 22 33 44) = mkNS 11 22 33 44 /\ to_pb (mkNS 11 22 33 44) = mkPS 11 22 33 44 /\
  is_noop (to_nh (mkPS 5 77 0 0)) = true /\ is_noop (to_nh (mkPS 5 77 1 0)) = false.
Proof. vm_compute. repeat split; reflexivity. Qed.

(** codes: every code of the table is hit, with its gRPC number *)
Example C19_ex_codes :
  map (fun e => code_num (grpc_code e))
      [EInvalidSession; EPayloadTooBig; ETimeoutTooSmall; ESystemBusy; EClosed; EShardClosed;
       EShardNotFound; ECtxCanceled; ECanceled; ECtxDeadlineExceeded; ETimeout; EOther 0]
  = [3; 3; 3; 14; 14; 14; 5; 1; 1; 4; 4; 2].
Proof. vm_compute. reflexivity. Qed.

(** transparency: a local call that counts proposals (the world is a counter) and fails on an
    unknown shard; through the facade the counter moves the same way and the results are the
    local ones *)
Example C19_ex_transparent :
  let lp (w : N) (cs : nh_session) (d : list N) : lres (N * nh_session) * N :=
      if ns_shard cs =? 1 then (LOk (w + nlen d, cs), w + 1) else (LErr EShardNotFound, w) in
  facade_propose lp 7 (mkProp (mkPS 1 22 0 0) [5; 6]) = (FOk (mkResp 9 []), mkPS 1 22 0 0, 8) /\
  facade_propose lp 7 (mkProp (mkPS 4 22 0 0) [5; 6]) = (FErr NotFound, mkPS 4 22 0 0, 7).
Proof. vm_compute. split; reflexivity. Qed.
