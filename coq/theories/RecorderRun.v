(** RecorderRun: replays the merged observation log of the protocol executor (real Coordinator /
    process objects against gated stubs) in the Recorder model: the log must be a trace of the
    model.  Unobservable steps (pick, setBusy, spawn, setStopped, setIdle) are inserted right
    after the observable step that enables them. *)
From Drummer.Model Require Import Base Jepsen Recorder RecorderAtomic.
Open Scope N_scope.

Inductive hobs :=
| HEv (e : event)                     (* next element of Coordinator.events *)
| HStart (p : N)                      (* first rpc of the operation of p leaves the client *)
| HRet (p : N) (r : rpcres)           (* the operation's last rpc returned to the client *)
| HGate (p : N) (i : bool)            (* p is about to record its completion; idle flag seen *)
| HFlags (p : N) (i st : bool)        (* flags of p after it went idle again *)
| HEffect (p : N).                    (* the register service applied the operation of p (read: took its value) *)

Definition last_event_is (s : state) (e : event) : bool :=
  match revents s with x :: _ => event_eqb x e | [] => false end.

Definition hstep (s : state) (h : hobs) : option state :=
  match h with
  | HEv e =>
    match e_res e with
    | RInvoked =>
      match run s [LPick (e_id e) (etype_eqb (e_type e) TWrite); LRecInvoke] with
      | Some s' => if last_event_is s' e then run s' [LSetBusy; LSpawn] else None
      | None => None
      end
    | _ =>
      match step s (LRecDone (e_id e)) with
      | Some s' => if last_event_is s' e then step s' (LSetIdle (e_id e)) else None
      | None => None
      end
    end
  | HStart p => step s (LRpcStart p)
  | HRet p r =>
    match step s (LRpcReturn p r) with
    | Some s' => match r with RErr => step s' (LSetStopped p) | ROk _ => Some s' end
    | None => None
    end
  | HGate p i => if Bool.eqb (idle (procs s p)) i then Some s else None
  | HFlags p i st =>
    if Bool.eqb (idle (procs s p)) i && Bool.eqb (stopped (procs s p)) st then Some s else None
  | HEffect _ => Some s
  end.

(** number of observations replayed before the model got stuck (= length when all replayed) *)
Fixpoint hrun (s : state) (l : list hobs) (k : N) : N * option state :=
  match l with
  | [] => (k, Some s)
  | h :: l' => match hstep s h with Some s' => hrun s' l' (k + 1) | None => (k, None) end
  end.

Definition rcase (n : N) (l : list hobs) : bool :=
  match snd (hrun (init n) l 0) with
  | Some s => obs_ok (observations s) && wf_events (events s)
  | None => false
  end.

Definition rstuck (n : N) (l : list hobs) : N := fst (hrun (init n) l 0).

Definition ev (t r : N) (id v : N) : event :=
  mkEvent (if t =? 0 then TRead else TWrite)
          (if r =? 0 then RInvoked else if r =? 1 then RCompleted else RFailed) id v.

(** * The same log replayed in the recorder composed with the atomic register (RecorderAtomic.v):
    the run against the gated register service of the executor must be a trace of that system, so
    that C07_accepts_linearizable speaks about it.  An effect observed while the rpc of p is in
    flight is [AEffect p]; an effect observed later is the landing of a write that was reported
    failed ([ALate p]) or, for a read / an operation nobody waits for, nothing. *)
Definition ahstep (a : astate) (h : hobs) : option astate :=
  match h with
  | HEv e =>
    match e_res e with
    | RInvoked =>
      match arun a [AL (LPick (e_id e) (etype_eqb (e_type e) TWrite)); AL LRecInvoke] with
      | Some a' => if last_event_is (a_s a') e then arun a' [AL LSetBusy; AL LSpawn] else None
      | None => None
      end
    | _ =>
      match astep a (AL (LRecDone (e_id e))) with
      | Some a' => if last_event_is (a_s a') e then astep a' (AL (LSetIdle (e_id e))) else None
      | None => None
      end
    end
  | HStart p => astep a (AL (LRpcStart p))
  | HRet p r =>
    match astep a (AL (LRpcReturn p r)) with
    | Some a' => match r with RErr => astep a' (AL (LSetStopped p)) | ROk _ => Some a' end
    | None => None
    end
  | HGate p i => if Bool.eqb (idle (procs (a_s a) p)) i then Some a else None
  | HFlags p i st =>
    if Bool.eqb (idle (procs (a_s a) p)) i && Bool.eqb (stopped (procs (a_s a) p)) st then Some a else None
  | HEffect p =>
    match pc (procs (a_s a) p) with
    | CInRpc _ => astep a (AEffect p)
    | _ => match a_late a p with Some _ => astep a (ALate p) | None => Some a end
    end
  end.

Fixpoint ahrun (a : astate) (l : list hobs) (k : N) : N * option astate :=
  match l with
  | [] => (k, Some a)
  | h :: l' => match ahstep a h with Some a' => ahrun a' l' (k + 1) | None => (k, None) end
  end.

Definition arcase (n : N) (l : list hobs) : bool :=
  match snd (ahrun (ainit n) l 0) with
  | Some a => obs_ok (observations (a_s a)) && wf_events (events (a_s a))
  | None => false
  end.

Definition arstuck (n : N) (l : list hobs) : N := fst (ahrun (ainit n) l 0).
