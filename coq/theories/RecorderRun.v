(** RecorderRun: replays the merged observation log of the protocol executor (real Coordinator /
    process objects against gated stubs) in the Recorder model: the log must be a trace of the
    model.  Unobservable steps (pick, setBusy, spawn, setStopped, setIdle) are inserted right
    after the observable step that enables them. *)
From Drummer.Model Require Import Base Jepsen Recorder.
Open Scope N_scope.

Inductive hobs :=
| HEv (e : event)                     (* next element of Coordinator.events *)
| HStart (p : N)                      (* first rpc of the operation of p leaves the client *)
| HRet (p : N) (r : rpcres)           (* the operation's last rpc returned to the client *)
| HGate (p : N) (i : bool)            (* p is about to record its completion; idle flag seen *)
| HFlags (p : N) (i st : bool).       (* flags of p after it went idle again *)

Definition last_event_is (s : state) (e : event) : bool :=
  match revents s with x :: _ => event_eqb x e | [] => false end.

Definition hstep (s : state) (h : hobs) : option state :=
  match h with
  | HEv e =>
    match e_res e with
    | RInvoked =>
      match run s [LPick (e_id e) (etype_eqb (e_type e) TWrite); LRecInvoke] with
      | Some s' => if last_event_is s' e then run s' [LSetBusy; LSpawn] else None
      | None => None
      end
    | _ =>
      match step s (LRecDone (e_id e)) with
      | Some s' => if last_event_is s' e then step s' (LSetIdle (e_id e)) else None
      | None => None
      end
    end
  | HStart p => step s (LRpcStart p)
  | HRet p r =>
    match step s (LRpcReturn p r) with
    | Some s' => match r with RErr => step s' (LSetStopped p) | ROk _ => Some s' end
    | None => None
    end
  | HGate p i => if Bool.eqb (idle (procs s p)) i then Some s else None
  | HFlags p i st =>
    if Bool.eqb (idle (procs s p)) i && Bool.eqb (stopped (procs s p)) st then Some s else None
  end.

(** number of observations replayed before the model got stuck (= length when all replayed) *)
Fixpoint hrun (s : state) (l : list hobs) (k : N) : N * option state :=
  match l with
  | [] => (k, Some s)
  | h :: l' => match hstep s h with Some s' => hrun s' l' (k + 1) | None => (k, None) end
  end.

Definition rcase (n : N) (l : list hobs) : bool :=
  match snd (hrun (init n) l 0) with
  | Some s => obs_ok (observations s) && wf_events (events s)
  | None => false
  end.

Definition rstuck (n : N) (l : list hobs) : N := fst (hrun (init n) l 0).

Definition ev (t r : N) (id v : N) : event :=
  mkEvent (if t =? 0 then TRead else TWrite)
          (if r =? 0 then RInvoked else if r =? 1 then RCompleted else RFailed) id v.
