(** KVCodec: model of kv/kv.go (Colfer codec of {Key, Val}) — property C20.

    Two models of [Unmarshal]:
    - [unmarshal_ix]: index based, literal transcription of the Go code.  Every
      [data[i]] / [data[a:b]] is a *checked* read ([get]/[slice]) that yields
      [Crash] when out of range; the Go bounds tests ([i >= len(data)]) are
      modelled as explicit tests.  [C20_no_crash] is a theorem about this model:
      the tests that exist in the code are sufficient.
    - [unmarshal_ls]: list consuming, used for the algebraic proofs; proved equal
      to [unmarshal_ix] in proofs/KVCodecProofs.v.
    Strings are lists of bytes ([list N]); uint arithmetic wraps at 2^64 where
    adversarial input reaches it (the varint accumulation).  [size_max] models
    the package variable [ColferSizeMax]. *)
From Drummer.Model Require Import Base.

Record kv := mkKV { key : list N; val : list N }.

Inductive outcome :=
| OkN (i : N)        (* (i, nil) *)
| EOF                (* io.EOF *)
| Max                (* ColferMax *)
| Hdr (i : N)        (* ColferError(i) *)
| Tail (i : N)       (* ColferTail(i), UnmarshalBinary only *)
| Crash.             (* index out of range: a Go panic *)

Definition w64 : N := 18446744073709551616.   (* 2^64 *)
Definition shl64 (b s : N) : N := (N.shiftl b s) mod w64.

Section Codec.
Variable size_max : N.

(** ---- MarshalLen ---- *)
Fixpoint varint_extra (fuel : nat) (x : N) : N :=
  match fuel with
  | O => 0
  | S f => if 128 <=? x then 1 + varint_extra f (N.shiftr x 7) else 0
  end.

(* one field of MarshalLen: None = "field exceeds" error *)
Definition field_len (s : list N) : option N :=
  let x := nlen s in
  if x =? 0 then Some 0
  else if size_max <? x then None
  else Some (x + 2 + varint_extra (N.size_nat x) x).

Definition marshal_len (o : kv) : option N :=
  match field_len (key o), field_len (val o) with
  | Some a, Some b => let l := 1 + a + b in if size_max <? l then None else Some l
  | _, _ => None
  end.

(** ---- MarshalTo ---- *)
Fixpoint varint_enc (fuel : nat) (x : N) : list N :=
  match fuel with
  | O => [x mod 256]
  | S f => if 128 <=? x then (N.lor x 128) mod 256 :: varint_enc f (N.shiftr x 7) else [x]
  end.

Definition field_enc (h : N) (s : list N) : list N :=
  if nlen s =? 0 then [] else h :: varint_enc (N.size_nat (nlen s)) (nlen s) ++ s.

Definition marshal_to (o : kv) : list N := field_enc 0 (key o) ++ field_enc 1 (val o) ++ [127].

Inductive mres := MErr | MCrash | MOk (bs : list N).

(* MarshalBinary: make([]byte, l) then MarshalTo, which panics if the buffer is too small *)
Definition marshal_binary (o : kv) : mres :=
  match marshal_len o with
  | None => MErr
  | Some l => let bs := marshal_to o in
              if l <? nlen bs then MCrash else MOk (bs ++ repeat 0 (N.to_nat (l - nlen bs)))
  end.

(** ---- Unmarshal, index based ---- *)
Definition at_eof (i : N) : outcome := if size_max <=? i then Max else EOF.

(* for shift := 7; ; shift += 7 { if i >= len(data) goto eof; b := data[i]; i++ ... } *)
Inductive vres := VEof (i : N) | VCrash | VVal (x i : N).

Fixpoint varint_loop_ix (fuel : nat) (data : list N) (x shift i : N) : vres :=
  if nlen data <=? i then VEof i else
  match fuel with
  | O => VCrash                                  (* out of fuel: excluded, fuel = length data *)
  | S f =>
    match get data i with
    | None => VCrash
    | Some b => if b <? 128 then VVal (N.lor x (shl64 b shift)) (i + 1)
                else varint_loop_ix f data (N.lor x (shl64 (N.land b 127) shift)) (shift + 7) (i + 1)
    end
  end.

Definition read_len_ix (data : list N) (i : N) : vres :=
  if nlen data <=? i then VEof i else
  match get data i with
  | None => VCrash
  | Some x0 => if 128 <=? x0 then varint_loop_ix (length data) data (N.land x0 127) 7 (i + 1)
               else VVal x0 (i + 1)
  end.

(* data[a:b] *)
Definition slice (data : list N) (a b : N) : option (list N) :=
  if (a <=? b) && (b <=? nlen data) then Some (firstn (N.to_nat (b - a)) (skipn (N.to_nat a) data)) else None.

(* result of reading one field after its header byte matched:
   FStop out = return/goto taken;  FNext s header i = field read, next header, index after it *)
Inductive fres := FStop (out : outcome) | FNext (s : list N) (header i : N).

Definition read_field_ix (data : list N) (i : N) : fres :=
  match read_len_ix data i with
  | VEof i' => FStop (at_eof i')
  | VCrash => FStop Crash
  | VVal x i1 =>
    if size_max <? x then FStop Max else
    let i2 := i1 + x in
    if nlen data <=? i2 then FStop (at_eof i2) else
    match slice data i1 i2, get data i2 with
    | Some s, Some h => FNext s h (i2 + 1)
    | _, _ => FStop Crash
    end
  end.

Definition unmarshal_ix (o : kv) (data : list N) : kv * outcome :=
  if nlen data =? 0 then (o, EOF) else
  match get data 0 with
  | None => (o, Crash)
  | Some h0 =>
    let step1 := if h0 =? 0 then
                   match read_field_ix data 1 with
                   | FStop out => inl (o, out)
                   | FNext s h i => inr (mkKV s (val o), h, i)
                   end
                 else inr (o, h0, 1) in
    match step1 with
    | inl r => r
    | inr (o1, h1, i1) =>
      let step2 := if h1 =? 1 then
                     match read_field_ix data i1 with
                     | FStop out => inl (o1, out)
                     | FNext s h i => inr (mkKV (key o1) s, h, i)
                     end
                   else inr (o1, h1, i1) in
      match step2 with
      | inl r => r
      | inr (o2, h2, i2) =>
        if negb (h2 =? 127) then (o2, Hdr (i2 - 1))
        else if i2 <? size_max then (o2, OkN i2)
        else (o2, at_eof i2)
      end
    end
  end.

Definition unmarshal_binary_ix (o : kv) (data : list N) : kv * outcome :=
  match unmarshal_ix o data with
  | (o', OkN i) => if i <? nlen data then (o', Tail i) else (o', OkN i)
  | r => r
  end.

(** ---- Unmarshal, list consuming (proof-friendly) ---- *)
Inductive vres_ls := LEof (i : N) | LVal (x : N) (rest : list N) (i : N).

Fixpoint varint_loop_ls (rest : list N) (x shift i : N) : vres_ls :=
  match rest with
  | [] => LEof i
  | b :: rest' => if b <? 128 then LVal (N.lor x (shl64 b shift)) rest' (i + 1)
                  else varint_loop_ls rest' (N.lor x (shl64 (N.land b 127) shift)) (shift + 7) (i + 1)
  end.

Definition read_len_ls (rest : list N) (i : N) : vres_ls :=
  match rest with
  | [] => LEof i
  | x0 :: rest' => if 128 <=? x0 then varint_loop_ls rest' (N.land x0 127) 7 (i + 1)
                   else LVal x0 rest' (i + 1)
  end.

Inductive fres_ls := LStop (out : outcome) | LNext (s : list N) (header : N) (rest : list N) (i : N).

Definition read_field_ls (rest : list N) (i : N) : fres_ls :=
  match read_len_ls rest i with
  | LEof i' => LStop (at_eof i')
  | LVal x rest1 i1 =>
    if size_max <? x then LStop Max else
    if nlen rest1 <=? x then LStop (at_eof (i1 + x)) else
    match skipn (N.to_nat x) rest1 with
    | h :: rest2 => LNext (firstn (N.to_nat x) rest1) h rest2 (i1 + x + 1)
    | [] => LStop Crash  (* unreachable: x < length rest1 *)
    end
  end.

Definition unmarshal_ls (o : kv) (data : list N) : kv * outcome :=
  match data with
  | [] => (o, EOF)
  | h0 :: rest0 =>
    let step1 := if h0 =? 0 then
                   match read_field_ls rest0 1 with
                   | LStop out => inl (o, out)
                   | LNext s h rest i => inr (mkKV s (val o), h, rest, i)
                   end
                 else inr (o, h0, rest0, 1) in
    match step1 with
    | inl r => r
    | inr (o1, h1, rest1, i1) =>
      let step2 := if h1 =? 1 then
                     match read_field_ls rest1 i1 with
                     | LStop out => inl (o1, out)
                     | LNext s h rest i => inr (mkKV (key o1) s, h, rest, i)
                     end
                   else inr (o1, h1, rest1, i1) in
      match step2 with
      | inl r => r
      | inr (o2, h2, _, i2) =>
        if negb (h2 =? 127) then (o2, Hdr (i2 - 1))
        else if i2 <? size_max then (o2, OkN i2)
        else (o2, at_eof i2)
      end
    end
  end.

End Codec.

(** ---- executable comparison helpers used by the correspondence check ---- *)
Definition outcome_code (o : outcome) : N * N :=
  match o with
  | OkN i => (0, i) | EOF => (1, 0) | Max => (2, 0) | Hdr i => (3, i) | Tail i => (4, i) | Crash => (5, 0)
  end.
