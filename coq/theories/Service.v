(** Service: executable model of the Drummer service API (server.go) as a
    front-end of the replicated DB (DB.v).

    Every RPC method of [server] is a function of the DB state at ONE point
    between call and return: the calls are executed one after the other (the
    harness does the same on a real single-replica NodeHost), a proposal is
    [db_step], a linearizable read is a lookup on the state after it.

    The model describes the tree WITH the repair recorded as C17-malformed-failstop
    (commit a96d0f0): SubmitChange and SetRegions validate their argument and
    return codes.InvalidArgument without proposing anything.

    Strings are numbers (DB.v).  KV values written by the service:
      "true"                       1  ([val_true])
      decimal text of uint64 n     n + 2        ([did_val]; 0 = "", 1 = "true" do not parse)
      proto.Marshal(pb.Regions)    [enc_regions regions counts], an injective code
                                   (ServiceProofs.enc_regions_inj) chosen by the
                                   harness; python computes the same number.
    Outcomes:
      [RDied]          the DB replica fail-stopped while serving the call (Go panic
                       inside the state machine: the process is gone)
      [RHandlerPanic]  a panic("unknown code") in the service goroutine *)
From stdpp Require Import gmap list numbers sorting.
From Drummer.Model Require Import DB.
Local Open Scope N_scope.

(** * Calls *)
Inductive call :=
| SubmitChange (ctype : N) (sd : shard_def)       (* pb.Change: type (0 = CREATE), shard id, members, app name *)
| SetRegions (regions counts : list N)            (* pb.Regions: region names, counts *)
| SetBootstrapped
| SetDeploymentID (did : N)                       (* server.setDeploymentID, [did] = what randSrc.Uint64() returned *)
| Report (r : report)                             (* ReportAvailableNodeHost *)
| GetShards
| GetNodeHostCollection
| GetShardStates (ids : list N)
| GetCCIList                                      (* GetShardConfigChangeIndexList *)
| GetDeploymentInfo.

Inductive resp :=
| ROk | RShardExist | RBootstrapped               (* pb.ChangeResponse codes *)
| RInvalid                                        (* codes.InvalidArgument: refused, nothing proposed *)
| RNotFound                                       (* dragonboat.ErrShardNotFound (GetShardStates) *)
| RParseErr                                       (* strconv.ParseUint failed (deployment id not set) *)
| RDid (n : N)
| RRequests (l : list request)
| RShards (l : list shard_def)
| RHosts (tick : N) (l : list report)
| RStates (l : list shard_state)
| RCCI (l : list (N * N))
| RHandlerPanic
| RDied.

(** * Argument validation (validateChange / validateRegions) *)
Definition nonzero_all (l : list N) : bool := forallb (λ x, negb (x =? 0)) l.

Definition valid_change (ctype : N) (sd : shard_def) : bool :=
  (ctype =? 0) && negb (bool_decide (sd_members sd = [])) && negb (sd_app sd =? 0) &&
  nonzero_all (sd_members sd) && bool_decide (NoDup (sd_members sd)).

Definition valid_regions (rs cs : list N) : bool :=
  negb (bool_decide (rs = [])) && bool_decide (length rs = length cs) &&
  nonzero_all rs && bool_decide (NoDup rs).

(** * Values *)
Fixpoint enc_list (l : list N) : N :=
  match l with
  | [] => 0
  | x :: l' => 2 ^ x * (2 * enc_list l' + 1)
  end.
Definition enc_regions (rs cs : list N) : N := enc_list (N.of_nat (length rs) :: rs ++ cs).

Definition did_val (did : N) : N := did + 2.
Definition val_did (v : N) : option N := if v <? 2 then None else Some (v - 2).

Definition fin_kv (k v : N) : kvrec := mkKVR k v 0 0 0 true.       (* proposeFinalizedKV(key, value, 0) *)

(** * The command(s) a call proposes: a function of the arguments only *)
Definition call_cmds (c : call) : list cmd :=
  match c with
  | SubmitChange t sd => if valid_change t sd then [CShard t sd] else []
  | SetRegions rs cs => if valid_regions rs cs then [CKV (fin_kv key_regions (enc_regions rs cs))] else []
  | SetBootstrapped => [CKV (fin_kv key_bootstrapped val_true)]
  | SetDeploymentID did => [CKV (fin_kv key_deployment (did_val did))]
  | Report r => [CReport r]
  | GetShards | GetNodeHostCollection | GetShardStates _ | GetCCIList | GetDeploymentInfo => []
  end.

(** * Response mapping *)
Definition change_resp (v : N) : resp :=
  if v =? 0 then ROk else if v =? 1 then RShardExist else if v =? 2 then RBootstrapped else RHandlerPanic.
Definition kv_resp (v : N) : resp := if (v =? 0) || (v =? 1) then ROk else RHandlerPanic.

Section Calls.
Variable P : params.

(* a linearizable read: the DB asserts that it has not failed *)
Definition read (d : db) (f : db -> resp) : resp := if d_failed d then RDied else f d.

(* SyncPropose of one command, then [k] on the new state and the result value *)
Definition propose (d : db) (c : cmd) (k : db -> N -> resp) : rstate * resp :=
  match db_step P d c with
  | SOk d' v => (Live d', k d' v)
  | SPanic d' => (Live d', RDied)
  | SDead => (Dead, RDied)
  end.

Definition did_answer (d : db) : resp :=
  match lookup_kv d key_deployment with
  | None => RParseErr
  | Some r => match val_did (kv_val r) with Some n => RDid n | None => RParseErr end
  end.

Definition states_answer (d : db) (ids : list N) : resp :=
  match lookup_states P d ids with
  | None => RNotFound
  | Some [] => RNotFound             (* an empty answer is indistinguishable from "unknown shard" *)
  | Some l => RStates l
  end.

Definition cci_answer (d : db) : resp := RCCI (map_to_list (s_cci <$> d_view d)).
Definition hosts_answer (d : db) : resp := RHosts (d_tick d) (mvals (d_info d)).
Definition shards_answer (d : db) : resp := RShards (lookup_shards d).
Definition requests_answer (a : N) (d : db) : resp := RRequests (lookup_requests d a).

Definition svc_call (d : db) (c : call) : rstate * resp :=
  match c with
  | SubmitChange t sd =>
    if valid_change t sd then propose d (CShard t sd) (λ _ v, change_resp v) else (Live d, RInvalid)
  | SetRegions rs cs =>
    if valid_regions rs cs then propose d (CKV (fin_kv key_regions (enc_regions rs cs))) (λ _ v, kv_resp v)
    else (Live d, RInvalid)
  | SetBootstrapped => propose d (CKV (fin_kv key_bootstrapped val_true)) (λ _ v, kv_resp v)
  | SetDeploymentID did =>
    propose d (CKV (fin_kv key_deployment (did_val did)))
            (λ d' v, if v =? 0 then RDid did else read d' did_answer)
  | Report r => propose d (CReport r) (λ d' _, read d' (requests_answer (rp_addr r)))
  | GetShards => (Live d, read d shards_answer)
  | GetNodeHostCollection => (Live d, read d hosts_answer)
  | GetShardStates ids => (Live d, read d (λ d, states_answer d ids))
  | GetCCIList => (Live d, read d cci_answer)
  | GetDeploymentInfo => (Live d, read d did_answer)
  end.

Definition svc_step (s : rstate) (c : call) : rstate * resp :=
  match s with
  | Dead => (Dead, RDied)
  | Live d => svc_call d c
  end.

(** * Histories: client calls interleaved with commands proposed by the Drummer
      itself (ticks, request batches, election votes) *)
Inductive hitem := HCall (c : call) | HCmd (c : cmd).

Definition hstep (s : rstate) (h : hitem) : rstate :=
  match h with
  | HCall c => (svc_step s c).1
  | HCmd c => (rstep P s c).1
  end.
Definition svc_run (s : rstate) (h : list hitem) : rstate := foldl hstep s h.

Definition hitem_cmds (h : hitem) : list cmd :=
  match h with HCall c => call_cmds c | HCmd c => [c] end.
Definition hist_cmds (h : list hitem) : list cmd := concat (hitem_cmds <$> h).
End Calls.

Definition is_query (c : call) : bool :=
  match c with
  | GetShards | GetNodeHostCollection | GetShardStates _ | GetCCIList | GetDeploymentInfo => true
  | _ => false
  end.
Definition is_config (c : call) : bool :=
  match c with
  | SubmitChange _ _ | SetRegions _ _ | SetBootstrapped | SetDeploymentID _ => true
  | _ => false
  end.
