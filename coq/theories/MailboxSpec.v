(** MailboxSpec: the abstract per-address mailbox that the Requests/Outgoing part of
    the DB refines (property C10, DESIGN.md Appendix H.2). *)
From stdpp Require Import gmap list.
From Drummer.Model Require Import DB.
Local Open Scope N_scope.

(** mailbox-relevant classification of one applied command *)
Inductive mev := MBatch (qs : list request) | MReport (a : N) | MOther.

(* a REQUESTS command is stored unless it is a launch batch arriving after launch
   (mixed batches kill the replica and never appear in a live run) *)
Definition batch_stored (d : db) (qs : list request) : bool :=
  let launch := bool_decide (0 < length (filter (λ q, is_launch_req q = true) qs))%nat in
  negb (is_launched d && launch).

Definition mev_of (d : db) (c : cmd) : mev :=
  if d_failed d then MOther else
  match c with
  | CReport r => MReport (rp_addr r)
  | CRequests qs => if batch_stored d qs then MBatch qs else MOther
  | _ => MOther
  end.

(* the events of a run, as long as the replica lives *)
Fixpoint mevs (P : params) (d : db) (cs : list cmd) : list mev :=
  match cs with
  | [] => []
  | c :: cs' => match db_step P d c with
                | SOk d' _ => mev_of d c :: mevs P d' cs'
                | SPanic d' => MOther :: mevs P d' cs'
                | SDead => []
                end
  end.

(** spec state for one address: (pending, handed) *)
Definition mbox := (option (list request) * option (list request))%type.
Definition for_addr (a : N) (qs : list request) : list request := filter (λ q, q_raft q = a) qs.
Definition mentions (a : N) (qs : list request) : Prop := a ∈ (q_raft <$> qs).
Global Instance mentions_dec a qs : Decision (mentions a qs).
Proof. unfold mentions. apply _. Defined.

Definition mstep (a : N) (m : mbox) (e : mev) : mbox :=
  match e with
  | MBatch qs => if bool_decide (mentions a qs) then (Some (for_addr a qs), m.2) else m
  | MReport b => if bool_decide (b = a) then (None, m.1) else m
  | MOther => m
  end.
Definition mspec_from (a : N) (m : mbox) (evs : list mev) : mbox := foldl (mstep a) m evs.
Definition mspec (a : N) (evs : list mev) : mbox := mspec_from a (None, None) evs.

(* "no report from a and no batch mentioning a" *)
Definition quiet (a : N) (e : mev) : Prop :=
  match e with
  | MBatch qs => ~ mentions a qs
  | MReport b => b <> a
  | MOther => True
  end.
