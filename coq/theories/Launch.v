(** Launch: executable model of launch planning (property C08).

    Go code modelled (the tree WITH commit 0ed71ad "fix: refuse to launch on a missing or
    inconsistent regions specification"):
      scheduler.go   scheduler.launch, getLaunchRequests
      selector.go    newRandomRegionSelector, randomSelector.findSuitableNodeHost
      filter.go      liveFilter, basicFilter, regionFilter, combinedFilter (newDrummerRegionFilter)
      validation.go  validateNodeHostRequest
      server.go      validateRegions (verdict only; it must leave the message untouched)

    Conventions
    - strings (addresses, region names, application names) are [N], the empty string is 0
      (as in DB.v); [hostspec], [shard_def], [request] are the records of DB.v;
    - [scheduler.nodeHostList] is a list (its order is whatever [multiNodeHost.toArray] produced;
      the theorems hold for every order);
    - [regions *pb.Regions] is [option regions]: [None] is the nil pointer;
    - the random source: [randomSource.Int()] is called once per iteration of the rejection
      sampling loop of findSuitableNodeHost.  The model takes the values it returns as an explicit
      finite list of naturals [ds] ("draws") that is threaded through the whole launch.  When the
      list is exhausted the outcome is [OutOfDraws].  The theorems quantify over every draw list.
      That the real loop terminates with probability 1 is NOT modelled (with an adversarial source
      it does not terminate; see [C08_can_finish] for what is proved instead).  [Int()] returns a
      non-negative int (goutils LockedRand.Int is Int63()), so a draw is a natural number;
    - every place where the Go code dereferences a pointer, indexes a slice or divides is a CHECKED
      operation here and yields the outcome [Crash] when the Go code would panic:
        regions.Region / regions.Count        ([regs = None])
        regions.Count[idx]                     ([get counts idx])
        rs.randomSource.Int() % len(filtered)  (integer divide by zero)
        filtered[idx]                          ([gather])
        selected[idx]                          ([addr_list])
        shard.Members[idx]                     ([shard_requests])
      so "the outcome is never [Crash]" is a statement about the guards in the code;
    - uint64 arithmetic wraps ([usub64]), [int(x)] of a uint64 is two's complement ([to_int]).
      Go's [len] is an [int]: slices have fewer than 2^63 elements.  This is the hypothesis
      [go_sized] of the theorems; list lengths are otherwise unbounded naturals.
    - [nodeHostSpec.PersistentLog] is the field [h_plog] of [hostspec]; launch planning does not read
      it (a launch request is never a restore request), so [launch] ignores it and the theorems hold
      for every value of it;
    - not modelled: the [Config] field of the requests (a copy of the scheduler's config, the same
      for every request), logging.

    Executable definitions and the vocabulary of the specification only; proofs are in
    proofs/LaunchProofs.v. *)
From stdpp Require Import gmap.
From Drummer.Model Require Import Base DB.
Local Open Scope N_scope.

(** * Data *)

(** pb.Regions: two parallel lists *)
Record regions := mkRegions { rg_region : list N; rg_count : list N }.

Inductive outcome :=
| Plan (qs : list request)   (* return result, nil *)
| Refused                    (* return nil, err *)
| Crash                      (* a Go run-time panic *)
| OutOfDraws.                (* the finite draw list ran out inside the sampling loop *)

(** * Machine arithmetic *)
Definition two63 : N := 9223372036854775808.
Definition two64 : N := 18446744073709551616.

(** uint64 subtraction *)
Definition usub64 (a b : N) : N := ((a mod two64) + two64 - (b mod two64)) mod two64.

(** int(x) for a uint64 x *)
Definition to_int (c : N) : Z :=
  let c' := c mod two64 in
  if c' <? two63 then Z.of_N c' else (Z.of_N c' - Z.of_N two64)%Z.

(** * filter.go *)

(** liveFilter: [f.currentTick-v.Tick < f.gap] on uint64 *)
Definition is_live (ttl tick : N) (h : hostspec) : bool := usub64 tick (h_tick h) <? ttl.

(** basicFilter: [_, ok := v.Shards[f.shardID]; !ok] *)
Definition hosts_shard (h : hostspec) (sid : N) : bool := bool_decide (sid ∈ h_shards h).

Definition live_filter (ttl tick : N) (l : list hostspec) : list hostspec :=
  List.filter (is_live ttl tick) l.
Definition basic_filter (sid : N) (l : list hostspec) : list hostspec :=
  List.filter (fun h => negb (hosts_shard h sid)) l.
Definition region_filter (reg : N) (l : list hostspec) : list hostspec :=
  List.filter (fun h => reg =? h_region h) l.

(** newDrummerRegionFilter: combinedFilter(lf, bf, rf) *)
Definition drummer_region_filter (ttl tick sid reg : N) (l : list hostspec) : list hostspec :=
  region_filter reg (basic_filter sid (live_filter ttl tick l)).

(** * selector.go: findSuitableNodeHost *)

Inductive pick :=
| PDone (selected : list N) (rest : list N)
| PCrash
| POut.

(** [for len(selected) != count { rv := Int() % len(filtered); if !contains(selected, rv) {append} }]
    [n] = len(filtered); recursion on the draw list *)
Fixpoint pick_loop (n : N) (count : Z) (selected : list N) (ds : list N) : pick :=
  if (Z.of_nat (length selected) =? count)%Z then PDone selected ds
  else match ds with
       | [] => POut
       | d :: ds' =>
           if n =? 0 then PCrash (* integer divide by zero *)
           else let rv := d mod n in
                if memN rv selected then pick_loop n count selected ds'
                else pick_loop n count (selected ++ [rv]) ds'
       end.

(** [for _, idx := range selected { result = append(result, filtered[idx]) }] *)
Fixpoint gather (fl : list hostspec) (sel : list N) : option (list hostspec) :=
  match sel with
  | [] => Some []
  | i :: sel' =>
      match get fl i with
      | None => None
      | Some h => match gather fl sel' with None => None | Some hs => Some (h :: hs) end
      end
  end.

Inductive found :=
| FDone (hs : list hostspec) (rest : list N)
| FCrash
| FOut.

Definition find_suitable (ttl tick sid reg : N) (fleet : list hostspec) (count : Z) (ds : list N) : found :=
  let fl := drummer_region_filter ttl tick sid reg fleet in
  if (Z.of_nat (length fl) <? count)%Z then FDone [] ds
  else match pick_loop (nlen fl) count [] ds with
       | PCrash => FCrash
       | POut => FOut
       | PDone sel rest =>
           match gather fl sel with
           | None => FCrash
           | Some hs => FDone hs rest
           end
       end.

(** * scheduler.go: getLaunchRequests *)

(** duplicate detection with the [regionNames] map *)
Fixpoint has_dup (seen : list N) (l : list N) : bool :=
  match l with
  | [] => false
  | x :: l' => if memN x seen then true else has_dup (x :: seen) l'
  end.

(** [for _, cnt := range regions.Count { if cnt > remaining {return err}; remaining -= cnt }]
    [None] = the error return *)
Fixpoint check_counts (remaining : N) (counts : list N) : option N :=
  match counts with
  | [] => Some remaining
  | c :: cs => if remaining <? c then None else check_counts (usub64 remaining c) cs
  end.

Inductive sel :=
| SDone (selected : list hostspec) (rest : list N)
| SCrash
| SOut.

(** [for idx, reg := range regions.Region { cnt := int(regions.Count[idx]); ... }] *)
Fixpoint select_regions (ttl tick : N) (fleet : list hostspec) (sid : N) (counts : list N)
         (idx : N) (regs : list N) (selected : list hostspec) (ds : list N) : sel :=
  match regs with
  | [] => SDone selected ds
  | reg :: regs' =>
      match get counts idx with
      | None => SCrash
      | Some c =>
          match find_suitable ttl tick sid reg fleet (to_int c) ds with
          | FCrash => SCrash
          | FOut => SOut
          | FDone hs rest => select_regions ttl tick fleet sid counts (idx + 1) regs' (selected ++ hs) rest
          end
      end
  end.

(** [for idx, m := range shard.Members { addressList = append(addressList, selected[idx].Address) }] *)
Fixpoint addr_list (selected : list hostspec) (idx : N) (members : list N) : option (list N) :=
  match members with
  | [] => Some []
  | _ :: ms =>
      match get selected idx with
      | None => None
      | Some h => match addr_list selected (idx + 1) ms with None => None | Some l => Some (h_addr h :: l) end
      end
  end.

(** [for idx, targetNode := range selected { req := ...InstantiateReplicaId: shard.Members[idx]... }] *)
Fixpoint shard_requests (sd : shard_def) (rids addrs : list N) (idx : N) (targets : list hostspec)
  : option (list request) :=
  match targets with
  | [] => Some []
  | t :: ts =>
      match get (sd_members sd) idx with
      | None => None
      | Some m =>
          match shard_requests sd rids addrs (idx + 1) ts with
          | None => None
          | Some l => Some (mkReq RCreate (sd_id sd) rids 0 rids addrs m (h_addr t) false false (sd_app sd) :: l)
          end
      end
  end.

(** the loop over the defined shards; [result] is the accumulated request list *)
Fixpoint launch_shards (ttl tick : N) (fleet : list hostspec) (r : regions) (shards : list shard_def)
         (result : list request) (ds : list N) : outcome :=
  match shards with
  | [] => Plan result
  | sd :: rest =>
      match check_counts (nlen (sd_members sd)) (rg_count r) with
      | None => Refused                          (* regions specification exceeds shard size *)
      | Some remaining =>
          if negb (remaining =? 0) then Refused  (* regions specification below shard size *)
          else
            match select_regions ttl tick fleet (sd_id sd) (rg_count r) 0 (rg_region r) [] ds with
            | SCrash => Crash
            | SOut => OutOfDraws
            | SDone selected ds' =>
                if nlen selected <? nlen (sd_members sd) then Refused (* not enough nodehost *)
                else
                  match addr_list selected 0 (sd_members sd) with
                  | None => Crash
                  | Some addrs =>
                      match shard_requests sd (sd_members sd) addrs 0 selected with
                      | None => Crash
                      | Some qs => launch_shards ttl tick fleet r rest (result ++ qs) ds'
                      end
                  end
            end
      end
  end.

Definition is_nil {A} (p : option A) : bool := match p with None => true | Some _ => false end.

(** scheduler.launch = getLaunchRequests(s.shards, s.regions); [ttl] = nodeHostTTL, [tick] = s.tick,
    [fleet] = s.nodeHostList *)
Definition launch (ttl tick : N) (fleet : list hostspec) (shards : list shard_def)
           (regs : option regions) (ds : list N) : outcome :=
  if is_nil regs then Refused                    (* regions not set *)
  else
    match regs with
    | None => Crash                              (* nil pointer dereference *)
    | Some r =>
        if negb (nlen (rg_region r) =? nlen (rg_count r)) then Refused
        else if has_dup [] (rg_region r) then Refused
        else launch_shards ttl tick fleet r shards [] ds
    end.

(** * validation.go: validateNodeHostRequest; [true] = returns without a panic *)
Definition nonzero (x : N) : bool := negb (x =? 0).
Definition validate_request (q : request) : bool :=
  (match q_type q with
   | RAdd => nlen (q_addrs q) =? 1
   | _ => nlen (q_rids q) =? nlen (q_addrs q)
   end)
  && forallb nonzero (q_rids q)
  && forallb nonzero (q_addrs q)
  && nonzero (q_raft q)
  && (match q_type q with
      | RAdd | RDelete | RKill =>
          (match q_members q with [] => false | m :: _ => nonzero m end) && nonzero (q_shard q)
      | RCreate => nonzero (q_inst q) && nonzero (q_app q) && nonzero (nlen (q_rids q))
      end).

(** * server.go: validateRegions, the test SetRegions applies before it persists the specification;
    [true] = accepted.  (The specification the scheduler later reads is the accepted message, unchanged.) *)
Definition validate_regions (regs : option regions) : bool :=
  match regs with
  | None => false
  | Some r =>
      negb (nlen (rg_region r) =? 0) && (nlen (rg_region r) =? nlen (rg_count r)) &&
      forallb nonzero (rg_region r) && negb (has_dup [] (rg_region r))
  end.

(** * Vocabulary of the specification (used by props/C08.v) *)

(** Go slices have fewer than 2^63 elements ([len] is an [int]) *)
Definition go_sized (shards : list shard_def) : Prop :=
  Forall (fun sd => nlen (sd_members sd) < two63) shards.

(** what server.validateChange accepts: non-empty, pairwise distinct, non-zero member ids, non-empty app name *)
Definition wf_shard (sd : shard_def) : Prop :=
  sd_members sd <> [] /\ NoDup (sd_members sd) /\ ~ In 0 (sd_members sd) /\ sd_app sd <> 0.

(** the NodeHost table is a map keyed by the (non-empty) raft address *)
Definition wf_fleet (fleet : list hostspec) : Prop :=
  NoDup (map h_addr fleet) /\ Forall (fun h => h_addr h <> 0) fleet.

Definition host_live (ttl tick : N) (h : hostspec) : Prop := usub64 tick (h_tick h) < ttl.

(** a host the selector may pick for a member of shard [sid] in region [reg] *)
Definition suitable (ttl tick sid reg : N) (h : hostspec) : Prop :=
  host_live ttl tick h /\ sid ∉ h_shards h /\ h_region h = reg.
Definition suitableb (ttl tick sid reg : N) (h : hostspec) : bool :=
  is_live ttl tick h && negb (hosts_shard h sid) && (reg =? h_region h).
Definition n_suitable (ttl tick sid reg : N) (fleet : list hostspec) : N :=
  nlen (List.filter (suitableb ttl tick sid reg) fleet).

Definition sumN (l : list N) : N := fold_right N.add 0 l.

(** the specification as a whole is unusable *)
Definition bad_spec (regs : option regions) : Prop :=
  match regs with
  | None => True
  | Some r => length (rg_region r) <> length (rg_count r) \/ ~ NoDup (rg_region r)
  end.

(** shard [sd] cannot be placed under specification [r] *)
Definition unplaceable (ttl tick : N) (fleet : list hostspec) (r : regions) (sd : shard_def) : Prop :=
  sumN (rg_count r) <> nlen (sd_members sd) \/
  exists i reg cnt, get (rg_region r) i = Some reg /\ get (rg_count r) i = Some cnt /\
                    n_suitable ttl tick (sd_id sd) reg fleet < cnt.

Definition must_refuse (ttl tick : N) (fleet : list hostspec) (shards : list shard_def)
           (regs : option regions) : Prop :=
  bad_spec regs \/
  exists r sd, regs = Some r /\ In sd shards /\ unplaceable ttl tick fleet r sd.

(** region quotas met exactly by the chosen hosts [hs] *)
Definition region_quota_met (r : regions) (hs : list hostspec) : Prop :=
  (forall i reg cnt, get (rg_region r) i = Some reg -> get (rg_count r) i = Some cnt ->
                     nlen (List.filter (fun h => reg =? h_region h) hs) = cnt) /\
  Forall (fun h => In (h_region h) (rg_region r)) hs.

(** the requests [qs] of one shard [sd]: request k is sent to host k of [hs] *)
Definition shard_block_ok (ttl tick : N) (fleet : list hostspec) (r : regions)
           (sd : shard_def) (qs : list request) : Prop :=
  exists hs : list hostspec,
    map h_addr hs = map q_raft qs /\
    (* exactly one request per member, in member order *)
    map q_inst qs = sd_members sd /\
    (* pairwise distinct hosts *)
    NoDup (map q_raft qs) /\
    (* each a known NodeHost that is live and does not already host the shard *)
    Forall (fun h => In h fleet /\ host_live ttl tick h /\ sd_id sd ∉ h_shards h) hs /\
    region_quota_met r hs /\
    (* one member -> address map shared by all requests of the shard; launch flags; validation *)
    Forall (fun q => q_type q = RCreate /\ q_shard q = sd_id sd /\ q_ccid q = 0 /\
                     q_members q = sd_members sd /\ q_rids q = sd_members sd /\
                     q_addrs q = map q_raft qs /\
                     q_join q = false /\ q_restore q = false /\ q_app q = sd_app sd /\
                     validate_request q = true) qs.
