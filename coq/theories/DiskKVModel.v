(** DiskKVModel: the node-directory protocol of tests/diskkv.go (DiskKVTest) as sequences of
    file-system steps ([CrashFS]) and abstract store steps.

    The model describes the protocol of the repaired code (/repo commit ade95d9, finding
    "C16-first-open-window"): on the first Open the store directory is created and made durable
    (MkdirAll = mkdir + sync of the node directory) BEFORE the pointer file that names it is published.
    (Before that commit the pointer was published first.)

    Every API call is a [plan]: the list of mutating steps it performs, computed from the state the
    call starts in (the code is single threaded and reads only what it or an earlier call wrote), and
    the process state it leaves when it returns.  A crash can happen after any prefix of the list.

    [ck] stands for the 8-byte md5 prefix stored in front of the directory name in the pointer file;
    nothing but "equal names give equal checksums" is used, so it is a section variable.

    Executable definitions only. *)
From Drummer.Model Require Import Base CrashFS.

Inductive step :=
| SMkdirT | SSyncRoot | SMkdirN | SSyncT                     (* createNodeDataDir *)
| SMkdirDb (d : N) | SSyncN
| SCreate (f : fname) | SWrite (f : fname) (b : list N) | SFsync (f : fname)
| SRename (a b : fname) | SRemoveF (f : fname) | SRemoveDb (d : N)
| SStOpen (d : N)                                            (* pebble.Open on directory d *)
| SStBatch (d : N) (sync : bool) (x : kvstate)               (* db.Apply(batch): store state becomes x *)
| SStClose (d : N).

Definition exec_step (st : step) (s : fs) : fs :=
  match st with
  | SMkdirT => fs_mkdirT s
  | SSyncRoot => fs_sync_root s
  | SMkdirN => fs_mkdirN s
  | SSyncT => fs_sync_T s
  | SMkdirDb d => fs_mkdir_db d s
  | SSyncN => fs_sync_N s
  | SCreate f => fs_create f s
  | SWrite f b => fs_write f b s
  | SFsync f => fs_fsync f s
  | SRename a b => fs_rename a b s
  | SRemoveF f => fs_remove_file f s
  | SRemoveDb d => fs_remove_db d s
  | SStOpen _ => s
  | SStBatch d sync x => fs_batch d sync x s
  | SStClose _ => s
  end.

Definition exec (l : list step) (s : fs) : fs := fold_left (fun a st => exec_step st a) l s.

(** the running state machine object: which store it has open, lastApplied *)
Record proc := mkProc { p_db : option N; p_last : N }.
Definition proc0 : proc := mkProc None 0.

Inductive op :=
| OOpen
| OUpdate (gap : N) (b : list (N * N))  (* one batch; its last entry has raft index lastApplied + gap + |b|.
                                           gap = number of raft indexes up to that entry which never reach the state
                                           machine (no-op, membership-change and session entries): indexes handed to
                                           Update are strictly increasing, not contiguous, and of any magnitude *)
| OSync
| ORecover (dlt : N) (c : kvmap)        (* snapshot of a foreign replica taken at index lastApplied + dlt *)
| OClose.

Inductive res := ROk (i : N) | RPanic | RSkip.

Section Model.
Variable ck : N -> N.

Definition ptr_bytes (d : N) : list N := [ck d; d].

Inductive rd := RdNone | RdCorrupt | RdOk (d : N).
(* getCurrentDBDirName *)
Definition decode_ptr (b : list N) : rd :=
  match b with
  | [c; d] => if c =? ck d then RdOk d else RdCorrupt
  | _ => RdCorrupt
  end.
Definition read_ptr (s : fs) : rd :=
  match fs_read FCur s with
  | None => RdNone
  | Some b => decode_ptr b
  end.

(* createNodeDataDir: MkdirAll(dir) (each missing level: mkdir + sync of its parent), then sync of the parent *)
Definition plan_node_dir (s : fs) : list step :=
  (if exists_T s then [] else [SMkdirT; SSyncRoot]) ++
  (if exists_N s then [] else [SMkdirN; SSyncT]) ++ [SSyncT].

(* saveCurrentDBDirName *)
Definition save_ptr (d : N) : list step :=
  [SCreate FUpd; SWrite FUpd [ck d]; SWrite FUpd [d]; SFsync FUpd; SSyncN].
(* replaceCurrentDBFile *)
Definition replace_ptr : list step := [SRename FUpd FCur; SSyncN].

(** a plan: steps, and the process state on return ([None]: the call panics after the steps) *)
Definition plan_t := (list step * option proc)%type.

Definition plan_open (s : fs) (fresh : N) : plan_t :=
  let pre := plan_node_dir s in
  if negb (exists_N s) || match v_cur (f_vol s) with None => true | Some _ => false end then
    (* isNewRun *)
    (pre ++ [SMkdirDb fresh; SSyncN] ++ save_ptr fresh ++ replace_ptr ++ [SStOpen fresh],
     Some (mkProc (Some fresh) 0))
  else
    (* cleanupNodeDataDir, getCurrentDBDirName, Stat(dbdir), createDB *)
    match read_ptr s with
    | RdOk d =>
        let stale := filter (fun x => negb (x =? d)) (v_dbs (f_vol s)) in
        let steps := pre ++ [SRemoveF FUpd] ++ map SRemoveDb stale in
        if memN d (v_dbs (f_vol s))
        then (steps ++ [SStOpen d], Some (mkProc (Some d) (fst (st_mem (f_st s d)))))
        else (steps, None)                                   (* "db dir unexpectedly deleted" *)
    | _ => (pre ++ [SRemoveF FUpd], None)                     (* "corrupted content" *)
    end.

Definition plan_update (gap : N) (b : list (N * N)) (s : fs) (p : proc) : plan_t :=
  match p_db p with
  | None => ([], Some p)
  | Some d =>
      let i := p_last p + gap + nlen b in
      ([SStBatch d true (i, apply_batch b (snd (st_mem (f_st s d))))], Some (mkProc (Some d) i))
  end.

(* Sync: one synced batch that does not touch the projected contents *)
Definition plan_sync (s : fs) (p : proc) : plan_t :=
  match p_db p with
  | None => ([], Some p)
  | Some d => ([SStBatch d true (st_mem (f_st s d))], Some p)
  end.

Definition plan_recover (dlt : N) (c : kvmap) (s : fs) (p : proc) (fresh : N) : plan_t :=
  match p_db p with
  | None => ([], Some p)
  | Some cur =>
      match read_ptr s with
      | RdOk old =>
          let i := p_last p + dlt in
          ([SMkdirDb fresh; SSyncN; SStOpen fresh; SStBatch fresh true (i, c)] ++
           save_ptr fresh ++ replace_ptr ++ [SStClose cur; SRemoveDb old; SSyncN],
           Some (mkProc (Some fresh) i))
      | RdNone => ([], Some p)                               (* error return *)
      | RdCorrupt => ([], None)
      end
  end.

Definition plan_close (p : proc) : plan_t :=
  match p_db p with
  | None => ([], Some p)
  | Some d => ([SStClose d], Some proc0)
  end.

(** the API contract (dragonboat): Open only on a machine that is not open; everything else only on an
    open one.  Calls outside the contract are ignored ([RSkip]). *)
Definition in_contract (o : op) (p : proc) : bool :=
  match o, p_db p with
  | OOpen, None => true
  | OOpen, Some _ => false
  | _, Some _ => true
  | _, None => false
  end.

Definition plan (o : op) (s : fs) (p : proc) (fresh : N) : plan_t :=
  if in_contract o p then
    match o with
    | OOpen => plan_open s fresh
    | OUpdate g b => plan_update g b s p
    | OSync => plan_sync s p
    | ORecover dlt c => plan_recover dlt c s p fresh
    | OClose => plan_close p
    end
  else ([], Some p).

(** whole system: file system, process, supply of fresh directory names (the code: random number + time) *)
Record sys := mkSys { s_fs : fs; s_proc : proc; s_fresh : N }.
Definition sys0 : sys := mkSys fs0 proc0 1.

Inductive event :=
| EvOp (o : op)                 (* the call runs to completion and returns *)
| EvCrash (o : op) (k : nat).   (* the call starts, performs the first k steps of its plan (all, if k is larger),
                                   then the machine crashes: unsynced state and the process are lost *)

Definition op_result (o : op) (p : proc) (r : option proc) : res :=
  if in_contract o p then
    match r with
    | None => RPanic
    | Some p' => ROk (p_last p')
    end
  else RSkip.

Definition do_event (e : event) (y : sys) : sys * res :=
  match e with
  | EvOp o =>
      let '(steps, r) := plan o (s_fs y) (s_proc y) (s_fresh y) in
      (mkSys (exec steps (s_fs y)) (match r with Some p' => p' | None => proc0 end) (s_fresh y + 1),
       op_result o (s_proc y) r)
  | EvCrash o k =>
      let '(steps, _) := plan o (s_fs y) (s_proc y) (s_fresh y) in
      (mkSys (fs_crash (exec (firstn k steps) (s_fs y))) proc0 (s_fresh y + 1), RSkip)
  end.

Definition run (evs : list event) (y : sys) : sys := fold_left (fun a e => fst (do_event e a)) evs y.

(** what the durable view denotes: the state a reopen will find *)
Definition dur_ptr (s : fs) : rd :=
  if durable_N s then
    match v_cur (f_dur s) with
    | None => RdNone
    | Some i => decode_ptr (i_synced (f_ino s i))
    end
  else RdNone.
Definition dur_state (s : fs) : kvstate :=
  match dur_ptr s with
  | RdOk d => st_disk (f_st s d)
  | _ => kv_init
  end.

(** contents of the open store as Lookup sees them *)
Definition open_state (y : sys) : option kvstate :=
  match p_db (s_proc y) with
  | None => None
  | Some d => Some (st_mem (f_st (s_fs y) d))
  end.

(** crash now (between calls), start a new process, Open *)
Definition reopen (y : sys) : sys * res :=
  do_event (EvOp OOpen) (fst (do_event (EvCrash OClose 0) y)).

(** ------------------------------------------------------------------------------------------
    Specification: the replicated-state-machine view, no file system.  State = (applied index and
    contents, is the machine open). *)
Definition sstate := (kvstate * bool)%type.

Definition spec_op (o : op) (x : sstate) : sstate :=
  let '(L, up) := x in
  match o, up with
  | OOpen, false => (L, true)
  | OUpdate g b, true => ((fst L + g + nlen b, apply_batch b (snd L)), true)
  | ORecover dlt c, true => ((fst L + dlt, c), true)
  | OClose, true => (L, false)
  | _, _ => x                      (* Sync; calls outside the API contract *)
  end.

(** a call interrupted by a crash has happened entirely or not at all *)
Inductive spec_step : event -> sstate -> sstate -> Prop :=
| sp_op : forall o x, spec_step (EvOp o) x (spec_op o x)
| sp_crash_not : forall o k x, spec_step (EvCrash o k) x (fst x, false)
| sp_crash_done : forall o k x, spec_step (EvCrash o k) x (fst (spec_op o x), false).

Inductive spec_reach : list event -> sstate -> Prop :=
| sr_nil : spec_reach [] (kv_init, false)
| sr_snoc : forall evs e x x', spec_reach evs x -> spec_step e x x' -> spec_reach (evs ++ [e]) x'.

(** The same specification with the history made explicit: [h_snap] is the last installed snapshot
    (index, contents; the empty store at index 0 before the first one), [h_ups] the update batches that
    took effect since then, in order.  The state of the machine is "the updates on top of the snapshot";
    its index is the snapshot index plus the entries and index gaps of those updates, i.e. the raft index of
    the last entry applied. *)
Definition batch := (N * list (N * N))%type.      (* index gap, entries *)
Record hist := mkHist { h_snap : kvstate; h_ups : list batch; h_up : bool }.
Definition log_state (snap : kvstate) (ups : list batch) : kvstate :=
  fold_left (fun L gb => (fst L + fst gb + nlen (snd gb), apply_batch (snd gb) (snd L))) ups snap.
Definition hist_state (h : hist) : kvstate := log_state (h_snap h) (h_ups h).
Definition hist0 : hist := mkHist kv_init [] false.

Definition hist_op (o : op) (h : hist) : hist :=
  match o, h_up h with
  | OOpen, false => mkHist (h_snap h) (h_ups h) true
  | OUpdate g b, true => mkHist (h_snap h) (h_ups h ++ [(g, b)]) true
  | ORecover dlt c, true => mkHist (fst (hist_state h) + dlt, c) [] true
  | OClose, true => mkHist (h_snap h) (h_ups h) false
  | _, _ => h                      (* Sync; calls outside the API contract *)
  end.
Definition hist_down (h : hist) : hist := mkHist (h_snap h) (h_ups h) false.

(** a call that returned has happened; a call interrupted by a crash has happened entirely or not at all *)
Inductive hist_step : event -> hist -> hist -> Prop :=
| hs_op : forall o h, hist_step (EvOp o) h (hist_op o h)
| hs_crash_not : forall o k h, hist_step (EvCrash o k) h (hist_down h)
| hs_crash_done : forall o k h, hist_step (EvCrash o k) h (hist_down (hist_op o h)).

Inductive hist_reach : list event -> hist -> Prop :=
| hr_nil : hist_reach [] hist0
| hr_snoc : forall evs e h h', hist_reach evs h -> hist_step e h h' -> hist_reach (evs ++ [e]) h'.

(** durable-view invariant of DESIGN.md H.3 (1): the durable pointer, if any, is well formed and names a
    durable store directory *)
Definition dur_wf (s : fs) : Prop :=
  durable_N s = true ->
  forall i, v_cur (f_dur s) = Some i ->
  exists d, i_synced (f_ino s i) = ptr_bytes d /\ In d (v_dbs (f_dur s)).

(** index acknowledged to the caller by the most recent returned call, if the machine is open
    (Open returns it; Update: index of the last entry of the batch; RecoverFromSnapshot: snapshot index) *)
Definition acked_index (y : sys) : option N :=
  match p_db (s_proc y) with
  | None => None
  | Some _ => Some (p_last (s_proc y))
  end.

(** the FS operations performed by the first k steps of call [o] started in state [y] *)
Definition steps_of (o : op) (y : sys) : list step := fst (plan o (s_fs y) (s_proc y) (s_fresh y)).
Definition mid_state (o : op) (k : nat) (y : sys) : fs := exec (firstn k (steps_of o y)) (s_fs y).

End Model.
