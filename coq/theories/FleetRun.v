(** FleetRun: replay of a logged closed-loop run (engine "loop", harness/py/c01.py,
    harness/go/root/zz_verif_loop_test.go) on the model Fleet.v.  Every logged step carries what
    the implementation / the Go fleet simulator observed; [run_trace] re-executes the step on the
    model and compares:
      - DB result values (tick, pick-up count, accepted request count), the reply of a report,
      - the scheduler context (the whole JSON answer of the SCHEDULER_CONTEXT lookup, as a [sctx]),
      - every request batch  ∈  Sched.allowed (context of the model's DB),
      - the report the Go simulator built = Fleet.host_report, the queue it executed, and after every
        round the simulator's hosts / membership histories / availability = the model's,
      - at the end of the launch phase the hypothesis [init_ok] of the C01 theorems (as a boolean),
        at the end of every healthy round the boolean safety conjuncts [safe_b].
    Answer: [TraceOk n] or [TraceBad index code].  No proofs in this file. *)
From stdpp Require Import gmap list numbers sorting.
From Drummer.Model Require Import DB Sched Fleet.
Local Open Scope N_scope.

Global Instance replica_eq_dec : EqDecision replica.
Proof. solve_decision. Defined.
Global Instance shard_eq_dec : EqDecision shard.
Proof. solve_decision. Defined.
Global Instance kill_entry_eq_dec : EqDecision kill_entry.
Proof. solve_decision. Defined.
Global Instance hostspec_eq_dec : EqDecision hostspec.
Proof. solve_decision. Defined.
Global Instance shard_info_eq_dec : EqDecision shard_info.
Proof. solve_decision. Defined.
Global Instance report_eq_dec : EqDecision report.
Proof. solve_decision. Defined.
Global Instance shard_def_eq_dec : EqDecision shard_def.
Proof. solve_decision. Defined.
Global Instance lrep_eq_dec : EqDecision lrep.
Proof. solve_decision. Defined.
Global Instance kvrec_eq_dec : EqDecision kvrec.
Proof. solve_decision. Defined.
Global Instance db_eq_dec : EqDecision db.
Proof. solve_decision. Defined.
Global Instance fhost_eq_dec : EqDecision fhost.
Proof. solve_decision. Defined.
Global Instance fstate_eq_dec : EqDecision fstate.
Proof. solve_decision. Defined.

(* constructors used by the generated files (same conventions as SchedRun.v) *)
Definition SH (id cci : N) (reps : list replica) : shard :=
  mkShard id cci (list_to_map ((λ n, (r_id n, n)) <$> reps)).
Definition HOST (addr region tick : N) (plog : list (N * N)) (shards : list N) : hostspec :=
  mkHost addr 0 region tick plog (list_to_set shards).
Definition CTX (tick : N) (defs : list shard_def) (view : list shard) (hosts : list hostspec)
  (kill : list kill_entry) : sctx :=
  mkCtx tick (list_to_map ((λ d, (sd_id d, d)) <$> defs)) (list_to_map ((λ c, (s_id c, c)) <$> view))
        (list_to_map ((λ h, (h_addr h, h)) <$> hosts)) kill.
Definition rtype_of (n : N) : rtype :=
  match n with 0 => RCreate | 1 => RDelete | 2 => RAdd | _ => RKill end.
Definition REQ (t s : N) (ms : list N) (cc : N) (rids addrs : list N) (inst raft : N) (j r : bool) (app : N) : request :=
  mkReq (rtype_of t) s ms cc rids addrs inst raft j r app.
Definition INFO (s r : N) (leader : bool) (ms : list (N * N)) (cci : N) (inc pend : bool) : shard_info :=
  mkSI s r leader (list_to_map ms) cci inc pend.
Definition REPORT (a : N) (infos : list shard_info) (ids : list N) (plog : bool) (pl : list (N * N)) (region rpc : N) : report :=
  mkReport a infos ids 0 plog pl region rpc.

Inductive tev :=
| TKV (key : N)
| TShard (code s : N) (members : list N) (app : N)
| TTick (t : N)
| TSnap (h : N) (plog : bool) (r : report)
| TDeliver (h : N) (lost : bool) (cnt : option N) (reply : list request)
| TLaunch (cnt : N) (b : list request)
| TCtx (C : sctx)
| TSched (o : outcome) (cnt : N)
| TExec (h : N) (ccok : bool) (qs : list request)
| TCrash (h : N)
| TRestart (h : N)
| TLearn (h s r v : N)
| TGHist (s v : N) (ms : list (N * N))
| TGHost (h : N) (up : bool) (reps : list (N * N * bool * N)) (nq : N) (out : bool)
| TGAvail (l : list (N * N))
| TLaunched
| THeal
| TRoundH
| TSteady.

Inductive tres := TraceOk (n : N) | TraceBad (ix code : N).

Definition nlen {A} (l : list A) : N := N.of_nat (length l).

Definition fleet_init (regions : list N) : fstate :=
  mkF db_init
      (list_to_map (imap (λ i g, (N.of_nat (S i), mkFHost true g ∅ [] None)) regions))
      ∅ ∅.

Definition ctx_eqb (C C' : sctx) : bool :=
  (c_tick C =? c_tick C') && bool_decide (c_defs C = c_defs C') && bool_decide (c_view C = c_view C')
  && bool_decide (c_hosts C = c_hosts C') && bool_decide (c_kill C = c_kill C').

(** the hypothesis of the C01 theorems on the state the loop starts from: the initial launch has
    completed (boolean form; FleetProofs.init_ok is its Prop form) *)
Definition entry_okb (n : nat) (M : gmap N N) : bool :=
  bool_decide (n ≤ size M)%nat && bool_decide (size M ≤ n + 1)%nat && bool_decide (NoDup ((map_to_list M).*2)).

Definition init_okb (st : fstate) : bool :=
  let d := f_db st in
  negb (d_failed d) && (d_deadline d =? 0)
  (* every defined shard has been launched *)
  && forallb (λ kv, bool_decide (is_Some (f_hist st !! kv.1))) (map_to_list (d_shards d))
  (* its history is the launch entry, Drummer's view shows exactly that entry *)
  && forallb (λ kv, match kv.2, d_shards d !! kv.1, d_view d !! kv.1 with
                    | [e], Some sd, Some c =>
                      (s_cci c =? e.1) && bool_decide (r_addr <$> s_reps c = e.2)
                      && entry_okb (length (sd_members sd)) e.2
                      && forallb (λ m, bool_decide (m.1 ∈ f_seen st)) (map_to_list e.2)
                    | _, _, _ => false
                    end) (map_to_list (f_hist st))
  (* the view is keyed consistently and contains launched shards only *)
  && forallb (λ kv, bool_decide (is_Some (f_hist st !! kv.1)) && (s_id kv.2 =? kv.1)
                    && forallb (λ rn, (r_id rn.2 =? rn.1) && (r_shard rn.2 =? kv.1)) (map_to_list (s_reps kv.2)))
             (map_to_list (d_view d))
  (* every host record lists the shards the view places on it *)
  && forallb (λ ah, (h_addr ah.2 =? ah.1)
                    && forallb (λ kv, negb (bool_decide (ah.1 ∈ addrs_of (s_reps kv.2))) || bool_decide (kv.1 ∈ h_shards ah.2))
                               (map_to_list (d_view d)))
             (map_to_list (d_hosts d))
  (* every replica on a host is a launched member that knows the launch entry; nothing is in flight *)
  && forallb (λ ah, forallb (λ kv, match f_hist st !! kv.1.1 with
                                   | Some [e] => is_member e.2 kv.1.2 && (lr_ver kv.2 =? e.1)
                                   | _ => false
                                   end) (map_to_list (fh_reps ah.2))
                    && bool_decide (fh_queue ah.2 = []) && bool_decide (fh_out ah.2 = None))
             (map_to_list (f_hosts st))
  && bool_decide (d_requests d = ∅) && bool_decide (d_outgoing d = ∅) && bool_decide (d_kill d = []).

(** boolean safety conjuncts of LoopInv: every history entry is within the size bounds and
    host-injective; no KILL anywhere names a current member *)
Definition all_requests (st : fstate) : list request :=
  concat ((map_to_list (d_requests (f_db st))).*2) ++ concat ((map_to_list (d_outgoing (f_db st))).*2)
  ++ concat (fh_queue <$> (map_to_list (f_hosts st)).*2).
Definition safe_b (st : fstate) : bool :=
  forallb (λ kv, forallb (λ e, entry_okb (shard_size (f_db st) kv.1) e.2) kv.2) (map_to_list (f_hist st))
  && forallb (λ q, negb (is_kill q) ||
                   match q_members q with
                   | rid :: _ => negb (is_member (cur_members (hist_of (f_hist st) (q_shard q))) rid)
                   | [] => false
                   end) (all_requests st)
  && forallb (λ k, negb (is_member (cur_members (hist_of (f_hist st) (k_shard k))) (k_replica k))) (d_kill (f_db st)).

(** the decidable conjuncts of FleetLiveProofs.Steady (the healed and clean fixpoint of the healthy round):
    every defined shard launched and non-empty; every host up with nothing queued or in flight; mailboxes
    and kill list empty; Drummer's view at the current version and every current member running on its
    host knowing that version; every running replica is such a member; time has started *)
Definition steady_restb (st : fstate) : bool :=
  let d := f_db st in
  forallb (λ kv, bool_decide (is_Some (f_hist st !! kv.1)) && negb (bool_decide (sd_members kv.2 = [])))
          (map_to_list (d_shards d))
  && forallb (λ ah, fh_up ah.2 && bool_decide (fh_queue ah.2 = []) && bool_decide (fh_out ah.2 = None))
             (map_to_list (f_hosts st))
  && bool_decide (d_requests d = ∅) && bool_decide (d_outgoing d = ∅) && bool_decide (d_kill d = [])
  && forallb (λ kv, match d_view d !! kv.1 with
                    | Some c =>
                      (s_cci c =? cur_version kv.2)
                      && forallb (λ ra, match f_hosts st !! ra.2 with
                                        | Some fh => match fh_reps fh !! (kv.1, ra.1) with
                                                     | Some lr => lr_running lr && (lr_ver lr =? cur_version kv.2)
                                                     | None => false
                                                     end
                                        | None => false
                                        end) (map_to_list (cur_members kv.2))
                    | None => false
                    end) (map_to_list (f_hist st))
  && forallb (λ ah, forallb (λ kl, negb (lr_running kl.2) ||
                                   match f_hist st !! kl.1.1 with
                                   | Some h => bool_decide (cur_members h !! kl.1.2 = Some ah.1) && (lr_ver kl.2 =? cur_version h)
                                   | None => false
                                   end) (map_to_list (fh_reps ah.2)))
             (map_to_list (f_hosts st))
  && (0 <? d_tick d).

Section Run.
Variable P : params.

Definition chk (b : bool) (st : fstate) (code : N) : fstate + N := if b then inl st else inr code.

Definition tstep (st : fstate) (e : tev) : fstate + N :=
  match e with
  | TKV key =>
    match db_step P (f_db st) (CKV (mkKVR key (if key =? key_bootstrapped then val_true else 77) 0 0 0 true)) with
    | SOk d' 0 => inl (set_db st d')
    | _ => inr 1
    end
  | TShard code s members app =>
    match db_step P (f_db st) (CShard 0 (mkSD s members app)) with
    | SOk d' v => chk (v =? code) (set_db st d') 2
    | _ => inr 3
    end
  | TTick t =>
    match fstep P st ETick with
    | FOk st' => chk (d_tick (f_db st') =? t) st' 4
    | _ => inr 5
    end
  | TSnap h plog r =>
    match fstep P st (ESnap h plog) with
    | FOk st' => chk (bool_decide ((f_hosts st' !! h) ≫= fh_out = Some r)) st' 6
    | _ => inr 7
    end
  | TDeliver h lost cnt reply =>
    match fstep P st (EDeliver h lost) with
    | FOk st' =>
      chk (match cnt with Some c => pickup_count (f_db st) h =? c | None => true end
           && bool_decide (lookup_requests (f_db st') h = reply)) st' 8
    | FDisabled => inr 9
    | FPanic => inr 10
    end
  | TLaunch cnt b =>
    if forallb is_launch_req b then
      match db_step P (f_db st) (CRequests b) with
      | SOk d' v =>
        let hist' := foldl (λ hist q, match hist !! q_shard q with
                                       | Some _ => hist
                                       | None => <[q_shard q := [(1, list_to_map (zip (q_rids q) (q_addrs q)))]]> hist
                                       end) (f_hist st) b in
        chk (v =? cnt) (mkF d' (f_hosts st) hist' (f_seen st ∪ list_to_set (concat (q_rids <$> b)))) 11
      | _ => inr 12
      end
    else inr 13
  | TCtx C => chk (ctx_eqb (ctx_of_db (f_db st)) C) st 14
  | TSched o cnt =>
    match fstep P st (ESchedule o) with
    | FOk st' => chk (match o with OBatch b => nlen b =? cnt | _ => cnt =? 0 end) st' 15
    | FDisabled => inr 16                                     (* the observed outcome is not in Sched.allowed *)
    | FPanic => inr 17
    end
  | TExec h ccok qs =>
    if bool_decide ((f_hosts st !! h) ≫= (λ fh, Some (fh_queue fh)) = Some qs) then
      match fstep P st (EExec h ccok) with
      | FOk st' => inl st'
      | FDisabled => inr 19
      | FPanic => inr 20
      end
    else inr 18
  | TCrash h => match fstep P st (ECrash h) with FOk st' => inl st' | _ => inr 21 end
  | TRestart h => match fstep P st (ERestart h) with FOk st' => inl st' | _ => inr 22 end
  | TLearn h s r v => match fstep P st (ELearn h s r v) with FOk st' => inl st' | _ => inr 23 end
  | TGHist s v ms =>
    chk (bool_decide (head (hist_of (f_hist st) s) = Some (v, list_to_map ms))) st 24
  | TGHost h up reps nq out =>
    match f_hosts st !! h with
    | Some fh =>
      chk (bool_decide (fh_up fh = up)
           && bool_decide (fh_reps fh = list_to_map ((λ x, ((x.1.1.1, x.1.1.2), mkLRep x.1.2 x.2)) <$> reps))
           && (nlen (fh_queue fh) =? nq)
           && bool_decide (match fh_out fh with Some _ => true | None => false end = out)) st 25
    | None => inr 26
    end
  | TGAvail l =>
    chk (forallb (λ sc, match to_shard_state P (f_db st) sc.1 with
                        | None => sc.2 =? 0
                        | Some ss => sc.2 =? (if ss_unavailable ss then 1 else 2)
                        end) l) st 27
  | TLaunched => chk (init_okb st) st 28
  | THeal => inl st
  | TRoundH => chk (safe_b st) st 29
  | TSteady => chk (steady_restb st && healed P st) st 30
  end.

(** the healthy rounds of the run are also checked as ONE macro step: the model state at the end of the
    round = Fleet.healthy_round applied to the state at its beginning (with the persisted-log flags, the
    number of ticks and the scheduler outcome observed in the round).  [racc] collects those. *)
Record racc := mkRacc { ra_start : option fstate; ra_plogs : list (N * bool); ra_ticks : nat; ra_o : option outcome }.
Fixpoint plog_fun (l : list (N * bool)) (a : N) : bool :=
  match l with
  | [] => false
  | x :: l' => if x.1 =? a then x.2 else plog_fun l' a
  end.
Definition round_check (acc : racc) (st' : fstate) (e : tev) : racc + N :=
  match e with
  | THeal => inl (mkRacc (Some st') [] 0 None)
  | TSnap h plog _ => inl (mkRacc (ra_start acc) ((h, plog) :: ra_plogs acc) (ra_ticks acc) (ra_o acc))
  | TTick _ => inl (mkRacc (ra_start acc) (ra_plogs acc) (S (ra_ticks acc)) (ra_o acc))
  | TSched o _ => inl (mkRacc (ra_start acc) (ra_plogs acc) (ra_ticks acc) (Some o))
  | TRoundH =>
    match ra_start acc, ra_o acc with
    | Some s0, Some o =>
      if bool_decide (healthy_round P (plog_fun (ra_plogs acc)) (ra_ticks acc) o s0 = Some st')
      then inl (mkRacc (Some st') [] 0 None) else inr 31
    | _, _ => inr 32
    end
  | _ => inl acc
  end.

Fixpoint run_from (st : fstate) (acc : racc) (i : N) (tr : list tev) : tres :=
  match tr with
  | [] => TraceOk i
  | e :: tr' =>
    match tstep st e with
    | inl st' =>
      match round_check acc st' e with
      | inl acc' => run_from st' acc' (i + 1) tr'
      | inr code => TraceBad i code
      end
    | inr code => TraceBad i code
    end
  end.

(* [nhosts], [size] are informative (the regions list has one entry per host) *)
Definition run_trace (nhosts : N) (regions : list N) (size : N) (tr : list tev) : tres :=
  run_from (fleet_init regions) (mkRacc None [] 0 None) 0 tr.
End Run.
