(** LaunchRun: executable agreement predicates evaluated (vm_compute) by the generated cases
    files of the C08 correspondence check (harness/py/c08.py). *)
From stdpp Require Import gmap.
From Drummer.Model Require Import Base DB Launch.
Local Open Scope N_scope.

(** a NodeHost as the executor builds it: address, region, last tick, hosted shard ids *)
Definition mkH (a r t : N) (ss : list N) : hostspec := mkHost a 0 r t [] (list_to_set ss).

Definition nl_eqb := list_eqb N.eqb.

Definition rtype_eqb (a b : rtype) : bool :=
  match a, b with
  | RCreate, RCreate | RDelete, RDelete | RAdd, RAdd | RKill, RKill => true
  | _, _ => false
  end.

Definition req_eqb (a b : request) : bool :=
  rtype_eqb (q_type a) (q_type b) && (q_shard a =? q_shard b) && nl_eqb (q_members a) (q_members b) &&
  (q_ccid a =? q_ccid b) && nl_eqb (q_rids a) (q_rids b) && nl_eqb (q_addrs a) (q_addrs b) &&
  (q_inst a =? q_inst b) && (q_raft a =? q_raft b) && Bool.eqb (q_join a) (q_join b) &&
  Bool.eqb (q_restore a) (q_restore b) && (q_app a =? q_app b).

Definition outcome_eqb (a b : outcome) : bool :=
  match a, b with
  | Plan x, Plan y => list_eqb req_eqb x y
  | Refused, Refused => true
  | Crash, Crash => true
  | OutOfDraws, OutOfDraws => true
  | _, _ => false
  end.

(** launch case: the model's outcome for the scripted draws equals the observed one.
    One tolerance: "refused" on one side and "script ran out" on the other agree.  Which of the two
    happens for an unplaceable launch under a too short script depends only on whether a test is made
    before or after some sampling, which no caller can observe with a real random source (both mean
    "no plan"; whether a refusal is legitimate is decided by the monitors, not by this comparison). *)
Definition outcome_agree (model obs : outcome) : bool :=
  match model, obs with
  | Refused, OutOfDraws | OutOfDraws, Refused => true
  | _, _ => outcome_eqb model obs
  end.

Definition lcase (ttl tick : N) (fleet : list hostspec) (shards : list shard_def)
           (regs : option regions) (ds : list N) (obs : outcome) : bool :=
  outcome_agree (launch ttl tick fleet shards regs ds) obs.

(** request validation case: model of validateNodeHostRequest = observed (true = no panic) *)
Definition vcase (q : request) (obs : bool) : bool := Bool.eqb (validate_request q) obs.

(** shorthand for an observed launch request *)
Definition lreq (sid : N) (members : list N) (ccid : N) (rids addrs : list N) (inst raft : N)
           (join restore : bool) (app : N) : request :=
  mkReq RCreate sid members ccid rids addrs inst raft join restore app.
