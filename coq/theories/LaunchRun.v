(** LaunchRun: executable agreement predicates evaluated (vm_compute) by the generated cases
    files of the C08 correspondence check (harness/py/c08.py). *)
From stdpp Require Import gmap.
From Coq Require Import Uint63.
From Drummer.Model Require Import Base DB Launch.
Local Open Scope N_scope.

(** Numbers in the generated cases files.  coqc interprets an [N] numeral by running a Gallina
    conversion (about 0.15 ms per numeral, 1.5 ms for 19 digits); primitive integers are read natively
    (0.04 ms).  The generated files therefore write numbers below 2^63 as primitive integers wrapped in
    [n] / [ns] and larger ones relative to the constants two62/two63/two64. *)
Definition n (x : int) : N := Z.to_N (Uint63.to_Z x).
Definition ns (l : list int) : list N := map n l.
Definition two62 : N := 4611686018427387904.
Definition bel (b : N) (k : int) : N := b - n k.
Definition abv (b : N) (k : int) : N := b + n k.
(** the tail of the draw scripts: 0, 1, ..., k-1 *)
Definition rampN (k : nat) : list N := map N.of_nat (seq 0 k).
Definition rampI (k : int) : list N := rampN (Z.to_nat (Uint63.to_Z k)).

(** a NodeHost as the executor builds it: address, region, last tick, hosted shard ids *)
Definition mkH (a r t : N) (ss : list N) : hostspec := mkHost a 0 r t [] (list_to_set ss).

(** the same with leftover persistent-log records (shard, replica) *)
Definition mkHp (a r t : N) (ss : list N) (pl : list (N * N)) : hostspec := mkHost a 0 r t pl (list_to_set ss).
Definition pl (l : list (int * int)) : list (N * N) := map (fun p => (n (fst p), n (snd p))) l.

Definition nl_eqb := list_eqb N.eqb.

Definition rtype_eqb (a b : rtype) : bool :=
  match a, b with
  | RCreate, RCreate | RDelete, RDelete | RAdd, RAdd | RKill, RKill => true
  | _, _ => false
  end.

Definition req_eqb (a b : request) : bool :=
  rtype_eqb (q_type a) (q_type b) && (q_shard a =? q_shard b) && nl_eqb (q_members a) (q_members b) &&
  (q_ccid a =? q_ccid b) && nl_eqb (q_rids a) (q_rids b) && nl_eqb (q_addrs a) (q_addrs b) &&
  (q_inst a =? q_inst b) && (q_raft a =? q_raft b) && Bool.eqb (q_join a) (q_join b) &&
  Bool.eqb (q_restore a) (q_restore b) && (q_app a =? q_app b).

Definition outcome_eqb (a b : outcome) : bool :=
  match a, b with
  | Plan x, Plan y => list_eqb req_eqb x y
  | Refused, Refused => true
  | Crash, Crash => true
  | OutOfDraws, OutOfDraws => true
  | _, _ => false
  end.

(** * Exact comparison: the model's outcome for the scripted draws equals the observed one.
    One tolerance: "refused" on one side and "script ran out" on the other agree.  Which of the two
    happens for an unplaceable launch under a too short script depends only on whether a test is made
    before or after some sampling, which no caller can observe with a real random source (both mean
    "no plan"; whether a refusal is legitimate is decided by [allowed] and the monitors). *)
Definition outcome_agree (model obs : outcome) : bool :=
  match model, obs with
  | Refused, OutOfDraws | OutOfDraws, Refused => true
  | _, _ => outcome_eqb model obs
  end.

Definition lcase (ttl tick : N) (fleet : list hostspec) (shards : list shard_def)
           (regs : option regions) (ds : list N) (obs : outcome) : bool :=
  outcome_agree (launch ttl tick fleet shards regs ds) obs.

(** * Set-valued comparison: is the observed outcome one the specification allows, whatever the
    random source returned?  Executable versions of [must_refuse] and [shard_block_ok]
    (proved equivalent / sound in proofs/LaunchProofs.v). *)

Definition unplaceableb (ttl tick : N) (fleet : list hostspec) (r : regions) (sd : shard_def) : bool :=
  negb (sumN (rg_count r) =? nlen (sd_members sd)) ||
  existsb (fun p => n_suitable ttl tick (sd_id sd) (fst p) fleet <? snd p) (combine (rg_region r) (rg_count r)).

Definition must_refuseb (ttl tick : N) (fleet : list hostspec) (shards : list shard_def)
           (regs : option regions) : bool :=
  match regs with
  | None => true
  | Some r => negb (nlen (rg_region r) =? nlen (rg_count r)) || has_dup [] (rg_region r) ||
              existsb (unplaceableb ttl tick fleet r) shards
  end.

Fixpoint lookup_hosts (fleet : list hostspec) (addrs : list N) : option (list hostspec) :=
  match addrs with
  | [] => Some []
  | a :: rest =>
      match List.find (fun h => h_addr h =? a) fleet with
      | None => None
      | Some h => match lookup_hosts fleet rest with None => None | Some hs => Some (h :: hs) end
      end
  end.

Fixpoint nodupb (l : list N) : bool :=
  match l with [] => true | x :: rest => negb (memN x rest) && nodupb rest end.

Definition quota_okb (r : regions) (hs : list hostspec) : bool :=
  forallb (fun p => nlen (List.filter (fun h => fst p =? h_region h) hs) =? snd p)
          (combine (rg_region r) (rg_count r)) &&
  forallb (fun h => memN (h_region h) (rg_region r)) hs.

Definition req_coreb (sd : shard_def) (rafts : list N) (q : request) : bool :=
  rtype_eqb (q_type q) RCreate && (q_shard q =? sd_id sd) && (q_ccid q =? 0) &&
  nl_eqb (q_members q) (sd_members sd) && nl_eqb (q_rids q) (sd_members sd) && nl_eqb (q_addrs q) rafts &&
  negb (q_join q) && negb (q_restore q) && (q_app q =? sd_app sd).

(** everything [shard_block_ok] asks for except request validation *)
Definition block_coreb (ttl tick : N) (fleet : list hostspec) (r : regions) (sd : shard_def) (qs : list request) : bool :=
  let rafts := map q_raft qs in
  match lookup_hosts fleet rafts with
  | None => false
  | Some hs =>
      nl_eqb (map q_inst qs) (sd_members sd) && nodupb rafts &&
      forallb (fun h => is_live ttl tick h && negb (hosts_shard h (sd_id sd))) hs &&
      quota_okb r hs && forallb (req_coreb sd rafts) qs
  end.

Definition block_okb (ttl tick : N) (fleet : list hostspec) (r : regions) (sd : shard_def) (qs : list request) : bool :=
  block_coreb ttl tick fleet r sd qs && forallb validate_request qs.

Definition wf_shardb (sd : shard_def) : bool :=
  negb (nlen (sd_members sd) =? 0) && nodupb (sd_members sd) && negb (memN 0 (sd_members sd)) && negb (sd_app sd =? 0).

(** the plan cut into consecutive blocks, one per shard; [strict]: ask for validation of every request,
    otherwise only for the requests of well-formed shard definitions (the precondition of C08_valid) *)
Fixpoint blocks_okb (strict : bool) (ttl tick : N) (fleet : list hostspec) (r : regions)
         (shards : list shard_def) (qs : list request) : bool :=
  match shards with
  | [] => match qs with [] => true | _ => false end
  | sd :: rest =>
      let n := length (sd_members sd) in
      block_coreb ttl tick fleet r sd (firstn n qs) &&
      (negb (strict || wf_shardb sd) || forallb validate_request (firstn n qs)) &&
      blocks_okb strict ttl tick fleet r rest (skipn n qs)
  end.

Definition allowed (ttl tick : N) (fleet : list hostspec) (shards : list shard_def)
           (regs : option regions) (obs : outcome) : bool :=
  match obs with
  | Plan qs =>
      negb (must_refuseb ttl tick fleet shards regs) &&
      match regs with Some r => blocks_okb false ttl tick fleet r shards qs | None => false end
  | Refused => must_refuseb ttl tick fleet shards regs
  | OutOfDraws => true
  | Crash => false
  end.

(** code of a launch case: 0 = the model's outcome for the same script equals the observed one,
    1 = it differs but the observed outcome is allowed by the specification (a different use of the
    random values), 2 = the observed outcome is not allowed *)
Definition lcode (ttl tick : N) (fleet : list hostspec) (shards : list shard_def)
           (regs : option regions) (ds : list N) (obs : outcome) : N :=
  if lcase ttl tick fleet shards regs ds obs then 0
  else if allowed ttl tick fleet shards regs obs then 1 else 2.

(** indexes of the cases with code [k] *)
Definition codes_with (k : N) (l : list N) : list N := false_ix (map (fun c => negb (c =? k)) l).

(** request validation case: model of validateNodeHostRequest = observed (true = no panic) *)
Definition vcase (q : request) (obs : bool) : bool := Bool.eqb (validate_request q) obs.

(** same as a code: 0 = agree, 2 = disagree *)
Definition vcode (q : request) (obs : bool) : N := if vcase q obs then 0 else 2.

(** validateRegions case: verdict of the model = observed verdict *)
Definition rcode (regs : option regions) (obs : bool) : N := if Bool.eqb (validate_regions regs) obs then 0 else 2.

(** shorthand for an observed launch request *)
Definition lreq (sid : N) (members : list N) (ccid : N) (rids addrs : list N) (inst raft : N)
           (join restore : bool) (app : N) : request :=
  mkReq RCreate sid members ccid rids addrs inst raft join restore app.
