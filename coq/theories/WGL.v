(** WGL: executable model of lcm/porcupine/porcupine.go — CheckEvents with the
    register model (renumber, convertEntries, makeLinkedEntries, checkSingle).
    Property C06.  Definitions only; proofs in proofs/WGLProofs.v.

    How the Go data structures are represented
    - the doubly linked list of entry nodes (after [lift]s) is the [history] [l] of
      the entries that are still linked, in order; [headEntry.next == nil] is [l = []];
    - [entry.match] of a call node (the nearest later return node with the same id,
      built by makeLinkedEntries) is [ret_of rest id] where [rest] is the part of
      the list after the call; a call node without a later return has [match == nil]
      and is treated by the Go loop like a return node;
    - [lift entry] unlinks the call and its return: [lift id l]; [unlift] restores
      them: the caller simply still holds [l];
    - the stack [calls] together with the saved states is the recursion stack of
      [search]; popping it ("backtrack") is returning [false] from one level, after
      which the parent continues with [entry.next], i.e. the next candidate;
    - [linearized] (a bitset) is the list [lin] of the ids set so far, compared as
      a set ([set_eqb] ~ bitset.equals);
    - [cache] (hash buckets of cacheEntry) is a list of (linearized, state) pairs;
      only [equals]/[Equal] matter for the verdict, the bucket layout does not.
      The cache is threaded through all calls and survives backtracking, exactly
      as the Go map does.
    Not modelled: the [kill] flag / timeout path, goroutines (one partition => one
    goroutine whose result is the verdict). *)
From Drummer.Model Require Import Base Register.
From Coq Require Import ZArith.

(** ---- renumber ---- *)
Fixpoint lookup (x : N) (m : list (N * N)) : option N :=
  match m with
  | [] => None
  | (k, v) :: t => if k =? x then Some v else lookup x t
  end.

Definition set_id (e : event) (r : N) : event :=
  match e with Call _ i => Call r i | Ret _ o => Ret r o end.

(* m: the Go map m (old id -> new id); next: the Go variable id *)
Fixpoint renumber_aux (m : list (N * N)) (next : N) (h : history) : history :=
  match h with
  | [] => []
  | e :: t =>
      match lookup (ev_id e) m with
      | Some r => set_id e r :: renumber_aux m next t
      | None => set_id e next :: renumber_aux ((ev_id e, next) :: m) (next + 1) t
      end
  end.

Definition renumber (h : history) : history := renumber_aux [] 0 h.

(** ---- convertEntries ----
    Event{Kind,Value,Id} -> entry{kind,value,id,time:-1}: a change of record type
    only ([time] is not read by checkSingle); entries are represented by events. *)
Definition entries := history.
Definition convertEntries (h : history) : entries := map (fun e => e) h.

(** ---- checkSingle ---- *)
Definition lift (id : N) (l : entries) : entries :=
  filter (fun e => negb (ev_id e =? id)) l.

Definition set_eqb (a b : list N) : bool :=
  forallb (fun x => mem_id x b) a && forallb (fun x => mem_id x a) b.

Definition cache := list (list N * Z).

Definition cache_contains (c : cache) (lin : list N) (st : Z) : bool :=
  existsb (fun e => set_eqb lin (fst e) && (st =? snd e)%Z) c.

Section Scan.
  (* the search one level deeper (after one more lift) *)
  Variable rec : entries -> Z -> list N -> cache -> bool * cache.
  (* this level: linked entries, state, linearized set *)
  Variable l : entries.
  Variable st : Z.
  Variable lin : list N.

  (** walk [entry := entry.next] from [cands]; result (found a linearization?, cache) *)
  Fixpoint scan (cands : entries) (c : cache) : bool * cache :=
    match cands with
    | [] => (false, c)                     (* not reached on well-formed input: the last linked entry is a return *)
    | Ret _ _ :: _ => (false, c)           (* entry.match == nil: backtrack *)
    | Call id i :: rest =>
        match ret_of rest id with
        | None => (false, c)               (* call node without later return: match == nil, same branch *)
        | Some o =>
            let (ok, st') := step st i o in
            if ok then
              let lin' := id :: lin in     (* linearized.clone().set(entry.id) *)
              if cache_contains c lin' st' then scan rest c
              else
                let c1 := (lin', st') :: c in
                let (r, c2) := rec (lift id l) st' lin' c1 in
                if r then (true, c2) else scan rest c2
            else scan rest c
        end
    end.
End Scan.

(** [fuel] bounds the recursion depth (number of operations still linked). *)
Fixpoint search (fuel : nat) (l : entries) (st : Z) (lin : list N) (c : cache) : bool * cache :=
  match l with
  | [] => (true, c)                        (* headEntry.next == nil *)
  | _ :: _ =>
      match fuel with
      | O => (false, c)
      | S f => scan (search f) l st lin l c
      end
  end.

Definition checkSingle (l : entries) : bool :=
  fst (search (length l) l nil_state [] []).

(** CheckEvents(GetEtcdModel(), h): default PartitionEvent = one partition; no timeout *)
Definition check (h : history) : bool :=
  checkSingle (convertEntries (renumber h)).
