(** Facade: executable model of the NodeHost gRPC facade (/repo/nodehostapi.go), property C19.

    What is modelled
    - the hosting configuration of a NodeHost: the shards it runs, each with the type of its
      state machine (regular / concurrent / on-disk), in start order;
    - [supportRegularSession]: no cache (repair 6156851; before it a per-shard cache that was
      never invalidated answered from a previous incarnation of a stopped and re-hosted shard,
      corpus/C19/stale-after-rehost-witnesses.txt): every call scans [NodeHostInfo.ShardInfoList]
      and takes the last entry naming the shard; the order of [ShardInfoList] is dragonboat's map
      iteration order, so the info list is an argument of the query ([il]) and theorems quantify
      over every permutation of the hosting configuration;
    - readiness: a hosted shard is listed with its type whether or not it has applied anything yet
      ([ShardInfo.Pending]); the session kind follows the type of every listed shard ([shard_info],
      [support_regular_info]);
    - [NodeHost.StopShard] and a later start of the same shard id as a new replica, possibly of
      another state-machine type ([stop] / [EStop]);
    - [GetSession] (which kind of session is handed out, or an error),
    - [ToPBSession], [ToNodeHostSession], [updatePBSession] as record maps (every field),
    - [grpcError]/[GRPCError] as a total function from the error values the code distinguishes
      (plus "any other error") to gRPC status codes,
    - [Propose] and [Read] as wrappers around the local call ([NodeHost.SyncPropose] /
      [NodeHost.SyncRead]), which is a parameter: the model says what the facade adds to the
      local call, not what Raft does.

    What is NOT modelled: Raft, the state machines, the gRPC transport, context deadlines,
    [Result.Data] of a proposal (the wire type [RaftResponse] carries only [Result.Value] for
    proposals), a NodeHost that is closed while the facade is in use.

    Executable definitions only; proofs are in proofs/FacadeProofs.v. *)
From stdpp Require Import gmap.
From Drummer.Model Require Import Base.

(** * State-machine types and session kinds *)

(** [sm.Type]: RegularStateMachine = 1, ConcurrentStateMachine = 2, OnDiskStateMachine = 3 *)
Inductive sm_type := Regular | Concurrent | OnDisk.

Definition sm_type_num (t : sm_type) : N :=
  match t with Regular => 1 | Concurrent => 2 | OnDisk => 3 end.

Definition is_ondisk (t : sm_type) : bool :=
  match t with OnDisk => true | _ => false end.

(** tracked = a registered client session (at-most-once proposals), no-op = [NoOPSession] *)
Inductive skind := Tracked | NoOp.

(** the kind the facade must hand out for a shard of type [t] *)
Definition kind_of_type (t : sm_type) : skind := if is_ondisk t then NoOp else Tracked.

(** * Hosting configuration *)

(** hosted shards in start order; shard ids are unique (see [start]) *)
Definition hosting := list (N * sm_type).

Fixpoint hosted_type (h : hosting) (s : N) : option sm_type :=
  match h with
  | [] => None
  | (s', t) :: h' => if s' =? s then Some t else hosted_type h' s
  end.

(** [StartReplica] / [StartConcurrentReplica] / [StartOnDiskReplica]: a second start of a
    shard id that is already running fails ([ErrShardAlreadyExist]) and changes nothing *)
Definition start (h : hosting) (s : N) (t : sm_type) : hosting :=
  match hosted_type h s with
  | Some _ => h
  | None => h ++ [(s, t)]
  end.

(** [NodeHost.StopShard]: the shard id is no longer hosted (and no longer listed by
    [GetNodeHostInfo]); it can be started again later, as a new replica of any type. Stopping a
    shard id that is not running fails ([ErrShardNotFound]) and changes nothing. *)
Definition stop (h : hosting) (s : N) : hosting :=
  List.filter (fun ci => negb (fst ci =? s)) h.

(** * supportRegularSession *)

(** No cache (since the repair 6156851, corpus/C19/fix-stale-kind.txt): every call reads
    [GetNodeHostInfo] and takes the LAST entry of [ShardInfoList] that names the shard:
      v, ok := false, false
      for _, ci := range nhi.ShardInfoList {
        if ci.ShardID == shardID { v, ok = ci.StateMachineType != sm.OnDiskStateMachine, true }
      } *)
Definition lookup_step (s : N) (acc : option bool) (ci : N * sm_type) : option bool :=
  if fst ci =? s then Some (negb (is_ondisk (snd ci))) else acc.

(** [supportRegularSession shardID]: [Some v] = (v, nil), [None] = error
    ("unknown state machine type"). [il] is the ShardInfoList of the running NodeHost. *)
Definition support_regular (il : hosting) (s : N) : option bool :=
  fold_left (lookup_step s) il None.

(** [ShardInfo] as [GetNodeHostInfo] reports it: shard id, state-machine type and the [Pending]
    flag (set while a hosted shard has applied nothing yet: a replica started a moment ago, a
    joining replica that has not received the shard state). The type is valid in a pending entry
    too; the lookup does not look at the flag: "hosted" means listed, ready or not. *)
Definition shard_info := (N * sm_type * bool)%type.

Definition support_regular_info (il : list shard_info) (s : N) : option bool :=
  support_regular (map fst il) s.

(** * One facade object on one NodeHost *)

(** the facade object itself holds no state that matters for the session kind; what it sees is
    the hosting configuration of its NodeHost *)
Record fstate := mkF { hosted : hosting }.

Definition finit : fstate := mkF [].

(** outcome of [GetSession] as far as the session kind is concerned *)
Inductive qres := QKind (k : skind) | QErr.

Definition qres_of (r : option bool) : qres :=
  match r with
  | Some true => QKind Tracked
  | Some false => QKind NoOp
  | None => QErr
  end.

(** one [GetSession shard] against info list [il] *)
Definition query (st : fstate) (il : hosting) (s : N) : qres * fstate :=
  (qres_of (support_regular il s), st).

Definition start_shard (st : fstate) (s : N) (t : sm_type) : fstate :=
  mkF (start (hosted st) s t).

Definition stop_shard (st : fstate) (s : N) : fstate :=
  mkF (stop (hosted st) s).

(** events seen by one facade object: shards are started / stopped (and possibly started again,
    as a new replica of any type) on its NodeHost, sessions are asked for *)
Inductive event := EStart (s : N) (t : sm_type) | EQuery (s : N) | EStop (s : N).

(** deterministic run: the info list is the hosting configuration in start order *)
Definition step (st : fstate) (e : event) : list qres * fstate :=
  match e with
  | EStart s t => ([], start_shard st s t)
  | EQuery s => let '(r, st') := query st (hosted st) s in ([r], st')
  | EStop s => ([], stop_shard st s)
  end.

Fixpoint run_from (st : fstate) (evs : list event) : list qres * fstate :=
  match evs with
  | [] => ([], st)
  | e :: evs' =>
      let '(o, st') := step st e in
      let '(os, st'') := run_from st' evs' in (o ++ os, st'')
  end.

Definition run (evs : list event) : list qres := fst (run_from finit evs).

(** the specification of the same run: the answer is read off the hosting configuration as it
    is at the moment of the call *)
Definition spec_answer (h : hosting) (s : N) : qres :=
  match hosted_type h s with
  | Some t => QKind (kind_of_type t)
  | None => QErr
  end.

Fixpoint spec_run (h : hosting) (evs : list event) : list qres :=
  match evs with
  | [] => []
  | EStart s t :: evs' => spec_run (start h s t) evs'
  | EQuery s :: evs' => spec_answer h s :: spec_run h evs'
  | EStop s :: evs' => spec_run (stop h s) evs'
  end.

(** every state a facade object can be in: any interleaving of starts, stops (and re-starts with
    any type) and queries, every query seeing the hosted shards in an arbitrary order (Go map
    iteration order inside dragonboat) *)
Inductive reachable : fstate -> Prop :=
| R_init : reachable finit
| R_start st s t : reachable st -> reachable (start_shard st s t)
| R_stop st s : reachable st -> reachable (stop_shard st s)
| R_query st il s : reachable st -> Permutation il (hosted st) -> reachable (snd (query st il s)).

(** * Sessions and their wire form *)

(** [client.Session] (dragonboat) *)
Record nh_session := mkNS { ns_shard : N; ns_client : N; ns_series : N; ns_responded : N }.
(** [multiraftpb.Session] (wire) *)
Record pb_session := mkPS { ps_shard : N; ps_client : N; ps_series : N; ps_responded : N }.

Definition to_nh (p : pb_session) : nh_session :=
  mkNS (ps_shard p) (ps_client p) (ps_series p) (ps_responded p).

Definition to_pb (s : nh_session) : pb_session :=
  mkPS (ns_shard s) (ns_client s) (ns_series s) (ns_responded s).

(** [updatePBSession dst src]: every field overwritten *)
Definition update_pb (dst : pb_session) (src : nh_session) : pb_session :=
  mkPS (ns_shard src) (ns_client src) (ns_series src) (ns_responded src).

(** [client.NoOPSeriesID] = 0; [Session.IsNoOPSession] *)
Definition is_noop (s : nh_session) : bool := ns_series s =? 0.

Definition ns_fields (s : nh_session) : list N := [ns_shard s; ns_client s; ns_series s; ns_responded s].
Definition ps_fields (p : pb_session) : list N := [ps_shard p; ps_client p; ps_series p; ps_responded p].

(** * Errors and status codes *)

(** the error values [grpcError] distinguishes (compared with [==]) and "anything else" *)
Inductive err :=
| EInvalidSession | EPayloadTooBig | ETimeoutTooSmall
| ESystemBusy | EClosed | EShardClosed
| EShardNotFound
| ECtxCanceled | ECanceled
| ECtxDeadlineExceeded | ETimeout
| EOther (n : N).

(** the gRPC status codes the table uses, and OK *)
Inductive code := OK | Canceled | Unknown | InvalidArgument | DeadlineExceeded | NotFound | Unavailable.

(** numeric values of google.golang.org/grpc/codes *)
Definition code_num (c : code) : N :=
  match c with
  | OK => 0 | Canceled => 1 | Unknown => 2 | InvalidArgument => 3
  | DeadlineExceeded => 4 | NotFound => 5 | Unavailable => 14
  end.

Definition grpc_code (e : err) : code :=
  match e with
  | EInvalidSession => InvalidArgument
  | EPayloadTooBig | ETimeoutTooSmall => InvalidArgument
  | ESystemBusy | EClosed | EShardClosed => Unavailable
  | EShardNotFound => NotFound
  | ECtxCanceled | ECanceled => Canceled
  | ECtxDeadlineExceeded | ETimeout => DeadlineExceeded
  | EOther _ => Unknown
  end.

(** [grpcError]: nil stays nil *)
Definition grpc_error (oe : option err) : option code := option_map grpc_code oe.

(** * The facade calls *)

(** result of a local dragonboat call / of a facade call *)
Inductive lres (A : Type) := LOk (a : A) | LErr (e : err).
Inductive fres (A : Type) := FOk (a : A) | FErr (c : code).
Arguments LOk {A} a. Arguments LErr {A} e. Arguments FOk {A} a. Arguments FErr {A} c.

Record proposal := mkProp { pr_session : pb_session; pr_data : list N }.
Record read_req := mkRead { rd_shard : N; rd_data : list N }.
Record response := mkResp { rs_result : N; rs_data : list N }.

Section Calls.
  (** [W]: everything the local call can touch (the replicated state machines, the Raft log...) *)
  Context {W : Type}.
  (** [NodeHost.SyncPropose ctx cs cmd]: result value and the session object after the call *)
  Variable local_propose : W -> nh_session -> list N -> lres (N * nh_session) * W.
  (** [NodeHost.SyncRead ctx shard query] *)
  Variable local_read : W -> N -> list N -> lres (list N) * W.
  (** [NodeHost.SyncGetSession ctx shard] and [NodeHost.GetNoOPSession shard] *)
  Variable local_get_session : W -> N -> lres nh_session * W.
  Variable local_noop_session : N -> nh_session.
  (** [NodeHost.SyncCloseSession ctx cs] *)
  Variable local_close_session : W -> nh_session -> option err * W.

  (** [NodehostAPI.Propose]: returns the response or a status code, the request's session
      after [updatePBSession], and the world *)
  Definition facade_propose (w : W) (req : proposal) : fres response * pb_session * W :=
    let cs := to_nh (pr_session req) in
    match local_propose w cs (pr_data req) with
    | (LErr e, w') => (FErr (grpc_code e), pr_session req, w')
    | (LOk (v, cs'), w') => (FOk (mkResp v []), update_pb (pr_session req) cs', w')
    end.

  (** [NodehostAPI.Read] *)
  Definition facade_read (w : W) (req : read_req) : fres response * W :=
    match local_read w (rd_shard req) (rd_data req) with
    | (LErr e, w') => (FErr (grpc_code e), w')
    | (LOk d, w') => (FOk (mkResp 0 d), w')
    end.

  (** [NodehostAPI.GetSession]: [None] in the middle component = the error of
      [supportRegularSession], which is returned as it is (no status attached; a gRPC peer sees
      [Unknown]) *)
  Definition facade_get_session (st : fstate) (il : hosting) (w : W) (s : N)
    : fres pb_session * fstate * W :=
    match support_regular il s with
    | None => (FErr Unknown, st, w)
    | Some true =>
        match local_get_session w s with
        | (LErr e, w') => (FErr (grpc_code e), st, w')
        | (LOk cs, w') => (FOk (to_pb cs), st, w')
        end
    | Some false => (FOk (to_pb (local_noop_session s)), st, w)
    end.

  (** [NodehostAPI.CloseSession]: [true] = Completed *)
  Definition facade_close_session (w : W) (p : pb_session) : fres bool * W :=
    let cs := to_nh p in
    if is_noop cs then (FOk true, w)
    else match local_close_session w cs with
         | (Some e, w') => (FErr (grpc_code e), w')
         | (None, w') => (FOk true, w')
         end.
End Calls.
