(** Agent: model of the NodeHost agent of drummer (client/nodehost.go, client/node.go,
    client/plugin.go) -- property C18.

    Two halves.

    1. Reporting.  [prepare] is node.go [reportNodeHostInfo] (persisted-log info is dropped
       unless announced), [send_report] is nodehost.go [SendNodeHostInfo] (the "incomplete"
       rule; the Go [panic] when log info is present although not announced is the result
       [None]); [build_report] is their composition, i.e. what the Drummer service receives.
       Strings (addresses, region) are [N]; the Go map [il.Indexes] (Drummer's advertised
       membership versions) is an association list read with [lookup] (first binding).
       The list order of [ShardInfoList] is whatever dragonboat delivers and is kept.
       Leader flag: the report says "leader" iff the local LeaderID is non-zero and equal to
       the replica id (the repaired code; the original copied the deprecated, never filled
       [ShardInfo.IsLeader] field of dragonboat v4 -- see corpus/C18/fix-leader-flag.diff).

    2. Executing requests.  [receive] / [take] are [addRequests] / [getRequests] (the queue
       is appended to and taken-and-cleared); [execute] is [HandleMasterRequests]: the batch is
       split into per-shard sub-lists ([sub_batch], order preserved), every sub-list is run by
       its own worker ([run_shard]); every request is mapped by [decide] (the launch / join /
       restore / add / delete / kill table of [handleRequest] and below) to a [decision] which
       [perform] turns into calls on the NodeHost.
       The NodeHost (dragonboat) is NOT modelled: it is a record [nodehost St] of arbitrary
       functions on an abstract per-shard state [St] (section variable, no contract assumed).
       The only structure assumed is that the state is a product over shard ids: a call for
       shard [s] reads and writes the component [s] only.  A Go panic (index out of range,
       [plog.Panicf], [panic]) kills the process: outcome [Panicked], the worker stops.
       The retry loop around [RemoveData] (sleep while ErrShardNotStopped) is folded into the
       abstract call [nh_remove] ("remove the data once the replica is offloaded").
       Unchecked Go reads: [Members[0]], [AddressList[0]], [ReplicaIdList[k]] are checked
       reads here that yield [DPanic]. *)
From Drummer.Model Require Import Base.

(** * 1. Reporting *)

Fixpoint lookup (k : N) (m : list (N * N)) : option N :=
  match m with
  | [] => None
  | (k', v) :: m' => if k' =? k then Some v else lookup k m'
  end.

(* dragonboat.ShardInfo as returned by NodeHost.GetNodeHostInfo *)
Record shard_info := mkSI {
  si_shard : N; si_replica : N; si_leader_id : N;
  si_members : list (N * N);        (* replica id -> address *)
  si_cci : N;                       (* local membership version (ConfigChangeIndex) *)
  si_pending : bool }.

(* dragonboat.NodeHostInfo + the API address the agent was configured with *)
Record nh_info := mkNHI {
  nhi_addr : N; nhi_api : N;
  nhi_shards : list shard_info;
  nhi_logs : list (N * N) }.         (* persisted logs: (shard, replica) *)

(* pb.ShardInfo *)
Record rep_shard := mkRS {
  rs_shard : N; rs_replica : N; rs_leader : bool;
  rs_members : list (N * N); rs_cci : N; rs_incomplete : bool; rs_pending : bool }.

(* pb.NodeHostInfo *)
Record report := mkRep {
  rp_addr : N; rp_api : N;
  rp_ids : list N;                   (* ShardIdList *)
  rp_shards : list rep_shard;        (* ShardInfo *)
  rp_plog_flag : bool;               (* PlogInfoIncluded *)
  rp_plog : list (N * N);            (* PlogInfo *)
  rp_region : N }.

Definition default_region : N := 0.  (* client.DefaultRegion *)

(* nodehost.go: ok && cci >= v.ConfigChangeIndex && !v.Pending *)
Definition incomplete_rule (vers : list (N * N)) (si : shard_info) : bool :=
  match lookup (si_shard si) vers with
  | Some dv => (si_cci si <=? dv) && negb (si_pending si)
  | None => false
  end.

Definition is_leader (si : shard_info) : bool :=
  negb (si_leader_id si =? 0) && (si_leader_id si =? si_replica si).

Definition report_shard (vers : list (N * N)) (si : shard_info) : rep_shard :=
  let inc := incomplete_rule vers si in
  mkRS (si_shard si) (si_replica si) (is_leader si)
       (if inc then [] else si_members si) (si_cci si) inc (si_pending si).

Definition is_nil {A} (l : list A) : bool := match l with [] => true | _ => false end.

(* DrummerClient.SendNodeHostInfo; None = the Go panic "!plogIncluded but len(logInfo) != 0" *)
Definition send_report (nhi : nh_info) (vers : list (N * N)) (flag : bool) : option report :=
  if negb flag && negb (is_nil (nhi_logs nhi)) then None
  else Some (mkRep (nhi_addr nhi) (nhi_api nhi)
                   (map si_shard (nhi_shards nhi))
                   (map (report_shard vers) (nhi_shards nhi))
                   flag (nhi_logs nhi) default_region).

(* NodeHostClient.reportNodeHostInfo: nhi.LogInfo = {} unless announced *)
Definition prepare (nhi : nh_info) (flag : bool) : nh_info :=
  if flag then nhi else mkNHI (nhi_addr nhi) (nhi_api nhi) (nhi_shards nhi) [].

Definition build_report (local : nh_info) (vers : list (N * N)) (flag : bool) : option report :=
  send_report (prepare local flag) vers flag.

(** ** one reporting round over several Drummer servers (node.go reportNodeHostInfo)

    The NodeHostInfo is read and prepared ONCE; the servers are tried in (shuffled) order until one accepted the report.
    Every server answers the index list call from its own view; a server can fail that call (nothing is sent to it) or fail
    the report call after the report arrived.  What each contacted server receives is computed from the same local
    information and from THAT server's versions. *)
Inductive srv_mode := MAccept | MFailReport | MFailIndex.

Fixpoint report_round (local : nh_info) (flag : bool) (servers : list (list (N * N) * srv_mode)) : list (option report) :=
  match servers with
  | [] => []
  | (vers, m) :: t =>
    match m with
    | MFailIndex => None :: report_round local flag t
    | MFailReport => build_report local vers flag :: report_round local flag t
    | MAccept => [build_report local vers flag]
    end
  end.

(** * 2. Requests *)

Inductive rtype := TCreate | TDelete | TAdd | TKill | TUnknown.

Record config := mkCfg {
  c_election : N; c_heartbeat : N; c_checkquorum : bool;
  c_snapshot : N; c_compaction : N; c_maxmem : N }.

(* pb.NodeHostRequest (RaftAddress is not read by the agent) *)
Record request := mkReq {
  q_type : rtype; q_shard : N;
  q_members : list N;               (* Change.Members *)
  q_ccid : N;                       (* Change.ConfChangeId: the fence *)
  q_inst : N;                       (* InstantiateReplicaId *)
  q_join : bool; q_restore : bool;
  q_app : N;                        (* AppName: 0 kvtest, 1 concurrentkv, 2 diskkv, other: no plugin *)
  q_ids : list N; q_addrs : list N; (* ReplicaIdList, AddressList *)
  q_cfg : config }.

Inductive smkind := Regular | Concurrent | OnDisk.

(* plugin.go getPluginMap *)
Definition plugin (app : N) : option smkind :=
  if app =? 0 then Some Regular else if app =? 1 then Some Concurrent
  else if app =? 2 then Some OnDisk else None.

(* Go map insert *)
Fixpoint map_set (k v : N) (m : list (N * N)) : list (N * N) :=
  match m with
  | [] => [(k, v)]
  | (k', v') :: m' => if k' =? k then (k, v) :: m' else (k', v') :: map_set k v m'
  end.

(* for k, v := range req.AddressList { peers[req.ReplicaIdList[k]] = v } ; None = index out of range *)
Fixpoint build_peers (ids addrs : list N) (acc : list (N * N)) : option (list (N * N)) :=
  match addrs with
  | [] => Some acc
  | a :: addrs' =>
    match ids with
    | [] => None
    | i :: ids' => build_peers ids' addrs' (map_set i a acc)
    end
  end.

(* arguments of StartReplica / StartConcurrentReplica / StartOnDiskReplica *)
Record start_args := mkStart {
  sa_kind : smkind; sa_peers : list (N * N); sa_join : bool;
  sa_shard : N; sa_replica : N;
  sa_cfg : config;                  (* getConfig(req) *)
  sa_ordered : bool;                (* config.OrderedConfigChange *)
  sa_noautocompact : bool }.        (* config.DisableAutoCompactions *)

(* arguments of RequestAddReplica / RequestDeleteReplica *)
Record change_args := mkChange {
  ca_add : bool; ca_shard : N; ca_replica : N; ca_addr : N; ca_fence : N }.

Inductive decision :=
| DPanic                            (* the process dies, nothing is called *)
| DIgnore                           (* restore without node info: return *)
| DStart (a : start_args)
| DChange (a : change_args)         (* ordered config change; after a completed delete: RemoveData *)
| DKill (s r : N).                  (* StopReplica; if that worked: RemoveData *)

Definition start_decision (rq : request) (peers : list (N * N)) : decision :=
  match plugin (q_app rq) with
  | None => DPanic                  (* "failed to start the node as the plugin is not ready" *)
  | Some k => DStart (mkStart k peers (q_join rq) (q_shard rq) (q_inst rq) (q_cfg rq) true true)
  end.

(* handleInstantiateRequest; [hi] = NodeHost.HasNodeInfo(shard, InstantiateReplicaId) *)
Definition decide_create (hi : bool) (rq : request) : decision :=
  match q_join rq, q_restore rq with
  | true, false => start_decision rq []                     (* join (repair): node info only warned about *)
  | false, true => if hi then start_decision rq [] else DIgnore          (* restore *)
  | false, false =>                                          (* launch *)
    if hi then DPanic
    else match build_peers (q_ids rq) (q_addrs rq) [] with
         | None => DPanic
         | Some peers => start_decision rq peers
         end
  | true, true => DPanic
  end.

Definition decide (hi : bool) (rq : request) : decision :=
  match q_type rq with
  | TCreate => decide_create hi rq
  | TDelete =>
    match q_members rq with
    | [] => DPanic
    | r :: _ => DChange (mkChange false (q_shard rq) r 0 (q_ccid rq))
    end
  | TAdd =>
    match q_members rq, q_addrs rq with
    | r :: _, url :: _ => DChange (mkChange true (q_shard rq) r url (q_ccid rq))
    | _, _ => DPanic
    end
  | TKill =>
    match q_members rq with
    | [] => DPanic
    | r :: _ => DKill (q_shard rq) r
    end
  | TUnknown => DPanic
  end.

(** ** The abstract NodeHost *)

Inductive start_res := SOk | SErr | SPanic.     (* nil / error (logged) / dragonboat panicked *)
Inductive change_res :=
| ChBenign            (* ErrShardNotFound, a temporary error: return *)
| ChFatal             (* any other error: panic(err) *)
| ChCtxDone           (* the request context expired first *)
| ChCompleted | ChRejected | ChTimeout | ChTerminated | ChDropped
| ChUnknownCode.      (* plog.Panicf("unknown result code") *)

Record nodehost (St : Type) := mkNH {
  nh_has_info : St -> N -> N -> bool;
  nh_start : St -> start_args -> St * start_res;
  nh_change : St -> change_args -> St * change_res;
  nh_stop : St -> N -> N -> St * bool;            (* true: err == nil *)
  nh_remove : St -> N -> N -> St * bool }.        (* true: removed; false: an error other than not-stopped -> panic *)
Arguments nh_has_info {St}. Arguments nh_start {St}. Arguments nh_change {St}.
Arguments nh_stop {St}. Arguments nh_remove {St}.

(* state changing calls, with what the NodeHost answered *)
Inductive event :=
| EStart (a : start_args) (r : start_res)
| EChange (a : change_args) (r : change_res)
| EStop (s r : N) (ok : bool)
| ERemove (s r : N) (ok : bool).

Definition event_shard (e : event) : N :=
  match e with
  | EStart a _ => sa_shard a
  | EChange a _ => ca_shard a
  | EStop s _ _ => s
  | ERemove s _ _ => s
  end.

Inductive outcome := Done | Panicked.

Section Exec.
Context {St : Type}.
Variable nh : nodehost St.

Definition do_remove (st : St) (s r : N) : St * list event * outcome :=
  let '(st', ok) := nh_remove nh st s r in
  (st', [ERemove s r ok], if ok then Done else Panicked).

Definition perform (st : St) (d : decision) : St * list event * outcome :=
  match d with
  | DPanic => (st, [], Panicked)
  | DIgnore => (st, [], Done)
  | DStart a =>
    let '(st1, r) := nh_start nh st a in
    (st1, [EStart a r], match r with SPanic => Panicked | _ => Done end)
  | DChange a =>
    let '(st1, r) := nh_change nh st a in
    match r with
    | ChFatal | ChUnknownCode => (st1, [EChange a r], Panicked)
    | ChCompleted =>
      if ca_add a then (st1, [EChange a r], Done)
      else let '(st2, ev, o) := do_remove st1 (ca_shard a) (ca_replica a) in
           (st2, EChange a r :: ev, o)
    | _ => (st1, [EChange a r], Done)
    end
  | DKill s r =>
    let '(st1, ok) := nh_stop nh st s r in
    if ok then let '(st2, ev, o) := do_remove st1 s r in (st2, EStop s r ok :: ev, o)
    else (st1, [EStop s r ok], Done)
  end.

(* handleRequest *)
Definition handle (st : St) (rq : request) : St * list event * outcome :=
  perform st (decide (nh_has_info nh st (q_shard rq) (q_inst rq)) rq).

(* one worker: the requests of one shard, in order; stops when the process died *)
Fixpoint run_shard (st : St) (rqs : list request) : St * list event * outcome :=
  match rqs with
  | [] => (st, [], Done)
  | rq :: rqs' =>
    let '(st1, ev1, o1) := handle st rq in
    match o1 with
    | Panicked => (st1, ev1, Panicked)
    | Done => let '(st2, ev2, o2) := run_shard st1 rqs' in (st2, ev1 ++ ev2, o2)
    end
  end.

(** ** queue and batch *)

Record agent := mkAgent { queue : list request }.

(* SendNodeHostInfo: if len(requests) > 0 { addRequests } *)
Definition receive (a : agent) (reqs : list request) : agent := mkAgent (queue a ++ reqs).
(* getRequests *)
Definition take (a : agent) : list request * agent := (queue a, mkAgent []).

Definition sub_batch (s : N) (b : list request) : list request :=
  filter (fun rq => q_shard rq =? s) b.

Fixpoint nodupN (l : list N) : list N :=
  match l with
  | [] => []
  | x :: l' => x :: filter (fun y => negb (y =? x)) (nodupN l')
  end.

(* the keys of shardIDMap, in order of first occurrence (the Go map order is arbitrary and
   the workers run concurrently: see [run_seq] and the commutation theorem) *)
Definition shard_ids (b : list request) : list N := nodupN (map q_shard b).

Definition gstate := N -> St.

(* HandleMasterRequests: returns the new agent, the new NodeHost state and, per shard of the
   batch, the calls made by that shard's worker *)
Definition execute (a : agent) (g : gstate) : agent * gstate * list (N * list event * outcome) :=
  let '(b, a') := take a in
  (a',
   fun s => fst (fst (run_shard (g s) (sub_batch s b))),
   map (fun s => let '(_, ev, o) := run_shard (g s) (sub_batch s b) in (s, ev, o)) (shard_ids b)).

(** ** any interleaving of the workers (at request granularity) *)

Definition wstate := N -> St * list event * outcome.   (* per shard: state, calls so far, alive? *)
Definition winit (g : gstate) : wstate := fun s => (g s, [], Done).

Definition wstep (w : wstate) (rq : request) : wstate :=
  let s := q_shard rq in
  let '(st, ev, o) := w s in
  match o with
  | Panicked => w
  | Done =>
    let '(st1, ev1, o1) := handle st rq in
    fun s' => if s' =? s then (st1, ev ++ ev1, o1) else w s'
  end.

Definition run_seq (w : wstate) (l : list request) : wstate := fold_left wstep l w.

(** ** sequences of deliveries and executions *)

Inductive agent_ev := Recv (reqs : list request) | Exec.

(* the batches handed to the workers, in order *)
Fixpoint run_evs (a : agent) (evs : list agent_ev) : agent * list (list request) :=
  match evs with
  | [] => (a, [])
  | Recv reqs :: evs' => run_evs (receive a reqs) evs'
  | Exec :: evs' =>
    let '(b, a1) := take a in
    let '(a2, bs) := run_evs a1 evs' in (a2, b :: bs)
  end.

Fixpoint received (evs : list agent_ev) : list request :=
  match evs with
  | [] => []
  | Recv reqs :: evs' => reqs ++ received evs'
  | Exec :: evs' => received evs'
  end.

End Exec.

(** * 3. The queue at the level of Go slices

    [receive] / [take] above treat the queue as a value.  The Go code works on slices: [addRequests] is
    [append(queue, reqs...)], which writes into the backing array of the queue when its capacity allows and allocates a new
    array otherwise; [getRequests] hands out the slice itself (no copy) and installs [make([]*pb.NodeHostRequest, 0)].  The
    batch handed out is read by the workers of HandleMasterRequests while the reporter goroutine may already deliver again.
    A heap is a list of backing arrays (index = allocation number); a slice is (array, length, capacity), offset 0; an array is
    the list of the cells written so far.  [go_append] is Go's append: cells [len, len+n) are overwritten in place, cells
    behind them stay; the allocator's rounding up of a new capacity is the arbitrary function [slack].
    [h_take_reuse] is the variant "reuse the buffer" ([queue = queue[:0]]), only there to show that the refinement theorem
    (proofs/AgentProofs.v [h_run_refines]) distinguishes the two. *)
Record slice := mkSl { sl_arr : nat; sl_len : nat; sl_cap : nat }.
Definition heap := list (list request).
Definition arr_of (h : heap) (i : nat) : list request := nth i h [].
Definition view (h : heap) (s : slice) : list request := firstn (sl_len s) (arr_of h (sl_arr s)).

Fixpoint set_arr (h : heap) (i : nat) (c : list request) : heap :=
  match h, i with
  | [], _ => []
  | _ :: t, O => c :: t
  | x :: t, S i' => x :: set_arr t i' c
  end.

Definition go_append (slack : nat -> nat) (h : heap) (s : slice) (reqs : list request) : heap * slice :=
  let n := length reqs in
  if Nat.leb (sl_len s + n)%nat (sl_cap s)
  then (set_arr h (sl_arr s)
                (firstn (sl_len s) (arr_of h (sl_arr s)) ++ reqs ++ skipn (sl_len s + n)%nat (arr_of h (sl_arr s))),
        mkSl (sl_arr s) (sl_len s + n)%nat (sl_cap s))
  else (h ++ [view h s ++ reqs], mkSl (length h) (sl_len s + n)%nat (sl_len s + n + slack (sl_len s + n))%nat).

Definition go_make0 (h : heap) : heap * slice := (h ++ [[]], mkSl (length h) 0%nat 0%nat).

Record hagent := mkHA { ha_heap : heap; ha_queue : slice }.

Definition h_receive (slack : nat -> nat) (a : hagent) (reqs : list request) : hagent :=
  let '(h, q) := go_append slack (ha_heap a) (ha_queue a) reqs in mkHA h q.

Definition h_take (a : hagent) : slice * hagent :=
  let '(h, q) := go_make0 (ha_heap a) in (ha_queue a, mkHA h q).

(* the variant that recycles the buffer: dc.req.requests = dc.req.requests[:0] *)
Definition h_take_reuse (a : hagent) : slice * hagent :=
  (ha_queue a, mkHA (ha_heap a) (mkSl (sl_arr (ha_queue a)) 0%nat (sl_cap (ha_queue a)))).

Fixpoint h_run (tk : hagent -> slice * hagent) (slack : nat -> nat) (a : hagent) (evs : list agent_ev) : hagent * list slice :=
  match evs with
  | [] => (a, [])
  | Recv reqs :: evs' => h_run tk slack (h_receive slack a reqs) evs'
  | Exec :: evs' =>
    let '(b, a1) := tk a in
    let '(a2, bs) := h_run tk slack a1 evs' in (a2, b :: bs)
  end.

Definition h_init : hagent := mkHA [[]] (mkSl 0%nat 0%nat 0%nat).
