(** AgentRun: executable agreement predicates evaluated (vm_compute) by the generated cases
    files of the C18 correspondence check (harness/py/c18.py).

    [rcase]: the report received by the scripted Drummer service = [build_report] on the
    local state known to the harness.

    [scenario_ok]: a script of deliveries / executions / direct harness actions is replayed on
    the model; at every observation point the projection of the model state must equal what
    the harness dumped from the real NodeHost (GetNodeHostInfo / HasNodeInfo).  Besides the atomic [SExec] there is the
    pair [SBegin] .. [SEnd] (HandleMasterRequests running on its own goroutine: deliveries in between are made while the batch
    taken at [SBegin] is being worked on and belong to the NEXT execution) and [SRestart] (the NodeHost process restarted on
    its disk: nothing runs, the queue is gone, records / logs / "removed" marks stay).
    For that the abstract NodeHost of Agent.v is instantiated with [ref_nh], a small
    *reference semantics of the dragonboat calls* for the scenario space the generator stays
    in: ONE NodeHost, every Raft group has its quorum on that NodeHost or has none.  [ref_nh]
    is part of the test glue (it is what the observed post-state is compared with), it is
    not used by any theorem of props/C18.v except non-vacuity examples.  Facts it encodes
    (dragonboat v4 nodehost.go startShard/bootstrapShard/stopNode/RemoveData,
    internal/rsm/membership.go handleConfigChange):
    - StartReplica: already running -> error; join with members -> error; no bootstrap record:
      (not join, no members) -> dragonboat panics, else the record is saved; with a record:
      validated against it; then a replica whose data was removed cannot start (error, but
      the bootstrap record stays saved); otherwise it runs.
    - a replica leads iff it is the only member; a membership change needs a leader (else a
      temporary error) and a quorum (else it never completes); it takes the next log index;
      it is applied iff fence = current version, an added replica is neither removed before
      nor a member nor at a member's address, and the only member is not deleted; the new
      version is the log index of the change.
    - StopReplica works iff exactly that replica is running; RemoveData erases the bootstrap
      record / log and, if the replica ever ran here, marks it as removed. *)
From Drummer.Model Require Import Base Agent.

(** * report cases *)

Definition pair_eqb (a b : N * N) : bool := (fst a =? fst b) && (snd a =? snd b).
Definition pairs_eqb := list_eqb pair_eqb.

Definition rep_shard_eqb (a b : rep_shard) : bool :=
  (rs_shard a =? rs_shard b) && (rs_replica a =? rs_replica b) && Bool.eqb (rs_leader a) (rs_leader b) &&
  pairs_eqb (rs_members a) (rs_members b) && (rs_cci a =? rs_cci b) &&
  Bool.eqb (rs_incomplete a) (rs_incomplete b) && Bool.eqb (rs_pending a) (rs_pending b).

Definition report_eqb (a b : report) : bool :=
  (rp_addr a =? rp_addr b) && (rp_api a =? rp_api b) && list_eqb N.eqb (rp_ids a) (rp_ids b) &&
  list_eqb rep_shard_eqb (rp_shards a) (rp_shards b) && Bool.eqb (rp_plog_flag a) (rp_plog_flag b) &&
  pairs_eqb (rp_plog a) (rp_plog b) && (rp_region a =? rp_region b).

(* obs = None: the reporter panicked / nothing was received *)
Definition rcase (local : nh_info) (vers : list (N * N)) (flag : bool) (obs : option report) : bool :=
  opt_eqb report_eqb (build_report local vers flag) obs.

(* SendNodeHostInfo called directly with a hand made NodeHostInfo *)
Definition scase (nhi : nh_info) (vers : list (N * N)) (flag : bool) (obs : option report) : bool :=
  opt_eqb report_eqb (send_report nhi vers flag) obs.

(* one reporting round: [servers] in the order the agent contacted them (then the ones it did not contact), [obs]: what the
   contacted servers received, in that order *)
Definition fcase (local : nh_info) (flag : bool) (servers : list (list (N * N) * srv_mode)) (obs : list (option report)) : bool :=
  list_eqb (opt_eqb report_eqb) (report_round local flag servers) obs.

(** * reference NodeHost (one host) *)

Record replica_st := mkRp {
  p_id : N; p_kind : smkind; p_join : bool;
  p_boot : list (N * N);            (* bootstrap record: initial members *)
  p_members : list (N * N); p_removed : list N;
  p_cci : N;                        (* membership version *)
  p_idx : N }.                      (* last log index *)

Record shard_st := mkSh {
  sh_running : option N;
  sh_leader : bool;                 (* the running replica was elected *)
  sh_reps : list replica_st;        (* replicas with a bootstrap record (HasNodeInfo) *)
  sh_tomb : list N }.               (* replicas whose data was removed *)

Definition sh_empty : shard_st := mkSh None false [] [].

Fixpoint find_rep (r : N) (l : list replica_st) : option replica_st :=
  match l with
  | [] => None
  | p :: l' => if p_id p =? r then Some p else find_rep r l'
  end.

Fixpoint set_rep (p : replica_st) (l : list replica_st) : list replica_st :=
  match l with
  | [] => [p]
  | q :: l' => if p_id q =? p_id p then p :: l' else q :: set_rep p l'
  end.

Definition del_rep (r : N) (l : list replica_st) : list replica_st :=
  filter (fun p => negb (p_id p =? r)) l.

Definition smkind_eqb (a b : smkind) : bool :=
  match a, b with
  | Regular, Regular | Concurrent, Concurrent | OnDisk, OnDisk => true
  | _, _ => false
  end.

Definition sorted_pairs (m : list (N * N)) : list (N * N) := sort_by fst m.

Definition sole_member (r : N) (m : list (N * N)) : bool :=
  match m with
  | [(r', _)] => r' =? r
  | _ => false
  end.

Definition ref_has_info (st : shard_st) (s r : N) : bool :=
  match find_rep r (sh_reps st) with Some _ => true | None => false end.

Definition run_rep (st : shard_st) (p : replica_st) : shard_st * start_res :=
  if memN (p_id p) (sh_tomb st) then (mkSh None false (set_rep p (sh_reps st)) (sh_tomb st), SErr)
  else
    let lead := sole_member (p_id p) (p_members p) in
    let p' := if lead then mkRp (p_id p) (p_kind p) (p_join p) (p_boot p) (p_members p) (p_removed p) (p_cci p) (p_idx p + 1)
              else p in
    (mkSh (Some (p_id p)) lead (set_rep p' (sh_reps st)) (sh_tomb st), SOk).

Definition ref_start (st : shard_st) (a : start_args) : shard_st * start_res :=
  match sh_running st with
  | Some _ => (st, SErr)
  | None =>
    if sa_join a && negb (is_nil (sa_peers a)) then (st, SErr)
    else
      match find_rep (sa_replica a) (sh_reps st) with
      | None =>
        if negb (sa_join a) && is_nil (sa_peers a) then (st, SPanic)
        else
          let n := nlen (sa_peers a) in
          run_rep st (mkRp (sa_replica a) (sa_kind a) (sa_join a) (sa_peers a)
                           (if sa_join a then [] else sa_peers a) [] n n)
      | Some p =>
        if negb (smkind_eqb (p_kind p) (sa_kind a)) then (st, SErr)
        else if p_join p && negb (is_nil (sa_peers a)) then (st, SErr)
        else if sa_join a && negb (is_nil (p_boot p)) then (st, SErr)
        else if negb (is_nil (sa_peers a)) && negb (pairs_eqb (sorted_pairs (sa_peers a)) (sorted_pairs (p_boot p))) then (st, SErr)
        else run_rep st p
      end
  end.

Definition ref_change (st : shard_st) (a : change_args) : shard_st * change_res :=
  match sh_running st with
  | None => (st, ChBenign)
  | Some r =>
    match find_rep r (sh_reps st) with
    | None => (st, ChBenign)
    | Some p =>
      if negb (sh_leader st) then (st, ChBenign)
      else if negb (sole_member r (p_members p)) then (st, ChCtxDone)
      else
        let idx := p_idx p + 1 in
        let tgt := ca_replica a in
        let ok :=
          (ca_fence a =? p_cci p) &&
          (if ca_add a
           then negb (memN tgt (p_removed p)) && negb (memN tgt (map fst (p_members p)))
                && negb (memN (ca_addr a) (map snd (p_members p)))
           else negb (sole_member tgt (p_members p))) in
        if ok then
          let p' := if ca_add a
                    then mkRp (p_id p) (p_kind p) (p_join p) (p_boot p) (p_members p ++ [(tgt, ca_addr a)]) (p_removed p) idx idx
                    else mkRp (p_id p) (p_kind p) (p_join p) (p_boot p)
                              (filter (fun m => negb (fst m =? tgt)) (p_members p)) (tgt :: p_removed p) idx idx in
          (mkSh (sh_running st) (sh_leader st) (set_rep p' (sh_reps st)) (sh_tomb st), ChCompleted)
        else
          let p' := mkRp (p_id p) (p_kind p) (p_join p) (p_boot p) (p_members p) (p_removed p) (p_cci p) idx in
          (mkSh (sh_running st) (sh_leader st) (set_rep p' (sh_reps st)) (sh_tomb st), ChRejected)
    end
  end.

Definition ref_stop (st : shard_st) (s r : N) : shard_st * bool :=
  match sh_running st with
  | Some r' => if r' =? r then (mkSh None false (sh_reps st) (sh_tomb st), true) else (st, false)
  | None => (st, false)
  end.

(* the "removed" mark is a flag file in the replica's snapshot directory: there is one only if the
   replica was started on this host before *)
Definition tomb_add (st : shard_st) (r : N) : list N :=
  if ref_has_info st 0 r || memN r (sh_tomb st) then r :: sh_tomb st else sh_tomb st.

Definition ref_remove (st : shard_st) (s r : N) : shard_st * bool :=
  match sh_running st with
  | Some r' =>
    if r' =? r then (st, true)      (* would wait for ever; not reachable from the agent's decisions here *)
    else (mkSh (sh_running st) (sh_leader st) (del_rep r (sh_reps st)) (tomb_add st r), true)
  | None => (mkSh None false (del_rep r (sh_reps st)) (tomb_add st r), true)
  end.

Definition ref_nh : nodehost shard_st := mkNH shard_st ref_has_info ref_start ref_change ref_stop ref_remove.

(** * scenarios *)

Definition host := list (N * shard_st).       (* shard id -> state, sorted by shard id *)

Fixpoint host_get (h : host) (s : N) : shard_st :=
  match h with
  | [] => sh_empty
  | (s', st) :: h' => if s' =? s then st else host_get h' s
  end.

Fixpoint host_set (h : host) (s : N) (st : shard_st) : host :=
  match h with
  | [] => [(s, st)]
  | (s', st') :: h' =>
    if s' =? s then (s, st) :: h'
    else if s <? s' then (s, st) :: h
    else (s', st') :: host_set h' s st
  end.

(* what DUMP shows for a running replica *)
Record shard_obs := mkSO {
  o_shard : N; o_replica : N; o_pending : bool; o_lead : bool;
  o_members : list (N * N); o_cci : N }.

Record host_obs := mkHO {
  ho_running : list shard_obs;          (* sorted by shard *)
  ho_info : list (N * N * bool);        (* HasNodeInfo answers for the probed pairs *)
  ho_logs : list (N * N) }.             (* ListNodeInfo, sorted *)

Definition obs_shard (s : N) (st : shard_st) : list shard_obs :=
  match sh_running st with
  | None => []
  | Some r =>
    match find_rep r (sh_reps st) with
    | None => []
    | Some p =>
      let pending := is_nil (p_members p) in
      [mkSO s r pending (sh_leader st) (sorted_pairs (p_members p)) (p_cci p)]
    end
  end.

Definition model_obs (h : host) (probe : list (N * N)) : host_obs :=
  mkHO (flat_map (fun x => obs_shard (fst x) (snd x)) h)
       (map (fun sr => (fst sr, snd sr, ref_has_info (host_get h (fst sr)) (fst sr) (snd sr))) probe)
       (flat_map (fun x => map (fun p => (fst x, p_id p)) (sort_by p_id (sh_reps (snd x)))) h).

Definition shard_obs_eqb (a b : shard_obs) : bool :=
  (o_shard a =? o_shard b) && (o_replica a =? o_replica b) && Bool.eqb (o_pending a) (o_pending b) &&
  Bool.eqb (o_lead a) (o_lead b) && pairs_eqb (o_members a) (o_members b) && (o_cci a =? o_cci b).

Definition info_eqb (a b : N * N * bool) : bool :=
  pair_eqb (fst a) (fst b) && Bool.eqb (snd a) (snd b).

Definition host_obs_eqb (a b : host_obs) : bool :=
  list_eqb shard_obs_eqb (ho_running a) (ho_running b) &&
  list_eqb info_eqb (ho_info a) (ho_info b) && pairs_eqb (ho_logs a) (ho_logs b).

Inductive step :=
| SRecv (reqs : list request)           (* a report whose answer carried this batch *)
| SExec (crashed : bool)                (* HandleMasterRequests; crashed: the process died in it *)
| SBegin                                (* HandleMasterRequests started on the request worker's goroutine: the queue is taken *)
| SEnd (crashed : bool)                 (* ... and has returned: the batch taken at SBegin was executed.  Deliveries (SRecv) in
                                           between are made by the reporter goroutine while the batch is being worked on *)
| SStart (a : start_args)               (* harness: StartReplica directly *)
| SStop (s r : N)                       (* harness: StopReplica directly *)
| SRestart                              (* the NodeHost process is stopped and started again on the same disk: every replica is
                                           stopped, the queue of received requests (process memory) is gone *)
| SObs (o : host_obs).                  (* DUMP *)

Definition any_panicked (l : list (N * list event * outcome)) : bool :=
  existsb (fun x => match snd x with Panicked => true | Done => false end) l.

Definition exec_host (a : agent) (h : host) : agent * host * bool :=
  let b := queue a in
  let '(a', g', res) := execute ref_nh a (host_get h) in
  (a', fold_left (fun h' s => host_set h' s (g' s)) (shard_ids b) h, any_panicked res).

(* what survives a restart of the NodeHost process: bootstrap records, logs, "removed" marks -- not the running replicas *)
Definition restart_host (h : host) : host :=
  map (fun x => (fst x, mkSh None false (sh_reps (snd x)) (sh_tomb (snd x)))) h.

(* [run]: the batch a background HandleMasterRequests is working on (taken at SBegin, not yet reflected in [h]) *)
Fixpoint run_steps (a : agent) (run : option (list request)) (h : host) (steps : list step) : bool :=
  match steps with
  | [] => true
  | SRecv reqs :: t => run_steps (receive a reqs) run h t
  | SExec crashed :: t =>
    let '(a', h', p) := exec_host a h in
    Bool.eqb p crashed && (if crashed then true else run_steps a' run h' t)
  | SBegin :: t =>
    match run with
    | Some _ => false
    | None => let '(b, a') := take a in run_steps a' (Some b) h t
    end
  | SEnd crashed :: t =>
    match run with
    | None => false
    | Some b =>
      let '(_, h', p) := exec_host (mkAgent b) h in
      Bool.eqb p crashed && (if crashed then true else run_steps a None h' t)
    end
  | SStart x :: t =>
    let s := sa_shard x in
    run_steps a run (host_set h s (fst (ref_start (host_get h s) x))) t
  | SStop s r :: t => run_steps a run (host_set h s (fst (ref_stop (host_get h s) s r))) t
  | SRestart :: t => run_steps (mkAgent []) None (restart_host h) t
  | SObs o :: t => host_obs_eqb (model_obs h (map fst (ho_info o))) o && run_steps a run h t
  end.

Definition scenario_ok (steps : list step) : bool := run_steps (mkAgent []) None [] steps.

(* for diagnostics: the model's observations at every SObs *)
Fixpoint dbg_steps (a : agent) (run : option (list request)) (h : host) (steps : list step) : list host_obs :=
  match steps with
  | [] => []
  | SRecv reqs :: t => dbg_steps (receive a reqs) run h t
  | SExec crashed :: t =>
    let '(a', h', p) := exec_host a h in
    if p then [mkHO [] [] [(999999, if crashed then 1 else 0)]] else dbg_steps a' run h' t
  | SBegin :: t => let '(b, a') := take a in dbg_steps a' (Some b) h t
  | SEnd crashed :: t =>
    let '(_, h', p) := exec_host (mkAgent (match run with Some b => b | None => [] end)) h in
    if p then [mkHO [] [] [(999999, if crashed then 1 else 0)]] else dbg_steps a None h' t
  | SStart x :: t =>
    let s := sa_shard x in
    dbg_steps a run (host_set h s (fst (ref_start (host_get h s) x))) t
  | SStop s r :: t => dbg_steps a run (host_set h s (fst (ref_stop (host_get h s) s r))) t
  | SRestart :: t => dbg_steps (mkAgent []) None (restart_host h) t
  | SObs o :: t => model_obs h (map fst (ho_info o)) :: dbg_steps a run h t
  end.
Definition scenario_dbg (steps : list step) : list host_obs := dbg_steps (mkAgent []) None [] steps.

(* per shard calls of one execution on the reference NodeHost (used by non-vacuity examples) *)
Definition exec_calls (h : host) (b : list request) : list (N * list event * outcome) :=
  snd (execute ref_nh (mkAgent b) (host_get h)).
