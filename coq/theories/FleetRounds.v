(** FleetRounds: consecutive healthy rounds of the closed loop (Fleet.healthy_round), one scheduler
    outcome per round.  Used by the liveness statements of C01.  No proofs. *)
From stdpp Require Import gmap list numbers.
From Drummer.Model Require Import DB Sched Fleet FleetRun.
Local Open Scope N_scope.

(* [os]: the scheduler's choice in each round; [plogs a]: host a includes its persisted-log list in
   every report; [nticks] ticks pass per round.  None: a panic, or an outcome the scheduler model does
   not allow in that round *)
Fixpoint healthy_rounds (P : params) (plogs : N → bool) (nticks : nat) (os : list outcome) (st : fstate) : option fstate :=
  match os with
  | [] => Some st
  | o :: os' => match healthy_round P plogs nticks o st with
                | Some st' => healthy_rounds P plogs nticks os' st'
                | None => None
                end
  end.

(* the number of rounds after which a replica that stopped reporting is declared failed:
   the smallest k with k * (nticks * step) > ttl *)
Definition detect_rounds (P : params) (nticks : nat) : nat :=
  S (N.to_nat (p_ttl P / (N.of_nat nticks * p_step P))).

(** the decidable conjuncts of FleetHealProofs.Calm (everything but the invariant LoopInv): stored times at
    most the DB time, time has started; every defined shard launched, non-empty, with an application name;
    the view shows defined, launched shards only; every host up with no report in flight; kill list
    empty; every request in Requests / Outgoing / a queue is a restore request for a current member, an
    ADD / DELETE whose fence is not the current membership version, or a KILL of a non-member;
    Drummer's view is at the current version and every current member (non-zero id and address) has
    its data on its host; every member of the view has reported once; the data of a current member is
    on its host only and nothing but current members runs *)
Definition time_okb (d : db) : bool :=
  forallb (λ kv, forallb (λ rn, (r_tick rn.2 <=? d_tick d) && (r_first rn.2 <=? d_tick d)) (map_to_list (s_reps kv.2)))
          (map_to_list (d_view d))
  && forallb (λ ah, h_tick ah.2 <=? d_tick d) (map_to_list (d_hosts d))
  && forallb (λ ar, rp_last_tick ar.2 <=? d_tick d) (map_to_list (d_info d)).

Definition calm_restb (st : fstate) : bool :=
  let d := f_db st in
  time_okb d && (0 <? d_tick d)
  && forallb (λ kv, bool_decide (is_Some (f_hist st !! kv.1)) && negb (bool_decide (sd_members kv.2 = []))
                    && negb (sd_app kv.2 =? 0)) (map_to_list (d_shards d))
  && forallb (λ kv, bool_decide (is_Some (d_shards d !! kv.1)) && bool_decide (is_Some (f_hist st !! kv.1)))
             (map_to_list (d_view d))
  && forallb (λ ah, fh_up ah.2 && bool_decide (fh_out ah.2 = None)) (map_to_list (f_hosts st))
  && bool_decide (d_kill d = [])
  && forallb (λ q, let cur := cur_members (hist_of (f_hist st) (q_shard q)) in
                   (is_restore q && negb (q_join q) && is_member cur (q_inst q))
                   || (is_change q && negb (q_ccid q =? cur_version (hist_of (f_hist st) (q_shard q)))
                       && negb (bool_decide (q_members q = [])) && (negb (is_add q) || negb (bool_decide (q_addrs q = []))))
                   || (is_kill q && match q_members q with [y] => negb (is_member cur y) | _ => false end))
             (FleetRun.all_requests st)
  && forallb (λ kv, match d_view d !! kv.1 with
                    | Some c =>
                      (s_cci c =? cur_version kv.2)
                      && forallb (λ ra, negb (ra.1 =? 0) && negb (ra.2 =? 0) &&
                                        match f_hosts st !! ra.2 with
                                        | Some fh => bool_decide (is_Some (fh_reps fh !! (kv.1, ra.1)))
                                        | None => false
                                        end) (map_to_list (cur_members kv.2))
                    | None => false
                    end) (map_to_list (f_hist st))
  && forallb (λ kv, forallb (λ rn, negb (r_tick rn.2 =? 0)) (map_to_list (s_reps kv.2))) (map_to_list (d_view d))
  && forallb (λ ah, forallb (λ kl, match cur_members (hist_of (f_hist st) kl.1.1) !! kl.1.2 with
                                   | Some a' => a' =? ah.1
                                   | None => negb (lr_running kl.2)
                                   end) (map_to_list (fh_reps ah.2)))
             (map_to_list (f_hosts st)).

(** the state in which the leader schedules: the first four phases of [Fleet.healthy_round] *)
Definition pre_schedule (P : params) (plogs : N → bool) (nticks : nat) (st : fstate) : option fstate :=
  match steps P st (host_addrs st ≫= λ a, [ESnap a (plogs a); EDeliver a false]) with
  | Some st1 =>
    match steps P st1 ((λ a, EExec a true) <$> host_addrs st1) with
    | Some st2 =>
      match steps P st2 (catch_up_events st2) with
      | Some st3 => steps P st3 (replicate nticks ETick)
      | None => None
      end
    | None => None
    end
  | None => None
  end.

(** one healthy round / n healthy rounds in which the scheduler answers with its canonical outcome
    (Sched.canon; new replica ids from [idf]); returns the outcomes and the final state.
    Used by closed examples only. *)
Definition canon_round (P : params) (plogs : N → bool) (nticks : nat) (idf : N → N) (st : fstate) : option (outcome * fstate) :=
  match pre_schedule P plogs nticks st with
  | Some st4 =>
    let o := canon P (ctx_of_db (f_db st4)) idf in
    match healthy_round P plogs nticks o st with Some st' => Some (o, st') | None => None end
  | None => None
  end.
Fixpoint canon_run (P : params) (plogs : N → bool) (nticks : nat) (idf : nat → N → N) (n : nat) (st : fstate)
  : option (list outcome * fstate) :=
  match n with
  | O => Some ([], st)
  | S n' =>
    match canon_round P plogs nticks (idf n') st with
    | Some (o, st1) =>
      match canon_run P plogs nticks idf n' st1 with
      | Some (os, st') => Some (o :: os, st')
      | None => None
      end
    | None => None
    end
  end.

(** the version of Drummer's view of shard s (0: no view) *)
Definition view_ver (d : db) (s : N) : N := match d_view d !! s with Some c => s_cci c | None => 0 end.

(** boolean form of FleetHealProofs.spare: NodeHost a is up, runs no replica of shard s, and is not the address of
    a member of s in any membership from the one Drummer's view shows onwards *)
Definition spareb (st : fstate) (a s : N) : bool :=
  match f_hosts st !! a with
  | Some fh => fh_up fh && forallb (λ kl, negb ((kl.1.1 =? s) && lr_running kl.2)) (map_to_list (fh_reps fh))
  | None => false
  end
  && forallb (λ e, (e.1 <? view_ver (f_db st) s) || forallb (λ ra, negb (ra.2 =? a)) (map_to_list e.2)) (hist_of (f_hist st) s).

(** the decidable conjuncts of FleetMendProofs.Mend and FleetMendAProofs.MendA (everything but LoopInv).
    [okreqb a q]: a request waiting for NodeHost a is harmless (as in Calm), a join-CREATE for a current member whose
    address is a, or a restore request for a removed member where no current member of the shard lives on a. *)
Definition okreqb (st : fstate) (a : N) (q : request) : bool :=
  let cur := cur_members (hist_of (f_hist st) (q_shard q)) in
  (is_restore q && negb (q_join q) && is_member cur (q_inst q))
  || (is_change q && negb (q_ccid q =? cur_version (hist_of (f_hist st) (q_shard q)))
      && negb (bool_decide (q_members q = [])) && (negb (is_add q) || negb (bool_decide (q_addrs q = []))))
  || (is_kill q && match q_members q with [y] => negb (is_member cur y) | _ => false end)
  || (is_create q && q_join q && negb (q_restore q) && bool_decide (cur !! q_inst q = Some a))
  || (is_restore q && negb (q_join q) && bool_decide (is_Some (f_hist st !! q_shard q)) && negb (is_member cur (q_inst q))
      && forallb (λ ra : N * N, negb (ra.2 =? a)) (map_to_list cur)
      && negb (q_shard q =? 0) && negb (q_inst q =? 0) && negb (a =? 0)).

Definition stampedb (d : db) (s rid : N) : bool :=
  match d_view d !! s with
  | Some c => match s_reps c !! rid with Some n => negb (r_tick n =? 0) | None => false end
  | None => false
  end.

(* the member table of shard s: non-zero ids and addresses, the NodeHost exists, a member that has reported has its data *)
Definition members_okb (st : fstate) (s : N) (h : list hentry) : bool :=
  forallb (λ ra, negb (ra.1 =? 0) && negb (ra.2 =? 0) &&
                 match f_hosts st !! ra.2 with
                 | Some fh => negb (stampedb (f_db st) s ra.1) || bool_decide (is_Some (fh_reps fh !! (s, ra.1)))
                 | None => false
                 end) (map_to_list (cur_members h)).

(* the history ends with an ADD or a DELETE of x that the view does not show; every record of the view has reported;
   an added x runs nowhere; some running replica knows the new version *)
Definition runs_nowhere (st : fstate) (s x : N) : bool :=
  forallb (λ ah, match fh_reps ah.2 !! (s, x) with Some lr => negb (lr_running lr) | None => true end) (map_to_list (f_hosts st)).
Definition behindb (st : fstate) (s : N) (h : list hentry) (c : shard) : bool :=
  match h with
  | e1 :: e0 :: _ =>
    (e1.1 =? e0.1 + 1) && (s_cci c =? e0.1)
    && (existsb (λ xt, negb (is_member e0.2 xt.1) && bool_decide (e1.2 = <[xt.1 := xt.2]> e0.2) && runs_nowhere st s xt.1)
                (map_to_list e1.2)
        || existsb (λ xt, bool_decide (e1.2 = delete xt.1 e0.2)) (map_to_list e0.2))
    && forallb (λ rn, negb (r_tick rn.2 =? 0)) (map_to_list (s_reps c))
    && existsb (λ ah, existsb (λ kl, (kl.1.1 =? s) && lr_running kl.2 && (lr_ver kl.2 =? e1.1)) (map_to_list (fh_reps ah.2)))
               (map_to_list (f_hosts st))
  | _ => false
  end.

(* a running replica of a removed member: it knows less than the current membership version, no current member of the
   shard lives on its NodeHost *)
Definition strayokb (st : fstate) (a s rid : N) (lr : lrep) : bool :=
  let h := hist_of (f_hist st) s in
  bool_decide (is_Some (f_hist st !! s)) && (lr_ver lr <? cur_version h)
  && forallb (λ ra : N * N, negb (ra.2 =? a)) (map_to_list (cur_members h))
  && negb (s =? 0) && negb (rid =? 0) && negb (a =? 0).

Definition mend_gen_restb (allow_behind : bool) (st : fstate) : bool :=
  let d := f_db st in
  time_okb d && (0 <? d_tick d)
  && forallb (λ kv, bool_decide (is_Some (f_hist st !! kv.1)) && negb (bool_decide (sd_members kv.2 = []))
                    && negb (sd_app kv.2 =? 0)) (map_to_list (d_shards d))
  && forallb (λ kv, bool_decide (is_Some (d_shards d !! kv.1)) && bool_decide (is_Some (f_hist st !! kv.1)))
             (map_to_list (d_view d))
  && forallb (λ ah, fh_up ah.2 && bool_decide (fh_out ah.2 = None)) (map_to_list (f_hosts st))
  && forallb (λ k, negb (k_shard k =? 0) && negb (k_replica k =? 0) && negb (k_addr k =? 0)) (d_kill d)
  && forallb (λ aq, forallb (okreqb st aq.1) aq.2) (map_to_list (d_requests d))
  && forallb (λ aq, forallb (okreqb st aq.1) aq.2) (map_to_list (d_outgoing d))
  && forallb (λ ah, forallb (okreqb st ah.1) (fh_queue ah.2)) (map_to_list (f_hosts st))
  && forallb (λ kv, match d_view d !! kv.1 with
                    | Some c => ((s_cci c =? cur_version kv.2) || (allow_behind && behindb st kv.1 kv.2 c)) && members_okb st kv.1 kv.2
                    | None => false
                    end) (map_to_list (f_hist st))
  && forallb (λ kv, forallb (λ rn, negb (r_tick rn.2 =? 0) || negb (r_first rn.2 =? 0)) (map_to_list (s_reps kv.2))
                    && bool_decide (length (filter (λ rn : N * replica, r_tick rn.2 = 0%N) (map_to_list (s_reps kv.2))) ≤ 1)%nat)
             (map_to_list (d_view d))
  && forallb (λ ah, forallb (λ kl, match cur_members (hist_of (f_hist st) kl.1.1) !! kl.1.2 with
                                   | Some a' => a' =? ah.1
                                   | None => negb (lr_running kl.2) || strayokb st ah.1 kl.1.1 kl.1.2 kl.2
                                   end) (map_to_list (fh_reps ah.2)))
             (map_to_list (f_hosts st)).

Definition mend_restb : fstate → bool := mend_gen_restb false.
Definition menda_restb : fstate → bool := mend_gen_restb true.
