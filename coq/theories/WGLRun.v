(** WGLRun: executable agreement predicates and compact constructors used by the
    generated cases files of the C06 correspondence check. *)
From Drummer.Model Require Import Base Register WGL.
From Coq Require Import ZArith.

(* calls *)
Definition cR (id : N) : event := Call id Read.
Definition cW (id : N) (v : Z) : event := Call id (Write v).
Definition cK (id : N) (a b : Z) : event := Call id (Cas a b).
(* returns: etcdOutput{ok, exists, value, unknown} with flags as 0/1 *)
Definition rt (id : N) (ok ex : N) (v : Z) (unk : N) : event :=
  Ret id (mkOut (negb (ok =? 0)) (negb (ex =? 0)) v (negb (unk =? 0))).

(* one case: the generated history is well formed and the model's verdict equals the observed Go verdict *)
Definition wcase (h : history) (obs : bool) : bool :=
  wfb h && Bool.eqb (check h) obs.
