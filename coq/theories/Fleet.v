(** Fleet: executable model of the CLOSED LOOP  report -> schedule -> deliver -> execute
    (properties C01, and the closed-loop consequences of C02 and C11; DESIGN.md Appendix C).

    State  = (db, hosts, hist, seen)
      db     the replicated Drummer DB (DB.v; db_step is DB.Update)
      hosts  addr |-> { up; region; reps : (shard, replica) |-> { running; known version };
                        queue (requests received, not yet executed); out (a report in flight) }
             a replica is present in [reps] iff its persisted data exists on the host;
             known version 0 = nothing applied yet (dragonboat reports it as Pending)
      hist   per shard the LINEAR MEMBERSHIP HISTORY, newest entry first: the abstract Raft with
             ordered config change.  A change with fence v applies iff v is the current version,
             a majority of the current members runs on live hosts and the proposing replica is a
             current member; it prepends (v+1, members').
      seen   ghost: every replica id the random source ever produced plus the initial ids
             (only used to state the [fresh_id] hypothesis of the theorems).

    Events (every nondeterministic choice is a parameter of the event):
      ETick | ESnap h plog | EDeliver h lost_reply | ESchedule o | EExec h ccok | ECrash h | ERestart h
      | ELearn h s r v
    - ESnap: a live host builds its report (client/nodehost.go SendNodeHostInfo: running replicas with
      their known version, membership omitted when Drummer's version is not older - the
      "incomplete" rule -, persisted logs when announced) and keeps it in flight; a later ESnap
      overwrites it (= a lost report), EDeliver applies it to the DB (= delayed by everything in
      between) and appends the reply (the requests handed out, db.go Outgoing) to the host's queue
      unless the reply is lost.
    - ESchedule o: one round of the leader loop (drummer.go schedule/maintainShards + updateRequests);
      o is ANY outcome the scheduler model allows in the context of the current DB
      ([Sched.allowed]); an error or panic drops the round.
    - EExec: client/nodehost.go HandleMasterRequests on the queue: launch / join / restore start a
      replica, ADD / DELETE go through the ordered config change (ccok = false: it times out; when it
      completes the proposing replica has applied it and knows the new version), a completed DELETE
      and a KILL remove the data on the executing host.
    - ECrash: the host process dies, data is preserved; ERestart: it comes back, nothing runs until
      Drummer asks for a restore.
    - ELearn: a running replica applies the config change of version v (arbitrary lag); a replica
      that applies its own removal stops.
    [healthy_round] is the macro step of C01: no fault; every host reports and receives the reply,
    every host executes, Raft catches up where a majority runs, time passes, the leader schedules.

    [fres]: FOk st' | FDisabled (the event is not enabled) | FPanic (a Go panic of the DB state
    machine or of the NodeHost agent; C01_no_panic shows it is unreachable).

    Not modelled: Raft itself, wall-clock time, gRPC; a report in flight dies with its host.
    No proofs in this file. *)
From stdpp Require Import gmap list numbers sorting.
From Drummer.Model Require Import DB Sched.
Local Open Scope N_scope.

Record lrep := mkLRep { lr_running : bool; lr_ver : N }.
Record fhost := mkFHost { fh_up : bool; fh_region : N; fh_reps : gmap (N * N) lrep;
                          fh_queue : list request; fh_out : option report }.
Definition hentry : Type := N * gmap N N.          (* version, replica id -> address *)
Record fstate := mkF { f_db : db; f_hosts : gmap N fhost; f_hist : gmap N (list hentry); f_seen : gset N }.

(** * The membership history *)
Definition hist_of (hist : gmap N (list hentry)) (s : N) : list hentry := default [] (hist !! s).
Fixpoint entry_at (h : list hentry) (v : N) : option (gmap N N) :=
  match h with
  | [] => None
  | e :: h' => if e.1 =? v then Some e.2 else entry_at h' v
  end.
Definition is_member (M : gmap N N) (rid : N) : bool := match M !! rid with Some _ => true | None => false end.
(* the id was a member of some entry *)
Definition used_in (h : list hentry) (rid : N) : bool := existsb (λ e, is_member e.2 rid) h.
(* version v records the removal of rid: not a member at v, a member at an earlier version *)
Definition removed_at (h : list hentry) (rid v : N) : bool :=
  match entry_at h v with
  | Some M => negb (is_member M rid) && existsb (λ e, (e.1 <? v) && is_member e.2 rid) h
  | None => false
  end.
Definition cur_members (h : list hentry) : gmap N N := match h with e :: _ => e.2 | [] => ∅ end.
Definition cur_version (h : list hentry) : N := match h with e :: _ => e.1 | [] => 0 end.

(** * Hosts *)
Definition set_reps (hosts : gmap N fhost) (a : N) (reps : gmap (N * N) lrep) : gmap N fhost :=
  match hosts !! a with
  | Some fh => <[a := mkFHost (fh_up fh) (fh_region fh) reps (fh_queue fh) (fh_out fh)]> hosts
  | None => hosts
  end.
(* ids of the running replicas of shard s (dragonboat runs at most one per NodeHost) *)
Definition running_of (reps : gmap (N * N) lrep) (s : N) : list N :=
  (λ kv, kv.1.2) <$> filter (λ kv, kv.1.1 = s ∧ lr_running kv.2 = true) (map_to_list reps).
Definition busy (reps : gmap (N * N) lrep) (s : N) : bool := negb (bool_decide (running_of reps s = [])).
Definition member_running (hosts : gmap N fhost) (s rid a : N) : bool :=
  match hosts !! a with
  | Some fh => fh_up fh && match fh_reps fh !! (s, rid) with Some lr => lr_running lr | None => false end
  | None => false
  end.
Definition n_running (hosts : gmap N fhost) (s : N) (M : gmap N N) : nat :=
  length (filter (λ kv, member_running hosts s kv.1 kv.2 = true) (map_to_list M)).
Definition quorum_running (hosts : gmap N fhost) (s : N) (M : gmap N N) : bool :=
  bool_decide (quorum_of (size M) ≤ n_running hosts s M)%nat.

(** * Reports (the agent side of C18, specialised to the abstract NodeHost) *)
Definition key_le (a b : N * N) : Prop := a.1 < b.1 ∨ (a.1 = b.1 ∧ a.2 ≤ b.2).
Global Instance key_le_dec a b : Decision (key_le a b).
Proof. unfold key_le. apply _. Defined.
Definition rep_le (x y : (N * N) * lrep) : Prop := key_le x.1 y.1.
Global Instance rep_le_dec x y : Decision (rep_le x y).
Proof. unfold rep_le. apply _. Defined.
Definition sorted_reps (reps : gmap (N * N) lrep) : list ((N * N) * lrep) := merge_sort rep_le (map_to_list reps).

Definition view_vers (d : db) : gmap N N := s_cci <$> d_view d.   (* GetShardConfigChangeIndexList *)

Definition rep_info (vers : gmap N N) (hist : gmap N (list hentry)) (k : N * N) (lr : lrep) : shard_info :=
  if lr_ver lr =? 0 then mkSI k.1 k.2 false ∅ 0 false true
  else
    let inc := match vers !! k.1 with Some dv => lr_ver lr <=? dv | None => false end in
    mkSI k.1 k.2 false (if inc then ∅ else default ∅ (entry_at (hist_of hist k.1) (lr_ver lr))) (lr_ver lr) inc false.

Definition host_report (d : db) (hist : gmap N (list hentry)) (a : N) (fh : fhost) (plog : bool) : report :=
  let rs := sorted_reps (fh_reps fh) in
  let run := filter (λ kv, lr_running kv.2 = true) rs in
  mkReport a ((λ kv, rep_info (view_vers d) hist kv.1 kv.2) <$> run) ((λ kv, kv.1.1) <$> run) 0
           plog (if plog then rs.*1 else []) (fh_region fh) 0.

(** * Executing requests (client/nodehost.go handleRequest) *)
Definition xstate : Type := gmap N fhost * gmap N (list hentry).

(* the ordered config change goes through: proposed by a running current member, fence current,
   a majority of the current members running on live hosts *)
Definition cc_ready (ccok : bool) (hosts : gmap N fhost) (reps : gmap (N * N) lrep) (s : N) (v : N) (M : gmap N N)
  (fence : N) : bool :=
  ccok && existsb (is_member M) (running_of reps s) && (fence =? v) && quorum_running hosts s M.

(* the replica that proposed a config change has applied it when the request completes: it knows the new version *)
Definition learn_local (reps : gmap (N * N) lrep) (s : N) (M : gmap N N) (v : N) : gmap (N * N) lrep :=
  map_imap (λ k lr, Some (if bool_decide (k.1 = s) && lr_running lr && is_member M k.2 then mkLRep true v else lr)) reps.

Definition start_existing (h : N) (x : xstate) (reps : gmap (N * N) lrep) (s rid : N) (lr : lrep) : xstate :=
  if busy reps s || removed_at (hist_of x.2 s) rid (lr_ver lr) then x
  else (set_reps x.1 h (<[(s, rid) := mkLRep true (lr_ver lr)]> reps), x.2).

(* None = the agent panics *)
Definition exec_req (h : N) (ccok : bool) (x : xstate) (q : request) : option xstate :=
  match x.1 !! h with
  | None => Some x
  | Some fh =>
    let reps := fh_reps fh in
    let s := q_shard q in
    let hs := hist_of x.2 s in
    match q_type q with
    | RCreate =>
      let k := (s, q_inst q) in
      match q_join q, q_restore q with
      | true, true => None                                   (* "unknown join && restore combination" *)
      | false, false =>                                      (* launch *)
        match reps !! k with
        | Some _ => None                                     (* "node info found, launch failed" *)
        | None => Some (if busy reps s then x else (set_reps x.1 h (<[k := mkLRep true 1]> reps), x.2))
        end
      | true, false =>                                       (* join (repair) *)
        match reps !! k with
        | Some lr => Some (start_existing h x reps s (q_inst q) lr)
        | None => Some (if busy reps s then x else (set_reps x.1 h (<[k := mkLRep true 0]> reps), x.2))
        end
      | false, true =>                                       (* restore *)
        match reps !! k with
        | Some lr => Some (start_existing h x reps s (q_inst q) lr)
        | None => Some x                                     (* "node info not found, disk has been replaced?" *)
        end
      end
    | RAdd =>
      match q_members q, q_addrs q with
      | rid :: _, t :: _ =>
        Some (match hs with
              | e :: _ =>
                if cc_ready ccok x.1 reps s e.1 e.2 (q_ccid q) && negb (used_in hs rid)
                then (set_reps x.1 h (learn_local reps s e.2 (e.1 + 1)), <[s := (e.1 + 1, <[rid := t]> e.2) :: hs]> x.2) else x
              | [] => x
              end)
      | _, _ => None                                         (* index out of range *)
      end
    | RDelete =>
      match q_members q with
      | rid :: _ =>
        Some (match hs with
              | e :: _ =>
                if cc_ready ccok x.1 reps s e.1 e.2 (q_ccid q) && is_member e.2 rid
                then (set_reps x.1 h (delete (s, rid) (learn_local reps s e.2 (e.1 + 1))),
                      <[s := (e.1 + 1, delete rid e.2) :: hs]> x.2) else x
              | [] => x
              end)
      | [] => None
      end
    | RKill =>
      match q_members q with
      | rid :: _ =>
        Some (match reps !! (s, rid) with
              | Some lr => if lr_running lr then (set_reps x.1 h (delete (s, rid) reps), x.2) else x
              | None => x
              end)
      | [] => None
      end
    end
  end.

Fixpoint exec_all (h : N) (ccok : bool) (x : xstate) (qs : list request) : option xstate :=
  match qs with
  | [] => Some x
  | q :: qs' => match exec_req h ccok x q with
                | Some x' => exec_all h ccok x' qs'
                | None => None
                end
  end.

(** * Events and the step function *)
Inductive event :=
| ETick
| ESnap (h : N) (plog : bool)
| EDeliver (h : N) (lost : bool)
| ESchedule (o : outcome)
| EExec (h : N) (ccok : bool)
| ECrash (h : N)
| ERestart (h : N)
| ELearn (h s r v : N).

Inductive fres := FOk (st : fstate) | FDisabled | FPanic.

(* the new replica ids of a batch *)
Definition add_ids (b : list request) : list N := concat (q_members <$> filter (λ q, is_add q = true) b).

Definition set_db (st : fstate) (d : db) : fstate := mkF d (f_hosts st) (f_hist st) (f_seen st).
Definition set_host (st : fstate) (a : N) (fh : fhost) : fstate :=
  mkF (f_db st) (<[a := fh]> (f_hosts st)) (f_hist st) (f_seen st).

Section Step.
Variable P : params.

Definition fstep (st : fstate) (ev : event) : fres :=
  match ev with
  | ETick =>
    match db_step P (f_db st) CTick with
    | SOk d' _ => FOk (set_db st d')
    | _ => FPanic
    end
  | ESnap h plog =>
    match f_hosts st !! h with
    | Some fh =>
      if fh_up fh then
        FOk (set_host st h (mkFHost true (fh_region fh) (fh_reps fh) (fh_queue fh)
                                     (Some (host_report (f_db st) (f_hist st) h fh plog))))
      else FDisabled
    | None => FDisabled
    end
  | EDeliver h lost =>
    match f_hosts st !! h with
    | Some fh =>
      if fh_up fh then
        match fh_out fh with
        | Some r =>
          match db_step P (f_db st) (CReport r) with
          | SOk d' _ =>
            let reply := if lost then [] else lookup_requests d' h in
            FOk (mkF d' (<[h := mkFHost true (fh_region fh) (fh_reps fh) (fh_queue fh ++ reply) None]> (f_hosts st))
                     (f_hist st) (f_seen st))
          | _ => FPanic
          end
        | None => FDisabled
        end
      else FDisabled
    | None => FDisabled
    end
  | ESchedule o =>
    if allowed P (ctx_of_db (f_db st)) o then
      match o with
      | OBatch [] => FOk st                                  (* updateRequests: nothing to propose *)
      | OBatch b =>
        match db_step P (f_db st) (CRequests b) with
        | SOk d' _ => FOk (mkF d' (f_hosts st) (f_hist st) (f_seen st ∪ list_to_set (add_ids b)))
        | _ => FPanic
        end
      | _ => FOk st                                          (* the round is dropped *)
      end
    else FDisabled
  | EExec h ccok =>
    match f_hosts st !! h with
    | Some fh =>
      if fh_up fh then
        let hosts0 := <[h := mkFHost true (fh_region fh) (fh_reps fh) [] (fh_out fh)]> (f_hosts st) in
        match exec_all h ccok (hosts0, f_hist st) (fh_queue fh) with
        | Some x => FOk (mkF (f_db st) x.1 x.2 (f_seen st))
        | None => FPanic
        end
      else FDisabled
    | None => FDisabled
    end
  | ECrash h =>
    match f_hosts st !! h with
    | Some fh =>
      if fh_up fh then
        FOk (set_host st h (mkFHost false (fh_region fh) ((λ lr, mkLRep false (lr_ver lr)) <$> fh_reps fh) [] None))
      else FDisabled
    | None => FDisabled
    end
  | ERestart h =>
    match f_hosts st !! h with
    | Some fh =>
      if fh_up fh then FDisabled
      else FOk (set_host st h (mkFHost true (fh_region fh) (fh_reps fh) (fh_queue fh) (fh_out fh)))
    | None => FDisabled
    end
  | ELearn h s r v =>
    match f_hosts st !! h with
    | Some fh =>
      match fh_reps fh !! (s, r) with
      | Some lr =>
        if fh_up fh && lr_running lr && (lr_ver lr <? v) && bool_decide (is_Some (entry_at (hist_of (f_hist st) s) v)) then
          FOk (set_host st h (mkFHost true (fh_region fh)
                 (<[(s, r) := mkLRep (negb (removed_at (hist_of (f_hist st) s) r v)) v]> (fh_reps fh))
                 (fh_queue fh) (fh_out fh)))
        else FDisabled
      | None => FDisabled
      end
    | None => FDisabled
    end
  end.

(* a list of events; events that are not enabled are skipped; None = panic *)
Fixpoint steps (st : fstate) (evs : list event) : option fstate :=
  match evs with
  | [] => Some st
  | ev :: evs' =>
    match fstep st ev with
    | FOk st' => steps st' evs'
    | FDisabled => steps st evs'
    | FPanic => None
    end
  end.

(** * The healthy round *)
Definition host_addrs (st : fstate) : list N := merge_sort N.le ((map_to_list (f_hosts st)).*1).

(* Raft catches up: every running current member of a shard whose majority runs learns the current version *)
Definition catch_up_events (st : fstate) : list event :=
  host_addrs st ≫= λ a,
    match f_hosts st !! a with
    | Some fh =>
      (sorted_reps (fh_reps fh)) ≫= λ kv,
        let hs := hist_of (f_hist st) kv.1.1 in
        if is_member (cur_members hs) kv.1.2 && quorum_running (f_hosts st) kv.1.1 (cur_members hs)
        then [ELearn a kv.1.1 kv.1.2 (cur_version hs)] else []
    | None => []
    end.

(* [plogs a]: host a includes its persisted-log list in this round's report; [nticks] ticks pass;
   [o] is the scheduler's choice *)
Definition healthy_round (plogs : N → bool) (nticks : nat) (o : outcome) (st : fstate) : option fstate :=
  match steps st (host_addrs st ≫= λ a, [ESnap a (plogs a); EDeliver a false]) with
  | Some st1 =>
    match steps st1 ((λ a, EExec a true) <$> host_addrs st1) with
    | Some st2 =>
      match steps st2 (catch_up_events st2) with
      | Some st3 =>
        match steps st3 (replicate nticks ETick) with
        | Some st4 => match fstep st4 (ESchedule o) with FOk st5 => Some st5 | _ => None end
        | None => None
        end
      | None => None
      end
    | None => None
    end
  | None => None
  end.
End Step.

(** * What the property talks about *)
Definition shard_size (d : db) (s : N) : nat :=
  match d_shards d !! s with Some sd => length (sd_members sd) | None => 0%nat end.

(* every defined shard: available in Drummer's view, every current member running on a live host,
   at least as many members as defined *)
Definition shard_healed (P : params) (st : fstate) (s : N) : bool :=
  let hs := hist_of (f_hist st) s in
  match to_shard_state P (f_db st) s with
  | Some ss => negb (ss_unavailable ss)
  | None => false
  end
  && bool_decide (shard_size (f_db st) s ≤ size (cur_members hs))%nat
  && forallb (λ kv, member_running (f_hosts st) s kv.1 kv.2) (map_to_list (cur_members hs)).
Definition healed (P : params) (st : fstate) : bool :=
  forallb (λ kv, shard_healed P st kv.1) (map_to_list (d_shards (f_db st))).

(* a running replica that is not a current member *)
Definition strays (st : fstate) : list (N * N * N) :=
  map_to_list (f_hosts st) ≫= λ ah,
    (λ kv, (ah.1, kv.1.1, kv.1.2)) <$>
      filter (λ kv, lr_running kv.2 = true ∧ is_member (cur_members (hist_of (f_hist st) kv.1.1)) kv.1.2 = false)
             (map_to_list (fh_reps ah.2)).
