(** JepsenTextRun: executable agreement predicates for the text-form part of the C07 check:
    hand-written log texts are given as lines + terminators, rendered by the model ([render]) and
    by the harness; length and byte sum of the two renderings are compared so that a disagreement
    between the two renderers cannot go unnoticed. *)
From Coq Require Import String ZArith.
From Drummer.Model Require Import Base Register Jepsen JepsenRun JepsenText.
Open Scope N_scope.

Definition text_sig_ok (t : list N) (len sum : N) : bool :=
  (N.of_nat (length t) =? len) && (fold_left N.add t 0 =? sum).

(** [obs] = what the real ParseJepsenLog returned for the text; [ok] = the harness's own opinion on
    whether the text is a well-formed text form (must be the model's [text_ok]) *)
Definition tcase (ls : list tline) (len sum : N) (ok : bool) (obs : history) : list bool :=
  let t := render ls in
  [text_sig_ok t len sum; Bool.eqb (text_ok ls) ok; fcase_parse t obs].

(** [k] copies of byte [c] *)
Definition rep (c k : N) : list N := repeat c (N.to_nat k).
