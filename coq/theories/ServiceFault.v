(** ServiceFault: calls of the Drummer service that FAIL in the middle of a sequence
    (the allowance of the proposal inside the call is too small, the client's context
    is cancelled or expires while the call runs, the proposal times out in flight).

    Rule (server.go issues at most ONE proposal per call, and a client session makes
    it apply at most once): a call that is answered with an error because it was cut
    short either proposed nothing - later calls see the DB as if it had not happened -
    or its proposal went through although the client was told otherwise - later calls
    see the DB exactly as if it had succeeded.  One of the two, consistently from
    then on; nothing in between, and never the death of the replica.

    The executor cannot tell which of the two happened (a timeout is ambiguous), so
    the trace checker evaluated by the generated cases files keeps the SET of states
    the history allows ([nd_step]) and prunes it with every later observation;
    [check_resolved] is the specification (the resolution given explicitly) and
    ServiceFaultProofs.nd_exact shows that the set-valued checker accepts exactly the
    traces that have a resolution. *)
From stdpp Require Import gmap list numbers.
From Drummer.Model Require Import DB DBRun Service ServiceRun.
Local Open Scope N_scope.

Inductive fitem :=
| FItem (it : sitem)          (* executed to the end, answer observed *)
| FFailed (c : call).         (* cut short by an injected fault and answered with an error *)

(** what a failed call leaves behind: everything or nothing *)
Definition resolve_step (P : params) (s : rstate) (c : call) (applied : bool) : rstate :=
  if applied then (svc_step P s c).1 else s.

(** the commands a failed call contributed to the replicated log *)
Definition failed_cmds (c : call) (applied : bool) : list cmd := if applied then call_cmds c else [].

(** specification: the trace is explained by the resolution [res] (one bool per failed call, in order) *)
Fixpoint check_resolved (P : params) (s : rstate) (its : list fitem) (res : list bool) : bool :=
  match its with
  | [] => true
  | FItem it :: r => let '(s', b) := check_sitem P s it in b && check_resolved P s' r res
  | FFailed c :: r =>
    match res with
    | [] => false
    | a :: res' => check_resolved P (resolve_step P s c a) r res'
    end
  end.

(** the executable checker: the set of states the history allows so far *)
Definition keep_sitem (P : params) (it : sitem) (s : rstate) : option rstate :=
  let '(s', b) := check_sitem P s it in if b then Some s' else None.

Definition nd_step (P : params) (ss : list rstate) (it : fitem) : list rstate :=
  match it with
  | FItem it => omap (keep_sitem P it) ss
  | FFailed c => ss ++ ((λ s, (svc_step P s c).1) <$> ss)
  end.

Definition nonempty {A} (l : list A) : bool := match l with [] => false | _ => true end.

(* one flag per item: is the history up to and including this item still explained by some resolution? *)
Fixpoint check_ftrace_from (P : params) (ss : list rstate) (its : list fitem) : list bool :=
  match its with
  | [] => []
  | it :: r => let ss' := nd_step P ss it in nonempty ss' :: check_ftrace_from P ss' r
  end.
Definition check_ftrace (P : params) (its : list fitem) : list bool := check_ftrace_from P [Live db_init] its.

Definition all_true (l : list bool) : bool := forallb id l.
