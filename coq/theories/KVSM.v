(** KVSM: model of the three test state machines of /repo/tests — property C15.

    - tests/kvtest.go        KVTest            (sm.IStateMachine,           JSON snapshot)
    - tests/concurrentkv.go  ConcurrentKVTest  (sm.IConcurrentStateMachine, JSON snapshot)
    - tests/diskkv.go        DiskKVTest        (sm.IOnDiskStateMachine,     pebble key space)

    Strings are byte lists ([list N]).  Go maps / the pebble key space are
    *sorted* association lists (order = Go string comparison = bytes.Compare), a
    canonical form: equal maps are equal lists, and the listing is exactly what
    [json.Marshal] (sorts map keys) and the pebble iterator (key order) write into
    hash pre-images and snapshots.  Commands are decoded with the codec model of
    KVCodec.v (kv.KV.UnmarshalBinary) into a FRESH kv.KV.  A Go [panic] (decode
    error, index not moving forward, operation the machine does not offer) is
    the outcome [None] (fail-stop).

    The model describes the intended behaviour for the two defects repaired by
    fix: commits (pooled decode object reset before use; Sync does not write
    into the key space) and reproduces the open finding C15-json-utf8
    ([coerce]: encoding/json replaces every byte that is not part of a valid
    UTF-8 sequence by U+FFFD).

    Not modelled: pebble internals, sync.Map, concurrency of lookups and
    updates, the 6 MB of random rubbish in front of a DiskKV snapshot (skipped
    by RecoverFromSnapshot), the Colfer framing of the pairs inside a DiskKV
    snapshot (the codec round trip is property C20), md5 (only hash *equality*
    is observed; the model exposes the hash pre-image). *)
From Drummer.Model Require Import Base KVCodec.

Definition bytes := list N.

(** * Byte-string order *)
Fixpoint bcmp (a b : bytes) : comparison :=
  match a, b with
  | [], [] => Eq
  | [], _ :: _ => Lt
  | _ :: _, [] => Gt
  | x :: a', y :: b' => match N.compare x y with Eq => bcmp a' b' | c => c end
  end.
Definition beqb (a b : bytes) : bool := match bcmp a b with Eq => true | _ => false end.

(** * Sorted association lists *)
Definition amap := list (bytes * bytes).

Fixpoint put (k v : bytes) (m : amap) : amap :=
  match m with
  | [] => [(k, v)]
  | (k', v') :: m' =>
    match bcmp k k' with
    | Lt => (k, v) :: m
    | Eq => (k, v) :: m'
    | Gt => (k', v') :: put k v m'
    end
  end.

Fixpoint find (k : bytes) (m : amap) : option bytes :=
  match m with
  | [] => None
  | (k', v') :: m' => if beqb k k' then Some v' else find k m'
  end.

(* a Go map / key space rebuilt by inserting a listing in order: later duplicates win *)
Definition of_list (l : list (bytes * bytes)) : amap :=
  fold_left (fun acc kv => put (fst kv) (snd kv) acc) l [].

Definition pair_eqb (a b : bytes * bytes) : bool := beqb (fst a) (fst b) && beqb (snd a) (snd b).
Definition pairs_eqb : list (bytes * bytes) -> list (bytes * bytes) -> bool := list_eqb pair_eqb.

(** * encoding/json string coercion (open finding C15-json-utf8)

    [appendString] copies valid UTF-8 (escaping is injective) and writes
    the escape of U+FFFD for every byte at which [utf8.DecodeRuneInString] returns
    (RuneError, 1).  [lead] is the first-byte table of unicode/utf8: number of
    continuation bytes and the accept range of the second byte. *)
Definition cont (b : N) : bool := (128 <=? b) && (b <=? 191).

Definition lead (b : N) : option (nat * N * N) :=
  if b <? 194 then None                                   (* 80..C1 *)
  else if b <=? 223 then Some (1%nat, 128, 191)           (* C2..DF *)
  else if b =? 224 then Some (2%nat, 160, 191)            (* E0 *)
  else if b =? 237 then Some (2%nat, 128, 159)            (* ED *)
  else if b <=? 239 then Some (2%nat, 128, 191)           (* E1..EC EE EF *)
  else if b =? 240 then Some (3%nat, 144, 191)            (* F0 *)
  else if b <=? 243 then Some (3%nat, 128, 191)           (* F1..F3 *)
  else if b =? 244 then Some (3%nat, 128, 143)            (* F4 *)
  else None.                                              (* F5..FF *)

(* number of continuation bytes of the valid multi-byte sequence [b0 :: r...]; 0 = invalid *)
Definition seq_ok (b0 : N) (r : bytes) : nat :=
  match lead b0 with
  | None => 0%nat
  | Some (n, lo, hi) =>
    match r with
    | [] => 0%nat
    | b1 :: r1 =>
      if (lo <=? b1) && (b1 <=? hi) then
        match n with
        | 1%nat => 1%nat
        | 2%nat => match r1 with b2 :: _ => if cont b2 then 2%nat else 0%nat | _ => 0%nat end
        | _ => match r1 with b2 :: b3 :: _ => if cont b2 && cont b3 then 3%nat else 0%nat | _ => 0%nat end
        end
      else 0%nat
    end
  end.

(* the text of a JSON string, up to the injective escaping of valid content: [Some b] = a byte that is copied
   (possibly escaped), [None] = the six characters backslash-u-f-f-f-d written for an invalid byte.  A literal
   U+FFFD in the input is copied as its three bytes, so the text (and the hash) distinguishes the two; decoding
   ([junescape], json.Unmarshal) does not. *)
Definition jstr := list (option N).

Fixpoint jtext_aux (skip : nat) (s : bytes) : jstr :=
  match s with
  | [] => []
  | b :: r =>
    match skip with
    | S k => Some b :: jtext_aux k r
    | O => if b <? 128 then Some b :: jtext_aux 0 r
           else match seq_ok b r with
                | O => None :: jtext_aux 0 r
                | n => Some b :: jtext_aux n r
                end
    end
  end.
Definition jtext : bytes -> jstr := jtext_aux 0.

Definition junescape (t : jstr) : bytes :=
  flat_map (fun x => match x with Some b => [b] | None => [239; 191; 189] end) t.

(* what a string becomes after json.Marshal + json.Unmarshal *)
Definition coerce_aux (skip : nat) (s : bytes) : bytes := junescape (jtext_aux skip s).
Definition coerce (s : bytes) : bytes := junescape (jtext s).

Fixpoint valid_aux (skip : nat) (s : bytes) : bool :=
  match s with
  | [] => true
  | b :: r =>
    match skip with
    | S k => valid_aux k r
    | O => if b <? 128 then valid_aux 0 r
           else match seq_ok b r with
                | O => false
                | n => valid_aux n r
                end
    end
  end.
(* utf8.ValidString *)
Definition utf8_valid : bytes -> bool := valid_aux 0.

(** * Entries and their effect on a map *)
Definition entry := (N * bytes)%type.          (* sm.Entry{Index, Cmd} *)

(* kv.KV{}.UnmarshalBinary(cmd); any error is panic(err) in all three machines *)
Definition decode_cmd (sm : N) (cmd : bytes) : option (bytes * bytes) :=
  match unmarshal_binary_ix sm (mkKV [] []) cmd with
  | (o, OkN _) => Some (key o, val o)
  | _ => None
  end.

Fixpoint apply_ents (sm : N) (ents : list entry) (m : amap) : option amap :=
  match ents with
  | [] => Some m
  | (_, cmd) :: rest =>
    match decode_cmd sm cmd with
    | Some (k, v) => apply_ents sm rest (put k v m)
    | None => None
    end
  end.

(** the specification's answer: the last value written to [k] in history [h] *)
Definition lw_step (sm : N) (k : bytes) (acc : option bytes) (e : entry) : option bytes :=
  match decode_cmd sm (snd e) with
  | Some (k', v) => if beqb k k' then Some v else acc
  | None => acc
  end.
Definition last_written (sm : N) (h : list entry) (k : bytes) : bytes :=
  match fold_left (lw_step sm k) h None with Some v => v | None => [] end.

Definition last_index (h : list entry) : N := fst (last h (0, [])).

(** * The two JSON machines: KVTest and ConcurrentKVTest *)
Record jcfg := { j_counts : bool;        (* Update increments Count (KVTest) *)
                 j_junk_hashed : bool;   (* GetHash marshals Junk (KVTest: json.Marshal(s)) *)
                 j_prepare : bool }.     (* has PrepareSnapshot (ConcurrentKVTest) *)
Definition kvtest_cfg := {| j_counts := true; j_junk_hashed := true; j_prepare := false |}.
Definition ckv_cfg := {| j_counts := false; j_junk_hashed := false; j_prepare := true |}.

Record jst := mkJ { js_store : amap; js_count : N; js_junk : bytes }.
(* a JSON document {"KVStore":{...},"Count":n,"Junk":base64|null}: keys and values as JSON string texts *)
Record jdoc := mkD { jd_pairs : list (jstr * jstr); jd_count : N; jd_junk : option bytes }.

Definition junk0 : bytes := repeat 2 (N.to_nat 3072).
Definition j_init : jst := mkJ [] 0 junk0.

Definition jpairs (m : amap) : list (jstr * jstr) := map (fun kv => (jtext (fst kv), jtext (snd kv))) m.
Definition junpairs (l : list (jstr * jstr)) : list (bytes * bytes) := map (fun p => (junescape (fst p), junescape (snd p))) l.
Definition j_doc (s : jst) : jdoc := mkD (jpairs (js_store s)) (js_count s) (Some (js_junk s)).

Definition j_update (c : jcfg) (sm : N) (s : jst) (ents : list entry) : option jst :=
  match apply_ents sm ents (js_store s) with
  | Some m => Some (mkJ m (if j_counts c then js_count s + nlen ents else js_count s) (js_junk s))
  | None => None
  end.
Definition j_lookup (s : jst) (k : bytes) : bytes := match find k (js_store s) with Some v => v | None => [] end.
(* PrepareSnapshot copies the state (ConcurrentKVTest); KVTest.SaveSnapshot marshals the live state, i.e. prepares at save time *)
Definition j_prepare_st (s : jst) : jst := s.
Definition j_save (cur ctx : jst) : jdoc := j_doc ctx.
Definition j_recover (s : jst) (d : jdoc) : option jst :=
  Some (mkJ (of_list (junpairs (jd_pairs d))) (jd_count d) (match jd_junk d with Some j => j | None => [] end)).
Definition j_pre (c : jcfg) (s : jst) : jdoc :=
  mkD (jpairs (js_store s)) (js_count s) (if j_junk_hashed c then Some (js_junk s) else None).

Definition jstr_eqb : jstr -> jstr -> bool := list_eqb (opt_eqb N.eqb).
Definition jpairs_eqb : list (jstr * jstr) -> list (jstr * jstr) -> bool :=
  list_eqb (fun a b => jstr_eqb (fst a) (fst b) && jstr_eqb (snd a) (snd b)).
Definition jdoc_eqb (a b : jdoc) : bool :=
  (jd_count a =? jd_count b) && jpairs_eqb (jd_pairs a) (jd_pairs b) && opt_eqb beqb (jd_junk a) (jd_junk b).

(** * DiskKVTest *)
(* "disk_kv_applied_index" *)
Definition idx_key : bytes :=
  [100;105;115;107;95;107;118;95;97;112;112;108;105;101;100;95;105;110;100;101;120].

Fixpoint le_bytes (n : nat) (x : N) : bytes :=
  match n with O => [] | S n' => x mod 256 :: le_bytes n' (x / 256) end.
Fixpoint of_le (bs : bytes) : N :=
  match bs with [] => 0 | b :: r => b + 256 * of_le r end.
Definition le64 (x : N) : bytes := le_bytes 8 x.

Record dst := mkDk { dk_space : amap; dk_last : N }.
Definition d_init : dst := mkDk [] 0.          (* after NewDiskKVTest + Open on an empty file system *)

(* queryAppliedIndex: 0 when absent or empty, binary.LittleEndian.Uint64 panics below 8 bytes *)
Definition d_query (m : amap) : option N :=
  match find idx_key m with
  | None => Some 0
  | Some v => if nlen v =? 0 then Some 0 else if nlen v <? 8 then None else Some (of_le (firstn 8 v))
  end.

Definition d_update (sm : N) (s : dst) (ents : list entry) : option dst :=
  match ents with
  | [] => None                                            (* ents[len(ents)-1] *)
  | _ =>
    let li := last_index ents in
    if w64 <=? li then None else                          (* not a uint64: outside the domain *)
    match apply_ents sm ents (dk_space s) with
    | None => None
    | Some m => if li <=? dk_last s then None             (* panic("lastApplied not moving forward") *)
                else Some (mkDk (put idx_key (le64 li) m) li)
    end
  end.
Definition d_lookup (s : dst) (k : bytes) : bytes := match find k (dk_space s) with Some v => v | None => [] end.
Definition d_sync (s : dst) : option dst := Some s.      (* forces a WAL sync; the key space is untouched *)
Definition d_prepare (s : dst) : amap := dk_space s.     (* pebble snapshot *)
Definition d_save (cur : dst) (ctx : amap) : list (bytes * bytes) := ctx.
Definition d_recover (s : dst) (l : list (bytes * bytes)) : option dst :=
  let m := of_list l in
  match d_query m with
  | None => None
  | Some i => if i <? dk_last s then None                (* panic("last applied not moving forward") *)
              else Some (mkDk m i)
  end.
(* Close; NewDiskKVTest; Open: returns the applied index found in the key space *)
Definition d_reopen (s : dst) : option (dst * N) :=
  match d_query (dk_space s) with
  | None => None
  | Some i => Some (mkDk (dk_space s) i, i)
  end.
Definition d_pre (s : dst) : list (bytes * bytes) := dk_space s.

(** * The common interface and the replica system *)
Record machine := {
  m_st : Type; m_ctx : Type; m_snap : Type; m_pre : Type;
  m_init : m_st;
  m_update : m_st -> list entry -> option m_st;
  m_lookup : m_st -> bytes -> bytes;
  m_sync : m_st -> option m_st;                (* None: not offered *)
  m_has_prepare : bool;                        (* false: SaveSnapshot captures the live state itself *)
  m_prepare : m_st -> m_ctx;
  m_save : m_st -> m_ctx -> m_snap;
  m_recover : m_st -> m_snap -> option m_st;
  m_reopen : m_st -> option (m_st * N);        (* None: not offered *)
  m_pre_of : m_st -> m_pre;                    (* GetHash = md5 of this *)
  m_pre_eqb : m_pre -> m_pre -> bool
}.

Definition json_machine (c : jcfg) (sm : N) : machine := {|
  m_st := jst; m_ctx := jst; m_snap := jdoc; m_pre := jdoc;
  m_init := j_init;
  m_update := j_update c sm;
  m_lookup := j_lookup;
  m_sync := fun _ => None;
  m_has_prepare := j_prepare c;
  m_prepare := j_prepare_st;
  m_save := j_save;
  m_recover := j_recover;
  m_reopen := fun _ => None;
  m_pre_of := j_pre c;
  m_pre_eqb := jdoc_eqb
|}.
Definition kvtest_m : N -> machine := json_machine kvtest_cfg.
Definition ckv_m : N -> machine := json_machine ckv_cfg.
Definition disk_m (sm : N) : machine := {|
  m_st := dst; m_ctx := amap; m_snap := list (bytes * bytes); m_pre := list (bytes * bytes);
  m_init := d_init;
  m_update := d_update sm;
  m_lookup := d_lookup;
  m_sync := d_sync;
  m_has_prepare := true;
  m_prepare := d_prepare;
  m_save := d_save;
  m_recover := d_recover;
  m_reopen := d_reopen;
  m_pre_of := d_pre;
  m_pre_eqb := pairs_eqb
|}.

(** operations of a script over replicas 0,1,2,...; every replica has one
    snapshot-context slot and one snapshot slot *)
Inductive op :=
| OUpdate (r : N) (ents : list entry)
| OLookup (r : N) (k : bytes)
| OSync (r : N)
| OPrepare (r : N)
| OSave (r : N)
| ORecover (r src : N)          (* r recovers from the snapshot in the slot of replica src *)
| OReopen (r : N)
| OHash (r : N).

Section System.
Variable M : machine.

Record rep := mkRep { r_st : m_st M; r_ctx : option (m_ctx M); r_snap : option (m_snap M) }.
Definition sys := N -> rep.
Definition sys0 : sys := fun _ => mkRep (m_init M) None None.
Definition set_rep (s : sys) (r : N) (x : rep) : sys := fun r' => if r' =? r then x else s r'.

Inductive mobs := MNone | MVal (v : bytes) | MPre (p : m_pre M) | MIdx (i : N).

Definition step (s : sys) (o : op) : option (sys * mobs) :=
  match o with
  | OUpdate r ents =>
    match m_update M (r_st (s r)) ents with
    | Some st' => Some (set_rep s r (mkRep st' (r_ctx (s r)) (r_snap (s r))), MNone)
    | None => None
    end
  | OLookup r k => Some (s, MVal (m_lookup M (r_st (s r)) k))
  | OSync r =>
    match m_sync M (r_st (s r)) with
    | Some st' => Some (set_rep s r (mkRep st' (r_ctx (s r)) (r_snap (s r))), MNone)
    | None => None
    end
  | OPrepare r =>
    if m_has_prepare M
    then Some (set_rep s r (mkRep (r_st (s r)) (Some (m_prepare M (r_st (s r)))) (r_snap (s r))), MNone)
    else None
  | OSave r =>
    let ctx := if m_has_prepare M then r_ctx (s r) else Some (m_prepare M (r_st (s r))) in
    match ctx with
    | Some c => Some (set_rep s r (mkRep (r_st (s r)) None (Some (m_save M (r_st (s r)) c))), MNone)
    | None => None
    end
  | ORecover r src =>
    match r_snap (s src) with
    | Some sn =>
      match m_recover M (r_st (s r)) sn with
      | Some st' => Some (set_rep s r (mkRep st' None (r_snap (s r))), MNone)
      | None => None
      end
    | None => None
    end
  | OReopen r =>
    match m_reopen M (r_st (s r)) with
    | Some (st', i) => Some (set_rep s r (mkRep st' None (r_snap (s r))), MIdx i)
    | None => None
    end
  | OHash r => Some (s, MPre (m_pre_of M (r_st (s r))))
  end.

Fixpoint run_from (s : sys) (ops : list op) : option sys :=
  match ops with
  | [] => Some s
  | o :: rest => match step s o with Some (s', _) => run_from s' rest | None => None end
  end.
Definition run (ops : list op) : option sys := run_from sys0 ops.

(* "apply the update sub-sequence to a fresh machine" (as one batch) *)
Definition replay (h : list entry) : option (m_st M) :=
  match h with [] => Some (m_init M) | _ => m_update M (m_init M) h end.

End System.

(** * Update history of every replica (independent of the machines)

    [g_hist]: the entries applied to the replica, a recovery replacing them by
    the history of the snapshot; [g_ctx]/[g_snap]: history captured by the
    pending snapshot context / held by the snapshot slot. *)
Record ghost := mkG { g_hist : list entry; g_ctx : option (list entry); g_snap : option (list entry) }.
Definition gsys := N -> ghost.
Definition gsys0 : gsys := fun _ => mkG [] None None.
Definition set_g (g : gsys) (r : N) (x : ghost) : gsys := fun r' => if r' =? r then x else g r'.

Definition gstep (has_prepare : bool) (g : gsys) (o : op) : gsys :=
  match o with
  | OUpdate r ents => set_g g r (mkG (g_hist (g r) ++ ents) (g_ctx (g r)) (g_snap (g r)))
  | OPrepare r => set_g g r (mkG (g_hist (g r)) (Some (g_hist (g r))) (g_snap (g r)))
  | OSave r =>
    let c := if has_prepare then g_ctx (g r) else Some (g_hist (g r)) in
    match c with
    | Some h => set_g g r (mkG (g_hist (g r)) None (Some h))
    | None => g
    end
  | ORecover r src =>
    match g_snap (g src) with
    | Some h => set_g g r (mkG h None (g_snap (g r)))
    | None => g
    end
  | OReopen r => set_g g r (mkG (g_hist (g r)) None (g_snap (g r)))
  | OLookup _ _ | OSync _ | OHash _ => g
  end.
Definition hist_sys (has_prepare : bool) (ops : list op) : gsys := fold_left (gstep has_prepare) ops gsys0.
(* the update history of replica r after the script *)
Definition hist (has_prepare : bool) (ops : list op) (r : N) : list entry := g_hist (hist_sys has_prepare ops r).

(** all entries of a script *)
Definition op_entries (o : op) : list entry := match o with OUpdate _ ents => ents | _ => [] end.
Definition script_entries (ops : list op) : list entry := flat_map op_entries ops.

(* every key and value the entry writes is valid UTF-8 (signature of C15-json-utf8: its negation) *)
Definition entry_utf8 (sm : N) (e : entry) : bool :=
  match decode_cmd sm (snd e) with
  | Some (k, v) => utf8_valid k && utf8_valid v
  | None => true
  end.
Definition has_recover (ops : list op) : bool := existsb (fun o => match o with ORecover _ _ => true | _ => false end) ops.

(** * Statements of property C15 (proved in proofs/KVSMProofs.v, listed in props/C15.v) *)

(* scripts on which the JSON machines are exact: no recovery at all, or every key and value written is valid UTF-8 *)
Definition utf8_script (sm : N) (ops : list op) : Prop :=
  negb (has_recover ops) || forallb (entry_utf8 sm) (script_entries ops) = true.
Definition any_script (ops : list op) : Prop := True.
Definition any_key (k : bytes) : Prop := True.
Definition user_key (k : bytes) : Prop := k <> idx_key.

(* every lookup on every replica returns the last value written to the key in the replica's update history *)
Definition lookup_spec (M : machine) (sm : N) (pre : list op -> Prop) (kok : bytes -> Prop) : Prop :=
  forall ops s r k, run M ops = Some s -> pre ops -> kok k ->
    m_lookup M (r_st M (s r)) k = last_written sm (hist (m_has_prepare M) ops r) k.

(* the state (hence the hash pre-image) of every replica after a script is the state of a fresh machine
   after the replica's update history alone *)
Definition updates_only_spec (M : machine) (pre : list op -> Prop) : Prop :=
  forall ops s r, run M ops = Some s -> pre ops ->
    exists s0, replay M (hist (m_has_prepare M) ops r) = Some s0 /\
               r_st M (s r) = s0 /\ m_pre_of M (r_st M (s r)) = m_pre_of M s0.

(* replicas with equal update histories (in the same or in different runs) have equal hash pre-images *)
Definition same_history_spec (M : machine) (pre : list op -> Prop) : Prop :=
  forall ops1 ops2 s1 s2 r1 r2, run M ops1 = Some s1 -> run M ops2 = Some s2 -> pre ops1 -> pre ops2 ->
    hist (m_has_prepare M) ops1 r1 = hist (m_has_prepare M) ops2 r2 ->
    m_pre_of M (r_st M (s1 r1)) = m_pre_of M (r_st M (s2 r2)).

(* a snapshot prepared in state s (reached by history h), saved at any later state cur, and recovered by any
   replica t (the same or another one) yields exactly s *)
Definition snapshot_exact (M : machine) (hok : list entry -> Prop) : Prop :=
  forall h s cur t s', replay M h = Some s -> hok h ->
    m_recover M t (m_save M cur (m_prepare M s)) = Some s' -> s' = s.
Definition any_history (h : list entry) : Prop := True.
Definition utf8_history (sm : N) (h : list entry) : Prop := forallb (entry_utf8 sm) h = true.

(** * Lookups concurrent with another call (ConcurrentKVTest, DiskKVTest)

    The dragonboat contracts allow Lookup while Update / SaveSnapshot / RecoverFromSnapshot / Close of the same
    replica run.  The model is sequential; what it contributes is the set of answers such a lookup may give (the
    oracle of the monitor [conc-lookup] of the correspondence check): the lookup sees the replica before the call,
    after the call, or - an Update stores the entries of its batch one after the other - after a prefix of the batch.
    [conc_update_spec]: the state after any prefix [firstn i ents] of a batch answers every lookup with the last
    value written in the replica's update history extended by that prefix.  (Before / after the call, and the state
    after a RecoverFromSnapshot, are instances of [lookup_spec].)  That a concurrent lookup does not crash the
    process, and that it sees no other state, is runtime behaviour the model cannot exhibit: monitors. *)
Definition conc_update_spec (M : machine) (sm : N) (pre : list op -> Prop) (kok : bytes -> Prop) : Prop :=
  forall ops s r ents i st k, run M ops = Some s ->
    m_update M (r_st M (s r)) (firstn i ents) = Some st ->
    pre (ops ++ [OUpdate r (firstn i ents)]) -> kok k ->
    m_lookup M st k = last_written sm (hist (m_has_prepare M) ops r ++ firstn i ents) k.

(* the entries of a batch are stored one after the other: when the batch is accepted, so is each of its prefixes
   (the two in-memory machines; DiskKVTest commits the batch atomically, the views are "before" and "after") *)
Definition update_prefix_defined (M : machine) : Prop :=
  forall st ents st' i, m_update M st ents = Some st' -> exists st'', m_update M st (firstn i ents) = Some st''.

(** * Several outstanding snapshot contexts and images per machine

    dragonboat may hold more than one context returned by PrepareSnapshot of one state machine and save them in
    any order, with updates in between; the images may be installed in any order, too.  [sop]: the operations of
    [op] with a slot number for contexts and images (context slot [sl] of replica [r] is saved into image slot [sl]
    of replica [r]; KVTest has no PrepareSnapshot, [SSave] captures the live state).  As in [step], a recovery and
    a restart drop the outstanding contexts of the replica. *)
Inductive sop :=
| SUpdate (r : N) (ents : list entry)
| SLookup (r : N) (k : bytes)
| SSync (r : N)
| SPrepare (r sl : N)
| SSave (r sl : N)
| SRecover (r src sl : N)       (* r recovers from image slot sl of replica src *)
| SReopen (r : N)
| SHash (r : N).

Definition set1 {A} (f : N -> A) (r : N) (x : A) : N -> A := fun r' => if r' =? r then x else f r'.
Definition set2 {A} (f : N -> N -> A) (r sl : N) (x : A) : N -> N -> A :=
  fun r' sl' => if (r' =? r) && (sl' =? sl) then x else f r' sl'.
Definition clr {A} (f : N -> N -> option A) (r : N) : N -> N -> option A :=
  fun r' sl' => if r' =? r then None else f r' sl'.

Section Slots.
Variable M : machine.

Record sst := mkS { s_st : N -> m_st M; s_cx : N -> N -> option (m_ctx M); s_sn : N -> N -> option (m_snap M) }.
Definition sst0 : sst := mkS (fun _ => m_init M) (fun _ _ => None) (fun _ _ => None).

Definition sstep (x : sst) (o : sop) : option (sst * mobs M) :=
  match o with
  | SUpdate r ents =>
    match m_update M (s_st x r) ents with
    | Some st' => Some (mkS (set1 (s_st x) r st') (s_cx x) (s_sn x), MNone M)
    | None => None
    end
  | SLookup r k => Some (x, MVal M (m_lookup M (s_st x r) k))
  | SSync r =>
    match m_sync M (s_st x r) with
    | Some st' => Some (mkS (set1 (s_st x) r st') (s_cx x) (s_sn x), MNone M)
    | None => None
    end
  | SPrepare r sl =>
    if m_has_prepare M
    then Some (mkS (s_st x) (set2 (s_cx x) r sl (Some (m_prepare M (s_st x r)))) (s_sn x), MNone M)
    else None
  | SSave r sl =>
    let ctx := if m_has_prepare M then s_cx x r sl else Some (m_prepare M (s_st x r)) in
    match ctx with
    | Some c => Some (mkS (s_st x) (set2 (s_cx x) r sl None) (set2 (s_sn x) r sl (Some (m_save M (s_st x r) c))), MNone M)
    | None => None
    end
  | SRecover r src sl =>
    match s_sn x src sl with
    | Some img =>
      match m_recover M (s_st x r) img with
      | Some st' => Some (mkS (set1 (s_st x) r st') (clr (s_cx x) r) (s_sn x), MNone M)
      | None => None
      end
    | None => None
    end
  | SReopen r =>
    match m_reopen M (s_st x r) with
    | Some (st', i) => Some (mkS (set1 (s_st x) r st') (clr (s_cx x) r) (s_sn x), MIdx M i)
    | None => None
    end
  | SHash r => Some (x, MPre M (m_pre_of M (s_st x r)))
  end.

Fixpoint srun_from (x : sst) (ops : list sop) : option sst :=
  match ops with
  | [] => Some x
  | o :: rest => match sstep x o with Some (x', _) => srun_from x' rest | None => None end
  end.
Definition srun (ops : list sop) : option sst := srun_from sst0 ops.
End Slots.

(** update histories: of every replica, captured by every outstanding context, held by every image *)
Record sgh := mkSG { h_st : N -> list entry; h_cx : N -> N -> option (list entry); h_sn : N -> N -> option (list entry) }.
Definition sgh0 : sgh := mkSG (fun _ => []) (fun _ _ => None) (fun _ _ => None).

Definition sgstep (has_prepare : bool) (g : sgh) (o : sop) : sgh :=
  match o with
  | SUpdate r ents => mkSG (set1 (h_st g) r (h_st g r ++ ents)) (h_cx g) (h_sn g)
  | SPrepare r sl => mkSG (h_st g) (set2 (h_cx g) r sl (Some (h_st g r))) (h_sn g)
  | SSave r sl =>
    match (if has_prepare then h_cx g r sl else Some (h_st g r)) with
    | Some h => mkSG (h_st g) (set2 (h_cx g) r sl None) (set2 (h_sn g) r sl (Some h))
    | None => g
    end
  | SRecover r src sl =>
    match h_sn g src sl with
    | Some h => mkSG (set1 (h_st g) r h) (clr (h_cx g) r) (h_sn g)
    | None => g
    end
  | SReopen r => mkSG (h_st g) (clr (h_cx g) r) (h_sn g)
  | SLookup _ _ | SSync _ | SHash _ => g
  end.
Definition shist_sys (has_prepare : bool) (ops : list sop) : sgh := fold_left (sgstep has_prepare) ops sgh0.

Definition sop_entries (o : sop) : list entry := match o with SUpdate _ ents => ents | _ => [] end.
Definition sscript_entries (ops : list sop) : list entry := flat_map sop_entries ops.
Definition utf8_sscript (sm : N) (ops : list sop) : Prop := forallb (entry_utf8 sm) (sscript_entries ops) = true.
Definition any_sscript (ops : list sop) : Prop := True.

(* after any script with any number of outstanding contexts and images: (1) every lookup returns the last value
   written in the replica's update history (a recovery replacing it by the history of the image's prepare point);
   (2) every image, whichever context it was saved from and whenever, stands for the state at ITS prepare point:
   that state is the replay of the history captured there, and whoever recovers from the image gets exactly it *)
Definition slots_spec (M : machine) (sm : N) (pre : list sop -> Prop) (kok : bytes -> Prop) : Prop :=
  forall ops x, srun M ops = Some x -> pre ops ->
    (forall r k, kok k ->
       m_lookup M (s_st M x r) k = last_written sm (h_st (shist_sys (m_has_prepare M) ops) r) k) /\
    (forall src sl img, s_sn M x src sl = Some img ->
       exists h s0, h_sn (shist_sys (m_has_prepare M) ops) src sl = Some h /\ replay M h = Some s0 /\
                    forall t s', m_recover M t img = Some s' -> s' = s0).
