(** Base: small helpers shared by all models. No proofs of substance here. *)
From Coq Require Export List NArith Bool Lia.
Export ListNotations.
Open Scope N_scope.

Definition nlen {A} (l : list A) : N := N.of_nat (length l).

(** checked list read: the model of a Go index expression *)
Definition get {A} (l : list A) (i : N) : option A := nth_error l (N.to_nat i).

Fixpoint list_eqb {A} (eqb : A -> A -> bool) (a b : list A) : bool :=
  match a, b with
  | [], [] => true
  | x :: a', y :: b' => eqb x y && list_eqb eqb a' b'
  | _, _ => false
  end.

Definition opt_eqb {A} (eqb : A -> A -> bool) (a b : option A) : bool :=
  match a, b with
  | None, None => true
  | Some x, Some y => eqb x y
  | _, _ => false
  end.

Definition memN (x : N) (l : list N) : bool := existsb (N.eqb x) l.

(** insertion sort on N keys: canonical order for map dumps *)
Fixpoint insert_by {A} (k : A -> N) (x : A) (l : list A) : list A :=
  match l with
  | [] => [x]
  | y :: l' => if k x <=? k y then x :: l else y :: insert_by k x l'
  end.
Definition sort_by {A} (k : A -> N) (l : list A) : list A := fold_right (insert_by k) [] l.

(** indexes (0-based) of the false entries of a list of booleans: used by generated cases files *)
Fixpoint false_ix_from (i : N) (l : list bool) : list N :=
  match l with
  | [] => []
  | b :: l' => if b then false_ix_from (i + 1) l' else i :: false_ix_from (i + 1) l'
  end.
Definition false_ix (l : list bool) : list N := false_ix_from 0 l.
