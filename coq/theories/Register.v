(** Register: the single-register ("etcd") model of lcm/porcupine/etcd.go, call/return
    histories, and the declarative specification of linearizability.

    Shared by C06 (the checker's verdict is exact) and C07 (recorded histories).
    Definitions only, stdlib only, no axioms.  Proofs about these definitions
    (wfb <-> wf, invariance under renaming, ...) live in proofs/RegisterProofs.v.

    Correspondence with the Go code
      etcdInput{op:0}                 ~ Read
      etcdInput{op:1, arg1:v}         ~ Write v
      etcdInput{op:2, arg1:a, arg2:b} ~ Cas a b
      etcdOutput{ok, exists, value, unknown} ~ mkOut ok exists value unknown
      getEtcdModel().Init()           ~ nil_state   (-1000000 "corresponds with nil")
      getEtcdModel().Step             ~ step        (literal transcription)
      porcupine.Event{CallEvent,in,id}    ~ Call id in
      porcupine.Event{ReturnEvent,out,id} ~ Ret id out
    Go's int is 64 bit; the model uses Z (no wrap-around: Step only compares and copies). *)
From Coq Require Import List ZArith NArith Bool Permutation.
Import ListNotations.

(** ** The register *)

Inductive input : Type :=
| Read
| Write (v : Z)
| Cas (a b : Z).

Record output : Type := mkOut {
  o_ok      : bool;   (* used for CAS *)
  o_exists  : bool;   (* used for read *)
  o_value   : Z;      (* used for read *)
  o_unknown : bool    (* used when the operation timed out: outcome unknown *)
}.

Definition nil_state : Z := (-1000000)%Z.

(** getEtcdModel().Step, line by line.  Result: (accepted?, new state). *)
Definition step (st : Z) (i : input) (o : output) : bool * Z :=
  match i with
  | Read =>
      (* ok := (out.exists == false && st == -1000000) || (out.exists == true && st == out.value) || out.unknown *)
      ((negb (o_exists o) && (st =? nil_state)%Z) || (o_exists o && (st =? o_value o)%Z) || o_unknown o, st)
  | Write v =>
      (true, v)
  | Cas a b =>
      (* ok := (inp.arg1 == st && out.ok) || (inp.arg1 != st && !out.ok) || out.unknown *)
      (((a =? st)%Z && o_ok o) || (negb (a =? st)%Z && negb (o_ok o)) || o_unknown o,
       if (a =? st)%Z then b else st)
  end.

(** ** Histories *)

Inductive event : Type :=
| Call (id : N) (i : input)
| Ret (id : N) (o : output).

Definition history := list event.

Definition ev_id (e : event) : N :=
  match e with Call id _ => id | Ret id _ => id end.

Definition is_call (e : event) : bool :=
  match e with Call _ _ => true | Ret _ _ => false end.

(** ids of the call (resp. return) events, in history order *)
Fixpoint call_ids (h : history) : list N :=
  match h with
  | [] => []
  | Call id _ :: t => id :: call_ids t
  | Ret _ _ :: t => call_ids t
  end.

Fixpoint ret_ids (h : history) : list N :=
  match h with
  | [] => []
  | Call _ _ :: t => ret_ids t
  | Ret id _ :: t => id :: ret_ids t
  end.

(** the input of the (first) call of [id], the output of the (first) return of [id] *)
Fixpoint call_of (h : history) (id : N) : option input :=
  match h with
  | [] => None
  | Call id' i :: t => if (id' =? id)%N then Some i else call_of t id
  | Ret _ _ :: t => call_of t id
  end.

Fixpoint ret_of (h : history) (id : N) : option output :=
  match h with
  | [] => None
  | Call _ _ :: t => ret_of t id
  | Ret id' o :: t => if (id' =? id)%N then Some o else ret_of t id
  end.

(** [x] occurs somewhere before [y] in [l] *)
Definition occurs_before {A : Type} (x y : A) (l : list A) : Prop :=
  exists l1 l2 l3, l = l1 ++ x :: l2 ++ y :: l3.

(** Well-formed complete history: every id has exactly one Call and exactly one,
    later, Ret:
    call ids are pairwise distinct, return ids are pairwise distinct, every call
    has a return, and every return is preceded by the call with its id. *)
Definition wf (h : history) : Prop :=
  NoDup (call_ids h) /\
  NoDup (ret_ids h) /\
  (forall id, In id (call_ids h) -> In id (ret_ids h)) /\
  (forall h1 id o h2, h = h1 ++ Ret id o :: h2 -> In id (call_ids h1)).

(** boolean version *)
Definition mem_id (x : N) (l : list N) : bool := existsb (N.eqb x) l.

Fixpoint nodupb (l : list N) : bool :=
  match l with
  | [] => true
  | x :: t => negb (mem_id x t) && nodupb t
  end.

(* every Ret's id is among the ids of the calls seen so far *)
Fixpoint rets_after_calls (seen : list N) (h : history) : bool :=
  match h with
  | [] => true
  | Call id _ :: t => rets_after_calls (id :: seen) t
  | Ret id _ :: t => mem_id id seen && rets_after_calls seen t
  end.

Definition wfb (h : history) : bool :=
  nodupb (call_ids h) && nodupb (ret_ids h) &&
  forallb (fun id => mem_id id (ret_ids h)) (call_ids h) &&
  rets_after_calls [] h.

(** ** Real-time order and linearizability *)

(** operation [a] returned before operation [b] was invoked *)
Definition precedes (h : history) (a b : N) : Prop :=
  exists o i, occurs_before (Ret a o) (Call b i) h.

(** [a] is ordered before [b] in the total order [sigma] *)
Definition before (sigma : list N) (a b : N) : Prop := occurs_before a b sigma.

(** fold [step] from [st] over the operations of [h] taken in the order [sigma];
    true iff every step is accepted *)
Fixpoint accepts (h : history) (st : Z) (sigma : list N) : bool :=
  match sigma with
  | [] => true
  | id :: rest =>
      match call_of h id, ret_of h id with
      | Some i, Some o => let (ok, st') := step st i o in ok && accepts h st' rest
      | _, _ => false
      end
  end.

(** [sigma] is a linearization of [h] started in register state [st] *)
Definition linearization (h : history) (st : Z) (sigma : list N) : Prop :=
  Permutation sigma (call_ids h) /\
  (forall a b, precedes h a b -> before sigma a b) /\
  accepts h st sigma = true.

Definition linearizable_from (h : history) (st : Z) : Prop :=
  exists sigma, linearization h st sigma.

(** The specification: some total order of the operations respects real-time
    order and register semantics (started from the empty register). *)
Definition linearizable (h : history) : Prop := linearizable_from h nil_state.

(** ** Renaming of operation ids *)

Definition rename_ev (f : N -> N) (e : event) : event :=
  match e with Call id i => Call (f id) i | Ret id o => Ret (f id) o end.

Definition rename (f : N -> N) (h : history) : history := map (rename_ev f) h.

(** [f] is injective on the ids occurring in [h] *)
Definition inj_on (f : N -> N) (h : history) : Prop :=
  forall a b, In a (map ev_id h) -> In b (map ev_id h) -> f a = f b -> a = b.
