(** FleetExample: one logged closed-loop run of the implementation (4 NodeHosts, one shard of 3; launch,
    then a host crashes, stays down longer than the failure timeout and Drummer ADDs a replacement),
    as replayed by FleetRun.run_trace.  Generated once by harness/py/c01.py from the executor's log
    (seed 1000); used by the non-vacuity Examples of props/C01.v.  No proofs. *)
From stdpp Require Import gmap.
From Drummer.Model Require Import DB Sched Fleet FleetRun.
Local Open Scope N_scope.

Definition ex_params : params := mkParams 60 5 24.
Definition ex_regions : list N := [1; 1; 1; 1].
Definition ex_launch_len : nat := 41.
Definition ex_trace : list tev := [
  (TKV 5);
  (TShard 0 1 [1; 2; 3] 1);
  (TKV 3);
  (TTick 5);
  (TSnap 1 true (REPORT 1 [] [] true [] 1 0));
  (TDeliver 1 false (Some 0) []);
  (TSnap 2 true (REPORT 2 [] [] true [] 1 0));
  (TDeliver 2 false (Some 0) []);
  (TSnap 3 true (REPORT 3 [] [] true [] 1 0));
  (TDeliver 3 false (Some 0) []);
  (TSnap 4 true (REPORT 4 [] [] true [] 1 0));
  (TDeliver 4 false (Some 0) []);
  (TTick 10);
  (TLaunch 3 [(REQ 0 1 [1; 2; 3] 0 [1; 2; 3] [1; 2; 3] 1 1 false false 1); (REQ 0 1 [1; 2; 3] 0 [1; 2; 3] [1; 2; 3] 2 2 false false 1); (REQ 0 1 [1; 2; 3] 0 [1; 2; 3] [1; 2; 3] 3 3 false false 1)]);
  (TSnap 1 true (REPORT 1 [] [] true [] 1 0));
  (TDeliver 1 false (Some 1) [(REQ 0 1 [1; 2; 3] 0 [1; 2; 3] [1; 2; 3] 1 1 false false 1)]);
  (TSnap 2 true (REPORT 2 [] [] true [] 1 0));
  (TDeliver 2 false (Some 1) [(REQ 0 1 [1; 2; 3] 0 [1; 2; 3] [1; 2; 3] 2 2 false false 1)]);
  (TSnap 3 true (REPORT 3 [] [] true [] 1 0));
  (TDeliver 3 false (Some 1) [(REQ 0 1 [1; 2; 3] 0 [1; 2; 3] [1; 2; 3] 3 3 false false 1)]);
  (TSnap 4 true (REPORT 4 [] [] true [] 1 0));
  (TDeliver 4 false (Some 0) []);
  (TExec 1 true [(REQ 0 1 [1; 2; 3] 0 [1; 2; 3] [1; 2; 3] 1 1 false false 1)]);
  (TExec 2 true [(REQ 0 1 [1; 2; 3] 0 [1; 2; 3] [1; 2; 3] 2 2 false false 1)]);
  (TExec 3 true [(REQ 0 1 [1; 2; 3] 0 [1; 2; 3] [1; 2; 3] 3 3 false false 1)]);
  (TExec 4 true []);
  (TTick 15);
  (TSnap 1 true (REPORT 1 [(INFO 1 1 false [(1,1); (2,2); (3,3)] 1 false false)] [1] true [(1,1)] 1 0));
  (TDeliver 1 false (Some 0) []);
  (TSnap 2 true (REPORT 2 [(INFO 1 2 false [] 1 true false)] [1] true [(1,2)] 1 0));
  (TDeliver 2 false (Some 0) []);
  (TSnap 3 true (REPORT 3 [(INFO 1 3 false [] 1 true false)] [1] true [(1,3)] 1 0));
  (TDeliver 3 false (Some 0) []);
  (TSnap 4 true (REPORT 4 [] [] true [] 1 0));
  (TDeliver 4 false (Some 0) []);
  (TExec 1 true []);
  (TExec 2 true []);
  (TExec 3 true []);
  (TExec 4 true []);
  (TTick 20);
  (TLaunched);
  (TGHist 1 1 [(1,1); (2,2); (3,3)]);
  (TGHost 1 true [(1,1,true,1)] 0 false);
  (TGHost 2 true [(1,2,true,1)] 0 false);
  (TGHost 3 true [(1,3,true,1)] 0 false);
  (TGHost 4 true [] 0 false);
  (TGAvail [(1,2)]);
  (TExec 3 true []);
  (TExec 1 true []);
  (TSnap 4 false (REPORT 4 [] [] false [] 1 0));
  (TSnap 3 true (REPORT 3 [(INFO 1 3 false [] 1 true false)] [1] true [(1,3)] 1 0));
  (TCtx (CTX 20 [(mkSD 1 [1; 2; 3] 1)] [(SH 1 1 [(mkReplica 1 1 1 false 15 15); (mkReplica 1 2 2 false 15 15); (mkReplica 1 3 3 false 15 15)])] [(HOST 1 1 15 [(1,1)] [1]); (HOST 2 1 15 [(1,2)] [1]); (HOST 3 1 15 [(1,3)] [1]); (HOST 4 1 15 [] [])] []));
  (TSched (OBatch []) 0);
  (TDeliver 4 false (Some 0) []);
  (TExec 4 true []);
  (TSnap 1 true (REPORT 1 [(INFO 1 1 false [] 1 true false)] [1] true [(1,1)] 1 0));
  (TCrash 1);
  (TExec 2 true []);
  (TTick 25);
  (TTick 30);
  (TTick 35);
  (TSnap 2 true (REPORT 2 [(INFO 1 2 false [] 1 true false)] [1] true [(1,2)] 1 0));
  (TDeliver 3 false (Some 0) []);
  (TTick 40);
  (TGHist 1 1 [(1,1); (2,2); (3,3)]);
  (TGHost 1 false [(1,1,false,1)] 0 false);
  (TGHost 2 true [(1,2,true,1)] 0 true);
  (TGHost 3 true [(1,3,true,1)] 0 false);
  (TGHost 4 true [] 0 false);
  (TGAvail [(1,2)]);
  (TSnap 2 false (REPORT 2 [(INFO 1 2 false [] 1 true false)] [1] false [] 1 0));
  (TSnap 3 true (REPORT 3 [(INFO 1 3 false [] 1 true false)] [1] true [(1,3)] 1 0));
  (TTick 45);
  (TTick 50);
  (TCtx (CTX 50 [(mkSD 1 [1; 2; 3] 1)] [(SH 1 1 [(mkReplica 1 1 1 false 15 15); (mkReplica 1 2 2 false 15 15); (mkReplica 1 3 3 false 35 15)])] [(HOST 1 1 15 [(1,1)] [1]); (HOST 2 1 15 [(1,2)] [1]); (HOST 3 1 35 [(1,3)] [1]); (HOST 4 1 20 [] [])] []));
  (TSched (OBatch []) 0);
  (TTick 55);
  (TExec 2 true []);
  (TSnap 4 false (REPORT 4 [] [] false [] 1 0));
  (TTick 60);
  (TDeliver 4 false (Some 0) []);
  (TDeliver 2 false (Some 0) []);
  (TExec 3 true []);
  (TExec 4 true []);
  (TGHist 1 1 [(1,1); (2,2); (3,3)]);
  (TGHost 1 false [(1,1,false,1)] 0 false);
  (TGHost 2 true [(1,2,true,1)] 0 false);
  (TGHost 3 true [(1,3,true,1)] 0 true);
  (TGHost 4 true [] 0 false);
  (TGAvail [(1,2)]);
  (TTick 65);
  (TTick 70);
  (TSnap 2 false (REPORT 2 [(INFO 1 2 false [] 1 true false)] [1] false [] 1 0));
  (TExec 4 true []);
  (TSnap 3 false (REPORT 3 [(INFO 1 3 false [] 1 true false)] [1] false [] 1 0));
  (TTick 75);
  (TExec 2 true []);
  (TExec 3 true []);
  (TTick 80);
  (TCtx (CTX 80 [(mkSD 1 [1; 2; 3] 1)] [(SH 1 1 [(mkReplica 1 1 1 false 15 15); (mkReplica 1 2 2 false 60 15); (mkReplica 1 3 3 false 35 15)])] [(HOST 1 1 15 [(1,1)] [1]); (HOST 2 1 60 [(1,2)] [1]); (HOST 3 1 35 [(1,3)] [1]); (HOST 4 1 60 [] [])] []));
  (TSched (OBatch [(REQ 2 1 [103] 1 [] [4] 0 2 false false 0)]) 1);
  (TSnap 4 false (REPORT 4 [] [] false [] 1 0));
  (TDeliver 3 false (Some 0) []);
  (TGHist 1 1 [(1,1); (2,2); (3,3)]);
  (TGHost 1 false [(1,1,false,1)] 0 false);
  (TGHost 2 true [(1,2,true,1)] 0 true);
  (TGHost 3 true [(1,3,true,1)] 0 false);
  (TGHost 4 true [] 0 true);
  (TGAvail [(1,2)]);
  (TExec 4 true []);
  (TExec 2 true []);
  (TSnap 2 false (REPORT 2 [(INFO 1 2 false [] 1 true false)] [1] false [] 1 0));
  (TCtx (CTX 80 [(mkSD 1 [1; 2; 3] 1)] [(SH 1 1 [(mkReplica 1 1 1 false 15 15); (mkReplica 1 2 2 false 60 15); (mkReplica 1 3 3 false 80 15)])] [(HOST 1 1 15 [(1,1)] [1]); (HOST 2 1 60 [(1,2)] [1]); (HOST 3 1 80 [(1,3)] [1]); (HOST 4 1 60 [] [])] []));
  (TSched (OBatch [(REQ 2 1 [105] 1 [] [4] 0 3 false false 0)]) 1);
  (TSnap 4 true (REPORT 4 [] [] true [] 1 0));
  (TSnap 3 false (REPORT 3 [(INFO 1 3 false [] 1 true false)] [1] false [] 1 0));
  (TDeliver 4 false (Some 0) []);
  (TDeliver 3 false (Some 1) [(REQ 2 1 [105] 1 [] [4] 0 3 false false 0)]);
  (TDeliver 2 false (Some 1) [(REQ 2 1 [103] 1 [] [4] 0 2 false false 0)]);
  (TExec 3 true [(REQ 2 1 [105] 1 [] [4] 0 3 false false 0)]);
  (TGHist 1 2 [(1,1); (2,2); (3,3); (105,4)])
].

(* the model state after replaying a prefix; None if a step does not validate *)
Fixpoint ex_replay (st : fstate) (tr : list tev) : option fstate :=
  match tr with
  | [] => Some st
  | e :: tr' => match tstep ex_params st e with inl st' => ex_replay st' tr' | inr _ => None end
  end.
Definition ex_launched : option fstate := ex_replay (fleet_init ex_regions) (take ex_launch_len ex_trace).
Definition ex_final : option fstate := ex_replay (fleet_init ex_regions) ex_trace.
