(** ElectionRun: executable agreement predicates evaluated (vm_compute) by the
    generated cases files of the C14 correspondence check. *)
From Drummer.Model Require Import Base Election.

(** what the Go executor dumps after each turn *)
Record tobs := mkObs {
  ob_leaders : list bool;          (* isLeader() of every server *)
  ob_rec : N * N;                  (* the record as answered by a KV lookup (0,0 if absent) *)
  ob_leader : bool;                (* the mover: isLeader() *)
  ob_cur : option (N * N * N);     (* the mover: currentLeader (id, tick, staticRound) *)
  ob_sess : bool;                  (* the mover: a client session is cached *)
  ob_ops : option (list N);        (* kinds of the DB operations of the turn: 0 lookup 1 get-session 2 proposal 3 close-session; None = not observed *)
  ob_panic : bool                  (* the turn panicked *)
}.

Definition ev_kind (e : event) : N :=
  match e with ERead _ _ => 0 | ESess _ _ => 1 | ECas _ _ _ _ _ _ _ _ => 2 | EClose _ => 3 end.

Definition leaders_of (y : sys) : list bool :=
  map (fun w => role_eqb (s_role (w_srv w)) Leader) (y_ws y).

Definition cur_of (s : server) : option (N * N * N) :=
  match s_cur s with Some c => Some (l_id c, l_tick c, l_static c) | None => None end.

Definition obs_of (y : sys) (i : nat) (pn : bool) (evs : list event) : tobs :=
  match nth_error (y_ws y) i with
  | Some w =>
      mkObs (leaders_of y) (lookup (y_rec y)) (role_eqb (s_role (w_srv w)) Leader)
            (cur_of (w_srv w)) (s_sess (w_srv w)) (Some (map ev_kind evs)) pn
  | None => mkObs [] (0, 0) false None false None false
  end.

(** Interference inside a turn (operation-granularity interleaving, for the
    correspondence check only): a foreign write that takes the record for
    (instance id, tick) immediately before the turn's proposal ([wp]) and/or
    immediately before the read-back of campaign ([wr]) - what another server's
    successful CAS does when it is scheduled between two operations of this
    turn.  With no interference this is [run_prog] (lemma [run_prog_x_none]). *)
Definition interfere (w : option (N * N)) (r : rcd) : rcd :=
  match w with Some x => Some x | None => r end.

Fixpoint run_prog_x (who : nat) (fl : faults) (wp wr : option (N * N)) (nreads : nat) (r : rcd) (p : prog)
         (log : list event) : rcd * server * bool * list event :=
  match p with
  | PDone s pn => (r, s, pn, rev log)
  | PRead k =>
      let r0 := match nreads with O => r | _ => interfere wr r end in
      let f := match nreads with O => f_r1 fl | _ => f_r2 fl end in
      let a := read_resp f r0 in
      run_prog_x who fl wp wr (S nreads) r0 (k a) (ERead who a :: log)
  | PSess k =>
      let ok := sess_resp (f_s fl) in
      run_prog_x who fl wp wr nreads r (k ok) (ESess who ok :: log)
  | PCas self old tick k =>
      let r0 := interfere wp r in
      let '(r', a) := cas_resp (f_p fl) r0 self old tick in
      run_prog_x who fl wp wr nreads r' (k a) (cas_event who (f_p fl) r0 self old tick :: log)
  | PClose k => run_prog_x who fl wp wr nreads r k (EClose who :: log)
  end.

Definition turn_x (thr : N) (who : nat) (fl : faults) (wp wr : option (N * N)) (r : rcd) (s : server) (tick : N)
  : rcd * server * bool * list event :=
  run_prog_x who fl wp wr 0 r (turn_prog thr s tick) [].

Definition sys_turn_at_x (thr : N) (i : nat) (tick : N) (fl : faults) (wp wr : option (N * N)) (y : sys)
  : sys * bool * list event :=
  match nth_error (y_ws y) i with
  | None => (y, false, [])
  | Some w =>
      let '(r', s', pn, evs) := turn_x thr i fl wp wr (y_rec y) (w_srv w) tick in
      (mkSys r' (upd (y_ws y) i (mkW s' tick)), pn, evs)
  end.

(** a turn of the schedule: server, tick, faults, interference before the
    proposal, interference before the read-back *)
Definition sturn := (nat * N * faults * option (N * N) * option (N * N))%type.

Fixpoint replay (thr : N) (turns : list sturn) (y : sys) : list tobs :=
  match turns with
  | [] => []
  | (i, tick, fl, wp, wr) :: rest =>
      let '(y', pn, evs) := sys_turn_at_x thr i tick fl wp wr y in
      obs_of y' i pn evs :: replay thr rest y'
  end.

Definition init_sys (ids : list N) (init : rcd) : sys :=
  mkSys init (y_ws (new_sys ids)).

Definition pairN_eqb (a b : N * N) : bool := (fst a =? fst b) && (snd a =? snd b).
Definition tripN_eqb (a b : N * N * N) : bool :=
  pairN_eqb (fst a) (fst b) && (snd a =? snd b).

Definition obs_eqb (m o : tobs) : bool :=
  list_eqb Bool.eqb (ob_leaders m) (ob_leaders o) &&
  pairN_eqb (ob_rec m) (ob_rec o) &&
  Bool.eqb (ob_leader m) (ob_leader o) &&
  opt_eqb tripN_eqb (ob_cur m) (ob_cur o) &&
  Bool.eqb (ob_sess m) (ob_sess o) &&
  match ob_ops o with
  | None => true
  | Some _ => opt_eqb (list_eqb N.eqb) (ob_ops m) (ob_ops o)
  end &&
  Bool.eqb (ob_panic m) (ob_panic o).

(** one generated case: the model's per-turn observables = the observed ones *)
Definition ecase (thr : N) (ids : list N) (init : rcd) (turns : list sturn) (obs : list tobs) : bool :=
  list_eqb obs_eqb (replay thr turns (init_sys ids init)) obs.

(** index of the first disagreeing turn (for reports) *)
Fixpoint first_diff (i : N) (m o : list tobs) : option N :=
  match m, o with
  | [], [] => None
  | x :: m', y :: o' => if obs_eqb x y then first_diff (i + 1) m' o' else Some i
  | _, _ => Some i
  end.
Definition ecase_diff (thr : N) (ids : list N) (init : rcd) (turns : list sturn) (obs : list tobs) : option N :=
  first_diff 0 (replay thr turns (init_sys ids init)) obs.

(* fault plans as written by the generator: 0 ok, 1 cancelled (ErrCanceled: applied, reported failed), 2 expired deadline
   (ErrInvalidDeadline: not applied), 3 timed out (ErrTimeout: applied, reported failed), 4 deadline below one tick
   (ErrTimeoutTooSmall: not applied).  For a lookup / session request all four are just a failure. *)
Definition fz (n : N) : opfault :=
  if n =? 0 then FOk else if (n =? 1) || (n =? 3) then FAppliedErr else FLost.
Definition F (r1 s p r2 : N) : faults := mkF (fz r1) (fz s) (fz p) (fz r2).
