(** CrashFS: the strict in-memory file system contract (lni/vfs NewStrictMem) specialised to the
    directory layout of the on-disk test state machine (tests/diskkv.go).

      /                       root (always there)
      /T                      "test_pebble_db_safe_to_delete"
      /T/N                    node directory  "<shard>_<replica>"
      /T/N/current            pointer file          (name FCur)
      /T/N/current.updating   temporary pointer     (name FUpd)
      /T/N/<d>                store directories, d : N  (random names in the code, fresh numbers here)

    Every object has a volatile and a durable view, following mem_fs.go:
      - files are inodes ([memNode]): [Write] changes [i_data], file [Sync] copies it to [i_synced];
        a directory entry refers to an inode, so [Rename] moves the inode with both views;
      - a directory has [children] and [syncedChildren]: create / rename / remove change the
        volatile entry list only, directory [Sync] copies it to the durable list;
      - crash ([ResetToSyncedState]) = every directory falls back to its durable entries, every
        file to its synced data; what is no longer reachable is gone.
    A store directory is an abstract pebble instance (not modelled further, DESIGN.md C16):
    [st_mem] is what the running process reads, [st_disk] what a reopen after a crash yields
    (the state of the last synced batch); a synced batch is atomic.

    Executable definitions only. *)
From Drummer.Model Require Import Base.

(** key/value contents, newest binding first; [kv_get] is what Lookup answers *)
Definition kvmap := list (N * N).
Definition kvstate := (N * kvmap)%type.          (* applied index, contents *)
Definition kv_init : kvstate := (0, []).

Fixpoint kv_get (k : N) (m : kvmap) : option N :=
  match m with
  | [] => None
  | (k', v) :: m' => if k =? k' then Some v else kv_get k m'
  end.

(** one Update batch: entries applied in order *)
Definition apply_batch (b : list (N * N)) (m : kvmap) : kvmap := rev b ++ m.

Inductive fname := FCur | FUpd.

Record inode := mkInode { i_data : list N; i_synced : list N }.
Record store := mkStore { st_mem : kvstate; st_disk : kvstate }.
(** entries of the node directory: the two well-known files (by inode number) and the store directories *)
Record dview := mkView { v_cur : option N; v_upd : option N; v_dbs : list N }.

Record fs := mkFS {
  f_rootT : bool * bool;     (* entry T in "/":   (volatile, durable) *)
  f_TN : bool * bool;        (* entry N in T:     (volatile, durable) *)
  f_vol : dview;             (* entries of N, volatile *)
  f_dur : dview;             (* entries of N, durable (as of N's last directory sync) *)
  f_ino : N -> inode;        (* inode heap *)
  f_next : N;                (* next unused inode number *)
  f_st : N -> store          (* store directories by name *)
}.

Definition view0 : dview := mkView None None [].
Definition inode0 : inode := mkInode [] [].
Definition store0 : store := mkStore kv_init kv_init.
Definition fs0 : fs := mkFS (false, false) (false, false) view0 view0 (fun _ => inode0) 0 (fun _ => store0).

Definition fupd {A} (f : N -> A) (k : N) (v : A) : N -> A := fun x => if x =? k then v else f x.

Definition exists_T (s : fs) : bool := fst (f_rootT s).
Definition exists_N (s : fs) : bool := fst (f_rootT s) && fst (f_TN s).
(** is the node directory reachable through durable entries? *)
Definition durable_N (s : fs) : bool := snd (f_rootT s) && snd (f_TN s).

Definition v_file (f : fname) (v : dview) : option N :=
  match f with FCur => v_cur v | FUpd => v_upd v end.
Definition v_set_file (f : fname) (x : option N) (v : dview) : dview :=
  match f with
  | FCur => mkView x (v_upd v) (v_dbs v)
  | FUpd => mkView (v_cur v) x (v_dbs v)
  end.
Definition v_set_dbs (l : list N) (v : dview) : dview := mkView (v_cur v) (v_upd v) l.

Definition set_vol (v : dview) (s : fs) : fs :=
  mkFS (f_rootT s) (f_TN s) v (f_dur s) (f_ino s) (f_next s) (f_st s).
Definition set_ino (h : N -> inode) (s : fs) : fs :=
  mkFS (f_rootT s) (f_TN s) (f_vol s) (f_dur s) h (f_next s) (f_st s).
Definition set_st (h : N -> store) (s : fs) : fs :=
  mkFS (f_rootT s) (f_TN s) (f_vol s) (f_dur s) (f_ino s) (f_next s) h.

(** ---- directory operations above the node directory ---- *)
Definition fs_mkdirT (s : fs) : fs :=
  if exists_T s then s
  else mkFS (true, snd (f_rootT s)) (false, false) view0 view0 (f_ino s) (f_next s) (f_st s).
Definition fs_sync_root (s : fs) : fs :=
  mkFS (fst (f_rootT s), fst (f_rootT s)) (f_TN s) (f_vol s) (f_dur s) (f_ino s) (f_next s) (f_st s).
Definition fs_mkdirN (s : fs) : fs :=
  if exists_N s then s
  else mkFS (f_rootT s) (true, snd (f_TN s)) view0 view0 (f_ino s) (f_next s) (f_st s).
Definition fs_sync_T (s : fs) : fs :=
  mkFS (f_rootT s) (fst (f_TN s), fst (f_TN s)) (f_vol s) (f_dur s) (f_ino s) (f_next s) (f_st s).

(** ---- operations on the entries of the node directory ---- *)
(* MkdirAll of a store directory that does not exist yet: a new, empty directory *)
Definition fs_mkdir_db (d : N) (s : fs) : fs :=
  if memN d (v_dbs (f_vol s)) then s
  else mkFS (f_rootT s) (f_TN s) (v_set_dbs (d :: v_dbs (f_vol s)) (f_vol s)) (f_dur s)
            (f_ino s) (f_next s) (fupd (f_st s) d store0).
(* directory Sync of N *)
Definition fs_sync_N (s : fs) : fs :=
  mkFS (f_rootT s) (f_TN s) (f_vol s) (f_vol s) (f_ino s) (f_next s) (f_st s).
(* Create: a new empty inode under that name (an existing entry is replaced) *)
Definition fs_create (f : fname) (s : fs) : fs :=
  mkFS (f_rootT s) (f_TN s) (v_set_file f (Some (f_next s)) (f_vol s)) (f_dur s)
       (fupd (f_ino s) (f_next s) inode0) (f_next s + 1) (f_st s).
Definition fs_write (f : fname) (b : list N) (s : fs) : fs :=
  match v_file f (f_vol s) with
  | None => s
  | Some i => set_ino (fupd (f_ino s) i (mkInode (i_data (f_ino s i) ++ b) (i_synced (f_ino s i)))) s
  end.
Definition fs_fsync (f : fname) (s : fs) : fs :=
  match v_file f (f_vol s) with
  | None => s
  | Some i => set_ino (fupd (f_ino s) i (mkInode (i_data (f_ino s i)) (i_data (f_ino s i)))) s
  end.
Definition fs_rename (a b : fname) (s : fs) : fs :=
  match v_file a (f_vol s) with
  | None => s
  | Some i => set_vol (v_set_file b (Some i) (v_set_file a None (f_vol s))) s
  end.
Definition fs_remove_file (f : fname) (s : fs) : fs := set_vol (v_set_file f None (f_vol s)) s.
Definition fs_remove_db (d : N) (s : fs) : fs :=
  set_vol (v_set_dbs (filter (fun x => negb (x =? d)) (v_dbs (f_vol s))) (f_vol s)) s.
Definition fs_read (f : fname) (s : fs) : option (list N) :=
  match v_file f (f_vol s) with
  | None => None
  | Some i => Some (i_data (f_ino s i))
  end.

(** ---- abstract store ---- *)
Definition fs_batch (d : N) (sync : bool) (x : kvstate) (s : fs) : fs :=
  set_st (fupd (f_st s) d (mkStore x (if sync then x else st_disk (f_st s d)))) s.

(** ---- crash: drop to the durable view ---- *)
Definition fs_crash (s : fs) : fs :=
  let t := snd (f_rootT s) in
  let n := t && snd (f_TN s) in
  mkFS (t, t) (n, n)
       (if n then f_dur s else view0) (if n then f_dur s else view0)
       (fun i => mkInode (i_synced (f_ino s i)) (i_synced (f_ino s i)))
       (f_next s)
       (fun d => mkStore (st_disk (f_st s d)) (st_disk (f_st s d))).
