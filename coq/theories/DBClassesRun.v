(** Executable agreement predicate for the "classes" part of C05: the classification
    code of shardimage.go / nodehostimage.go / filter.go evaluated on a scheduler
    context (harness/go/root/zz_verif_classes_test.go prints the same tokens). *)
From stdpp Require Import gmap list numbers sorting.
From Drummer.Model Require Import DB DBRun.
Local Open Scope N_scope.

(* filter.go liveFilter with gap = nodeHostTTL (placement): currentTick - Tick < gap *)
Definition host_live (P : params) (h : hostspec) (now : N) : bool := now - h_tick h <? p_ttl P.

(* a context: now, shards [(shard id, [(replica id, Tick, FirstObserved)])], hosts [(address, Tick)] *)
Definition ccase : Type := N * list (N * list (N * N * N)) * list (N * N).

Definition mk_shard (sid : N) (reps : list (N * N * N)) : shard :=
  mkShard sid 0 (list_to_map ((λ x, (x.1.1, mkReplica sid x.1.1 x.1.1 false x.1.2 x.2)) <$> reps)).
Definition mk_host (a t : N) : hostspec := mkHost a 0 0 t [] ∅.

Definition ids (l : list replica) : list N := merge_sort N.le (r_id <$> l).

Definition dump_lists (P : params) (now : N) (c : shard) : list N :=
  [N.of_nat (quorum_of (size (s_reps c))); b2n (shard_available P c now)] ++
  dn (ids (ok_replicas P c now)) ++ dn (ids (failed_replicas P c now)) ++ dn (ids (waiting_replicas P c now)).

(* getShardForRepair keeps the shards with a failed or to-be-started member; its lists are the same three lists *)
Definition in_repair (P : params) (now : N) (c : shard) : bool :=
  negb (bool_decide (failed_replicas P c now = [])) || negb (bool_decide (waiting_replicas P c now = [])).

Definition dump_classes (P : params) (now : N) (c : shard) : list N :=
  [s_id c] ++ dump_lists P now c ++ (if in_repair P now c then [1] ++ dump_lists P now c else [0]).

Definition dump_case (P : params) (c : ccase) : list N :=
  let now := c.1.1 in
  let shards := (λ x, mk_shard x.1 x.2) <$> c.1.2 in
  [now] ++ dl (dump_classes P now) shards ++
  dn (s_id <$> filter (λ c, shard_available P c now = false) shards) ++
  dl (λ x, [x.1; b2n (host_available P (mk_host x.1 x.2) now); b2n (host_live P (mk_host x.1 x.2) now)]) c.2.

Definition check_case (P : params) (c : ccase) (expected : list N) : bool := tokens_eqb (dump_case P c) expected.
