(** DBRun: canonical token dumps of the DB model's observables and the trace
    checker evaluated (vm_compute) by the generated cases files of the "db" engine.
    The python side flattens the Go answers with the same grammar. *)
From stdpp Require Import gmap list numbers sorting.
From Drummer.Model Require Import DB.
Local Open Scope N_scope.

Definition b2n (b : bool) : N := if b then 1 else 0.
Definition dl {A} (f : A -> list N) (l : list A) : list N := N.of_nat (length l) :: concat (f <$> l).
Definition dn (l : list N) : list N := dl (λ x, [x]) l.
Definition dpairs (l : list (N * N)) : list N := dl (λ p, [p.1; p.2]) l.

Definition key_le {A} (a b : N * A) : Prop := (a.1 ≤ b.1)%N.
Global Instance key_le_dec {A} (a b : N * A) : Decision (key_le a b) := decide (a.1 ≤ b.1)%N.
Definition sorted_kvs {A} (m : gmap N A) : list (N * A) := merge_sort key_le (map_to_list m).
Definition sorted_vals {A} (m : gmap N A) : list A := (sorted_kvs m).*2.
Definition sorted_set (s : gset N) : list N := merge_sort N.le (elements s).

Definition dump_sd (sd : shard_def) : list N := [sd_id sd; sd_app sd] ++ dn (sd_members sd).
Definition dump_kvrec (k : kvrec) : list N := [kv_key k; kv_val k; kv_inst k; kv_tick k; kv_old k; b2n (kv_fin k)].
Definition dump_replica (n : replica) : list N := [r_shard n; r_id n; r_addr n; b2n (r_leader n); r_tick n; r_first n].
Definition dump_shard (c : shard) : list N :=
  [s_id c; s_cci c] ++ dl (λ kv, kv.1 :: dump_replica kv.2) (sorted_kvs (s_reps c)).
Definition dump_kill (k : kill_entry) : list N := [k_shard k; k_replica k; k_addr k].
Definition dump_host (h : hostspec) : list N :=
  [h_addr h; h_rpc h; h_region h; h_tick h] ++ dpairs (h_plog h) ++ dn (sorted_set (h_shards h)).
Definition dump_si (ci : shard_info) : list N :=
  [si_shard ci; si_replica ci; b2n (si_leader ci)] ++ dpairs (sorted_kvs (si_members ci)) ++
  [si_cci ci; b2n (si_incomplete ci); b2n (si_pending ci)].
Definition dump_report (r : report) : list N :=
  [rp_addr r] ++ dl dump_si (rp_infos r) ++ dn (rp_shard_ids r) ++ [rp_last_tick r; b2n (rp_plog_incl r)] ++
  dpairs (rp_plog r) ++ [rp_region r; rp_rpc r].
Definition rtype_n (t : rtype) : N := match t with RCreate => 0 | RDelete => 1 | RAdd => 2 | RKill => 3 end.
Definition dump_req (q : request) : list N :=
  [rtype_n (q_type q); q_shard q] ++ dn (q_members q) ++ [q_ccid q] ++ dn (q_rids q) ++ dn (q_addrs q) ++
  [q_inst q; q_raft q; b2n (q_join q); b2n (q_restore q); q_app q].

(* SCHEDULER_CONTEXT *)
Definition dump_context (d : db) : list N :=
  [d_tick d] ++
  dl (λ kv, kv.1 :: dump_sd kv.2) (sorted_kvs (d_shards d)) ++
  [match d_kv d !! key_regions with Some k => kv_val k | None => 0 end] ++
  dl (λ kv, kv.1 :: dump_shard kv.2) (sorted_kvs (d_view d)) ++
  dl dump_kill (d_kill d) ++
  dl (λ kv, kv.1 :: dump_host kv.2) (sorted_kvs (d_hosts d)) ++
  dl (λ kv, kv.1 :: dump_report kv.2) (sorted_kvs (d_info d)).

Definition dump_ss (s : shard_state) : list N :=
  [ss_id s; ss_leader s] ++ dpairs (merge_sort key_le (ss_reps s)) ++ dpairs (merge_sort key_le (ss_rpcs s)) ++
  [b2n (ss_unavailable s); ss_cci s].

(* SHARD lookup: answer order = ascending shard id (the C03 repair) *)
Definition dump_shards_answer (d : db) : list N := dl dump_sd (sorted_vals (d_shards d)).

Inductive query := QShards | QKV (k : N) | QContext | QRequests (a : N) | QStates (ids : list N) | QHash | QSnap.
Inductive qres := QOk (l : list N) | QPanic | QDead.

Definition db_query (P : params) (d : db) (q : query) : qres :=
  if d_failed d then QPanic else
  match q with
  | QShards => QOk (dump_shards_answer d)
  | QKV k => if k =? 0 then QDead else
             QOk (match lookup_kv d k with Some r => dump_kvrec r | None => [0; 0; 0; 0; 0; 0] end)
  | QContext => QOk (dump_context d)
  | QRequests a => QOk (dl dump_req (lookup_requests d a))
  | QStates ids => match lookup_states P d ids with
                   | None => QOk [0]
                   | Some [] => QOk [0]
                   | Some l => QOk (1 :: dl dump_ss l)
                   end
  | QHash => QOk [1]
  | QSnap => QOk [1]
  end.

(** trace items: a command with the observed result (None = panic) or a query
    with the observed answer (None = panic) *)
Inductive item := ICmd (c : cmd) (obs : option N) | IQuery (q : query) (obs : option (list N)).

Definition tokens_eqb (a b : list N) : bool := bool_decide (a = b).

Definition check_item (P : params) (s : rstate) (it : item) : rstate * bool :=
  match s with
  | Dead => (Dead, true)            (* process gone: nothing is compared any more *)
  | Live d =>
    match it with
    | ICmd c obs =>
      let '(s', v) := rstep P s c in (s', bool_decide (v = obs))
    | IQuery q obs =>
      match db_query P d q, obs with
      | QOk l, Some l' => (s, tokens_eqb l l')
      | QPanic, None => (s, true)
      | QDead, None => (Dead, true)
      | _, _ => (s, false)
      end
    end
  end.

Fixpoint check_trace_from (P : params) (s : rstate) (its : list item) : list bool :=
  match its with
  | [] => []
  | it :: its' => let '(s', b) := check_item P s it in b :: check_trace_from P s' its'
  end.
Definition check_trace (P : params) (its : list item) : list bool := check_trace_from P (Live db_init) its.

(** model answer for diagnostics *)
Fixpoint model_answers_from (P : params) (s : rstate) (its : list item) : list (option (list N)) :=
  match its with
  | [] => []
  | it :: its' =>
    match s with
    | Dead => None :: model_answers_from P s its'
    | Live d =>
      match it with
      | ICmd c _ => let '(s', v) := rstep P s c in (match v with Some x => Some [x] | None => None end) :: model_answers_from P s' its'
      | IQuery q _ => (match db_query P d q with QOk l => Some l | _ => None end) ::
                      model_answers_from P (match db_query P d q with QDead => Dead | _ => s end) its'
      end
    end
  end.

Fixpoint false_ix_from (i : N) (l : list bool) : list N :=
  match l with
  | [] => []
  | b :: l' => if b then false_ix_from (i + 1) l' else i :: false_ix_from (i + 1) l'
  end.
Definition false_ix (l : list bool) : list N := false_ix_from 0 l.

(** constructors with list-of-pairs maps, convenient for generated files *)
Definition SI (s r : N) (leader : bool) (members : list (N * N)) (cci : N) (inc pend : bool) : shard_info :=
  mkSI s r leader (list_to_map members) cci inc pend.
