(** JepsenText: the TEXT form of a Jepsen log, independent of who wrote the file.

    Executable model only (no proofs).

    [Jepsen.read_lines] models the bufio.Reader.ReadLine loop of porcupine.parseJepsenLog on an
    arbitrary byte string.  This file describes the byte strings a text file with a given list of
    lines can be: every line is followed by "\n" or by "\r\n" ([ELf], [ECrlf]); the LAST line may
    come without any terminator ([ENone]; logs written by SaveAsJepsenLog always end in "\n", a log
    cut out of a larger file, written by another tool or by a writer killed before the final
    newline need not); blank lines (empty or white space only) may stand anywhere.  The parsed
    history must depend on the non-blank lines only ([payload]), not on the form
    (proofs/JepsenTextProofs.v, props/C07.v part 4).

    A line is [plain_line]: it contains neither "\n" nor "\r".  A final "\r" without "\n" (a CRLF
    file cut between the two bytes) is NOT a terminator in either convention: ReadLine hands the
    "\r" out as part of the line, the line then ends in white space and matches no pattern - the
    model ([read_lines], [parse_line]) says the same; such texts are outside [text_ok].

    Not modelled: bufio's 4096 byte line limit (a line of 4096 bytes or more, the "\r" included,
    makes parseJepsenLog panic "can't handle isPrefix"); the harness accepts a refusal of such a
    text and requires every answer to be the model's. *)
From Coq Require Import String ZArith.
From Drummer.Model Require Import Base Register Jepsen.
Open Scope N_scope.

Inductive eol := ELf | ECrlf | ENone.

Definition eol_bytes (e : eol) : list N :=
  match e with ELf => [10] | ECrlf => [13; 10] | ENone => [] end.

(** a line of the file and how it is terminated *)
Definition tline := (list N * eol)%type.

Definition render_line (x : tline) : list N := fst x ++ eol_bytes (snd x).
Definition render (ls : list tline) : list N := flat_map render_line ls.

Definition plain_byte (c : N) : bool := negb (c =? 10) && negb (c =? 13).
Definition plain_line (l : list N) : bool := forallb plain_byte l.

(** every line is plain; only the last line may lack its terminator, and then it is not empty
    (an empty unterminated last line is no line at all) *)
Fixpoint text_ok (ls : list tline) : bool :=
  match ls with
  | [] => true
  | x :: rest =>
    plain_line (fst x) && text_ok rest &&
    match snd x with
    | ENone => nonempty (fst x) && match rest with [] => true | _ => false end
    | _ => true
    end
  end.

Definition is_blank (l : list N) : bool := forallb is_space l.

(** what the text says: its non-blank lines, in order *)
Definition payload (ls : list tline) : list (list N) :=
  filter (fun l => negb (is_blank l)) (map fst ls).

(** the parser's loop on a list of lines *)
Definition parse_lines (ls : list (list N)) : pstate := fold_left pstep (map parse_line ls) ps_init.

(** the file SaveAsJepsenLog writes, as a text in this sense *)
Definition saved_text (es : list event) : list tline := map (fun e => (format_line e, ELf)) es.
