(** Jepsen: the history log written by lcm.Coordinator.SaveAsJepsenLog (lcm/manager.go,
    [toJepsenLogEntry]) and read back by porcupine.parseJepsenLog (lcm/porcupine/etcd.go).

    Executable model only (no proofs).  Bytes are [list N].

    Correspondence with the Go code
      lcm.event{eventType,eventResult,id,value}  ~ [event] (value = math.MaxUint64 is "nil" ~ [nilv])
      event.stringValue                          ~ [string_value]
      event.toJepsenLogEntry                     ~ [format_event]   (fmt.Sprintf padding made explicit: [pad_right])
      Coordinator.SaveAsJepsenLog                ~ [format_log]
      bufio.Reader.ReadLine loop                 ~ [read_lines]
      the seven regexps + switch                 ~ [parse_line]  (whitespace tokenizer, see below)
      the body of the switch + procIdMap         ~ [pstep]
      the trailing `for _, matchId := range procIdMap` ~ set valued: [parse_allowed]
      strconv.Atoi                               ~ [atoi] (saturates at MaxInt64, the error is ignored by the caller)

    The format modelled is the REPAIRED one, "INFO  jepsen.util - %-3d %-8s%-8s%s\n"
    ([format_event] = [format_event_gen 3 true]); the format of the tree as found,
    "... %-4d%-8s%-8s%s\n", is [format_event_old] = [format_event_gen 4 false] and is kept
    for the refutation witness (ids >= 1000 leave no blank before the keyword).

    Regexps as a tokenizer.  Every regexp has the shape ^T1\s+T2\s+...\s+Tn$ where no Ti can
    match a string containing white space (\s = [\t\n\f\r ]).  Hence a line matches iff it
    neither starts nor ends with white space and its maximal non-blank tokens are exactly n
    tokens matching T1..Tn.  [parse_line] is that test for the seven token patterns.

    Not modelled: bufio's 4096-byte line limit (isPrefix -> panic; recorder lines are < 100
    bytes), I/O errors. *)
From Coq Require Import String Ascii ZArith Decimal DecimalN.
From Drummer.Model Require Import Base Register.
Open Scope N_scope.

(** * Recorded events *)

Inductive etype := TRead | TWrite.
Inductive eresult := RInvoked | RCompleted | RFailed.

Record event := mkEvent {
  e_type : etype;
  e_res  : eresult;
  e_id   : N;      (* process id *)
  e_val  : N       (* uint64; [nilv] prints as "nil" *)
}.

Definition nilv : N := 18446744073709551615. (* math.MaxUint64 *)
Definition max_int : N := 9223372036854775807. (* math.MaxInt64 *)

Definition etype_eqb (a b : etype) : bool :=
  match a, b with TRead, TRead | TWrite, TWrite => true | _, _ => false end.
Definition eresult_eqb (a b : eresult) : bool :=
  match a, b with RInvoked, RInvoked | RCompleted, RCompleted | RFailed, RFailed => true | _, _ => false end.
Definition event_eqb (a b : event) : bool :=
  etype_eqb (e_type a) (e_type b) && eresult_eqb (e_res a) (e_res b) &&
  (e_id a =? e_id b) && (e_val a =? e_val b).

(** * Bytes, decimal printing and reading *)

Definition bs (s : string) : list N := map N_of_ascii (list_ascii_of_string s).

Fixpoint uint_bytes (u : Decimal.uint) : list N :=
  match u with
  | Nil => []
  | D0 u => 48 :: uint_bytes u | D1 u => 49 :: uint_bytes u | D2 u => 50 :: uint_bytes u
  | D3 u => 51 :: uint_bytes u | D4 u => 52 :: uint_bytes u | D5 u => 53 :: uint_bytes u
  | D6 u => 54 :: uint_bytes u | D7 u => 55 :: uint_bytes u | D8 u => 56 :: uint_bytes u
  | D9 u => 57 :: uint_bytes u
  end.

(** fmt "%d" of an unsigned number *)
Definition dec (n : N) : list N := uint_bytes (N.to_uint n).

Definition is_digit (c : N) : bool := (48 <=? c) && (c <=? 57).

(** \d+ *)
Definition all_digits (l : list N) : bool :=
  match l with [] => false | _ => forallb is_digit l end.

Fixpoint bytes_uint (l : list N) : Decimal.uint :=
  match l with
  | [] => Nil
  | c :: l' =>
    let u := bytes_uint l' in
    if c =? 48 then D0 u else if c =? 49 then D1 u else if c =? 50 then D2 u
    else if c =? 51 then D3 u else if c =? 52 then D4 u else if c =? 53 then D5 u
    else if c =? 54 then D6 u else if c =? 55 then D7 u else if c =? 56 then D8 u
    else D9 u
  end.

(** value of a digit string *)
Definition dec_value (l : list N) : N := N.of_uint (bytes_uint l).

(** strconv.Atoi on a digit string, error ignored: saturates at MaxInt64 *)
Definition atoi (l : list N) : N := N.min (dec_value l) max_int.

(** fmt "%-Wd" / "%-Ws": pad with blanks on the right up to width W, never truncate *)
Definition pad_right (w : nat) (s : list N) : list N := s ++ repeat 32 (w - length s).

(** * toJepsenLogEntry *)

Definition string_value (v : N) : list N := if v =? nilv then bs "nil" else dec v.

Definition type_kw (e : event) : list N :=
  match e_type e with TRead => bs ":read" | TWrite => bs ":write" end.

Definition res_kw (e : event) : list N :=
  match e_res e with
  | RInvoked => bs ":invoke"
  | RCompleted => bs ":ok"
  | RFailed => match e_type e with TRead => bs ":fail" | TWrite => bs ":info" end
  end.

Definition value_str (e : event) : list N :=
  match e_type e, e_res e with
  | TRead, RInvoked => bs "nil"
  | TRead, RFailed => bs ":timed-out"
  | TRead, RCompleted => string_value (e_val e)
  | TWrite, RInvoked => string_value (e_val e)
  | TWrite, RFailed => bs ":timed-out"
  | TWrite, RCompleted => string_value (e_val e)
  end.

Definition line_prefix : list N := bs "INFO  jepsen.util - ".

(** the line without its final newline; [idw] = width of the id column, [sep] = whether an
    explicit blank follows it *)
Definition format_line_gen (idw : nat) (sep : bool) (e : event) : list N :=
  line_prefix ++ pad_right idw (dec (e_id e)) ++ (if sep then [32] else []) ++
  pad_right 8 (res_kw e) ++ pad_right 8 (type_kw e) ++ value_str e.

Definition format_event_gen (idw : nat) (sep : bool) (e : event) : list N :=
  format_line_gen idw sep e ++ [10].

(** repaired code: "INFO  jepsen.util - %-3d %-8s%-8s%s\n" *)
Definition format_line : event -> list N := format_line_gen 3 true.
Definition format_event : event -> list N := format_event_gen 3 true.
(** code as found: "INFO  jepsen.util - %-4d%-8s%-8s%s\n" *)
Definition format_event_old : event -> list N := format_event_gen 4 false.

Definition format_log_with (f : event -> list N) (es : list event) : list N := flat_map f es.
Definition format_log : list event -> list N := format_log_with format_event.
Definition format_log_old : list event -> list N := format_log_with format_event_old.

(** * parseJepsenLog *)

(** ** bufio.Reader.ReadLine until EOF: lines end at '\n'; the '\n' and a '\r' right before it
    are dropped; a last line without '\n' is returned as is *)
Fixpoint split_raw (l : list N) : list (list N) :=
  match l with
  | [] => []
  | c :: l' =>
    if c =? 10 then [10] :: split_raw l'
    else match split_raw l' with
         | [] => [[c]]
         | x :: xs => (c :: x) :: xs
         end
  end.

Definition chomp (line : list N) : list N :=
  match rev line with
  | c :: r =>
    if c =? 10 then
      match r with
      | d :: r' => if d =? 13 then rev r' else rev r
      | [] => []
      end
    else line
  | [] => line
  end.

Definition read_lines (text : list N) : list (list N) := map chomp (split_raw text).

(** ** white space tokens *)
Definition is_space (c : N) : bool :=
  (c =? 32) || (c =? 9) || (c =? 10) || (c =? 12) || (c =? 13).

(** fields between single white space characters (possibly empty) *)
Fixpoint fields (l : list N) : list (list N) :=
  match l with
  | [] => [[]]
  | c :: l' =>
    if is_space c then [] :: fields l'
    else match fields l' with
         | [] => [[c]]
         | f :: fs => (c :: f) :: fs
         end
  end.

Definition nonempty {A} (l : list A) : bool := match l with [] => false | _ => true end.

Definition tokens (l : list N) : list (list N) := filter nonempty (fields l).

Definition starts_nonblank (l : list N) : bool :=
  match l with [] => false | c :: _ => negb (is_space c) end.
Definition ends_nonblank (l : list N) : bool := starts_nonblank (rev l).

Definition bytes_eqb : list N -> list N -> bool := list_eqb N.eqb.

(** ** the seven regexps *)
Inductive line_kind :=
| LInvokeRead (p : N)
| LInvokeWrite (p v : N)
| LInvokeCas (p a b : N)
| LReturnRead (p : N) (v : option N)      (* None = nil *)
| LReturnWrite (p : N)
| LReturnCas (p : N) (ok : bool)
| LTimeoutRead (p : N)
| LNoMatch.

(** \[(\d+)  and  (\d+)\] *)
Definition cas_from (t : list N) : option N :=
  match t with
  | 91 :: ds => if all_digits ds then Some (atoi ds) else None
  | _ => None
  end.
Definition cas_to (t : list N) : option N :=
  match rev t with
  | 93 :: rds => if all_digits (rev rds) then Some (atoi (rev rds)) else None
  | _ => None
  end.

Definition match_tokens (toks : list (list N)) : line_kind :=
  match toks with
  | t1 :: t2 :: t3 :: p :: r :: f :: rest =>
    if negb (bytes_eqb t1 (bs "INFO") && bytes_eqb t2 (bs "jepsen.util") && bytes_eqb t3 (bs "-")
             && all_digits p) then LNoMatch else
    let pid := atoi p in
    match rest with
    | [v] =>
      if bytes_eqb r (bs ":invoke") && bytes_eqb f (bs ":read") then
        if bytes_eqb v (bs "nil") then LInvokeRead pid else LNoMatch
      else if bytes_eqb r (bs ":invoke") && bytes_eqb f (bs ":write") then
        if all_digits v then LInvokeWrite pid (atoi v) else LNoMatch
      else if bytes_eqb r (bs ":ok") && bytes_eqb f (bs ":read") then
        if bytes_eqb v (bs "nil") then LReturnRead pid None
        else if all_digits v then LReturnRead pid (Some (atoi v)) else LNoMatch
      else if bytes_eqb r (bs ":ok") && bytes_eqb f (bs ":write") then
        if all_digits v then LReturnWrite pid else LNoMatch
      else if bytes_eqb r (bs ":fail") && bytes_eqb f (bs ":read") then
        if bytes_eqb v (bs ":timed-out") then LTimeoutRead pid else LNoMatch
      else LNoMatch
    | [a; b] =>
      if bytes_eqb f (bs ":cas") then
        match cas_from a, cas_to b with
        | Some x, Some y =>
          if bytes_eqb r (bs ":invoke") then LInvokeCas pid x y
          else if bytes_eqb r (bs ":ok") then LReturnCas pid true
          else if bytes_eqb r (bs ":fail") then LReturnCas pid false
          else LNoMatch
        | _, _ => LNoMatch
        end
      else LNoMatch
    | _ => LNoMatch
    end
  | _ => LNoMatch
  end.

Definition parse_line (line : list N) : line_kind :=
  if starts_nonblank line && ends_nonblank line then match_tokens (tokens line) else LNoMatch.

(** ** the loop body: events so far (reversed), next operation id, procIdMap *)
Definition pmap := list (N * N).

Definition pm_get (m : pmap) (p : N) : N :=   (* Go: missing key reads as 0 *)
  match find (fun kv => fst kv =? p) m with Some kv => snd kv | None => 0 end.
Definition pm_del (m : pmap) (p : N) : pmap := filter (fun kv => negb (fst kv =? p)) m.
Definition pm_set (m : pmap) (p id : N) : pmap := (p, id) :: pm_del m p.

Record pstate := mkPS { ps_rev : history; ps_next : N; ps_map : pmap }.

Definition ps_init : pstate := mkPS [] 0 [].

Definition out_plain : output := mkOut false false 0%Z false.
Definition out_unknown : output := mkOut false false 0%Z true.
Definition out_read (v : option N) : output :=
  match v with
  | None => mkOut false false 0%Z false
  | Some x => mkOut false true (Z.of_N x) false
  end.

Definition p_call (s : pstate) (p : N) (i : input) : pstate :=
  mkPS (Call (ps_next s) i :: ps_rev s) (ps_next s + 1) (pm_set (ps_map s) p (ps_next s)).
Definition p_ret (s : pstate) (p : N) (o : output) : pstate :=
  mkPS (Ret (pm_get (ps_map s) p) o :: ps_rev s) (ps_next s) (pm_del (ps_map s) p).

Definition pstep (s : pstate) (k : line_kind) : pstate :=
  match k with
  | LInvokeRead p => p_call s p Read
  | LInvokeWrite p v => p_call s p (Write (Z.of_N v))
  | LInvokeCas p a b => p_call s p (Cas (Z.of_N a) (Z.of_N b))
  | LReturnRead p v => p_ret s p (out_read v)
  | LReturnWrite p => p_ret s p out_plain
  | LReturnCas p ok => p_ret s p (mkOut ok false 0%Z false)
  | LTimeoutRead p => p_ret s p out_unknown
  | LNoMatch => s
  end.

Definition parse_state (text : list N) : pstate :=
  fold_left pstep (map parse_line (read_lines text)) ps_init.

(** the part of the result that does not depend on map iteration order, and the ids of the
    operations still pending at the end of the file *)
Definition parse_main (text : list N) : history := rev (ps_rev (parse_state text)).
Definition parse_open (text : list N) : list N := map snd (ps_map (parse_state text)).

Definition unknown_rets (ids : list N) : history := map (fun id => Ret id out_unknown) ids.

(** One result of parseJepsenLog with the tail in a canonical order (ascending op id). *)
Definition parse_log (text : list N) : history :=
  parse_main text ++ unknown_rets (sort_by (fun x => x) (parse_open text)).

(** Every result parseJepsenLog may return (Go map iteration order is unspecified). *)
Definition parse_allowed (text : list N) (h : history) : Prop :=
  exists tail, Permutation.Permutation tail (parse_open text) /\
               h = parse_main text ++ unknown_rets tail.

(** * What the checker is expected to see for a recorded event list
    Defined on events, without any text: an invocation opens a new operation with the next
    operation id; a completion closes the pending operation of its process; a failed read
    closes it with an unknown result; a failed write closes nothing; operations still open at
    the end get an unknown return there. *)

Definition ev_value (v : N) : option N := if v =? nilv then None else Some v.

Definition event_kind (e : event) : line_kind :=
  match e_type e, e_res e with
  | TRead, RInvoked => LInvokeRead (e_id e)
  | TWrite, RInvoked => LInvokeWrite (e_id e) (e_val e)
  | TRead, RCompleted => LReturnRead (e_id e) (ev_value (e_val e))
  | TWrite, RCompleted => LReturnWrite (e_id e)
  | TRead, RFailed => LTimeoutRead (e_id e)
  | TWrite, RFailed => LNoMatch
  end.

Fixpoint expected_from (es : list event) (next : N) (pend : pmap) : history * pmap :=
  match es with
  | [] => ([], pend)
  | e :: es' =>
    match e_res e, e_type e with
    | RInvoked, ty =>
      let i := match ty with TRead => Read | TWrite => Write (Z.of_N (e_val e)) end in
      let (h, m) := expected_from es' (next + 1) (pm_set pend (e_id e) next) in
      (Call next i :: h, m)
    | RCompleted, ty =>
      let o := match ty with TRead => out_read (ev_value (e_val e)) | TWrite => out_plain end in
      let (h, m) := expected_from es' next (pm_del pend (e_id e)) in
      (Ret (pm_get pend (e_id e)) o :: h, m)
    | RFailed, TRead =>
      let (h, m) := expected_from es' next (pm_del pend (e_id e)) in
      (Ret (pm_get pend (e_id e)) out_unknown :: h, m)
    | RFailed, TWrite => expected_from es' next pend
    end
  end.

Definition expected_main (es : list event) : history := fst (expected_from es 0 []).
Definition expected_open (es : list event) : list N := map snd (snd (expected_from es 0 [])).

Definition expected_log (es : list event) : history :=
  expected_main es ++ unknown_rets (sort_by (fun x => x) (expected_open es)).

Definition history_allowed (es : list event) (h : history) : Prop :=
  exists tail, Permutation.Permutation tail (expected_open es) /\
               h = expected_main es ++ unknown_rets tail.

(** An event whose line reads back exactly: ids and values fit Go's int (Atoi saturates
    above), a written value is a number (MaxUint64 would print as "nil" and the line would not
    match), a failed event carries no value. *)
Definition printable (e : event) : bool :=
  (e_id e <=? max_int) &&
  match e_type e, e_res e with
  | TRead, RCompleted => (e_val e <=? max_int) || (e_val e =? nilv)
  | TWrite, RInvoked | TWrite, RCompleted => e_val e <=? max_int
  | _, _ => true
  end.
