(** ServiceRun: canonical token dumps of the service answers and the trace checker
    evaluated (vm_compute) by the generated cases files of the "service" engine
    (harness/py/c17.py flattens the Go answers with the same grammar).

    Answer tokens ([dump_resp]):
      [0; c]        ChangeResponse, c = 0 OK / 1 SHARD_EXIST / 2 BOOTSTRAPPED
      [1]           an error (InvalidArgument, shard not found, unparsable deployment id):
                    the property only says "refused with an error", the kind is not compared
      [2; n]        deployment id n
      3 :: ...      the requests of a report reply, in order
      4 :: ...      shard definitions, ascending shard id
      5 :: t :: ... NodeHost collection: tick, reports in ascending address order
      6 :: ...      shard states in the order asked for
      7 :: ...      (shard id, config change index) pairs, ascending
      [8]           panic in the service goroutine
      [9]           the DB replica died
      [10; b]       server.getBootstrapped (the Drummer's own linearizable read of the bootstrapped flag), b = 0 / 1 *)
From stdpp Require Import gmap list numbers sorting.
From Drummer.Model Require Import DB DBRun Service.
Local Open Scope N_scope.

Definition sort_keyed {A} (k : A -> N) (l : list A) : list A := (merge_sort key_le ((λ x, (k x, x)) <$> l)).*2.

Definition dump_resp (r : resp) : list N :=
  match r with
  | ROk => [0; 0]
  | RShardExist => [0; 1]
  | RBootstrapped => [0; 2]
  | RInvalid | RNotFound | RParseErr => [1]
  | RDid n => [2; n]
  | RRequests l => 3 :: dl dump_req l
  | RShards l => 4 :: dl dump_sd (sort_keyed sd_id l)
  | RHosts t l => 5 :: t :: dl dump_report (sort_keyed rp_addr l)
  | RStates l => 6 :: dl dump_ss l
  | RCCI l => 7 :: dpairs (merge_sort key_le l)
  | RHandlerPanic => [8]
  | RDied => [9]
  end.

(** trace items: what the executor did and what it observed *)
Inductive sitem :=
| SCall (c : call) (obs : list N)
| SCmd (c : cmd) (obs : option N)           (* Drummer.tick / Drummer.updateRequests; None = the replica died *)
| SCtx (obs : option (list N))              (* server.getSchedulerContext; None = died *)
| SBoot (obs : list N)                      (* server.getBootstrapped: [10; b], [8] (unknown value), [9] (died) *)
| SRestart (alive : bool).                  (* child stopped, new child on the same directory: did it come up? *)

(* getBooleanKV(bootstrappedKey): no record / "" = false, "true" = true, anything else panics in the service goroutine *)
Definition boot_answer (d : db) : list N :=
  if d_failed d then [9]
  else match lookup_kv d key_bootstrapped with
       | None => [10; 0]
       | Some r => if kv_val r =? val_true then [10; 1] else if kv_val r =? 0 then [10; 0] else [8]
       end.

Definition check_sitem (P : params) (s : rstate) (it : sitem) : rstate * bool :=
  match s with
  | Dead => (Dead, true)                    (* process gone: nothing is compared any more *)
  | Live d =>
    match it with
    | SCall c obs => let '(s', r) := svc_call P d c in (s', tokens_eqb (dump_resp r) obs)
    | SCmd c obs => let '(s', v) := rstep P s c in (s', bool_decide (v = obs))
    | SCtx obs =>
      match obs with
      | Some l => (s, negb (d_failed d) && tokens_eqb (dump_context d) l)
      | None => (s, d_failed d)
      end
    | SBoot obs => (s, tokens_eqb (boot_answer d) obs)
    | SRestart alive => (s, bool_decide (alive = negb (d_failed d)))
    end
  end.

Fixpoint check_strace_from (P : params) (s : rstate) (its : list sitem) : list bool :=
  match its with
  | [] => []
  | it :: its' => let '(s', b) := check_sitem P s it in b :: check_strace_from P s' its'
  end.
Definition check_strace (P : params) (its : list sitem) : list bool := check_strace_from P (Live db_init) its.

(** the model's own answers, for replay files *)
Fixpoint model_sanswers_from (P : params) (s : rstate) (its : list sitem) : list (list N) :=
  match its with
  | [] => []
  | it :: its' =>
    match s with
    | Dead => [9] :: model_sanswers_from P s its'
    | Live d =>
      match it with
      | SCall c _ => let '(s', r) := svc_call P d c in dump_resp r :: model_sanswers_from P s' its'
      | SCmd c _ => let '(s', v) := rstep P s c in (match v with Some x => [x] | None => [9] end) :: model_sanswers_from P s' its'
      | SCtx _ => (if d_failed d then [9] else dump_context d) :: model_sanswers_from P s its'
      | SBoot _ => boot_answer d :: model_sanswers_from P s its'
      | SRestart _ => [b2n (negb (d_failed d))] :: model_sanswers_from P s its'
      end
    end
  end.
Definition model_sanswers (P : params) (its : list sitem) : list (list N) := model_sanswers_from P (Live db_init) its.

(** shorthand used by generated files *)
Definition SD (id app : N) (members : list N) : shard_def := mkSD id members app.
