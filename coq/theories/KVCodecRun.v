(** KVCodecRun: executable agreement predicates evaluated (vm_compute) by the
    generated cases files of the C20 correspondence check. *)
From Drummer.Model Require Import Base KVCodec.

Definition bytes_eqb := list_eqb N.eqb.

Definition mres_eqb (a b : mres) : bool :=
  match a, b with
  | MErr, MErr => true
  | MCrash, MCrash => true
  | MOk x, MOk y => bytes_eqb x y
  | _, _ => false
  end.

(* encode case: model result = observed result *)
Definition ecase (sm : N) (k v : list N) (obs : mres) : bool :=
  mres_eqb (marshal_binary sm (mkKV k v)) obs.

Definition code_eqb (o : outcome) (c i : N) : bool :=
  let '(c', i') := outcome_code o in (c' =? c) && (i' =? i).

(* decode case: Unmarshal outcome (uc,ui), UnmarshalBinary outcome (bc,bi; index
   compared only for errors), resulting fields; both models must agree with it *)
Definition dcase (sm : N) (data k0 v0 : list N) (uc ui bc bi : N) (k v : list N) : bool :=
  let '(o1, out1) := unmarshal_ix sm (mkKV k0 v0) data in
  let '(o2, out2) := unmarshal_binary_ix sm (mkKV k0 v0) data in
  let '(o3, out3) := unmarshal_ls sm (mkKV k0 v0) data in
  let bout := match out2 with OkN _ => OkN 0 | x => x end in
  if uc =? 5 then (* observed a Go panic *)
    match out1 with Crash => true | _ => false end
  else
    code_eqb out1 uc ui && code_eqb bout bc bi &&
    bytes_eqb (key o2) k && bytes_eqb (val o2) v &&
    bytes_eqb (key o1) k && bytes_eqb (val o1) v &&
    code_eqb out3 uc ui && bytes_eqb (key o3) k && bytes_eqb (val o3) v.
