(** ElectionSpec: the predicates in which the C14 theorems are stated.
    Definitions only (no proofs); the proofs are in proofs/ElectionProofs.v and
    proofs/ElectionLiveProofs.v. *)
From Coq Require Import Permutation.
From Drummer.Model Require Import Base Election.

(* ------------------------------------------------------------------ *)
(** * Preconditions on a system state                                   *)

(** instance ids are pairwise distinct and non-zero (they are random 64-bit
    numbers, LockedRand.Uint64 never answers 0) *)
Definition distinct_ids (y : sys) : Prop :=
  forall i j wi wj,
    nth_error (y_ws y) i = Some wi -> nth_error (y_ws y) j = Some wj ->
    s_id (w_srv wi) = s_id (w_srv wj) -> i = j.

Definition nonzero_ids (y : sys) : Prop :=
  forall i wi, nth_error (y_ws y) i = Some wi -> s_id (w_srv wi) <> 0.

(** [consistent y]: what every state reachable by turns has (theorem
    [C14_consistent_reachable]): nobody's view of a holder is ahead of what that
    holder wrote.
      - a stored record carries a non-zero id;
      - a record written by server j carries a tick that j's ticker has reached;
      - a remembered leader (id, tick) of a server that exists was written by
        that server, so its tick is one that server's ticker has reached;
      - a remembered (id, tick) is not newer than a record held by the same id. *)
Definition consistent (y : sys) : Prop :=
  distinct_ids y /\ nonzero_ids y /\
  (forall h t, y_rec y = Some (h, t) -> h <> 0) /\
  (forall j wj t, nth_error (y_ws y) j = Some wj ->
     y_rec y = Some (s_id (w_srv wj), t) -> t <= w_tick wj) /\
  (forall f wf c j wj, nth_error (y_ws y) f = Some wf -> s_cur (w_srv wf) = Some c ->
     nth_error (y_ws y) j = Some wj -> l_id c = s_id (w_srv wj) -> l_tick c <= w_tick wj) /\
  (forall f wf c t, nth_error (y_ws y) f = Some wf -> s_cur (w_srv wf) = Some c ->
     y_rec y = Some (l_id c, t) -> l_tick c <= t).

(* ------------------------------------------------------------------ *)
(** * Schedules                                                        *)

(** arbitrary schedule with arbitrary faults: (server, faults of that turn);
    every turn uses workerMain's tick (previous + 1) *)
Definition run_faulty (thr : N) (sched : list (nat * faults)) (y : sys) : sys :=
  fold_left (fun y x => sys_turn thr (snd x) y (fst x)) sched y.

(** a round in which the leader [L] renews (at least) once and nobody takes two turns *)
Definition fair_round (L : nat) (r : list nat) : Prop := NoDup r /\ In L r.

(** a round in which every server of [A] takes exactly one turn *)
Definition full_round (A : list nat) (r : list nat) : Prop := Permutation r A.

(** [stable_start thr y L]: server [L] is leader and named by the record, and no
    other server has already seen the record's current tick more than once:
    its remembered leader is nobody / somebody else / an older tick of L / the
    current tick seen for the first time. *)
Definition stable_start (y : sys) (L : nat) : Prop :=
  exists wL t,
    nth_error (y_ws y) L = Some wL /\ s_role (w_srv wL) = Leader /\ s_id (w_srv wL) <> 0 /\
    y_rec y = Some (s_id (w_srv wL), t) /\ t <= w_tick wL /\
    forall f wf, f <> L -> nth_error (y_ws y) f = Some wf ->
      s_id (w_srv wf) <> s_id (w_srv wL) /\
      forall c, s_cur (w_srv wf) = Some c -> l_id c = s_id (w_srv wL) ->
        l_tick c < t \/ (l_tick c = t /\ l_static c = 0).

(** the proposals (CAS requests) among a list of events *)
Definition is_proposal (e : event) : bool :=
  match e with ECas _ _ _ _ _ _ _ _ => true | _ => false end.

(* ------------------------------------------------------------------ *)
(** * Operation granularity                                            *)

(** a successful campaign CAS against holder [h]: applied, stored, naming [h] as
    the old holder while [h] was the holder, by somebody else *)
Definition displaces (h : N) (e : event) : Prop :=
  match e with
  | ECas _ self old _ before true Updated _ => old = h /\ holder before = Some h /\ self <> h
  | _ => False
  end.

(** the answers of a turn contain a lookup answer naming [id] *)
Definition read_own (id : N) (rs : list resp) : Prop := exists t, In (RRead (Some (id, t))) rs.

(** the answer an operation got, read off its event *)
Definition resp_of (e : event) : resp :=
  match e with
  | ERead _ a => RRead a
  | ESess _ ok => RSess ok
  | ECas _ _ _ _ _ _ res reported => RCas (if reported then Some res else None)
  | EClose _ => RClose
  end.
