(** SchedRun: constructors and agreement predicates evaluated (vm_compute) by the
    generated cases files of the "sched" engine (harness/py/schedengine.py). *)
From stdpp Require Import gmap list numbers.
From Drummer.Model Require Import DB Sched.
Local Open Scope N_scope.

(* replica: shard, id, address, last tick, first observed *)
Definition REP (s id addr tick first : N) : replica := mkReplica s id addr false tick first.
Definition SH (id cci : N) (reps : list replica) : shard :=
  mkShard id cci (list_to_map ((λ n, (r_id n, n)) <$> reps)).
Definition HOST (addr region tick : N) (plog : list (N * N)) (shards : list N) : hostspec :=
  mkHost addr 0 region tick plog (list_to_set shards).
Definition CTX (tick : N) (defs : list shard_def) (view : list shard) (hosts : list hostspec)
  (kill : list kill_entry) : sctx :=
  mkCtx tick (list_to_map ((λ d, (sd_id d, d)) <$> defs)) (list_to_map ((λ c, (s_id c, c)) <$> view))
        (list_to_map ((λ h, (h_addr h, h)) <$> hosts)) kill.
Definition rtype_of (n : N) : rtype :=
  match n with 0 => RCreate | 1 => RDelete | 2 => RAdd | _ => RKill end.
(* request: type shard members ccid rids addrs inst raft join restore app *)
Definition REQ (t s : N) (ms : list N) (cc : N) (rids addrs : list N) (inst raft : N) (j r : bool) (app : N) : request :=
  mkReq (rtype_of t) s ms cc rids addrs inst raft j r app.

(* observed outcome is one of the outcomes the model allows *)
Definition scase (P : params) (C : sctx) (o : outcome) : bool := allowed P C o.

Fixpoint false_ix_from (i : N) (l : list bool) : list N :=
  match l with
  | [] => []
  | b :: l' => if b then false_ix_from (i + 1) l' else i :: false_ix_from (i + 1) l'
  end.
Definition false_ix (l : list bool) : list N := false_ix_from 0 l.

(* model self-check used on a sample of the generated contexts: the canonical outcome
   computed by [canon] is itself in the allowed set (the set is not empty) *)
Definition scase_canon (P : params) (C : sctx) (o : outcome) : bool :=
  allowed P C o && allowed P C (canon P C (λ s, 700000 + s)).
