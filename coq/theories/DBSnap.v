(** DBSnap: snapshot / recovery of the Drummer DB model (db.go SaveSnapshot,
    RecoverFromSnapshot, GetHash) and the observable behaviour of a replica.

    SaveSnapshot is json.Marshal of the DB struct: every exported field except the
    two tagged json:"-" (ShardID, ReplicaID - they are not part of the model at all).
    RecoverFromSnapshot decodes into a fresh struct and copies the fields ONE BY ONE
    into the receiving replica; [recover] mirrors that field-by-field copy, so a
    field that is not copied keeps the receiver's old value.  encoding/json itself is
    not modelled (DESIGN.md C03): its round trip is exercised by the correspondence
    (FORK ops of the db engine), under the precondition that KV keys are valid UTF-8. *)
From stdpp Require Import gmap list numbers.
From Drummer.Model Require Import DB DBRun.
Local Open Scope N_scope.

Record snap := mkSnap {
  sn_tick : N; sn_deadline : N; sn_failed : bool;
  sn_shards : gmap N shard_def; sn_kv : gmap N kvrec; sn_view : gmap N shard; sn_kill : list kill_entry;
  sn_hosts : gmap N hostspec; sn_info : gmap N report;
  sn_requests : gmap N (list request); sn_outgoing : gmap N (list request) }.

(* SaveSnapshot / GetHash panic on a failed DB (assertNotFailed) *)
Definition snapshot (d : db) : option snap :=
  if d_failed d then None else
  Some (mkSnap (d_tick d) (d_deadline d) (d_failed d) (d_shards d) (d_kv d) (d_view d) (d_kill d)
               (d_hosts d) (d_info d) (d_requests d) (d_outgoing d)).

(* RecoverFromSnapshot into replica [d0] (panics when d0 has failed) *)
Definition recover (d0 : db) (s : snap) : option db :=
  if d_failed d0 then None else
  Some (set_outgoing (set_requests (set_info (set_hosts (set_kill (set_view (set_kv (set_shards
        (set_deadline (set_failed (set_tick d0 (sn_tick s)) (sn_failed s)) (sn_deadline s))
        (sn_shards s)) (sn_kv s)) (sn_view s)) (sn_kill s)) (sn_hosts s)) (sn_info s)) (sn_requests s)) (sn_outgoing s)).

(** Observable behaviour of a replica: the outcome of every command and of every query. *)
Inductive obs := OVal (v : N) | OAns (l : list N) | OPanic.
Inductive op := OpCmd (c : cmd) | OpQuery (q : query).

Definition ostep (P : params) (s : rstate) (o : op) : rstate * obs :=
  match s with
  | Dead => (Dead, OPanic)
  | Live d =>
    match o with
    | OpCmd c => let '(s', v) := rstep P s c in (s', match v with Some x => OVal x | None => OPanic end)
    | OpQuery q => match db_query P d q with
                   | QOk l => (s, OAns l)
                   | QPanic => (s, OPanic)
                   | QDead => (Dead, OPanic)
                   end
    end
  end.

Fixpoint observe (P : params) (s : rstate) (os : list op) : list obs :=
  match os with
  | [] => []
  | o :: os' => let '(s', b) := ostep P s o in b :: observe P s' os'
  end.
Definition final (P : params) (s : rstate) (os : list op) : rstate := foldl (λ s o, (ostep P s o).1) s os.

(** GetHash = md5 of json.Marshal(d): encoding/json writes every map with its keys sorted, i.e. as a function of the
    map's CONTENT, never of the order of insertions or of Go's map iteration order.  [canon] is that pre-image: scalars,
    the kill list in its order, every map as its canonical association list. *)
Definition canon (d : db) :=
  (d_tick d, d_deadline d, d_failed d,
   (map_to_list (d_shards d), map_to_list (d_kv d), map_to_list (d_view d), d_kill d),
   (map_to_list (d_hosts d), map_to_list (d_info d), map_to_list (d_requests d), map_to_list (d_outgoing d))).
