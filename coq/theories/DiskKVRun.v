(** DiskKVRun: executable agreement predicates for the C16 correspondence (generated cases files).

    The implementation is observed at the level of mutating file-system operations.  Operations on the
    node directory and its two pointer files correspond one to one to model steps; operations inside a
    store directory (pebble's files) are opaque: a maximal run of them corresponds to a maximal run of
    abstract store steps (open / batch / close) on that directory.  A crash point strictly inside such a
    run may denote any point of the abstract run ("before or after the enclosing batch").

    Executable definitions only. *)
From Drummer.Model Require Import Base CrashFS DiskKVModel.

(** any injective function will do (DiskKVProofs is parametric in it) *)
Definition ckr (d : N) : N := 7 + 31 * d.

Definition tok := (N * N)%type.
Definition fcode (f : fname) : N := match f with FCur => 0 | FUpd => 1 end.

Definition tok_of (st : step) : tok :=
  match st with
  | SMkdirT => (1, 0)
  | SSyncRoot => (2, 0)
  | SMkdirN => (3, 0)
  | SSyncT => (4, 0)
  | SMkdirDb d => (5, d)
  | SSyncN => (6, 0)
  | SCreate f => (7, fcode f)
  | SWrite f _ => (8, fcode f)
  | SFsync f => (9, fcode f)
  | SRename a b => (10, 2 * fcode a + fcode b)
  | SRemoveF f => (11, fcode f)
  | SRemoveDb d => (12, d)
  | SStOpen d => (13, d)
  | SStBatch d _ _ => (13, d)
  | SStClose d => (13, d)
  end.

Definition is_store (st : step) : bool :=
  match st with
  | SStOpen _ | SStBatch _ _ _ | SStClose _ => true
  | _ => false
  end.

Definition tok_eqb (a b : tok) : bool := (fst a =? fst b) && (snd a =? snd b).

(** maximal runs of store steps on the same directory collapse into one group; (token, number of steps) *)
Fixpoint groups (l : list step) : list (tok * N) :=
  match l with
  | [] => []
  | st :: l' =>
      let t := tok_of st in
      match groups l' with
      | (t', n) :: g' =>
          if is_store st && tok_eqb t t' then (t, n + 1) :: g' else (t, 1) :: (t', n) :: g'
      | [] => [(t, 1)]
      end
  end.

Fixpoint upto (n : nat) : list N :=
  match n with
  | O => [0]
  | S n' => upto n' ++ [N.of_nat n]
  end.

(** candidate numbers of completed model steps for a crash after [g] complete groups of the call
    (and, if [interior], somewhere inside group number g) *)
Definition cands (l : list step) (g : N) (interior : bool) : list nat :=
  let gs := groups l in
  let base := fold_left (fun a x => a + snd x) (firstn (N.to_nat g) gs) 0 in
  if interior then
    match nth_error gs (N.to_nat g) with
    | Some (_, n) => map (fun j => N.to_nat (base + j)) (upto (N.to_nat n))
    | None => [N.to_nat base]
    end
  else [N.to_nat base].

(** Alignment of the model groups of a call with the observed group tokens.  An observed store token the model
    does not expect at that position is background work of pebble (table statistics, obsolete-file deletion
    after a reopen) and is skipped; everything else must match in order.  Result: the candidate numbers of
    completed model steps for a crash after [g] observed groups (inside observed group g if [interior]);
    [None] if the traces do not match. *)
Fixpoint align (ms : list (tok * N)) (obs : list tok) (pos g : N) (interior : bool) (base : N)
         (acc : option (list nat)) : option (list nat) :=
  match obs with
  | [] =>
      match ms with
      | [] => match acc with
              | Some js => Some js
              | None => Some [N.to_nat base]
              end
      | _ :: _ => None
      end
  | t :: obs' =>
      let here := pos =? g in
      let matched := match ms with
                     | (t', _) :: _ => tok_eqb t t'
                     | [] => false
                     end in
      if matched then
        match ms with
        | (_, n) :: ms' =>
            let acc' := if here
                        then Some (if interior then map (fun j => N.to_nat (base + j)) (upto (N.to_nat n))
                                   else [N.to_nat base])
                        else acc in
            align ms' obs' (pos + 1) g interior (base + n) acc'
        | [] => None
        end
      else if fst t =? 13 then
        align ms obs' (pos + 1) g interior base (if here then Some [N.to_nat base] else acc)
      else None
  end.

Inductive xevent :=
| XOp (o : op) (r : res) (tr : list tok)                      (* the call returned r; tr: its observed groups *)
| XCrash (o : op) (g : N) (interior : bool) (tr : list tok)   (* the machine crashed during the call *)
| XIdle.                                                      (* the machine crashed between calls *)

Definition res_eqb (a b : res) : bool :=
  match a, b with
  | ROk i, ROk j => i =? j
  | RPanic, RPanic => true
  | RSkip, RSkip => true
  | _, _ => false
  end.

Definition no_crash : N := 1000000.

Definition xstep (chk : bool) (ys : list sys) (xe : xevent) : list sys :=
  flat_map (fun y =>
    match xe with
    | XOp o r tr =>
        let '(y', r') := do_event ckr (EvOp o) y in
        if res_eqb r r' &&
           (negb chk || match align (groups (steps_of ckr o y)) tr 0 no_crash false 0 None with
                        | Some _ => true
                        | None => false
                        end)
        then [y'] else []
    | XCrash o g interior tr =>
        let js := if chk then align (groups (steps_of ckr o y)) tr 0 g interior 0 None
                  else Some (cands (steps_of ckr o y) g interior) in
        match js with
        | Some l => map (fun j => fst (do_event ckr (EvCrash o j) y)) l
        | None => []
        end
    | XIdle => [fst (do_event ckr (EvCrash OClose 0) y)]
    end) ys.

Definition xrun (chk : bool) (xs : list xevent) : list sys := fold_left (xstep chk) xs [sys0].

Definition look_ok (exp : list (N * option N)) (y : sys) : bool :=
  match open_state y with
  | Some L => forallb (fun kv => opt_eqb N.eqb (kv_get (fst kv) (snd L)) (snd kv)) exp
  | None => false
  end.

(** the whole case: calls, crashes, final probe Open (the last XOp), Lookup of every key.
    [chk]: also compare the operation traces (and use them to place the crash point). *)
Definition xcase (chk : bool) (xs : list xevent) (exp : list (N * option N)) : bool :=
  existsb (look_ok exp) (xrun chk xs).
