(** Recorder: small-step model of the lcm workload coordinator (lcm/manager.go, lcm/process.go):
    ONE scheduling goroutine (Coordinator.scheduleProcesses) and one client goroutine per
    process and operation (process.StartRead / StartWrite), interleaved arbitrarily.

    Executable model only (no proofs).

    Atomic steps (labels) and the code they stand for
      scheduling goroutine
        LPick p w      the test  !(!p.isIdle() || p.isStopped())  succeeded for the randomly chosen p
                       (idx < len(c.processes)); rw chosen; for a write  value := c.value; c.value++
        LRecInvoke     c.recordReadInvoked(p.id) / c.recordWriteInvoked(p.id, value)   (append under c.mu)
        LSetBusy       p.setBusy()                      (first statement of StartRead/StartWrite)
        LSpawn         go func() { ... }()              (second statement)
      client goroutine of process p
        LRpcStart p    p.read / p.write issues its first rpc
        LRpcReturn p r p.read / p.write returns (value, nil) or an error (service failure or client side timeout)
        LSetStopped p  p.setStopped()                   (error path only)
        LRecDone p     p.recordXCompleted(value) / p.recordXFailed()      (append under c.mu)
        LSetIdle p     deferred p.setIdle()
    The history [events] is the Coordinator.events slice; [obs] additionally interleaves the rpc
    start / return observations (ghost, for stating the property).

    Abstractions: the two atomic loads of the availability test are one step (the flags of an
    idle process cannot change in between, see the invariant in the proofs); Go's atomics are
    sequentially consistent; the rpc is one start and one return (GetSession+Propose of a
    write are one operation); c.value does not wrap; timers (mainLoop), Coordinator.Stop and
    the getTargetAddress lookup are not modelled. *)
From Drummer.Model Require Import Base Jepsen.
Open Scope N_scope.

Inductive op := OpRead | OpWrite (v : N).
Inductive rpcres := ROk (v : N) | RErr.   (* ROk v: v = value read ([nilv] = none); ignored for writes *)

(** program counter of the client goroutine of one process *)
Inductive cpc :=
| CNone                           (* no goroutine *)
| CSpawned (o : op)               (* goroutine started, rpc not issued yet *)
| CInRpc (o : op)                 (* rpc issued *)
| CReturned (o : op) (r : rpcres) (* rpc returned, nothing done yet *)
| CStopSet (o : op)               (* error path: stopped flag set *)
| CRecorded.                      (* completion / failure appended; deferred setIdle pending *)

(** program counter of the scheduling goroutine *)
Inductive spc :=
| SIdle
| SPicked (p : N) (o : op)
| SRecorded (p : N) (o : op)
| SBusy (p : N) (o : op).

Record proc := mkProc { idle : bool; stopped : bool; pc : cpc }.

(** observations: an event appended to the history, an rpc start, an rpc return *)
Inductive obs :=
| OEv (e : event)
| OStart (p : N)
| ORet (p : N) (r : rpcres).

Record state := mkState {
  nprocs : N;
  procs  : N -> proc;
  sched  : spc;
  value  : N;             (* c.value: next value to write *)
  revents : list event;   (* c.events, newest first *)
  robs    : list obs      (* observations, newest first *)
}.

Definition events (s : state) : list event := rev (revents s).
Definition observations (s : state) : list obs := rev (robs s).

Definition init (n : N) : state :=
  mkState n (fun _ => mkProc true false CNone) SIdle 1 [] [].

Inductive label :=
| LPick (p : N) (w : bool)
| LRecInvoke
| LSetBusy
| LSpawn
| LRpcStart (p : N)
| LRpcReturn (p : N) (r : rpcres)
| LSetStopped (p : N)
| LRecDone (p : N)
| LSetIdle (p : N).

Definition upd (f : N -> proc) (p : N) (x : proc) : N -> proc :=
  fun q => if q =? p then x else f q.

Definition set_procs (s : state) (f : N -> proc) : state :=
  mkState (nprocs s) f (sched s) (value s) (revents s) (robs s).
Definition set_sched (s : state) (x : spc) : state :=
  mkState (nprocs s) (procs s) x (value s) (revents s) (robs s).
Definition set_value (s : state) (v : N) : state :=
  mkState (nprocs s) (procs s) (sched s) v (revents s) (robs s).
Definition record (s : state) (e : event) : state :=
  mkState (nprocs s) (procs s) (sched s) (value s) (e :: revents s) (OEv e :: robs s).
Definition observe (s : state) (o : obs) : state :=
  mkState (nprocs s) (procs s) (sched s) (value s) (revents s) (o :: robs s).

Definition invoke_event (p : N) (o : op) : event :=
  match o with
  | OpRead => mkEvent TRead RInvoked p 0
  | OpWrite v => mkEvent TWrite RInvoked p v
  end.

(** the event appended after the rpc returned *)
Definition done_event (p : N) (o : op) (r : rpcres) : event :=
  match o, r with
  | OpRead, ROk v => mkEvent TRead RCompleted p v
  | OpWrite w, ROk _ => mkEvent TWrite RCompleted p w
  | OpRead, RErr => mkEvent TRead RFailed p 0
  | OpWrite _, RErr => mkEvent TWrite RFailed p 0
  end.

(** one atomic step; None = the step is not enabled *)
Definition step (s : state) (l : label) : option state :=
  match l with
  | LPick p w =>
    match sched s with
    | SIdle =>
      let x := procs s p in
      if (p <? nprocs s) && idle x && negb (stopped x) then
        if w then Some (set_value (set_sched s (SPicked p (OpWrite (value s)))) (value s + 1))
        else Some (set_sched s (SPicked p OpRead))
      else None
    | _ => None
    end
  | LRecInvoke =>
    match sched s with
    | SPicked p o => Some (set_sched (record s (invoke_event p o)) (SRecorded p o))
    | _ => None
    end
  | LSetBusy =>
    match sched s with
    | SRecorded p o =>
      let x := procs s p in
      Some (set_sched (set_procs s (upd (procs s) p (mkProc false (stopped x) (pc x)))) (SBusy p o))
    | _ => None
    end
  | LSpawn =>
    match sched s with
    | SBusy p o =>
      let x := procs s p in
      match pc x with
      | CNone => Some (set_sched (set_procs s (upd (procs s) p (mkProc (idle x) (stopped x) (CSpawned o)))) SIdle)
      | _ => None   (* a second goroutine for the same process: outside the model; shown unreachable *)
      end
    | _ => None
    end
  | LRpcStart p =>
    let x := procs s p in
    match pc x with
    | CSpawned o => Some (observe (set_procs s (upd (procs s) p (mkProc (idle x) (stopped x) (CInRpc o)))) (OStart p))
    | _ => None
    end
  | LRpcReturn p r =>
    let x := procs s p in
    match pc x with
    | CInRpc o => Some (observe (set_procs s (upd (procs s) p (mkProc (idle x) (stopped x) (CReturned o r)))) (ORet p r))
    | _ => None
    end
  | LSetStopped p =>
    let x := procs s p in
    match pc x with
    | CReturned o RErr => Some (set_procs s (upd (procs s) p (mkProc (idle x) true (CStopSet o))))
    | _ => None
    end
  | LRecDone p =>
    let x := procs s p in
    match pc x with
    | CReturned o (ROk v) =>
      Some (record (set_procs s (upd (procs s) p (mkProc (idle x) (stopped x) CRecorded))) (done_event p o (ROk v)))
    | CStopSet o =>
      Some (record (set_procs s (upd (procs s) p (mkProc (idle x) (stopped x) CRecorded))) (done_event p o RErr))
    | _ => None
    end
  | LSetIdle p =>
    let x := procs s p in
    match pc x with
    | CRecorded => Some (set_procs s (upd (procs s) p (mkProc true (stopped x) CNone)))
    | _ => None
    end
  end.

Fixpoint run (s : state) (ls : list label) : option state :=
  match ls with
  | [] => Some s
  | l :: ls' => match step s l with Some s' => run s' ls' | None => None end
  end.

Definition reachable (n : N) (s : state) : Prop := exists ls, run (init n) ls = Some s.

(** * The property as a monitor over observations
    One automaton per process; it accepts exactly the well-formed per-process observation
    sequences:  ( invoke ; rpc-start ; rpc-return ok ; completed )*  optionally followed by
    ( invoke ; rpc-start ; rpc-return err ; failed ) and then nothing, or any prefix of that. *)

Inductive mstate :=
| MReady
| MInvoked (o : op)
| MStarted (o : op)
| MReturned (o : op) (r : rpcres)
| MDead.

Definition op_eqb (a b : op) : bool :=
  match a, b with
  | OpRead, OpRead => true
  | OpWrite x, OpWrite y => x =? y
  | _, _ => false
  end.

Record mon := mkMon { m_of : N -> mstate; m_lastw : N (* largest value written so far; values start at 1 *) }.

Definition mon_init : mon := mkMon (fun _ => MReady) 0.

Definition mupd (f : N -> mstate) (p : N) (x : mstate) : N -> mstate :=
  fun q => if q =? p then x else f q.

Definition mon_step (m : mon) (o : obs) : option mon :=
  match o with
  | OEv e =>
    let p := e_id e in
    match e_res e, m_of m p with
    | RInvoked, MReady =>
      match e_type e with
      | TRead => Some (mkMon (mupd (m_of m) p (MInvoked OpRead)) (m_lastw m))
      | TWrite =>
        if m_lastw m <? e_val e   (* written values strictly increase *)
        then Some (mkMon (mupd (m_of m) p (MInvoked (OpWrite (e_val e)))) (e_val e))
        else None
      end
    | RCompleted, MReturned op (ROk v) =>
      if event_eqb e (done_event p op (ROk v))
      then Some (mkMon (mupd (m_of m) p MReady) (m_lastw m)) else None
    | RFailed, MReturned op RErr =>
      if event_eqb e (done_event p op RErr)
      then Some (mkMon (mupd (m_of m) p MDead) (m_lastw m)) else None
    | _, _ => None
    end
  | OStart p =>
    match m_of m p with
    | MInvoked op => Some (mkMon (mupd (m_of m) p (MStarted op)) (m_lastw m))
    | _ => None
    end
  | ORet p r =>
    match m_of m p with
    | MStarted op => Some (mkMon (mupd (m_of m) p (MReturned op r)) (m_lastw m))
    | _ => None
    end
  end.

Fixpoint mon_run (m : mon) (l : list obs) : option mon :=
  match l with
  | [] => Some m
  | o :: l' => match mon_step m o with Some m' => mon_run m' l' | None => None end
  end.

(** the observation sequence is well formed *)
Definition obs_ok (l : list obs) : bool :=
  match mon_run mon_init l with Some _ => true | None => false end.

Fixpoint events_of (l : list obs) : list event :=
  match l with
  | [] => []
  | OEv e :: l' => e :: events_of l'
  | _ :: l' => events_of l'
  end.

(** * Well-formed event lists (what SaveAsJepsenLog can be handed): the projection of the monitor
    to the history alone *)

Inductive estate := EReady | EPending (o : op) | EDead.

Record emon := mkEMon { em_of : N -> estate; em_lastw : N }.
Definition emon_init : emon := mkEMon (fun _ => EReady) 0.
Definition eupd (f : N -> estate) (p : N) (x : estate) : N -> estate :=
  fun q => if q =? p then x else f q.

Definition emon_step (m : emon) (e : event) : option emon :=
  let p := e_id e in
  match e_res e, em_of m p with
  | RInvoked, EReady =>
    match e_type e with
    | TRead => Some (mkEMon (eupd (em_of m) p (EPending OpRead)) (em_lastw m))
    | TWrite =>
      if em_lastw m <? e_val e
      then Some (mkEMon (eupd (em_of m) p (EPending (OpWrite (e_val e)))) (e_val e))
      else None
    end
  | RCompleted, EPending OpRead =>
    match e_type e with TRead => Some (mkEMon (eupd (em_of m) p EReady) (em_lastw m)) | TWrite => None end
  | RCompleted, EPending (OpWrite w) =>
    match e_type e with
    | TWrite => if e_val e =? w then Some (mkEMon (eupd (em_of m) p EReady) (em_lastw m)) else None
    | TRead => None
    end
  | RFailed, EPending o =>
    if event_eqb e (done_event p o RErr)
    then Some (mkEMon (eupd (em_of m) p EDead) (em_lastw m)) else None
  | _, _ => None
  end.

Fixpoint emon_run (m : emon) (l : list event) : option emon :=
  match l with
  | [] => Some m
  | e :: l' => match emon_step m e with Some m' => emon_run m' l' | None => None end
  end.

Definition wf_events (l : list event) : bool :=
  match emon_run emon_init l with Some _ => true | None => false end.

(** values of the write invocations, in order *)
Definition written (l : list event) : list N :=
  map e_val (filter (fun e => etype_eqb (e_type e) TWrite && eresult_eqb (e_res e) RInvoked) l).
