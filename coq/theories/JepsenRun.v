(** JepsenRun: executable agreement predicates evaluated (vm_compute) by the generated cases
    files of the C07 correspondence check (format / parse part). *)
From Coq Require Import String ZArith.
From Drummer.Model Require Import Base Register Jepsen.
Open Scope N_scope.

(** collapse runs of blanks: the comparison of the log text ignores column alignment *)
Fixpoint squeeze (l : list N) : list N :=
  match l with
  | [] => []
  | c :: t =>
    match t with
    | c' :: _ => if (c =? 32) && (c' =? 32) then squeeze t else c :: squeeze t
    | [] => [c]
    end
  end.

Definition input_eqb (a b : input) : bool :=
  match a, b with
  | Read, Read => true
  | Write x, Write y => (x =? y)%Z
  | Cas x1 x2, Cas y1 y2 => ((x1 =? y1) && (x2 =? y2))%Z
  | _, _ => false
  end.

Definition output_eqb (a b : output) : bool :=
  Bool.eqb (o_ok a) (o_ok b) && Bool.eqb (o_exists a) (o_exists b) &&
  (o_value a =? o_value b)%Z && Bool.eqb (o_unknown a) (o_unknown b).

Definition hev_eqb (a b : Register.event) : bool :=
  match a, b with
  | Call i x, Call j y => (i =? j) && input_eqb x y
  | Ret i x, Ret j y => (i =? j) && output_eqb x y
  | _, _ => false
  end.

Definition hist_eqb : history -> history -> bool := list_eqb hev_eqb.

Definition unknown_ret_id (e : Register.event) : option N :=
  match e with
  | Ret id o => if output_eqb o out_unknown then Some id else None
  | _ => None
  end.

Fixpoint all_some {A} (l : list (option A)) : option (list A) :=
  match l with
  | [] => Some []
  | Some x :: t => match all_some t with Some r => Some (x :: r) | None => None end
  | None :: _ => None
  end.

Definition nsort : list N -> list N := sort_by (fun x => x).

(** the observed tail is some permutation of the unknown returns of the open operations *)
Definition tail_ok (tail : history) (opn : list N) : bool :=
  match all_some (map unknown_ret_id tail) with
  | Some ids => list_eqb N.eqb (nsort ids) (nsort opn)
  | None => false
  end.

(** the model's log text for [es] = the observed file text, up to column alignment (information only) *)
Definition fcase_fmt (es : list Jepsen.event) (text : list N) : bool :=
  list_eqb N.eqb (squeeze (format_log es)) (squeeze text).

(** what the parser makes of each line: the observable the property talks about.  The model's text
    and the observed text must read the same line by line (a harmless change of the layout, or of
    a keyword in a line the parser ignores anyway, is not a disagreement). *)
Definition line_kind_eqb (a b : line_kind) : bool :=
  match a, b with
  | LInvokeRead p, LInvokeRead q => p =? q
  | LInvokeWrite p v, LInvokeWrite q w => (p =? q) && (v =? w)
  | LInvokeCas p a1 b1, LInvokeCas q a2 b2 => (p =? q) && (a1 =? a2) && (b1 =? b2)
  | LReturnRead p v, LReturnRead q w => (p =? q) && opt_eqb N.eqb v w
  | LReturnWrite p, LReturnWrite q => p =? q
  | LReturnCas p x, LReturnCas q y => (p =? q) && Bool.eqb x y
  | LTimeoutRead p, LTimeoutRead q => p =? q
  | LNoMatch, LNoMatch => true
  | _, _ => false
  end.

Definition fcase_lines (es : list Jepsen.event) (text : list N) : bool :=
  list_eqb line_kind_eqb (map parse_line (read_lines (format_log es))) (map parse_line (read_lines text)).

(** byte-exact variant (reported as information only) *)
Definition fcase_exact (es : list Jepsen.event) (text : list N) : bool :=
  list_eqb N.eqb (format_log es) text.

(** the model's parse of the observed file text = the observed events, up to the order of the tail *)
Definition fcase_parse (text : list N) (obs : history) : bool :=
  let main := parse_main text in
  let k := length main in
  hist_eqb (firstn k obs) main && tail_ok (skipn k obs) (parse_open text).

Definition ev (t r : N) (id v : N) : Jepsen.event :=
  mkEvent (if t =? 0 then TRead else TWrite)
          (if r =? 0 then RInvoked else if r =? 1 then RCompleted else RFailed) id v.

Definition C (id : N) (op : N) (a b : Z) : Register.event :=
  Call id (if op =? 0 then Read else if op =? 1 then Write a else Cas a b).
Definition R (id : N) (ok ex : bool) (v : Z) (unk : bool) : Register.event :=
  Ret id (mkOut ok ex v unk).
